#!/bin/sh
# Offline build of the checker (bin/risorcheck) from analyzers/ (vendored deps).
set -e
cd "$(dirname "$0")/analyzers"
export GOPROXY=off GOSUMDB=off GOTOOLCHAIN=local GOWORK=off GOFLAGS=-mod=vendor CGO_ENABLED=0
mkdir -p ../bin
go build -o ../bin/risorcheck ./cmd/risorcheck
echo "built $(cd .. && pwd)/bin/risorcheck"
