#!/bin/sh
# ./check.sh <ID> quick|thorough [extra risorcheck flags]
# Decides the static rules of one property on /repo's current working tree.
here="$(cd "$(dirname "$0")" && pwd)"
id="$1"; tier="${2:-quick}"; shift; shift 2>/dev/null
repo="${VERIF_REPO:-/repo}"
export GOPROXY=off GOSUMDB=off GOTOOLCHAIN=local GOWORK=off CGO_ENABLED=0
unset GOFLAGS
# rebuild the checker when its sources are newer than the binary
if [ ! -x "$here/bin/risorcheck" ] || [ -n "$(find "$here/analyzers" -name '*.go' -newer "$here/bin/risorcheck" 2>/dev/null | head -1)" ]; then
  sh "$here/setup.sh" >/dev/null || { echo "UNDECIDED: cannot build checker"; exit 2; }
fi
exec "$here/bin/risorcheck" -property "$id" -tier "$tier" -repo "$repo" -verif "$here" "$@"
