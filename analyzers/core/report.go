package core

import (
	"bufio"
	"encoding/json"
	"fmt"
	"os"
	"path/filepath"
	"runtime/debug"
	"sort"
	"strings"
	"time"
)

// Ob is one obligation: a construct of the analysed program on which a rule
// was decided.
type Ob struct {
	Rule   string   `json:"rule"`
	Key    string   `json:"key"` // stable identity: rule|function|construct (never a line number)
	Pos    string   `json:"pos"`
	OK     bool     `json:"ok"`
	Msg    string   `json:"msg"`
	Detail []string `json:"detail,omitempty"`
	Known  bool     `json:"known,omitempty"`
}

// Rule is one repository-specific static rule.
type Rule struct {
	ID    string // e.g. "C04-R2"
	Title string
	Floor int // minimum number of obligations (vacuity guard)
	Run   func(c *Ctx)
	// ThoroughOnly rules are skipped in the quick tier.
	ThoroughOnly bool
}

// Property groups the rules deciding the structural clauses of one property.
type Property struct {
	ID          string
	Decided     string   // the clause(s) decided, one paragraph
	NotCovered  string   // what the rules do not decide
	Assumptions []string // trusted base
	Rules       []*Rule
}

var registry = map[string]*Property{}

func Register(p *Property) { registry[p.ID] = p }

func Properties() []string {
	var ids []string
	for id := range registry {
		ids = append(ids, id)
	}
	sort.Strings(ids)
	return ids
}

func Lookup(id string) *Property { return registry[id] }

// Ctx is handed to a rule.
type Ctx struct {
	P     *Program
	Tier  string
	rule  *Rule
	obs   []Ob
	infos []string
	stats map[string]int
}

func (c *Ctx) key(k string) string { return c.rule.ID + "|" + k }

// Pass records a discharged obligation.
func (c *Ctx) Pass(key, pos, msg string) {
	c.obs = append(c.obs, Ob{Rule: c.rule.ID, Key: c.key(key), Pos: pos, OK: true, Msg: msg})
}

// Fail records a violated obligation.
func (c *Ctx) Fail(key, pos, msg string, detail ...string) {
	c.obs = append(c.obs, Ob{Rule: c.rule.ID, Key: c.key(key), Pos: pos, OK: false, Msg: msg, Detail: detail})
}

// Check records pass/fail by condition.
func (c *Ctx) Check(ok bool, key, pos, msg string, detail ...string) {
	if ok {
		c.Pass(key, pos, msg)
	} else {
		c.Fail(key, pos, msg, detail...)
	}
}

// Info records an informational line (never affects exit status).
func (c *Ctx) Info(format string, a ...interface{}) {
	c.infos = append(c.infos, c.rule.ID+": "+fmt.Sprintf(format, a...))
}

// Stat records a measured count for the evidence file.
func (c *Ctx) Stat(name string, n int) {
	if c.stats == nil {
		c.stats = map[string]int{}
	}
	c.stats[c.rule.ID+"."+name] += n
}

// ---------------------------------------------------------------- known findings

type Finding struct {
	Status   string `json:"status"` // known | fixed
	Property string `json:"property"`
	Rule     string `json:"rule"`
	Key      string `json:"key"`
	What     string `json:"what"`
	Evidence string `json:"evidence,omitempty"`
	Commit   string `json:"commit,omitempty"`
}

func LoadFindings(path string) ([]Finding, error) {
	f, err := os.Open(path)
	if err != nil {
		if os.IsNotExist(err) {
			return nil, nil
		}
		return nil, err
	}
	defer f.Close()
	var out []Finding
	sc := bufio.NewScanner(f)
	sc.Buffer(make([]byte, 1<<20), 1<<20)
	ln := 0
	for sc.Scan() {
		ln++
		line := strings.TrimSpace(sc.Text())
		if line == "" || strings.HasPrefix(line, "#") {
			continue
		}
		var fd Finding
		if err := json.Unmarshal([]byte(line), &fd); err != nil {
			return nil, fmt.Errorf("%s:%d: %v", path, ln, err)
		}
		out = append(out, fd)
	}
	return out, sc.Err()
}

// ---------------------------------------------------------------- runner

type RunOpts struct {
	Property string
	Tier     string
	Repo     string
	Verif    string
	Seed     int
	Explain  string
	Variant  string            // label of the build configuration (thorough)
	Load     LoadConfig        // build configuration
	OnlyRule string            // restrict to one rule (mutant self-test)
	Extra    map[string]interface{} // extra coverage keys supplied by the driver
	NoWrite  bool              // do not write evidence (sub-runs)
}

type RuleSummary struct {
	ID          string `json:"id"`
	Title       string `json:"title"`
	Obligations int    `json:"obligations"`
	Discharged  int    `json:"discharged"`
	Known       int    `json:"known_findings"`
	Violations  int    `json:"violations"`
	Floor       int    `json:"floor"`
}

type Outcome struct {
	Exit       int
	Obs        []Ob
	Rules      []RuleSummary
	Infos      []string
	Stats      map[string]int
	Undecided  []string
	KnownLines []string
	Wall       float64
	Pkgs       int
}

// RunProperty loads the repository and runs all rules of one property.
func RunProperty(o RunOpts) *Outcome {
	start := time.Now()
	out := &Outcome{Stats: map[string]int{}}
	prop := Lookup(o.Property)
	if prop == nil {
		out.Exit = 2
		out.Undecided = append(out.Undecided, "unknown property "+o.Property)
		return out
	}
	lc := o.Load
	lc.Root = o.Repo
	prog, err := Load(lc)
	if err != nil {
		out.Exit = 2
		out.Undecided = append(out.Undecided, "load: "+err.Error())
		return out
	}
	out.Pkgs = len(prog.Pkgs)
	findings, err := LoadFindings(filepath.Join(o.Verif, "known_findings.jsonl"))
	if err != nil {
		out.Exit = 2
		out.Undecided = append(out.Undecided, "known_findings: "+err.Error())
		return out
	}
	known := map[string]Finding{}
	for _, f := range findings {
		if f.Status == "known" && f.Property == o.Property {
			known[f.Key] = f
		}
	}
	for _, r := range prop.Rules {
		if o.OnlyRule != "" && r.ID != o.OnlyRule {
			continue
		}
		if r.ThoroughOnly && o.Tier != "thorough" {
			continue
		}
		c := &Ctx{P: prog, Tier: o.Tier, rule: r}
		func() {
			defer func() {
				if x := recover(); x != nil {
					if u, ok := x.(Undecided); ok {
						out.Undecided = append(out.Undecided, r.ID+": "+u.Msg)
					} else {
						out.Undecided = append(out.Undecided, fmt.Sprintf("%s: checker fault: %v\n%s", r.ID, x, debug.Stack()))
					}
				}
			}()
			r.Run(c)
		}()
		// de-duplicate by key (keep a failure over a pass)
		byKey := map[string]int{}
		var obs []Ob
		for _, ob := range c.obs {
			if i, ok := byKey[ob.Key]; ok {
				if obs[i].OK && !ob.OK {
					obs[i] = ob
				} else if !obs[i].OK && !ob.OK {
					obs[i].Detail = append(obs[i].Detail, ob.Pos+": "+ob.Msg)
				}
				continue
			}
			byKey[ob.Key] = len(obs)
			obs = append(obs, ob)
		}
		sum := RuleSummary{ID: r.ID, Title: r.Title, Floor: r.Floor}
		for i := range obs {
			sum.Obligations++
			if obs[i].OK {
				sum.Discharged++
				continue
			}
			if _, ok := known[obs[i].Key]; ok {
				obs[i].Known = true
				sum.Known++
			} else {
				sum.Violations++
			}
		}
		if sum.Obligations < r.Floor {
			out.Undecided = append(out.Undecided, fmt.Sprintf("%s: vacuity guard: %d obligations < floor %d", r.ID, sum.Obligations, r.Floor))
		}
		out.Rules = append(out.Rules, sum)
		out.Obs = append(out.Obs, obs...)
		out.Infos = append(out.Infos, c.infos...)
		for k, v := range c.stats {
			out.Stats[k] += v
		}
	}
	sort.SliceStable(out.Obs, func(i, j int) bool { return out.Obs[i].Key < out.Obs[j].Key })
	nviol := 0
	for _, ob := range out.Obs {
		if !ob.OK && !ob.Known {
			nviol++
		}
		if ob.Known {
			out.KnownLines = append(out.KnownLines, fmt.Sprintf("KNOWN-FINDING: property=%s %s — %s (%s)", o.Property, ob.Key, known[ob.Key].What, ob.Pos))
		}
	}
	switch {
	case nviol > 0:
		out.Exit = 1
	case len(out.Undecided) > 0:
		out.Exit = 2
	default:
		out.Exit = 0
	}
	out.Wall = time.Since(start).Seconds()
	return out
}

// WriteEvidence writes evidence/<id>.json (+ .violations.json when needed).
func WriteEvidence(o RunOpts, out *Outcome, extra map[string]interface{}) error {
	prop := Lookup(o.Property)
	dir := filepath.Join(o.Verif, "evidence")
	os.MkdirAll(dir, 0o755)
	nobl, ndis, nviol, nknown := 0, 0, 0, 0
	keys := map[string]bool{}
	var samples []interface{}
	var viols []Ob
	perRuleSample := map[string]int{}
	for _, ob := range out.Obs {
		nobl++
		keys[ob.Key] = true
		if ob.OK {
			ndis++
		} else if ob.Known {
			nknown++
		} else {
			nviol++
			viols = append(viols, ob)
		}
		if perRuleSample[ob.Rule] < 4 || (!ob.OK && perRuleSample[ob.Rule] < 12) {
			perRuleSample[ob.Rule]++
			st := "discharged"
			if ob.Known {
				st = "known-finding"
			} else if !ob.OK {
				st = "VIOLATION"
			}
			samples = append(samples, map[string]interface{}{"obligation": ob.Key, "at": ob.Pos, "status": st, "what": ob.Msg})
		}
	}
	var ruleIDs []string
	for _, r := range out.Rules {
		ruleIDs = append(ruleIDs, r.ID)
	}
	cov := map[string]interface{}{
		"explanation":         prop.Decided,
		"not_covered":         prop.NotCovered,
		"obligations":         nobl,
		"discharged":          ndis,
		"known_findings":      nknown,
		"evaluations":         nobl,
		"distinct_nontrivial": len(keys),
		"rule":                "an obligation is one (rule, function, construct) triple enumerated from the type-checked source of /repo; distinct = distinct keys; every enumerated obligation is decided (no sampling)",
		"samples":             samples,
		"exhaustive":          true,
		"rules":               out.Rules,
		"packages_analysed":   out.Pkgs,
		"stats":               out.Stats,
		"info":                out.Infos,
		"undecided":           out.Undecided,
		"checker_cmd":         fmt.Sprintf("./check.sh %s %s", o.Property, o.Tier),
		"trusted_base":        prop.Assumptions,
	}
	for k, v := range extra {
		cov[k] = v
	}
	if len(samples) == 0 {
		cov["samples"] = []interface{}{"(no obligations enumerated)"}
	}
	ev := map[string]interface{}{
		"property_id": o.Property,
		"tier":        o.Tier,
		"seed":        o.Seed,
		"level":       "other",
		"coverage":    cov,
		"assumptions": prop.Assumptions,
		"wall_s":      out.Wall,
		"violations":  nviol,
	}
	b, _ := json.MarshalIndent(ev, "", " ")
	if err := os.WriteFile(filepath.Join(dir, o.Property+".json"), append(b, '\n'), 0o644); err != nil {
		return err
	}
	vp := filepath.Join(dir, o.Property+".violations.json")
	if nviol > 0 {
		vb, _ := json.MarshalIndent(viols, "", " ")
		return os.WriteFile(vp, append(vb, '\n'), 0o644)
	}
	os.Remove(vp)
	return nil
}
