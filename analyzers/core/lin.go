package core

import (
	"fmt"
	"sort"
	"strings"
)

// Lin is a linear expression k + sum(c_i * s_i).
type Lin struct {
	K int
	T map[string]int
}

func Const(k int) *Lin { return &Lin{K: k} }
func Sym(s string) *Lin { return &Lin{T: map[string]int{s: 1}} }

func (a *Lin) Clone() *Lin {
	if a == nil {
		return nil
	}
	b := &Lin{K: a.K}
	if len(a.T) > 0 {
		b.T = map[string]int{}
		for k, v := range a.T {
			b.T[k] = v
		}
	}
	return b
}

func (a *Lin) AddScaled(b *Lin, c int) *Lin {
	r := a.Clone()
	r.K += c * b.K
	for k, v := range b.T {
		if r.T == nil {
			r.T = map[string]int{}
		}
		r.T[k] += c * v
		if r.T[k] == 0 {
			delete(r.T, k)
		}
	}
	return r
}
func (a *Lin) Add(b *Lin) *Lin { return a.AddScaled(b, 1) }
func (a *Lin) Sub(b *Lin) *Lin { return a.AddScaled(b, -1) }
func (a *Lin) AddK(k int) *Lin { r := a.Clone(); r.K += k; return r }
func (a *Lin) Scale(c int) *Lin { return Const(0).AddScaled(a, c) }
func (a *Lin) IsConst() bool    { return len(a.T) == 0 }
func (a *Lin) IsZero() bool     { return a.K == 0 && len(a.T) == 0 }

// MulLin multiplies two linear expressions if one is constant.
func MulLin(a, b *Lin) (*Lin, bool) {
	if a.IsConst() {
		return b.Scale(a.K), true
	}
	if b.IsConst() {
		return a.Scale(b.K), true
	}
	// product of symbols: make a compound symbol if both are single symbols
	if a.K == 0 && b.K == 0 && len(a.T) == 1 && len(b.T) == 1 {
		var sa, sb string
		var ca, cb int
		for k, v := range a.T {
			sa, ca = k, v
		}
		for k, v := range b.T {
			sb, cb = k, v
		}
		if sa > sb {
			sa, sb = sb, sa
		}
		return &Lin{T: map[string]int{sa + "*" + sb: ca * cb}}, true
	}
	return nil, false
}

func (a *Lin) String() string {
	if a == nil {
		return "DEAD"
	}
	var keys []string
	for k := range a.T {
		keys = append(keys, k)
	}
	sort.Strings(keys)
	var sb strings.Builder
	fmt.Fprintf(&sb, "%d", a.K)
	for _, k := range keys {
		c := a.T[k]
		if c == 1 {
			fmt.Fprintf(&sb, "+%s", k)
		} else if c == -1 {
			fmt.Fprintf(&sb, "-%s", k)
		} else {
			fmt.Fprintf(&sb, "%+d*%s", c, k)
		}
	}
	return sb.String()
}

// Subst holds solved unification variables (symbols starting with "?").
type Subst map[string]*Lin

func (s Subst) Apply(a *Lin) *Lin {
	if a == nil {
		return nil
	}
	for {
		changed := false
		for k, c := range a.T {
			if v, ok := s[k]; ok {
				a = a.Clone()
				delete(a.T, k)
				a = a.AddScaled(v, c)
				changed = true
				break
			}
		}
		if !changed {
			return a
		}
	}
}

// Unify tries to make a == b, solving at most one unification variable.
func (s Subst) Unify(a, b *Lin) bool {
	a, b = s.Apply(a), s.Apply(b)
	d := a.Sub(b)
	if d.IsZero() {
		return true
	}
	for k, c := range d.T {
		if strings.HasPrefix(k, "?") && (c == 1 || c == -1) {
			rest := d.Clone()
			delete(rest.T, k)
			// c*k + rest = 0  => k = -rest/c
			s[k] = rest.Scale(-c)
			return true
		}
	}
	return false
}
