package core

import (
	"go/token"
	"go/types"
	"sort"
	"strings"

	"golang.org/x/tools/go/ssa"
)

// Lock-set analysis (DESIGN §1.3(B)).  A lock identity is the printed access
// path of the mutex operand: a package-level variable ("object.goTypeMutex")
// or a field of the function's receiver/parameter ("recv.mutex").

type LockSet map[string]bool

func (l LockSet) clone() LockSet {
	n := LockSet{}
	for k := range l {
		n[k] = true
	}
	return n
}

func (l LockSet) Names() []string {
	var out []string
	for k := range l {
		out = append(out, k)
	}
	sort.Strings(out)
	return out
}

func intersect(a, b LockSet) LockSet {
	n := LockSet{}
	for k := range a {
		if b[k] {
			n[k] = true
		}
	}
	return n
}

// lockIdentity names the mutex value of a Lock/Unlock call.
func lockIdentity(v ssa.Value) string {
	switch x := v.(type) {
	case *ssa.Global:
		return RelPkg(x.Pkg.Pkg) + "." + x.Name()
	case *ssa.UnOp:
		if x.Op == token.MUL {
			return lockIdentity(x.X)
		}
	case *ssa.FieldAddr:
		base := lockIdentity(x.X)
		if base == "" {
			return ""
		}
		st, ok := x.X.Type().Underlying().(*types.Pointer)
		if !ok {
			return ""
		}
		s, ok := st.Elem().Underlying().(*types.Struct)
		if !ok {
			return ""
		}
		return base + "." + s.Field(x.Field).Name()
	case *ssa.Field:
		base := lockIdentity(x.X)
		if base == "" {
			return ""
		}
		s, ok := x.X.Type().Underlying().(*types.Struct)
		if !ok {
			return ""
		}
		return base + "." + s.Field(x.Field).Name()
	case *ssa.Parameter:
		if x.Parent() != nil && len(x.Parent().Params) > 0 && x.Parent().Params[0] == x && x.Parent().Signature.Recv() != nil {
			return "recv"
		}
		return "param:" + x.Name()
	case *ssa.FreeVar:
		return "free:" + x.Name()
	case *ssa.Alloc:
		// a parameter (the receiver) that a closure captures is spilled into a
		// cell: the cell that is written once, with the parameter, stands for it
		var stored ssa.Value
		n := 0
		if refs := x.Referrers(); refs != nil {
			for _, r := range *refs {
				if st, ok := r.(*ssa.Store); ok && st.Addr == ssa.Value(x) {
					stored = st.Val
					n++
				}
			}
		}
		if prm, ok := stored.(*ssa.Parameter); ok && n == 1 {
			return lockIdentity(prm)
		}
	}
	return ""
}

// lockOp classifies a call as lock/unlock on a sync mutex.
func lockOp(c ssa.CallInstruction) (id string, acquire bool, ok bool) {
	cm := c.Common()
	callee := cm.StaticCallee()
	if callee == nil || callee.Pkg == nil || callee.Pkg.Pkg.Path() != "sync" || len(cm.Args) == 0 {
		return "", false, false
	}
	switch callee.Name() {
	case "Lock", "RLock":
		acquire = true
	case "Unlock", "RUnlock":
		acquire = false
	default:
		return "", false, false
	}
	id = lockIdentity(cm.Args[0])
	return id, acquire, id != ""
}

// HeldLocks computes, for every instruction of f, the set of locks certainly
// held before it executes (must analysis; deferred unlocks keep the lock
// until the function returns).
func HeldLocks(f *ssa.Function) map[ssa.Instruction]LockSet {
	out := map[ssa.Instruction]LockSet{}
	if len(f.Blocks) == 0 {
		return out
	}
	in := map[*ssa.BasicBlock]LockSet{}
	visited := map[*ssa.BasicBlock]bool{}
	in[f.Blocks[0]] = LockSet{}
	work := []*ssa.BasicBlock{f.Blocks[0]}
	for len(work) > 0 {
		b := work[0]
		work = work[1:]
		cur := in[b].clone()
		for _, instr := range b.Instrs {
			out[instr] = cur.clone()
			switch x := instr.(type) {
			case *ssa.Call:
				if id, acq, ok := lockOp(x); ok {
					if acq {
						cur[id] = true
					} else {
						delete(cur, id)
					}
				}
			case *ssa.Defer:
				// deferred unlock: lock stays held for the rest of the function
			}
		}
		visited[b] = true
		for _, s := range b.Succs {
			old, seen := in[s]
			var nw LockSet
			if !seen {
				nw = cur.clone()
			} else {
				nw = intersect(old, cur)
			}
			if !seen || len(nw) != len(old) {
				in[s] = nw
				work = append(work, s)
			}
		}
	}
	return out
}

// LockAnalysis holds per-function held sets and interprocedural entry sets.
type LockAnalysis struct {
	Held  map[*ssa.Function]map[ssa.Instruction]LockSet
	Entry map[*ssa.Function]LockSet // nil = top (not yet constrained)
}

// translate maps lock identities of the caller to the callee's frame: package
// variables stay; "recv.x" of the caller becomes "recv.x" of the callee only
// when the callee is invoked on the caller's own receiver.
func translate(held LockSet, call ssa.CallInstruction, callee *ssa.Function) LockSet {
	n := LockSet{}
	cm := call.Common()
	sameRecv := false
	if callee.Signature.Recv() != nil && len(cm.Args) > 0 && !cm.IsInvoke() {
		if lockIdentity(cm.Args[0]) == "recv" {
			sameRecv = true
		}
	}
	for k := range held {
		if strings.HasPrefix(k, "recv") {
			if sameRecv {
				n[k] = true
			}
			continue
		}
		if strings.HasPrefix(k, "param:") || strings.HasPrefix(k, "free:") {
			continue
		}
		n[k] = true
	}
	return n
}

// AnalyzeLocks runs the analysis over the given functions. entryEmpty decides
// which functions can be entered from outside with no lock held (exported
// API, escaping function values, goroutine entries).
func AnalyzeLocks(fns []*ssa.Function, entryEmpty func(*ssa.Function) bool) *LockAnalysis {
	la := &LockAnalysis{Held: map[*ssa.Function]map[ssa.Instruction]LockSet{}, Entry: map[*ssa.Function]LockSet{}}
	inSet := map[*ssa.Function]bool{}
	for _, f := range fns {
		la.Held[f] = HeldLocks(f)
		inSet[f] = true
	}
	// call sites by callee
	type site struct {
		caller   *ssa.Function
		call     ssa.CallInstruction
		deferred bool
	}
	sites := map[*ssa.Function][]site{}
	escapes := map[*ssa.Function]bool{}
	for _, f := range fns {
		for _, b := range f.Blocks {
			for _, instr := range b.Instrs {
				if c, ok := instr.(ssa.CallInstruction); ok {
					if callee := c.Common().StaticCallee(); callee != nil && inSet[callee] {
						if _, isGo := instr.(*ssa.Go); isGo {
							escapes[callee] = true
						} else if _, isDefer := instr.(*ssa.Defer); isDefer {
							// a deferred call runs at function exit: what the function locked itself may
							// have been released by then (LIFO with "defer Unlock"), so none of that is
							// counted; the locks its own callers hold around the whole call still are
							sites[callee] = append(sites[callee], site{f, c, true})
						} else {
							sites[callee] = append(sites[callee], site{f, c, false})
						}
					}
				}
				// function values used other than as a static callee escape
				for _, op := range instr.Operands(nil) {
					if fn, ok := (*op).(*ssa.Function); ok && inSet[fn] {
						if c, ok := instr.(ssa.CallInstruction); ok && c.Common().Value == fn {
							continue
						}
						if _, isMC := instr.(*ssa.MakeClosure); isMC {
							continue // what happens to the closure value decides (below)
						}
						escapes[fn] = true
					}
					if mc, ok := (*op).(*ssa.MakeClosure); ok {
						if fn, ok := mc.Fn.(*ssa.Function); ok {
							if c, ok := instr.(ssa.CallInstruction); ok && c.Common().Value == ssa.Value(mc) {
								continue
							}
							escapes[fn] = true
						}
					}
				}
			}
		}
	}
	for _, f := range fns {
		if entryEmpty(f) || escapes[f] || len(sites[f]) == 0 {
			la.Entry[f] = LockSet{}
		}
	}
	for changed := true; changed; {
		changed = false
		for _, f := range fns {
			if entryEmpty(f) || escapes[f] || len(sites[f]) == 0 {
				continue
			}
			var acc LockSet
			for _, s := range sites[f] {
				callerEntry, known := la.Entry[s.caller]
				if !known {
					continue // top
				}
				held := la.Held[s.caller][s.call.(ssa.Instruction)]
				all := callerEntry.clone()
				if !s.deferred {
					for k := range held {
						all[k] = true
					}
				}
				t := translate(all, s.call, f)
				if acc == nil {
					acc = t
				} else {
					acc = intersect(acc, t)
				}
			}
			if acc == nil {
				continue
			}
			old, known := la.Entry[f]
			if !known || len(old) != len(acc) {
				la.Entry[f] = acc
				changed = true
			}
		}
	}
	return la
}

// At returns the locks held before instr (own held set plus entry set).
func (la *LockAnalysis) At(f *ssa.Function, instr ssa.Instruction) LockSet {
	out := LockSet{}
	for k := range la.Entry[f] {
		out[k] = true
	}
	for k := range la.Held[f][instr] {
		out[k] = true
	}
	return out
}
