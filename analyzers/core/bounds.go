package core

import (
	"go/constant"
	"go/token"
	"go/types"

	"golang.org/x/tools/go/ssa"
)

// IndexSite is an indexing or slicing instruction whose bounds no dominating
// test relates to the length of the indexed value.
type IndexSite struct {
	Instr ssa.Instruction
	What  string
}

// UnguardedIndexing lists the index / slice operations of fn on strings and
// slices that are not guarded.  An operation on X with bound V is guarded when
//   - V is computed from len(X) (x[len(x)-1], min(n, len(x))), or
//   - a conditional that dominates it compares len(X) with V or with a value V
//     is computed from (loop conditions included), or
//   - X is an array (or pointer to one) and V is a constant, or X is the result
//     of a range loop (index produced by the range itself).
//
// The rule is deliberately local: it reports the deviant site, it does not
// prove the guarded ones in range.
func UnguardedIndexing(fn *ssa.Function) []IndexSite {
	var out []IndexSite
	if fn == nil || fn.Blocks == nil {
		return nil
	}
	for _, b := range fn.Blocks {
		for _, in := range b.Instrs {
			var x ssa.Value
			var bounds []ssa.Value
			what := ""
			switch i := in.(type) {
			case *ssa.Slice:
				x = i.X
				for _, v := range []ssa.Value{i.Low, i.High, i.Max} {
					if v != nil {
						bounds = append(bounds, v)
					}
				}
				what = "slice expression"
			case *ssa.IndexAddr:
				x = i.X
				bounds = []ssa.Value{i.Index}
				what = "index expression"
			case *ssa.Index:
				x = i.X
				bounds = []ssa.Value{i.Index}
				what = "index expression"
			case *ssa.Lookup:
				if !IsStringType(i.X.Type()) {
					continue
				}
				x = i.X
				bounds = []ssa.Value{i.Index}
				what = "string index"
			default:
				continue
			}
			if len(bounds) == 0 {
				continue
			}
			isArray := false
			switch t := x.Type().Underlying().(type) {
			case *types.Array:
				isArray = true
			case *types.Pointer:
				if _, ok := t.Elem().Underlying().(*types.Array); ok {
					isArray = true
				}
			}
			ok := true
			for _, v := range bounds {
				if k, isC := v.(*ssa.Const); isC {
					if isArray {
						continue
					}
					if k.Value != nil && k.Value.Kind() == constant.Int {
						if n, _ := constant.Int64Val(k.Value); n == 0 {
							if _, isSl := in.(*ssa.Slice); isSl {
								continue // x[0:...] never fails on the low bound
							}
						}
					}
				}
				if !boundGuarded(in, x, v) {
					ok = false
				}
			}
			if !ok {
				out = append(out, IndexSite{in, what})
			}
		}
	}
	return out
}

func isLenOf(v ssa.Value, x ssa.Value) bool {
	c, ok := v.(*ssa.Call)
	if !ok {
		return false
	}
	b, ok := c.Call.Value.(*ssa.Builtin)
	if !ok || (b.Name() != "len" && b.Name() != "cap") || len(c.Call.Args) != 1 {
		return false
	}
	return SameStorage(c.Call.Args[0], x)
}

// SameStorage: a and b denote the same container by construction.
func SameStorage(a, b ssa.Value) bool {
	if a == b {
		return true
	}
	switch x := a.(type) {
	case *ssa.UnOp:
		y, ok := b.(*ssa.UnOp)
		if !ok || x.Op != y.Op || x.Op != token.MUL {
			return false
		}
		return sameAddr(x.X, y.X)
	case *ssa.Call:
		y, ok := b.(*ssa.Call)
		if !ok || x.Call.IsInvoke() != y.Call.IsInvoke() {
			return false
		}
		if x.Call.IsInvoke() {
			if x.Call.Method != y.Call.Method || !SameStorage(x.Call.Value, y.Call.Value) {
				return false
			}
		} else if x.Call.StaticCallee() == nil || x.Call.StaticCallee() != y.Call.StaticCallee() {
			return false
		}
		if len(x.Call.Args) != len(y.Call.Args) {
			return false
		}
		for i := range x.Call.Args {
			if !SameStorage(x.Call.Args[i], y.Call.Args[i]) {
				return false
			}
		}
		return true
	case *ssa.ChangeType:
		return SameStorage(x.X, b)
	case *ssa.Convert:
		if y, ok := b.(*ssa.Convert); ok && types.Identical(x.Type(), y.Type()) {
			return SameStorage(x.X, y.X)
		}
	}
	if y, ok := b.(*ssa.ChangeType); ok {
		return SameStorage(a, y.X)
	}
	return false
}

func sameAddr(a, b ssa.Value) bool {
	if a == b {
		return true
	}
	switch x := a.(type) {
	case *ssa.FieldAddr:
		y, ok := b.(*ssa.FieldAddr)
		return ok && x.Field == y.Field && (x.X == y.X || SameStorage(x.X, y.X) || sameAddr(x.X, y.X))
	case *ssa.Global:
		return a == b
	}
	return false
}

func boundLeaves(v ssa.Value) []ssa.Value {
	seen := map[ssa.Value]bool{}
	var out []ssa.Value
	var walk func(v ssa.Value)
	walk = func(v ssa.Value) {
		if v == nil || seen[v] {
			return
		}
		seen[v] = true
		switch x := v.(type) {
		case *ssa.Const:
			return
		case *ssa.BinOp:
			out = append(out, v)
			walk(x.X)
			walk(x.Y)
		case *ssa.Convert:
			out = append(out, v)
			walk(x.X)
		case *ssa.ChangeType:
			walk(x.X)
		case *ssa.Phi:
			out = append(out, v)
			for _, e := range x.Edges {
				walk(e)
			}
		case *ssa.Call:
			out = append(out, v)
			if b, ok := x.Call.Value.(*ssa.Builtin); ok && (b.Name() == "min" || b.Name() == "max") {
				for _, a := range x.Call.Args {
					walk(a)
				}
			}
		default:
			out = append(out, v)
		}
	}
	walk(v)
	return out
}

func boundGuarded(in ssa.Instruction, x, v ssa.Value) bool {
	// computed from len(x)
	if DependsOn(v, func(w ssa.Value) bool { return isLenOf(w, x) }) {
		return true
	}
	leaves := boundLeaves(v)
	_, vConst := v.(*ssa.Const)
	blk := in.Block()
	for d := blk; d != nil; d = d.Idom() {
		if d == blk {
			continue
		}
		if len(d.Instrs) == 0 {
			continue
		}
		iff, ok := d.Instrs[len(d.Instrs)-1].(*ssa.If)
		if !ok {
			continue
		}
		if !DependsOn(iff.Cond, func(w ssa.Value) bool { return isLenOf(w, x) }) {
			continue
		}
		if vConst {
			return true
		}
		for _, l := range leaves {
			l := l
			if DependsOn(iff.Cond, func(w ssa.Value) bool { return w == l || SameStorage(w, l) }) {
				return true
			}
		}
	}
	return false
}
