// Package core: loading of the repository under analysis, shared IRs,
// obligation bookkeeping, known-findings matching and evidence writing.
package core

import (
	"fmt"
	"go/ast"
	"go/token"
	"go/types"
	"os"
	"path/filepath"
	"sort"
	"strings"
	"sync"

	"golang.org/x/tools/go/callgraph"
	"golang.org/x/tools/go/callgraph/cha"
	"golang.org/x/tools/go/callgraph/vta"
	"golang.org/x/tools/go/packages"
	"golang.org/x/tools/go/ssa"
	"golang.org/x/tools/go/ssa/ssautil"
)

const ModPath = "github.com/risor-io/risor"

// Undecided is panicked (and recovered by the runner) when a rule cannot
// decide: unresolved anchor, unmodelled idiom, vacuity.
type Undecided struct{ Msg string }

func Undecidedf(format string, a ...interface{}) {
	panic(Undecided{fmt.Sprintf(format, a...)})
}

// Program is the loaded, type-checked repository.
type Program struct {
	Root  string // repository root (absolute)
	Fset  *token.FileSet
	Pkgs  []*packages.Package          // repository packages only, sorted by path
	ByRel map[string]*packages.Package // "" = root package, "vm", "modules/os", ...
	All   []*packages.Package          // incl. dependencies

	ssaOnce sync.Once
	SSAProg *ssa.Program
	ssaPkgs map[*packages.Package]*ssa.Package
	cgOnce  sync.Once
	cg      *callgraph.Graph
	allFns  map[*ssa.Function]bool

	funcDeclOnce sync.Once
	funcDecls    map[*types.Func]*ast.FuncDecl
	declPkg      map[*types.Func]*packages.Package
}

// LoadConfig selects build configuration.
type LoadConfig struct {
	Root   string
	Dir    string // module dir relative to Root ("" = root module)
	GOOS   string
	GOARCH string
}

func Load(lc LoadConfig) (*Program, error) {
	env := []string{}
	for _, e := range os.Environ() {
		if strings.HasPrefix(e, "GOWORK=") || strings.HasPrefix(e, "GOFLAGS=") || strings.HasPrefix(e, "GOPROXY=") ||
			strings.HasPrefix(e, "GOOS=") || strings.HasPrefix(e, "GOARCH=") || strings.HasPrefix(e, "GOSUMDB=") {
			continue
		}
		env = append(env, e)
	}
	env = append(env, "GOWORK=off", "GOFLAGS=-mod=mod", "GOPROXY=off", "GOSUMDB=off", "CGO_ENABLED=0")
	if lc.GOOS != "" {
		env = append(env, "GOOS="+lc.GOOS)
	}
	if lc.GOARCH != "" {
		env = append(env, "GOARCH="+lc.GOARCH)
	}
	dir := filepath.Join(lc.Root, lc.Dir)
	cfg := &packages.Config{Mode: packages.LoadAllSyntax, Dir: dir, Env: env}
	pkgs, err := packages.Load(cfg, "./...")
	if err != nil {
		return nil, err
	}
	if len(pkgs) == 0 {
		return nil, fmt.Errorf("no packages loaded from %s", dir)
	}
	p := &Program{Root: lc.Root, ByRel: map[string]*packages.Package{}}
	var errs []string
	seen := map[*packages.Package]bool{}
	var visit func(pk *packages.Package)
	visit = func(pk *packages.Package) {
		if seen[pk] {
			return
		}
		seen[pk] = true
		p.All = append(p.All, pk)
		for _, im := range pk.Imports {
			visit(im)
		}
	}
	for _, pk := range pkgs {
		visit(pk)
	}
	for _, pk := range p.All {
		if !strings.HasPrefix(pk.PkgPath, ModPath) {
			continue
		}
		for _, e := range pk.Errors {
			errs = append(errs, e.Error())
		}
		rel := strings.TrimPrefix(strings.TrimPrefix(pk.PkgPath, ModPath), "/")
		if skipPkg(rel) {
			continue
		}
		p.Pkgs = append(p.Pkgs, pk)
		p.ByRel[rel] = pk
		if p.Fset == nil {
			p.Fset = pk.Fset
		}
	}
	if len(errs) > 0 {
		return nil, fmt.Errorf("type-check errors: %s", strings.Join(errs, "; "))
	}
	if len(p.Pkgs) == 0 {
		return nil, fmt.Errorf("no repository packages among %d loaded", len(pkgs))
	}
	sort.Slice(p.Pkgs, func(i, j int) bool { return p.Pkgs[i].PkgPath < p.Pkgs[j].PkgPath })
	return p, nil
}

// skipPkg: non-product directories (DESIGN §2).
func skipPkg(rel string) bool {
	for _, pre := range []string{"examples", "research", "vscode", "terraform", "bench", "tests", "doctest"} {
		if rel == pre || strings.HasPrefix(rel, pre+"/") {
			return true
		}
	}
	return false
}

// Pkg returns the package at a repo-relative path or reports UNDECIDED.
func (p *Program) Pkg(rel string) *packages.Package {
	pk := p.ByRel[rel]
	if pk == nil {
		Undecidedf("anchor package %q not found in the loaded program", rel)
	}
	return pk
}

func (p *Program) HasPkg(rel string) bool { return p.ByRel[rel] != nil }

// Pos renders a position relative to the repository root.
func (p *Program) Pos(pos token.Pos) string {
	if !pos.IsValid() {
		return "-"
	}
	ps := p.Fset.Position(pos)
	f := ps.Filename
	if r, err := filepath.Rel(p.Root, f); err == nil && !strings.HasPrefix(r, "..") {
		f = r
	}
	return fmt.Sprintf("%s:%d", f, ps.Line)
}

// RelPkg gives the repo-relative path of a types.Package ("" for root, or
// the full path for foreign packages).
func RelPkg(pk *types.Package) string {
	if pk == nil {
		return ""
	}
	if pk.Path() == ModPath {
		return "."
	}
	if strings.HasPrefix(pk.Path(), ModPath+"/") {
		return strings.TrimPrefix(pk.Path(), ModPath+"/")
	}
	return pk.Path()
}

func InRepo(pk *types.Package) bool {
	return pk != nil && (pk.Path() == ModPath || strings.HasPrefix(pk.Path(), ModPath+"/"))
}

// FuncName renders pkg.Recv.Name for a function object.
func FuncName(fn *types.Func) string {
	if fn == nil {
		return "<nil>"
	}
	sig, _ := fn.Type().(*types.Signature)
	if sig != nil && sig.Recv() != nil {
		t := sig.Recv().Type()
		if pt, ok := t.(*types.Pointer); ok {
			t = pt.Elem()
		}
		if nt, ok := t.(*types.Named); ok {
			return RelPkg(fn.Pkg()) + "." + nt.Obj().Name() + "." + fn.Name()
		}
	}
	return RelPkg(fn.Pkg()) + "." + fn.Name()
}

// ---------------------------------------------------------------- AST lookups

func (p *Program) indexDecls() {
	p.funcDeclOnce.Do(func() {
		p.funcDecls = map[*types.Func]*ast.FuncDecl{}
		p.declPkg = map[*types.Func]*packages.Package{}
		for _, pk := range p.Pkgs {
			for _, f := range pk.Syntax {
				for _, d := range f.Decls {
					if fd, ok := d.(*ast.FuncDecl); ok {
						if obj, ok := pk.TypesInfo.Defs[fd.Name].(*types.Func); ok {
							p.funcDecls[obj] = fd
							p.declPkg[obj] = pk
						}
					}
				}
			}
		}
	})
}

// Decl returns the declaration of a repository function (nil if none).
func (p *Program) Decl(fn *types.Func) *ast.FuncDecl {
	p.indexDecls()
	if fn == nil {
		return nil
	}
	return p.funcDecls[fn.Origin()]
}

// DeclPkg returns the package that declares fn.
func (p *Program) DeclPkg(fn *types.Func) *packages.Package {
	p.indexDecls()
	return p.declPkg[fn.Origin()]
}

// AllDecls iterates all function declarations of repository packages in
// deterministic order.
func (p *Program) AllDecls(f func(pk *packages.Package, fn *types.Func, fd *ast.FuncDecl)) {
	for _, pk := range p.Pkgs {
		for _, file := range pk.Syntax {
			for _, d := range file.Decls {
				if fd, ok := d.(*ast.FuncDecl); ok {
					if obj, ok := pk.TypesInfo.Defs[fd.Name].(*types.Func); ok {
						f(pk, obj, fd)
					}
				}
			}
		}
	}
}

// LookupFunc finds a package-level function by name.
func LookupFunc(pk *packages.Package, name string) *types.Func {
	if o, ok := pk.Types.Scope().Lookup(name).(*types.Func); ok {
		return o
	}
	return nil
}

// LookupType finds a named type by name.
func LookupType(pk *packages.Package, name string) *types.Named {
	if o, ok := pk.Types.Scope().Lookup(name).(*types.TypeName); ok {
		if n, ok := o.Type().(*types.Named); ok {
			return n
		}
	}
	return nil
}

// MustType is LookupType or UNDECIDED.
func MustType(pk *packages.Package, name string) *types.Named {
	t := LookupType(pk, name)
	if t == nil {
		Undecidedf("anchor type %s.%s not found", pk.PkgPath, name)
	}
	return t
}

// Method finds a method (pointer or value receiver) on a named type.
func Method(t *types.Named, name string) *types.Func {
	for i := 0; i < t.NumMethods(); i++ {
		if m := t.Method(i); m.Name() == name {
			return m
		}
	}
	return nil
}

func MustMethod(t *types.Named, name string) *types.Func {
	m := Method(t, name)
	if m == nil {
		Undecidedf("anchor method %s.%s not found", t.Obj().Name(), name)
	}
	return m
}

// Methods lists the methods of a named type, sorted by name.
func Methods(t *types.Named) []*types.Func {
	var out []*types.Func
	for i := 0; i < t.NumMethods(); i++ {
		out = append(out, t.Method(i))
	}
	sort.Slice(out, func(i, j int) bool { return out[i].Name() < out[j].Name() })
	return out
}

// RecvNamed returns the named receiver type of a method (nil for functions).
func RecvNamed(fn *types.Func) *types.Named {
	sig, _ := fn.Type().(*types.Signature)
	if sig == nil || sig.Recv() == nil {
		return nil
	}
	t := sig.Recv().Type()
	if pt, ok := t.(*types.Pointer); ok {
		t = pt.Elem()
	}
	n, _ := t.(*types.Named)
	return n
}

// NamedOf strips pointers and returns the named type, if any.
func NamedOf(t types.Type) *types.Named {
	if t == nil {
		return nil
	}
	if pt, ok := t.(*types.Pointer); ok {
		t = pt.Elem()
	}
	if a, ok := t.(*types.Alias); ok {
		t = types.Unalias(a)
	}
	n, _ := t.(*types.Named)
	return n
}

// IsNamed reports whether t (possibly behind a pointer) is pkgRel.name.
func IsNamed(t types.Type, pkgPath, name string) bool {
	n := NamedOf(t)
	return n != nil && n.Obj().Name() == name && n.Obj().Pkg() != nil && n.Obj().Pkg().Path() == pkgPath
}

// Callee resolves the static callee of a call expression (function, method,
// or nil for dynamic calls / conversions / builtins).
func Callee(info *types.Info, call *ast.CallExpr) *types.Func {
	fun := ast.Unparen(call.Fun)
	switch f := fun.(type) {
	case *ast.Ident:
		if fn, ok := info.Uses[f].(*types.Func); ok {
			return fn
		}
	case *ast.SelectorExpr:
		if sel, ok := info.Selections[f]; ok {
			if fn, ok := sel.Obj().(*types.Func); ok {
				return fn
			}
			return nil
		}
		if fn, ok := info.Uses[f.Sel].(*types.Func); ok {
			return fn
		}
	case *ast.IndexExpr: // generic instantiation
		if id, ok := f.X.(*ast.Ident); ok {
			if fn, ok := info.Uses[id].(*types.Func); ok {
				return fn
			}
		}
		if se, ok := f.X.(*ast.SelectorExpr); ok {
			if fn, ok := info.Uses[se.Sel].(*types.Func); ok {
				return fn
			}
		}
	}
	return nil
}

// IsPkgFunc reports whether fn is pkgPath.name (package-level function).
func IsPkgFunc(fn *types.Func, pkgPath, name string) bool {
	return fn != nil && fn.Pkg() != nil && fn.Pkg().Path() == pkgPath && fn.Name() == name && RecvNamed(fn) == nil
}

// IsMethod reports whether fn is a method named name on pkgPath.typ.
func IsMethod(fn *types.Func, pkgPath, typ, name string) bool {
	if fn == nil || fn.Name() != name {
		return false
	}
	r := RecvNamed(fn)
	return r != nil && r.Obj().Name() == typ && r.Obj().Pkg() != nil && r.Obj().Pkg().Path() == pkgPath
}

// ---------------------------------------------------------------- SSA

func (p *Program) SSA() *ssa.Program {
	p.ssaOnce.Do(func() {
		var roots []*packages.Package
		roots = append(roots, p.Pkgs...)
		prog, pkgs := ssautil.AllPackages(roots, ssa.InstantiateGenerics)
		prog.Build()
		p.SSAProg = prog
		p.ssaPkgs = map[*packages.Package]*ssa.Package{}
		for i, pk := range roots {
			p.ssaPkgs[pk] = pkgs[i]
		}
	})
	return p.SSAProg
}

func (p *Program) SSAPkg(pk *packages.Package) *ssa.Package {
	p.SSA()
	return p.ssaPkgs[pk]
}

// SSAFunc returns the SSA function of a types.Func.
func (p *Program) SSAFunc(fn *types.Func) *ssa.Function {
	return p.SSA().FuncValue(fn)
}

func (p *Program) AllFunctions() map[*ssa.Function]bool {
	p.SSA()
	if p.allFns == nil {
		p.allFns = ssautil.AllFunctions(p.SSAProg)
	}
	return p.allFns
}

// CallGraph = VTA refined over CHA.
func (p *Program) CallGraph() *callgraph.Graph {
	p.cgOnce.Do(func() {
		fns := p.AllFunctions()
		p.cg = vta.CallGraph(fns, cha.CallGraph(p.SSAProg))
	})
	return p.cg
}

// RepoFunc reports whether an SSA function belongs to the repository.
func RepoFunc(f *ssa.Function) bool {
	if f == nil {
		return false
	}
	if f.Pkg != nil {
		return InRepo(f.Pkg.Pkg)
	}
	if f.Parent() != nil {
		return RepoFunc(f.Parent())
	}
	if o := f.Object(); o != nil {
		return InRepo(o.Pkg())
	}
	if f.Origin() != nil {
		return RepoFunc(f.Origin())
	}
	return false
}

// SSAName is a stable printable name of an SSA function.
func SSAName(f *ssa.Function) string {
	if f == nil {
		return "<nil>"
	}
	s := f.String()
	s = strings.ReplaceAll(s, ModPath+"/", "")
	s = strings.ReplaceAll(s, ModPath, ".")
	return s
}

// RecvNamedOfField reports whether f is a (direct) field of struct type t.
func RecvNamedOfField(t *types.Named, f *types.Var) bool {
	st, ok := t.Underlying().(*types.Struct)
	if !ok {
		return false
	}
	for i := 0; i < st.NumFields(); i++ {
		if st.Field(i) == f {
			return true
		}
	}
	return false
}
