package core

import (
	"go/token"
	"go/types"

	"golang.org/x/tools/go/ssa"
)

// Origins follows phi nodes, ChangeType/Convert-free copies and returns the set of
// non-phi values v may be.
func Origins(v ssa.Value) []ssa.Value {
	seen := map[ssa.Value]bool{}
	var out []ssa.Value
	var walk func(v ssa.Value)
	walk = func(v ssa.Value) {
		if v == nil || seen[v] {
			return
		}
		seen[v] = true
		switch x := v.(type) {
		case *ssa.Phi:
			for _, e := range x.Edges {
				walk(e)
			}
		case *ssa.ChangeType:
			walk(x.X)
		case *ssa.UnOp:
			// load of a local (named result spilled because of defer, or a
			// variable captured by address): every value stored into it
			if al, ok := x.X.(*ssa.Alloc); ok && x.Op == token.MUL {
				n := 0
				if refs := al.Referrers(); refs != nil {
					for _, r := range *refs {
						if st, ok := r.(*ssa.Store); ok && st.Addr == ssa.Value(al) {
							walk(st.Val)
							n++
						}
					}
				}
				if n > 0 {
					return
				}
			}
			out = append(out, v)
		default:
			out = append(out, v)
		}
	}
	walk(v)
	return out
}

// StaticCallee of a call instruction value, or nil.
func CalleeOfValue(v ssa.Value) *ssa.Function {
	if c, ok := v.(*ssa.Call); ok {
		return c.Call.StaticCallee()
	}
	return nil
}

// CallOfExtract: if v is Extract(call, i) return the call and index.
func CallOfExtract(v ssa.Value) (*ssa.Call, int) {
	if e, ok := v.(*ssa.Extract); ok {
		if c, ok := e.Tuple.(*ssa.Call); ok {
			return c, e.Index
		}
	}
	return nil, -1
}

// DependsOn reports whether v is data-dependent on a value satisfying target
// through value operands (intraprocedural backward slice; loads from allocs
// follow stores into the same alloc; variadic slices follow element stores).
func DependsOn(v ssa.Value, target func(ssa.Value) bool) bool {
	return DependsOnAvoiding(v, target, nil)
}

// DependsOnAvoiding is DependsOn where the slice does not continue through
// values satisfying stop.
func DependsOnAvoiding(v ssa.Value, target func(ssa.Value) bool, stop func(ssa.Value) bool) bool {
	seen := map[ssa.Value]bool{}
	var walk func(v ssa.Value) bool
	storesInto := func(al ssa.Value) bool {
		refs := al.Referrers()
		if refs == nil {
			return false
		}
		for _, ref := range *refs {
			switch r := ref.(type) {
			case *ssa.Store:
				if r.Addr == al && walk(r.Val) {
					return true
				}
			case *ssa.IndexAddr:
				for _, r2 := range *r.Referrers() {
					if st, ok := r2.(*ssa.Store); ok && st.Addr == ssa.Value(r) && walk(st.Val) {
						return true
					}
				}
			case *ssa.FieldAddr:
				for _, r2 := range *r.Referrers() {
					if st, ok := r2.(*ssa.Store); ok && st.Addr == ssa.Value(r) && walk(st.Val) {
						return true
					}
				}
			}
		}
		return false
	}
	walk = func(v ssa.Value) bool {
		if v == nil || seen[v] {
			return false
		}
		seen[v] = true
		if stop != nil && stop(v) {
			return false
		}
		if target(v) {
			return true
		}
		switch x := v.(type) {
		case *ssa.UnOp:
			if x.Op == token.MUL {
				if al, ok := x.X.(*ssa.Alloc); ok && storesInto(al) {
					return true
				}
			}
		case *ssa.Slice:
			if al, ok := x.X.(*ssa.Alloc); ok && storesInto(al) {
				return true
			}
		}
		if in, ok := v.(ssa.Instruction); ok {
			for _, op := range in.Operands(nil) {
				if *op != nil && walk(*op) {
					return true
				}
			}
		}
		return false
	}
	return walk(v)
}

// NilCheckedErrDominates reports whether block b is dominated by the
// "err == nil" successor of an If testing errVal against nil.
func NilCheckedErrDominates(errVal ssa.Value, b *ssa.BasicBlock) bool {
	refs := errVal.Referrers()
	if refs == nil {
		return false
	}
	for _, r := range *refs {
		bo, ok := r.(*ssa.BinOp)
		if !ok || (bo.Op != token.NEQ && bo.Op != token.EQL) {
			continue
		}
		if !isNilConst(bo.X) && !isNilConst(bo.Y) {
			continue
		}
		for _, rr := range *bo.Referrers() {
			iff, ok := rr.(*ssa.If)
			if !ok {
				continue
			}
			blk := iff.Block()
			var okSucc *ssa.BasicBlock
			if bo.Op == token.NEQ {
				okSucc = blk.Succs[1]
			} else {
				okSucc = blk.Succs[0]
			}
			// okSucc must not be reachable from the error successor trivially:
			// require single predecessor so that domination means "via this edge"
			if len(okSucc.Preds) == 1 && okSucc.Dominates(b) {
				return true
			}
		}
	}
	return false
}

func isNilConst(v ssa.Value) bool {
	c, ok := v.(*ssa.Const)
	return ok && c.IsNil()
}

// BoolGuardDominates: b is dominated by the successor of an If on cond where
// cond has the given truth value.
func BoolGuardDominates(cond ssa.Value, truth bool, b *ssa.BasicBlock) bool {
	refs := cond.Referrers()
	if refs == nil {
		return false
	}
	for _, r := range *refs {
		switch x := r.(type) {
		case *ssa.If:
			s := x.Block().Succs[1]
			if truth {
				s = x.Block().Succs[0]
			}
			if len(s.Preds) == 1 && s.Dominates(b) {
				return true
			}
		case *ssa.UnOp:
			if x.Op == token.NOT && BoolGuardDominates(x, !truth, b) {
				return true
			}
		}
	}
	return false
}

// ParamOf returns the parameter of fn named name.
func ParamOf(fn *ssa.Function, name string) *ssa.Parameter {
	for _, p := range fn.Params {
		if p.Name() == name {
			return p
		}
	}
	return nil
}

// IsStringType reports whether t's underlying type is string.
func IsStringType(t types.Type) bool {
	b, ok := t.Underlying().(*types.Basic)
	return ok && b.Kind() == types.String
}
