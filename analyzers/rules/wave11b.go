package rules

import (
	"go/token"
	"go/types"
	"sort"
	"strings"

	"golang.org/x/tools/go/ssa"

	"risorcheck/core"
)

// ---------------------------------------------------------------------------
// refusedInvocationsWriteNothing: a VM serves one invocation at a time; Run,
// RunCode, Call and SetIP refuse with "already running" when another one is
// in progress.  The refusal is worth something only if the refused call has
// not touched the VM yet: every write to the VM's state that an exported
// method makes (itself or through the methods it calls) comes after the test
// of the running flag.  A write in front of it belongs to no invocation and
// lands in the one that is in progress (a refused start that clears the halt
// flag un-cancels the run in progress; refused options replace the globals
// and modules of a running sandbox).
type vmWrite struct {
	in   ssa.Instruction
	what string
}

func refusedInvocationsWriteNothing(c *core.Ctx) {
	p := c.P
	vmT := vmType(p)
	ri := fieldIdxByName(vmT, "running")
	if ri < 0 {
		core.Undecidedf("VirtualMachine.running not found")
	}
	st, _ := vmT.Underlying().(*types.Struct)
	isVMField := func(v ssa.Value) (int, bool) {
		fa, ok := v.(*ssa.FieldAddr)
		if !ok || core.NamedOf(fa.X.Type()) != vmT || isFreshAlloc(fa.X) {
			return 0, false
		}
		return fa.Field, true
	}
	loadOfVMField := func(v ssa.Value) (int, bool) {
		u, ok := v.(*ssa.UnOp)
		if !ok || u.Op != token.MUL {
			return 0, false
		}
		return isVMField(u.X)
	}
	// refusal points of a function: blocks from which on the running flag is known to be clear
	ownRefusals := func(fn *ssa.Function) []*ssa.BasicBlock {
		var out []*ssa.BasicBlock
		for _, b := range fn.Blocks {
			if len(b.Instrs) == 0 {
				continue
			}
			iff, ok := b.Instrs[len(b.Instrs)-1].(*ssa.If)
			if !ok {
				continue
			}
			cond := iff.Cond
			neg := false
			if u, ok := cond.(*ssa.UnOp); ok && u.Op == token.NOT {
				cond, neg = u.X, true
			}
			if i, ok := loadOfVMField(cond); !ok || i != ri {
				continue
			}
			refuse, cont := b.Succs[0], b.Succs[1]
			if neg {
				refuse, cont = cont, refuse
			}
			// the refusing branch leaves the function
			leaves := false
			for _, in := range refuse.Instrs {
				if _, ok := in.(*ssa.Return); ok {
					leaves = true
				}
			}
			if leaves && len(cont.Preds) == 1 {
				out = append(out, cont)
			}
		}
		return out
	}
	fns := repoFns(p, "vm")
	type summary struct {
		refusing  bool
		unguarded []vmWrite
		done      bool
		busy      bool
	}
	sums := map[*ssa.Function]*summary{}
	var summarise func(fn *ssa.Function) *summary
	summarise = func(fn *ssa.Function) *summary {
		if s, ok := sums[fn]; ok {
			return s
		}
		s := &summary{busy: true}
		sums[fn] = s
		guards := ownRefusals(fn)
		var guardCalls []ssa.Instruction
		var writes []vmWrite
		for _, b := range fn.Blocks {
			for _, in := range b.Instrs {
				switch x := in.(type) {
				case *ssa.Store:
					if i, ok := isVMField(x.Addr); ok {
						name := st.Field(i).Name()
						writes = append(writes, vmWrite{in, "writes " + name})
					}
				case *ssa.MapUpdate:
					if i, ok := loadOfVMField(x.Map); ok {
						writes = append(writes, vmWrite{in, "updates " + st.Field(i).Name()})
					}
				case ssa.CallInstruction:
					com := x.Common()
					cal := com.StaticCallee()
					if cal != nil && cal.Pkg != nil && cal.Pkg.Pkg.Path() == "sync/atomic" && len(com.Args) > 0 {
						if i, ok := isVMField(com.Args[0]); ok && !strings.HasPrefix(cal.Name(), "Load") {
							writes = append(writes, vmWrite{in, "writes " + st.Field(i).Name() + " (atomic." + cal.Name() + ")"})
						}
					}
					if cal == nil && !com.IsInvoke() {
						// an option applied to the VM
						if nt := core.NamedOf(com.Value.Type()); nt != nil && nt.Obj().Name() == "Option" && nt.Obj().Pkg() == vmT.Obj().Pkg() {
							writes = append(writes, vmWrite{in, "applies an option"})
						}
					}
					if cal != nil && cal.Blocks != nil && cal.Pkg == fn.Pkg && cal != fn && len(com.Args) > 0 && core.NamedOf(com.Args[0].Type()) == vmT && !isFreshAlloc(com.Args[0]) {
						if _, isDefer := in.(*ssa.Defer); isDefer {
							continue
						}
						cs := summarise(cal)
						if cs.busy {
							continue
						}
						if cs.refusing {
							guardCalls = append(guardCalls, in)
						}
						for _, w := range cs.unguarded {
							writes = append(writes, vmWrite{in, "calls " + cal.Name() + ", which " + w.what})
							break
						}
					}
				}
			}
		}
		guardedAt := func(in ssa.Instruction) bool {
			for _, g := range guards {
				if g == in.Block() || g.Dominates(in.Block()) {
					return true
				}
			}
			for _, gc := range guardCalls {
				if gc != in && instrDominates(gc, in) {
					return true
				}
			}
			return false
		}
		for _, w := range writes {
			if !guardedAt(w.in) {
				s.unguarded = append(s.unguarded, w)
			}
		}
		s.refusing = (len(guards) > 0 || len(guardCalls) > 0) && len(s.unguarded) == 0
		s.busy = false
		s.done = true
		return s
	}
	n, refusing := 0, 0
	var names []string
	byName := map[string]*ssa.Function{}
	for _, fn := range fns {
		if fn.Signature.Recv() == nil || core.NamedOf(fn.Signature.Recv().Type()) != vmT || fn.Object() == nil || !fn.Object().Exported() {
			continue
		}
		names = append(names, core.SSAName(fn))
		byName[core.SSAName(fn)] = fn
	}
	sort.Strings(names)
	for _, name := range names {
		fn := byName[name]
		s := summarise(fn)
		if len(ownRefusals(fn)) > 0 || s.refusing {
			refusing++
		}
		n++
		bad := ""
		if len(s.unguarded) > 0 {
			w := s.unguarded[0]
			bad = w.what + " at " + p.Pos(w.in.Pos())
		}
		c.Check(bad == "", name+"|writes-only-once-accepted", p.Pos(fn.Pos()),
			fn.Name()+ife(bad == "", " writes nothing to the VM before the running flag has been tested (or writes nothing at all)", " "+bad+" before anything has tested whether the VM is running: when the call is refused (or races with a run in progress) the write lands in the invocation that is in progress"))
	}
	if refusing < 3 {
		core.Undecidedf("only %d exported methods of the VM refuse while it is running", refusing)
	}
	c.Stat("exported_vm_methods", n)
	c.Stat("refusing_methods", refusing)
}

// ---------------------------------------------------------------------------
// refusedOptionsAreRolledBack: the options of an invocation are applied to the
// VM one by one and then validated as a whole (the globals are converted).
// When the validation fails the invocation is refused, and the VM is as it
// was: every field that an option can write is put back on that path.  What
// is left applied otherwise belongs to no invocation, and the next one runs
// with it (WithConcurrency next to an invalid global: spawn works from then
// on; WithInstructionOffset: the next Run starts in the middle of the code).
func refusedOptionsAreRolledBack(c *core.Ctx) {
	p := c.P
	vmT := vmType(p)
	st, _ := vmT.Underlying().(*types.Struct)
	optT := core.MustType(p.Pkg("vm"), "Option")
	fns := repoFns(p, "vm")
	// fields written by option closures
	written := map[int]bool{}
	for _, fn := range fns {
		if fn.Parent() == nil || fn.Signature.Params().Len() != 1 || core.NamedOf(fn.Signature.Params().At(0).Type()) != vmT {
			continue
		}
		par := fn.Parent()
		if par.Signature.Results().Len() != 1 || core.NamedOf(par.Signature.Results().At(0).Type()) != optT {
			continue
		}
		for _, b := range fn.Blocks {
			for _, in := range b.Instrs {
				switch x := in.(type) {
				case *ssa.Store:
					if fa, ok := x.Addr.(*ssa.FieldAddr); ok && core.NamedOf(fa.X.Type()) == vmT {
						written[fa.Field] = true
					}
				case *ssa.MapUpdate:
					if u, ok := x.Map.(*ssa.UnOp); ok {
						if fa, ok := u.X.(*ssa.FieldAddr); ok && core.NamedOf(fa.X.Type()) == vmT {
							written[fa.Field] = true
						}
					}
				}
			}
		}
	}
	if len(written) < 3 {
		core.Undecidedf("only %d fields of the VM are written by options", len(written))
	}
	var fields []int
	for i := range written {
		fields = append(fields, i)
	}
	sort.Ints(fields)
	n := 0
	for _, fn := range fns {
		var apply ssa.Instruction
		for _, b := range fn.Blocks {
			for _, in := range b.Instrs {
				if ci, ok := in.(ssa.CallInstruction); ok && ci.Common().StaticCallee() == nil && !ci.Common().IsInvoke() && core.NamedOf(ci.Common().Value.Type()) == optT {
					apply = in
				}
			}
		}
		if apply == nil {
			continue
		}
		// returns of a non-nil error that can follow the application
		for _, b := range fn.Blocks {
			ret, ok := b.Instrs[len(b.Instrs)-1].(*ssa.Return)
			if !ok || len(ret.Results) == 0 {
				continue
			}
			last := spilledResult(b, ret.Results[len(ret.Results)-1])
			if cst, ok := last.(*ssa.Const); ok && cst.IsNil() {
				continue
			}
			if !blockReaches(apply.Block(), b) || apply.Block() == b {
				continue
			}
			for _, f := range fields {
				// reset before the options are applied: scratch state of the application itself
				scratch := false
				restored := false
				for _, b2 := range fn.Blocks {
					for _, in2 := range b2.Instrs {
						s, ok := in2.(*ssa.Store)
						if !ok {
							continue
						}
						fa, ok := s.Addr.(*ssa.FieldAddr)
						if !ok || fa.Field != f || core.NamedOf(fa.X.Type()) != vmT {
							continue
						}
						if b2 != apply.Block() && b2.Dominates(apply.Block()) {
							scratch = true
						}
						if (b2 == b || b2.Dominates(b)) && blockReaches(apply.Block(), b2) && b2 != apply.Block() {
							restored = true
						}
					}
				}
				if scratch {
					continue
				}
				n++
				c.Check(restored, core.SSAName(fn)+"|"+st.Field(f).Name()+"|put-back-when-the-options-are-refused", p.Pos(ret.Pos()),
					fn.Name()+" applies the options and can then refuse them"+ife(restored, "; on that path it writes "+st.Field(f).Name()+" back", "; on that path "+st.Field(f).Name()+", which an option writes, is left as the refused options set it: the next invocation runs with a setting that no accepted invocation made (risor.Eval(.., WithVM(m), WithConcurrency(), WithGlobal(\"bad\", make(chan int))) fails, and spawn works in the next Eval on m)"))
			}
		}
	}
	if n == 0 {
		core.Undecidedf("no function applies options and can refuse them afterwards")
	}
	c.Stat("option_fields_on_refusal_paths", n)
}

// blockReaches: there is a path from block a to block b (a != b: through at
// least one edge).
func blockReaches(a, b *ssa.BasicBlock) bool {
	seen := map[*ssa.BasicBlock]bool{}
	var walk func(x *ssa.BasicBlock) bool
	walk = func(x *ssa.BasicBlock) bool {
		for _, s := range x.Succs {
			if s == b {
				return true
			}
			if !seen[s] {
				seen[s] = true
				if walk(s) {
					return true
				}
			}
		}
		return false
	}
	return walk(a)
}

// ---------------------------------------------------------------------------
// convertersHandOutWhatTheyTakeBack: a converter's From method turns a Go
// value into the script value that stands for it, and its To method takes a
// script value back.  Every kind of object that From can build is a kind that
// To accepts: a value that the script was given can be handed back to where
// it came from, and a Go value outside the script's range is refused, not
// replaced by an object of another kind (an unsigned integer above 2^63-1
// handed to the script as a float: two distinct hashes become one number, and
// neither goes back into the field they were read from).
func convertersHandOutWhatTheyTakeBack(c *core.Ctx) {
	p := c.P
	to, from := converterMethods(p)
	toOf := map[*types.Named]*ssa.Function{}
	for _, f := range to {
		toOf[core.NamedOf(f.Signature.Recv().Type())] = f
	}
	objPkg := p.Pkg("object").Types
	var accepted func(fn *ssa.Function, pi int, d int, out map[string]bool)
	accepted = func(fn *ssa.Function, pi int, d int, out map[string]bool) {
		if fn.Blocks == nil || pi >= len(fn.Params) {
			return
		}
		par := fn.Params[pi]
		vals := map[ssa.Value]bool{par: true}
		// the parameter may be re-bound by a type switch (x := x.(type))
		for _, b := range fn.Blocks {
			for _, in := range b.Instrs {
				switch x := in.(type) {
				case *ssa.TypeAssert:
					if vals[x.X] {
						out[shortType(x.AssertedType)] = true
					}
				case ssa.CallInstruction:
					cal := x.Common().StaticCallee()
					if cal == nil || cal.Pkg == nil || cal.Pkg.Pkg != objPkg || d >= 2 {
						continue
					}
					for ai, a := range x.Common().Args {
						if vals[a] {
							accepted(cal, ai, d+1, out)
						}
					}
				}
			}
		}
	}
	var produced func(fn *ssa.Function, d int, out map[string]ssa.Instruction)
	produced = func(fn *ssa.Function, d int, out map[string]ssa.Instruction) {
		if fn.Blocks == nil {
			return
		}
		for _, b := range fn.Blocks {
			ret, ok := b.Instrs[len(b.Instrs)-1].(*ssa.Return)
			if !ok || len(ret.Results) == 0 {
				continue
			}
			for _, o := range originsThroughInterfaces(spilledResult(b, ret.Results[0])) {
				call, ok := o.(*ssa.Call)
				if !ok {
					if ex, isEx := o.(*ssa.Extract); isEx && ex.Index == 0 {
						call, ok = ex.Tuple.(*ssa.Call)
					}
				}
				if !ok {
					continue
				}
				cal := call.Call.StaticCallee()
				if cal == nil || cal.Pkg == nil || cal.Pkg.Pkg != objPkg {
					continue
				}
				rt := cal.Signature.Results()
				if rt.Len() == 0 {
					continue
				}
				if strings.HasPrefix(cal.Name(), "New") && cal.Signature.Recv() == nil {
					if _, isPtr := rt.At(0).Type().(*types.Pointer); isPtr {
						out[shortType(rt.At(0).Type())] = call
						continue
					}
				}
				if cal.Signature.Recv() == nil && d < 2 {
					produced(cal, d+1, out)
				}
			}
		}
	}
	n := 0
	for _, f := range from {
		nt := core.NamedOf(f.Signature.Recv().Type())
		t := toOf[nt]
		if t == nil {
			continue
		}
		acc := map[string]bool{}
		accepted(t, 1, 0, acc)
		if len(acc) == 0 {
			continue
		}
		prod := map[string]ssa.Instruction{}
		produced(f, 0, prod)
		var kinds []string
		for k := range prod {
			kinds = append(kinds, k)
		}
		sort.Strings(kinds)
		var real []string
		for _, k := range kinds {
			if k != "*object.Error" && k != "*object.NilType" {
				real = append(real, k)
			}
		}
		if len(real) > 0 {
			// one Go type, one kind of script value: which kind arrives does not depend on the value
			c.Check(len(real) == 1, "object."+nt.Obj().Name()+"|From|one-kind", p.Pos(f.Pos()),
				nt.Obj().Name()+".From builds "+strings.Join(real, " or ")+ife(len(real) == 1, ": the kind of the script value is fixed by the Go type", ": which of them the script gets depends on the value (an unsigned integer above 2^63-1 arriving as a float while its neighbours arrive as ints), where a value outside the script's range is to be refused"))
		}
		for _, k := range kinds {
			if k == "*object.Error" || k == "*object.NilType" {
				continue
			}
			n++
			ok := acc[k]
			var accs []string
			for a := range acc {
				accs = append(accs, a)
			}
			sort.Strings(accs)
			c.Check(ok, "object."+nt.Obj().Name()+"|From:"+k+"|taken-back-by-To", p.Pos(prod[k].Pos()),
				nt.Obj().Name()+".From can hand the script a "+k+ife(ok, ", which To accepts", ", which To does not accept (it takes "+strings.Join(accs, ", ")+"): the value cannot go back to where it came from, and a Go value outside the script's range arrives as something else instead of being refused (uint64 above 2^63-1 as a float: 0xfedcba9876543210 == 0xfedcba9876543211 in the script)"))
		}
	}
	if n < 10 {
		core.Undecidedf("only %d (converter, produced kind) pairs found", n)
	}
	c.Stat("converter_produced_kinds", n)
}

// originsThroughInterfaces: core.Origins, continued through conversions to an
// interface type.
func originsThroughInterfaces(v ssa.Value) []ssa.Value {
	var out []ssa.Value
	seen := map[ssa.Value]bool{}
	var walk func(v ssa.Value)
	walk = func(v ssa.Value) {
		for _, o := range core.Origins(v) {
			if seen[o] {
				continue
			}
			seen[o] = true
			switch x := o.(type) {
			case *ssa.MakeInterface:
				walk(x.X)
			case *ssa.ChangeInterface:
				walk(x.X)
			default:
				out = append(out, o)
			}
		}
	}
	walk(v)
	return out
}

// ---------------------------------------------------------------------------
// hostSlicesAreCopiedBeforeTheyAreWrittenIn: a slice that the host passes to
// an exported function (the names of its globals) is the host's.  Where the
// repository keeps such a slice in a struct field and later writes into that
// field's slice in place (sorts it, assigns to an element), the field holds a
// copy.  Otherwise every compilation sorts the host's own slice, and two
// compilations on separate VMs that were given the same slice race on it.
func hostSlicesAreCopiedBeforeTheyAreWrittenIn(c *core.Ctx) {
	p := c.P
	type fkey struct {
		nt  *types.Named
		idx int
	}
	fns := repoFns(p, "compiler", "vm", ".", "importer", "parser")
	fieldLoad := func(v ssa.Value) (fkey, bool) {
		u, ok := v.(*ssa.UnOp)
		if !ok || u.Op != token.MUL {
			return fkey{}, false
		}
		fa, ok := u.X.(*ssa.FieldAddr)
		if !ok {
			return fkey{}, false
		}
		nt := core.NamedOf(fa.X.Type())
		if nt == nil {
			return fkey{}, false
		}
		if _, isSlice := u.Type().Underlying().(*types.Slice); !isSlice {
			return fkey{}, false
		}
		return fkey{nt, fa.Field}, true
	}
	mutated := map[fkey]string{}
	for _, fn := range fns {
		for _, b := range fn.Blocks {
			for _, in := range b.Instrs {
				switch x := in.(type) {
				case ssa.CallInstruction:
					cal := x.Common().StaticCallee()
					if cal == nil || cal.Pkg == nil {
						continue
					}
					path := cal.Pkg.Pkg.Path()
					if (path == "sort" || path == "slices") && (strings.HasPrefix(cal.Name(), "Sort") || cal.Name() == "Strings" || cal.Name() == "Ints" || cal.Name() == "Slice" || cal.Name() == "SliceStable" || cal.Name() == "Stable" || cal.Name() == "Reverse") {
						for _, a := range x.Common().Args {
							for _, o := range originsThroughInterfaces(a) {
								if k, ok := fieldLoad(o); ok {
									mutated[k] = "sorted in place by " + core.SSAName(fn) + " at " + p.Pos(in.Pos())
								}
							}
						}
					}
				case *ssa.Store:
					if ia, ok := x.Addr.(*ssa.IndexAddr); ok {
						if k, ok := fieldLoad(ia.X); ok {
							if _, have := mutated[k]; !have {
								mutated[k] = "written element by element by " + core.SSAName(fn) + " at " + p.Pos(in.Pos())
							}
						}
					}
				}
			}
		}
	}
	hostValue := func(v ssa.Value) string {
		for _, o := range core.Origins(v) {
			// a variable captured by reference: the load of the free variable
			if u, ok := o.(*ssa.UnOp); ok && u.Op == token.MUL {
				if fv, ok := u.X.(*ssa.FreeVar); ok {
					par := fv.Parent().Parent()
					if par != nil && par.Object() != nil && par.Object().Exported() {
						for _, pa := range par.Params {
							if pa.Name() == fv.Name() && types.Identical(types.NewPointer(pa.Type()), fv.Type()) && !reassigned(par, pa) {
								return "parameter " + pa.Name() + " of " + par.Name()
							}
						}
					}
				}
			}
			switch x := o.(type) {
			case *ssa.Parameter:
				if f := x.Parent(); f.Object() != nil && f.Object().Exported() && f.Parent() == nil {
					return "parameter " + x.Name() + " of " + f.Name()
				}
			case *ssa.FreeVar:
				// a closure made in an exported function over one of its parameters
				par := x.Parent().Parent()
				if par == nil || par.Object() == nil || !par.Object().Exported() {
					continue
				}
				for _, pa := range par.Params {
					if pa.Name() == x.Name() && types.Identical(pa.Type(), x.Type()) {
						return "parameter " + pa.Name() + " of " + par.Name()
					}
				}
			}
		}
		return ""
	}
	n := 0
	var keys []fkey
	for k := range mutated {
		keys = append(keys, k)
	}
	sort.Slice(keys, func(i, j int) bool {
		if keys[i].nt.Obj().Name() != keys[j].nt.Obj().Name() {
			return keys[i].nt.Obj().Name() < keys[j].nt.Obj().Name()
		}
		return keys[i].idx < keys[j].idx
	})
	for _, k := range keys {
		stt := k.nt.Underlying().(*types.Struct)
		fname := k.nt.Obj().Name() + "." + stt.Field(k.idx).Name()
		for _, fn := range fns {
			kk := 0
			for _, s := range storesToField(fn, k.nt, k.idx) {
				n++
				kk++
				from := hostValue(s.Val)
				c.Check(from == "", core.SSAName(fn)+"|"+fname+"|own-copy|"+sprintf("%d", kk), p.Pos(s.Pos()),
					fn.Name()+" stores a slice in "+fname+", which is "+mutated[k]+ife(from == "", "; what it stores is not a slice the host handed in", "; what it stores is "+from+" itself: the repository writes into the host's slice, and two evaluations that were given the same slice race on it"))
			}
		}
	}
	if n == 0 {
		core.Undecidedf("no slice field that is written in place is assigned anywhere")
	}
	c.Stat("fields_written_in_place", len(keys))
	c.Stat("stores_to_those_fields", n)
}

// reassigned: the parameter, spilled to a local because a closure captures it,
// is stored to again after the initial spill.
func reassigned(fn *ssa.Function, pa *ssa.Parameter) bool {
	if pa.Referrers() == nil {
		return false
	}
	for _, r := range *pa.Referrers() {
		st, ok := r.(*ssa.Store)
		if !ok || st.Val != ssa.Value(pa) {
			continue
		}
		al, ok := st.Addr.(*ssa.Alloc)
		if !ok || al.Referrers() == nil {
			continue
		}
		stores := 0
		for _, r2 := range *al.Referrers() {
			if s2, ok := r2.(*ssa.Store); ok && s2.Addr == ssa.Value(al) {
				stores++
			}
		}
		return stores > 1
	}
	return false
}

// ---------------------------------------------------------------------------
// receiversAskTheChannel: whether a script channel has anything to deliver is
// known to the Go channel inside it and to nothing else.  A function that
// receives from it (directly, or through the Receive method) answers "nothing"
// (Nil, or a false second result) only where the receive has been made: an
// answer given in front of it, from a flag that Close set, says "closed and
// drained" for a channel that is closed and still holds values, and they are
// never delivered.
func receiversAskTheChannel(c *core.Ctx) {
	p := c.P
	op := p.Pkg("object")
	chanT := core.MustType(op, "Chan")
	nilG := op.Types.Scope().Lookup("Nil")
	// functions that receive from the Go channel of a Chan
	receives := map[*ssa.Function]bool{}
	fns := repoFns(p, "object")
	isChanField := func(v ssa.Value) bool {
		u, ok := v.(*ssa.UnOp)
		if !ok || u.Op != token.MUL {
			return false
		}
		fa, ok := u.X.(*ssa.FieldAddr)
		if !ok || core.NamedOf(fa.X.Type()) != chanT {
			return false
		}
		_, isChan := u.Type().Underlying().(*types.Chan)
		return isChan
	}
	recvInstr := func(fn *ssa.Function) []ssa.Instruction {
		var out []ssa.Instruction
		for _, b := range fn.Blocks {
			for _, in := range b.Instrs {
				switch x := in.(type) {
				case *ssa.Select:
					for _, st := range x.States {
						if st.Dir == types.RecvOnly && isChanField(st.Chan) {
							out = append(out, in)
						}
					}
				case *ssa.UnOp:
					if x.Op == token.ARROW && isChanField(x.X) {
						out = append(out, in)
					}
				case ssa.CallInstruction:
					if cal := x.Common().StaticCallee(); cal != nil && receives[cal] {
						out = append(out, in)
					}
				}
			}
		}
		return out
	}
	for changed := true; changed; {
		changed = false
		for _, fn := range fns {
			if !receives[fn] && len(recvInstr(fn)) > 0 {
				receives[fn] = true
				changed = true
			}
		}
	}
	n := 0
	for _, fn := range fns {
		if !receives[fn] {
			continue
		}
		rs := recvInstr(fn)
		k := 0
		for _, b := range fn.Blocks {
			ret, ok := b.Instrs[len(b.Instrs)-1].(*ssa.Return)
			if !ok || len(ret.Results) == 0 {
				continue
			}
			// the "nothing to deliver" answers: the Nil object, or (nil, false)
			nothing := false
			for _, o := range originsThroughInterfaces(spilledResult(b, ret.Results[0])) {
				if u, ok := o.(*ssa.UnOp); ok && u.Op == token.MUL {
					if g, ok := u.X.(*ssa.Global); ok && g.Object() == nilG {
						nothing = true
					}
				}
			}
			if len(ret.Results) == 2 {
				if cst, ok := spilledResult(b, ret.Results[1]).(*ssa.Const); ok && cst.Type().String() == "bool" && cst.Value != nil && cst.Value.String() == "false" {
					if c0, ok := spilledResult(b, ret.Results[0]).(*ssa.Const); ok && c0.IsNil() {
						nothing = true
					}
				}
			}
			if !nothing {
				continue
			}
			n++
			k++
			after := false
			for _, r := range rs {
				if r.Block() == b || r.Block().Dominates(b) {
					after = true
				}
			}
			c.Check(after, core.SSAName(fn)+"|nothing-only-after-receiving|"+sprintf("%d", k), p.Pos(ret.Pos()),
				fn.Name()+" receives from a script channel and can answer that there is nothing to deliver"+ife(after, "; that answer is given after the receive", "; at "+p.Pos(ret.Pos())+" it gives that answer without having received: a channel that was closed with values still buffered is reported as drained, and those values are never delivered (ch.receive() after close)"))
		}
	}
	if len(receives) < 2 {
		core.Undecidedf("only %d functions receive from a script channel", len(receives))
	}
	c.Stat("receiving_functions", len(receives))
	c.Stat("nothing_answers", n)
}

// ---------------------------------------------------------------------------
// rootsAreLoadedOnlyWhenAskedFor: a root code object (the main program, a
// module) gets its array of global variables when it is loaded, and it is
// loaded when it is about to run.  The code handed to a function that
// allocates such an array is the code its caller was asked to load, never one
// it derived itself as "the root of" some other code: loading a root on the
// side, because a function of it turned up in a VM that does not have it,
// gives the module a second set of globals that its top-level code never ran
// on (mod.count is 2, mod.get() is nil).
func rootsAreLoadedOnlyWhenAskedFor(c *core.Ctx) {
	p := c.P
	fns := repoFns(p, "vm")
	cp := p.Pkg("compiler")
	codeT := core.MustType(cp, "Code")
	// functions that allocate a globals array: a store of a fresh slice into a field named Globals
	allocates := map[*ssa.Function]bool{}
	for _, fn := range fns {
		for _, b := range fn.Blocks {
			for _, in := range b.Instrs {
				st, ok := in.(*ssa.Store)
				if !ok {
					continue
				}
				fa, ok := st.Addr.(*ssa.FieldAddr)
				if !ok {
					continue
				}
				stt, ok := derefStruct(fa.X.Type())
				if !ok || stt.Field(fa.Field).Name() != "Globals" {
					continue
				}
				for _, o := range core.Origins(st.Val) {
					if _, ok := o.(*ssa.MakeSlice); ok {
						allocates[fn] = true
					}
				}
			}
		}
	}
	if len(allocates) == 0 {
		core.Undecidedf("no function of package vm allocates a globals array")
	}
	// transitively (two levels): functions that pass their own code parameter on to one
	reach := map[*ssa.Function]bool{}
	for f := range allocates {
		reach[f] = true
	}
	for i := 0; i < 2; i++ {
		for _, fn := range fns {
			if reach[fn] {
				continue
			}
			for _, b := range fn.Blocks {
				for _, in := range b.Instrs {
					if ci, ok := in.(ssa.CallInstruction); ok {
						if cal := ci.Common().StaticCallee(); cal != nil && reach[cal] {
							for _, a := range ci.Common().Args {
								if pa, ok := a.(*ssa.Parameter); ok && core.NamedOf(pa.Type()) == codeT {
									reach[fn] = true
								}
							}
						}
					}
				}
			}
		}
	}
	n := 0
	for _, fn := range fns {
		k := 0
		for _, b := range fn.Blocks {
			for _, in := range b.Instrs {
				ci, ok := in.(ssa.CallInstruction)
				if !ok {
					continue
				}
				cal := ci.Common().StaticCallee()
				if cal == nil || !reach[cal] {
					continue
				}
				for _, a := range ci.Common().Args {
					if core.NamedOf(a.Type()) != codeT {
						continue
					}
					n++
					k++
					derived := ""
					for _, o := range core.Origins(a) {
						if call, ok := o.(*ssa.Call); ok {
							if rc := call.Call.StaticCallee(); rc != nil && rc.Name() == "Root" && rc.Signature.Recv() != nil && core.NamedOf(rc.Signature.Recv().Type()) == codeT {
								derived = p.Pos(call.Pos())
							}
						}
					}
					c.Check(derived == "", core.SSAName(fn)+"|"+cal.Name()+"|loads-the-code-it-was-asked-for|"+sprintf("%d", k), p.Pos(in.Pos()),
						fn.Name()+" has "+cal.Name()+" load a code object (and allocate its globals)"+ife(derived == "", "; the code is one it was handed, not one it worked out as the root of another", "; the code is what Root() returned at "+derived+": a root that is not loaded here is loaded on the side with a fresh array of globals, on which its top-level code never ran - the module then has two states in one evaluation"))
				}
			}
		}
	}
	if n < 3 {
		core.Undecidedf("only %d calls hand a code object to a function that allocates globals", n)
	}
	c.Stat("root_loading_calls", n)
}

// ---------------------------------------------------------------------------
// hashKeysTakeTheValueAsItIs: the slot of a value in a set or map is its hash
// key, and two values share a slot exactly when their keys are equal.  A
// HashKey method therefore hands over the value as it is: no conversion on
// the way can map two different values to one (an int64 to a float64: every
// int above 2^53 shares its key with a neighbour; a float to an int; an
// integer to a narrower one).
func hashKeysTakeTheValueAsItIs(c *core.Ctx) {
	p := c.P
	n := 0
	for _, fn := range repoFns(p, "object") {
		if fn.Name() != "HashKey" || fn.Signature.Recv() == nil || fn.Parent() != nil {
			continue
		}
		n++
		bad := ""
		seen := map[*ssa.Function]bool{}
		var walk func(f *ssa.Function, d int)
		walk = func(f *ssa.Function, d int) {
			if seen[f] || f.Blocks == nil {
				return
			}
			seen[f] = true
			for _, b := range f.Blocks {
				for _, in := range b.Instrs {
					switch x := in.(type) {
					case *ssa.Convert:
						sb, ok1 := x.X.Type().Underlying().(*types.Basic)
						db, ok2 := x.Type().Underlying().(*types.Basic)
						if !ok1 || !ok2 {
							continue
						}
						if _, isK := x.X.(*ssa.Const); isK {
							continue
						}
						lossy := lossyIntegerConversion(x)
						if sb.Info()&types.IsInteger != 0 && db.Info()&types.IsFloat != 0 {
							if lo, hi, ok := intRange(sb); ok && (hi.BitLen() > 53 || lo.BitLen() > 53) {
								lossy = true
							}
						}
						if sb.Kind() == types.Float64 && db.Kind() == types.Float32 {
							lossy = true
						}
						if lossy {
							bad = "converts " + sb.Name() + " to " + db.Name() + " at " + p.Pos(x.Pos())
						}
					case ssa.CallInstruction:
						if cal := x.Common().StaticCallee(); cal != nil && core.RepoFunc(cal) && cal.Pkg == fn.Pkg && d < 2 && cal.Signature.Recv() == nil {
							walk(cal, d+1)
						}
					}
				}
			}
		}
		walk(fn, 0)
		c.Check(bad == "", core.SSAName(fn)+"|value-as-it-is", p.Pos(fn.Pos()),
			core.SSAName(fn)+ife(bad == "", " builds the key from the value without a conversion that loses information", " "+bad+" on the way to the key: different values get the same key and share one slot (len({9007199254740992, 9007199254740993}) == 1, and 9007199254740993 in {9007199254740992} holds)"))
	}
	if n < 5 {
		core.Undecidedf("only %d HashKey methods found", n)
	}
	c.Stat("hashkey_methods", n)
}

// ---------------------------------------------------------------------------
// errorObjectsAreNotDropped: a method of a script object reports failure by
// returning an *Error (as such, or as its Object result).  A call whose
// result is thrown away cannot notice: the operation did not happen and the
// caller goes on as if it had (delete(list, 7) on a three-item list written as
// "pop without a use for the value": the index error is dropped and the call
// succeeds with the list unchanged).  Calls of repository functions that can
// return an error object use their result.
func errorObjectsAreNotDropped(c *core.Ctx) {
	p := c.P
	op := p.Pkg("object")
	errT := core.MustType(op, "Error")
	objT := core.MustType(op, "Object")
	all := repoFns(p)
	isErrPtr := func(t types.Type) bool {
		pt, ok := t.(*types.Pointer)
		return ok && core.NamedOf(pt.Elem()) == errT
	}
	carries := func(t types.Type) bool {
		return isErrPtr(t) || core.NamedOf(t) == objT && !isErrPtr(t) && func() bool { _, isPtr := t.(*types.Pointer); return !isPtr }()
	}
	may := map[*ssa.Function]bool{}
	for changed := true; changed; {
		changed = false
		for _, fn := range all {
			if may[fn] || fn.Signature.Results().Len() == 0 {
				continue
			}
			res := fn.Signature.Results()
			for ri := 0; ri < res.Len() && !may[fn]; ri++ {
				if !carries(res.At(ri).Type()) {
					continue
				}
				for _, b := range fn.Blocks {
					ret, ok := b.Instrs[len(b.Instrs)-1].(*ssa.Return)
					if !ok || ri >= len(ret.Results) {
						continue
					}
					for _, o := range originsThroughInterfaces(spilledResult(b, ret.Results[ri])) {
						if cst, ok := o.(*ssa.Const); ok && cst.IsNil() {
							continue
						}
						if isErrPtr(o.Type()) {
							may[fn] = true
						}
						call, ok := o.(*ssa.Call)
						if !ok {
							if ex, isEx := o.(*ssa.Extract); isEx {
								call, ok = ex.Tuple.(*ssa.Call)
							}
						}
						if ok {
							if cal := call.Call.StaticCallee(); cal != nil && may[cal] {
								may[fn] = true
							}
						}
					}
				}
			}
			if may[fn] {
				changed = true
			}
		}
	}
	n := 0
	for _, fn := range all {
		k := map[string]int{}
		for _, b := range fn.Blocks {
			for _, in := range b.Instrs {
				call, ok := in.(*ssa.Call)
				if !ok {
					continue
				}
				cal := call.Call.StaticCallee()
				if cal == nil || !may[cal] {
					continue
				}
				n++
				used := call.Referrers() != nil && len(*call.Referrers()) > 0
				if used {
					continue
				}
				k[cal.Name()]++
				why, listed := droppedResultsJustified[core.SSAName(fn)+"|"+core.SSAName(cal)]
				c.Check(listed, core.SSAName(fn)+"|"+core.SSAName(cal)+"|result-used|"+sprintf("%d", k[cal.Name()]), p.Pos(call.Pos()),
					fn.Name()+" calls "+core.SSAName(cal)+", which reports failure through the error object it returns, and throws the result away"+ife(listed, ": "+why, ": a failure goes unnoticed and the caller carries on as if the operation had happened (an out-of-range delete that succeeds and leaves the list as it was)"))
			}
		}
	}
	if n < 50 {
		core.Undecidedf("only %d calls of functions that can return an error object", n)
	}
	c.Pass("repo|calls-that-can-return-an-error-object-examined", "", sprintf("%d calls of repository functions that can return an error object were examined", n))
	c.Stat("calls_that_can_return_an_error_object", n)
	c.Stat("functions_that_can_return_an_error_object", len(may))
}

// droppedResultsJustified: calls whose error-object result is deliberately not
// looked at, by caller and callee, with the reason.
var droppedResultsJustified = map[string]string{}

// ---------------------------------------------------------------------------
// failuresNotedInCallbacksStick: a comparison function handed to Go's sort is
// called many times and has no way to stop the sort; a failure is noted in a
// variable of the enclosing function and looked at afterwards.  The callback
// stores into such a variable only what it has tested to be a failure: stored
// unconditionally (noted = err), the next comparison that works wipes the
// failure out, and the sort "succeeds" with items it could not compare
// (sorted(["a", 1, 2]) returning ["a", 1, 2]).
func failuresNotedInCallbacksStick(c *core.Ctx) {
	p := c.P
	n := 0
	for _, fn := range repoFns(p) {
		for _, b := range fn.Blocks {
			for _, in := range b.Instrs {
				ci, ok := in.(ssa.CallInstruction)
				if !ok {
					continue
				}
				cal := ci.Common().StaticCallee()
				if cal == nil || cal.Pkg == nil || (cal.Pkg.Pkg.Path() != "sort" && cal.Pkg.Pkg.Path() != "slices") {
					continue
				}
				for _, a := range ci.Common().Args {
					mc, ok := a.(*ssa.MakeClosure)
					if !ok {
						continue
					}
					cb, _ := mc.Fn.(*ssa.Function)
					if cb == nil || cb.Blocks == nil {
						continue
					}
					k := 0
					for _, b2 := range cb.Blocks {
						for _, in2 := range b2.Instrs {
							st, ok := in2.(*ssa.Store)
							if !ok {
								continue
							}
							fv, ok := st.Addr.(*ssa.FreeVar)
							if !ok {
								continue
							}
							et := fv.Type().(*types.Pointer).Elem()
							if et.String() != "error" && !isErrorObjectPtr(p, et) {
								continue
							}
							n++
							k++
							tested := false
							if cst, isK := st.Val.(*ssa.Const); isK {
								tested = !cst.IsNil()
							} else {
								for _, b3 := range cb.Blocks {
									if len(b3.Instrs) == 0 {
										continue
									}
									iff, ok := b3.Instrs[len(b3.Instrs)-1].(*ssa.If)
									if !ok {
										continue
									}
									bo, ok := iff.Cond.(*ssa.BinOp)
									if !ok || (bo.Op != token.NEQ && bo.Op != token.EQL) {
										continue
									}
									if !(bo.X == st.Val || bo.Y == st.Val) || !(isNilValue(bo.X) || isNilValue(bo.Y)) {
										continue
									}
									s := b3.Succs[0]
									if bo.Op == token.EQL {
										s = b3.Succs[1]
									}
									if len(s.Preds) == 1 && (s == b2 || s.Dominates(b2)) {
										tested = true
									}
								}
								if _, fresh := st.Val.(*ssa.Call); fresh && !tested {
									// a freshly built error (fmt.Errorf(...)) is not nil
									if cal2 := st.Val.(*ssa.Call).Call.StaticCallee(); cal2 != nil && cal2.Pkg != nil && (cal2.Pkg.Pkg.Path() == "fmt" || cal2.Pkg.Pkg.Path() == "errors") {
										tested = true
									}
								}
							}
							c.Check(tested, core.SSAName(cb)+"|"+fv.Name()+"|noted-only-when-a-failure|"+sprintf("%d", k), p.Pos(st.Pos()),
								"the comparison function "+cb.Name()+" notes a failure in "+fv.Name()+" of "+fn.Name()+ife(tested, "; what it stores there is known to be a failure", "; it stores there whatever the last comparison returned, also nil: a comparison that fails is forgotten when a later one works, and the sort reports success (sorted([\"a\", 1, 2]) returns [\"a\", 1, 2])"))
						}
					}
				}
			}
		}
	}
	if n == 0 {
		c.Pass("repo|no-error-variable-written-by-a-sort-callback", "", "no comparison function handed to sort or slices stores into a captured error variable")
	}
	c.Stat("error_stores_in_sort_callbacks", n)
}

func isErrorObjectPtr(p *core.Program, t types.Type) bool {
	pt, ok := t.(*types.Pointer)
	return ok && core.NamedOf(pt.Elem()) == core.MustType(p.Pkg("object"), "Error")
}

// ---------------------------------------------------------------------------
// loadedScalarsComeFromTheirOwnDefinition: the loader builds every code object
// from its own stored definition.  A string, number or flag of the code object
// that is being built is not read off another code object (its parent): the
// compiler does not make that inference and the marshaller does not undo it,
// so the loaded code differs from the code that was stored, and marshalling
// it again gives other bytes (a file name inherited from the enclosing code on
// load only).
func loadedScalarsComeFromTheirOwnDefinition(c *core.Ctx) {
	p := c.P
	cp := p.Pkg("compiler")
	codeT := core.MustType(cp, "Code")
	stt := codeT.Underlying().(*types.Struct)
	isStored := func(t types.Type) bool {
		nt := core.NamedOf(t)
		return nt != nil && nt.Obj().Pkg() == cp.Types && (strings.HasSuffix(nt.Obj().Name(), "Def") || nt.Obj().Name() == "state")
	}
	n := 0
	for _, fn := range repoFns(p, "compiler") {
		// loader functions: read the stored form
		reads := false
		for _, b := range fn.Blocks {
			for _, in := range b.Instrs {
				if fa, ok := in.(*ssa.FieldAddr); ok && isStored(fa.X.Type()) {
					reads = true
				}
			}
		}
		if !reads {
			continue
		}
		k := map[string]int{}
		for _, b := range fn.Blocks {
			for _, in := range b.Instrs {
				st, ok := in.(*ssa.Store)
				if !ok {
					continue
				}
				fa, ok := st.Addr.(*ssa.FieldAddr)
				if !ok || core.NamedOf(fa.X.Type()) != codeT {
					continue
				}
				if _, basic := stt.Field(fa.Field).Type().Underlying().(*types.Basic); !basic {
					continue
				}
				n++
				fname := stt.Field(fa.Field).Name()
				k[fname]++
				from := ""
				for _, o := range core.Origins(st.Val) {
					u, ok := o.(*ssa.UnOp)
					if !ok || u.Op != token.MUL {
						continue
					}
					if fa2, ok := u.X.(*ssa.FieldAddr); ok && core.NamedOf(fa2.X.Type()) == codeT && !core.SameStorage(fa2.X, fa.X) && fa2.X != fa.X {
						from = "Code." + stt.Field(fa2.Field).Name() + " of another code object (" + p.Pos(u.Pos()) + ")"
					}
				}
				c.Check(from == "", core.SSAName(fn)+"|Code."+fname+"|from-its-own-definition|"+sprintf("%d", k[fname]), p.Pos(st.Pos()),
					fn.Name()+" sets Code."+fname+" of a code object it is loading"+ife(from == "", " without reading it off another code object", " from "+from+": the compiler does not derive the field that way and the marshaller does not undo it, so marshalling the loaded code gives other bytes than the ones it was loaded from"))
			}
		}
	}
	if n < 3 {
		core.Undecidedf("only %d stores to scalar fields of Code in functions that read the stored form", n)
	}
	c.Stat("scalar_code_fields_set_by_the_loader", n)
}

// ---------------------------------------------------------------------------
// rollbackOnlyTakesAway: a type that can be rolled back has a method that
// takes a snapshot and one that is given the snapshot and returns the value
// to that state (the symbol table and the code object, after a piece that
// the compiler rejected).  Everything that was in the tables when the
// snapshot was taken is still there - compilation only adds - so going back
// means cutting slices to their old length and deleting map entries that are
// newer.  The method that goes back builds no table anew and enters nothing
// that does not come out of the snapshot: an index rebuilt from the items
// that remain is a different index when not every item was in it (variables
// of nested blocks claim a slot in the root table without being named there;
// rebuilt, `if true { x := 2 }` makes x the global after any rejected piece).
func rollbackOnlyTakesAway(c *core.Ctx) {
	p := c.P
	cp := p.Pkg("compiler")
	fns := repoFns(p, "compiler")
	// snapshot types: struct types of the package returned by a method without parameters
	snapOf := map[*types.Named]*types.Named{} // snapshot type -> owner
	for _, fn := range fns {
		if fn.Signature.Recv() == nil || fn.Parent() != nil || fn.Signature.Params().Len() != 0 || fn.Signature.Results().Len() != 1 {
			continue
		}
		rt := core.NamedOf(fn.Signature.Results().At(0).Type())
		if rt == nil || rt.Obj().Pkg() != cp.Types {
			continue
		}
		if _, isStruct := rt.Underlying().(*types.Struct); !isStruct {
			continue
		}
		if _, isPtr := fn.Signature.Results().At(0).Type().(*types.Pointer); isPtr {
			continue
		}
		snapOf[rt] = core.NamedOf(fn.Signature.Recv().Type())
	}
	n := 0
	for _, fn := range fns {
		if fn.Signature.Recv() == nil || fn.Parent() != nil || fn.Signature.Params().Len() != 1 {
			continue
		}
		owner := core.NamedOf(fn.Signature.Recv().Type())
		pt := core.NamedOf(fn.Signature.Params().At(0).Type())
		if pt == nil || snapOf[pt] != owner || owner == nil {
			continue
		}
		n++
		snap := fn.Params[1]
		fromSnap := func(v ssa.Value) bool {
			return core.DependsOn(v, func(w ssa.Value) bool { return w == ssa.Value(snap) })
		}
		bad := ""
		for _, b := range fn.Blocks {
			for _, in := range b.Instrs {
				switch x := in.(type) {
				case *ssa.MapUpdate:
					// the tables of the value that is rolled back, not the method's scratch maps
					own := false
					for _, o := range core.Origins(x.Map) {
						if u, ok := o.(*ssa.UnOp); ok && u.Op == token.MUL {
							if fa, ok := u.X.(*ssa.FieldAddr); ok && core.NamedOf(fa.X.Type()) == owner {
								own = true
							}
						}
					}
					if own && !fromSnap(x.Value) && !fromSnap(x.Key) {
						bad = "enters something in a map at " + p.Pos(x.Pos()) + " that does not come out of the snapshot"
					}
				case *ssa.Store:
					fa, ok := x.Addr.(*ssa.FieldAddr)
					if !ok || core.NamedOf(fa.X.Type()) != owner {
						continue
					}
					for _, o := range core.Origins(x.Val) {
						switch o.(type) {
						case *ssa.MakeMap, *ssa.MakeSlice:
							bad = "builds " + owner.Obj().Name() + "." + fieldNameOf(owner, fa.Field) + " anew at " + p.Pos(x.Pos())
						}
					}
				}
			}
		}
		c.Check(bad == "", core.SSAName(fn)+"|only-takes-away", p.Pos(fn.Pos()),
			core.SSAName(fn)+" returns a "+owner.Obj().Name()+" to a snapshot"+ife(bad == "", " by cutting back and deleting", "; it "+bad+": what is rebuilt from the items that remain is not what was there before when some of them were never entered (block variables claim a slot in the root symbol table without a name there; after a rejected piece `x := 1; if true { x := 2 }` reads x as 2)"))
	}
	if n < 2 {
		core.Undecidedf("only %d snapshot/rollback method pairs found in package compiler", n)
	}
	c.Stat("rollback_methods", n)
}

// ---------------------------------------------------------------------------
// moduleFunctionsCallTheirNamesake: the modules that carry the name of a Go
// standard package (strings, bytes, math, filepath, strconv, ...) give scripts
// that package's functions.  A builtin of such a module that bears the name of
// an exported function of the Go package calls that function (itself or
// through a helper of the module).  The ones that cannot, because the Go
// function reaches the real process, are listed with what they do instead,
// and that is checked for each (filepath.abs joins with the host OS's working
// directory; every path it returns has been through Clean or Join, as every
// result of Go's Abs has).
var moduleFunctionsIndependent = map[string]string{
	"modules/filepath.Abs":     "Go's Abs asks the real process for its working directory; the module asks the host OS and must return only cleaned paths (checked)",
	"modules/filepath.WalkDir": "Go's WalkDir walks the real file system; the module walks the host OS",
}

func moduleFunctionsCallTheirNamesake(c *core.Ctx) {
	p := c.P
	n := 0
	for _, pk := range p.Pkgs {
		rel := core.RelPkg(pk.Types)
		if !strings.HasPrefix(rel, "modules/") || strings.Count(rel, "/") != 1 {
			continue
		}
		base := strings.TrimPrefix(rel, "modules/")
		// the modules that wrap a computing package of the standard library (the ones that stand
		// between scripts and the process - os, fmt, http, time, rand - answer through the host OS
		// or differ by design)
		if !wrapsAComputingPackage[base] {
			continue
		}
		var gopkg *types.Package
		for _, im := range pk.Types.Imports() {
			if im.Name() == base && !strings.Contains(im.Path(), ".") {
				gopkg = im
			}
		}
		if gopkg == nil {
			continue
		}
		sp := p.SSAPkg(pk)
		if sp == nil {
			continue
		}
		var names []string
		for name := range sp.Members {
			names = append(names, name)
		}
		sort.Strings(names)
		for _, name := range names {
			fn, ok := sp.Members[name].(*ssa.Function)
			if !ok || fn.Blocks == nil || strings.HasSuffix(p.Fset.Position(fn.Pos()).Filename, "_test.go") {
				continue
			}
			target, _ := gopkg.Scope().Lookup(name).(*types.Func)
			if target == nil || !target.Exported() {
				continue
			}
			// builtins only: (ctx, ...Object) Object
			if fn.Signature.Params().Len() != 2 || !fn.Signature.Variadic() {
				continue
			}
			n++
			key := rel + "." + name
			calls := false
			seen := map[*ssa.Function]bool{}
			var walk func(f *ssa.Function, d int)
			walk = func(f *ssa.Function, d int) {
				if seen[f] || f.Blocks == nil {
					return
				}
				seen[f] = true
				for _, b := range f.Blocks {
					for _, in := range b.Instrs {
						if ci, ok := in.(ssa.CallInstruction); ok {
							cal := ci.Common().StaticCallee()
							if cal == nil {
								continue
							}
							if cal.Object() == types.Object(target) {
								calls = true
							}
							// the variant of the same function for strings (a script has strings: regexp.MatchString for Match)
							if cal.Pkg != nil && cal.Pkg.Pkg == gopkg && cal.Name() == name+"String" {
								calls = true
							}
							if cal.Pkg == fn.Pkg && d < 2 {
								walk(cal, d+1)
							}
						}
						if mc, ok := in.(*ssa.MakeClosure); ok && d < 2 {
							if cf, ok := mc.Fn.(*ssa.Function); ok {
								walk(cf, d+1)
							}
						}
					}
				}
			}
			walk(fn, 0)
			if why, ok := moduleFunctionsIndependent[key]; ok && !calls {
				okAlt, what := true, ""
				if key == "modules/filepath.Abs" {
					okAlt, what = returnsOnlyCleanedPaths(p, fn)
				}
				c.Check(okAlt, key+"|calls-its-namesake", p.Pos(fn.Pos()),
					base+"."+name+" is listed as implemented independently: "+why+ife(okAlt, "", "; "+what))
				continue
			}
			c.Check(calls, key+"|calls-its-namesake", p.Pos(fn.Pos()),
				"the builtin "+name+" of module "+base+ife(calls, " calls "+gopkg.Path()+"."+name, " does not call "+gopkg.Path()+"."+name+": it answers by other means, which agree with Go only where those means and the Go function agree"))
		}
	}
	if n < 30 {
		core.Undecidedf("only %d module builtins are named after a function of the Go package they wrap", n)
	}
	c.Stat("module_namesakes", n)
}

// returnsOnlyCleanedPaths: every string handed to object.NewString in fn comes
// out of path/filepath's Clean or Join.
func returnsOnlyCleanedPaths(p *core.Program, fn *ssa.Function) (bool, string) {
	found := 0
	for _, b := range fn.Blocks {
		for _, in := range b.Instrs {
			call, ok := in.(*ssa.Call)
			if !ok {
				continue
			}
			cal := call.Call.StaticCallee()
			if cal == nil || cal.Name() != "NewString" || len(call.Call.Args) != 1 {
				continue
			}
			found++
			for _, o := range core.Origins(call.Call.Args[0]) {
				oc, ok := o.(*ssa.Call)
				if !ok {
					return false, "the string returned at " + p.Pos(call.Pos()) + " has not been through filepath.Clean or filepath.Join (\"/usr/lib/\" comes back as it is; Go gives \"/usr/lib\")"
				}
				c2 := oc.Call.StaticCallee()
				if c2 == nil || c2.Pkg == nil || c2.Pkg.Pkg.Path() != "path/filepath" || (c2.Name() != "Clean" && c2.Name() != "Join") {
					return false, "the string returned at " + p.Pos(call.Pos()) + " has not been through filepath.Clean or filepath.Join (\"/usr/lib/\" comes back as it is; Go gives \"/usr/lib\")"
				}
			}
		}
	}
	if found == 0 {
		return false, "it returns no string"
	}
	return true, ""
}

var wrapsAComputingPackage = map[string]bool{"strings": true, "strconv": true, "math": true, "bytes": true, "base64": true, "filepath": true, "regexp": true}
