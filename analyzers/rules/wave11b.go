package rules

import (
	"go/token"
	"go/types"
	"sort"
	"strings"

	"golang.org/x/tools/go/ssa"

	"risorcheck/core"
)

// ---------------------------------------------------------------------------
// refusedInvocationsWriteNothing: a VM serves one invocation at a time; Run,
// RunCode, Call and SetIP refuse with "already running" when another one is
// in progress.  The refusal is worth something only if the refused call has
// not touched the VM yet: every write to the VM's state that an exported
// method makes (itself or through the methods it calls) comes after the test
// of the running flag.  A write in front of it belongs to no invocation and
// lands in the one that is in progress (a refused start that clears the halt
// flag un-cancels the run in progress; refused options replace the globals
// and modules of a running sandbox).
type vmWrite struct {
	in   ssa.Instruction
	what string
}

func refusedInvocationsWriteNothing(c *core.Ctx) {
	p := c.P
	vmT := vmType(p)
	ri := fieldIdxByName(vmT, "running")
	if ri < 0 {
		core.Undecidedf("VirtualMachine.running not found")
	}
	st, _ := vmT.Underlying().(*types.Struct)
	isVMField := func(v ssa.Value) (int, bool) {
		fa, ok := v.(*ssa.FieldAddr)
		if !ok || core.NamedOf(fa.X.Type()) != vmT || isFreshAlloc(fa.X) {
			return 0, false
		}
		return fa.Field, true
	}
	loadOfVMField := func(v ssa.Value) (int, bool) {
		u, ok := v.(*ssa.UnOp)
		if !ok || u.Op != token.MUL {
			return 0, false
		}
		return isVMField(u.X)
	}
	// refusal points of a function: blocks from which on the running flag is known to be clear
	ownRefusals := func(fn *ssa.Function) []*ssa.BasicBlock {
		var out []*ssa.BasicBlock
		for _, b := range fn.Blocks {
			if len(b.Instrs) == 0 {
				continue
			}
			iff, ok := b.Instrs[len(b.Instrs)-1].(*ssa.If)
			if !ok {
				continue
			}
			cond := iff.Cond
			neg := false
			if u, ok := cond.(*ssa.UnOp); ok && u.Op == token.NOT {
				cond, neg = u.X, true
			}
			if i, ok := loadOfVMField(cond); !ok || i != ri {
				continue
			}
			refuse, cont := b.Succs[0], b.Succs[1]
			if neg {
				refuse, cont = cont, refuse
			}
			// the refusing branch leaves the function
			leaves := false
			for _, in := range refuse.Instrs {
				if _, ok := in.(*ssa.Return); ok {
					leaves = true
				}
			}
			if leaves && len(cont.Preds) == 1 {
				out = append(out, cont)
			}
		}
		return out
	}
	fns := repoFns(p, "vm")
	type summary struct {
		refusing  bool
		unguarded []vmWrite
		done      bool
		busy      bool
	}
	sums := map[*ssa.Function]*summary{}
	var summarise func(fn *ssa.Function) *summary
	summarise = func(fn *ssa.Function) *summary {
		if s, ok := sums[fn]; ok {
			return s
		}
		s := &summary{busy: true}
		sums[fn] = s
		guards := ownRefusals(fn)
		var guardCalls []ssa.Instruction
		var writes []vmWrite
		for _, b := range fn.Blocks {
			for _, in := range b.Instrs {
				switch x := in.(type) {
				case *ssa.Store:
					if i, ok := isVMField(x.Addr); ok {
						name := st.Field(i).Name()
						writes = append(writes, vmWrite{in, "writes " + name})
					}
				case *ssa.MapUpdate:
					if i, ok := loadOfVMField(x.Map); ok {
						writes = append(writes, vmWrite{in, "updates " + st.Field(i).Name()})
					}
				case ssa.CallInstruction:
					com := x.Common()
					cal := com.StaticCallee()
					if cal != nil && cal.Pkg != nil && cal.Pkg.Pkg.Path() == "sync/atomic" && len(com.Args) > 0 {
						if i, ok := isVMField(com.Args[0]); ok && !strings.HasPrefix(cal.Name(), "Load") {
							writes = append(writes, vmWrite{in, "writes " + st.Field(i).Name() + " (atomic." + cal.Name() + ")"})
						}
					}
					if cal == nil && !com.IsInvoke() {
						// an option applied to the VM
						if nt := core.NamedOf(com.Value.Type()); nt != nil && nt.Obj().Name() == "Option" && nt.Obj().Pkg() == vmT.Obj().Pkg() {
							writes = append(writes, vmWrite{in, "applies an option"})
						}
					}
					if cal != nil && cal.Blocks != nil && cal.Pkg == fn.Pkg && cal != fn && len(com.Args) > 0 && core.NamedOf(com.Args[0].Type()) == vmT && !isFreshAlloc(com.Args[0]) {
						if _, isDefer := in.(*ssa.Defer); isDefer {
							continue
						}
						cs := summarise(cal)
						if cs.busy {
							continue
						}
						if cs.refusing {
							guardCalls = append(guardCalls, in)
						}
						for _, w := range cs.unguarded {
							writes = append(writes, vmWrite{in, "calls " + cal.Name() + ", which " + w.what})
							break
						}
					}
				}
			}
		}
		guardedAt := func(in ssa.Instruction) bool {
			for _, g := range guards {
				if g == in.Block() || g.Dominates(in.Block()) {
					return true
				}
			}
			for _, gc := range guardCalls {
				if gc != in && instrDominates(gc, in) {
					return true
				}
			}
			return false
		}
		for _, w := range writes {
			if !guardedAt(w.in) {
				s.unguarded = append(s.unguarded, w)
			}
		}
		s.refusing = (len(guards) > 0 || len(guardCalls) > 0) && len(s.unguarded) == 0
		s.busy = false
		s.done = true
		return s
	}
	n, refusing := 0, 0
	var names []string
	byName := map[string]*ssa.Function{}
	for _, fn := range fns {
		if fn.Signature.Recv() == nil || core.NamedOf(fn.Signature.Recv().Type()) != vmT || fn.Object() == nil || !fn.Object().Exported() {
			continue
		}
		names = append(names, core.SSAName(fn))
		byName[core.SSAName(fn)] = fn
	}
	sort.Strings(names)
	for _, name := range names {
		fn := byName[name]
		s := summarise(fn)
		if len(ownRefusals(fn)) > 0 || s.refusing {
			refusing++
		}
		n++
		bad := ""
		if len(s.unguarded) > 0 {
			w := s.unguarded[0]
			bad = w.what + " at " + p.Pos(w.in.Pos())
		}
		c.Check(bad == "", name+"|writes-only-once-accepted", p.Pos(fn.Pos()),
			fn.Name()+ife(bad == "", " writes nothing to the VM before the running flag has been tested (or writes nothing at all)", " "+bad+" before anything has tested whether the VM is running: when the call is refused (or races with a run in progress) the write lands in the invocation that is in progress"))
	}
	if refusing < 3 {
		core.Undecidedf("only %d exported methods of the VM refuse while it is running", refusing)
	}
	c.Stat("exported_vm_methods", n)
	c.Stat("refusing_methods", refusing)
}

// ---------------------------------------------------------------------------
// refusedOptionsAreRolledBack: the options of an invocation are applied to the
// VM one by one and then validated as a whole (the globals are converted).
// When the validation fails the invocation is refused, and the VM is as it
// was: every field that an option can write is put back on that path.  What
// is left applied otherwise belongs to no invocation, and the next one runs
// with it (WithConcurrency next to an invalid global: spawn works from then
// on; WithInstructionOffset: the next Run starts in the middle of the code).
func refusedOptionsAreRolledBack(c *core.Ctx) {
	p := c.P
	vmT := vmType(p)
	st, _ := vmT.Underlying().(*types.Struct)
	optT := core.MustType(p.Pkg("vm"), "Option")
	fns := repoFns(p, "vm")
	// fields written by option closures
	written := map[int]bool{}
	for _, fn := range fns {
		if fn.Parent() == nil || fn.Signature.Params().Len() != 1 || core.NamedOf(fn.Signature.Params().At(0).Type()) != vmT {
			continue
		}
		par := fn.Parent()
		if par.Signature.Results().Len() != 1 || core.NamedOf(par.Signature.Results().At(0).Type()) != optT {
			continue
		}
		for _, b := range fn.Blocks {
			for _, in := range b.Instrs {
				switch x := in.(type) {
				case *ssa.Store:
					if fa, ok := x.Addr.(*ssa.FieldAddr); ok && core.NamedOf(fa.X.Type()) == vmT {
						written[fa.Field] = true
					}
				case *ssa.MapUpdate:
					if u, ok := x.Map.(*ssa.UnOp); ok {
						if fa, ok := u.X.(*ssa.FieldAddr); ok && core.NamedOf(fa.X.Type()) == vmT {
							written[fa.Field] = true
						}
					}
				}
			}
		}
	}
	if len(written) < 3 {
		core.Undecidedf("only %d fields of the VM are written by options", len(written))
	}
	var fields []int
	for i := range written {
		fields = append(fields, i)
	}
	sort.Ints(fields)
	n := 0
	for _, fn := range fns {
		var apply ssa.Instruction
		for _, b := range fn.Blocks {
			for _, in := range b.Instrs {
				if ci, ok := in.(ssa.CallInstruction); ok && ci.Common().StaticCallee() == nil && !ci.Common().IsInvoke() && core.NamedOf(ci.Common().Value.Type()) == optT {
					apply = in
				}
			}
		}
		if apply == nil {
			continue
		}
		// returns of a non-nil error that can follow the application
		for _, b := range fn.Blocks {
			ret, ok := b.Instrs[len(b.Instrs)-1].(*ssa.Return)
			if !ok || len(ret.Results) == 0 {
				continue
			}
			last := spilledResult(b, ret.Results[len(ret.Results)-1])
			if cst, ok := last.(*ssa.Const); ok && cst.IsNil() {
				continue
			}
			if !blockReaches(apply.Block(), b) || apply.Block() == b {
				continue
			}
			for _, f := range fields {
				// reset before the options are applied: scratch state of the application itself
				scratch := false
				restored := false
				for _, b2 := range fn.Blocks {
					for _, in2 := range b2.Instrs {
						s, ok := in2.(*ssa.Store)
						if !ok {
							continue
						}
						fa, ok := s.Addr.(*ssa.FieldAddr)
						if !ok || fa.Field != f || core.NamedOf(fa.X.Type()) != vmT {
							continue
						}
						if b2 != apply.Block() && b2.Dominates(apply.Block()) {
							scratch = true
						}
						if (b2 == b || b2.Dominates(b)) && blockReaches(apply.Block(), b2) && b2 != apply.Block() {
							restored = true
						}
					}
				}
				if scratch {
					continue
				}
				n++
				c.Check(restored, core.SSAName(fn)+"|"+st.Field(f).Name()+"|put-back-when-the-options-are-refused", p.Pos(ret.Pos()),
					fn.Name()+" applies the options and can then refuse them"+ife(restored, "; on that path it writes "+st.Field(f).Name()+" back", "; on that path "+st.Field(f).Name()+", which an option writes, is left as the refused options set it: the next invocation runs with a setting that no accepted invocation made (risor.Eval(.., WithVM(m), WithConcurrency(), WithGlobal(\"bad\", make(chan int))) fails, and spawn works in the next Eval on m)"))
			}
		}
	}
	if n == 0 {
		core.Undecidedf("no function applies options and can refuse them afterwards")
	}
	c.Stat("option_fields_on_refusal_paths", n)
}

// blockReaches: there is a path from block a to block b (a != b: through at
// least one edge).
func blockReaches(a, b *ssa.BasicBlock) bool {
	seen := map[*ssa.BasicBlock]bool{}
	var walk func(x *ssa.BasicBlock) bool
	walk = func(x *ssa.BasicBlock) bool {
		for _, s := range x.Succs {
			if s == b {
				return true
			}
			if !seen[s] {
				seen[s] = true
				if walk(s) {
					return true
				}
			}
		}
		return false
	}
	return walk(a)
}

// ---------------------------------------------------------------------------
// convertersHandOutWhatTheyTakeBack: a converter's From method turns a Go
// value into the script value that stands for it, and its To method takes a
// script value back.  Every kind of object that From can build is a kind that
// To accepts: a value that the script was given can be handed back to where
// it came from, and a Go value outside the script's range is refused, not
// replaced by an object of another kind (an unsigned integer above 2^63-1
// handed to the script as a float: two distinct hashes become one number, and
// neither goes back into the field they were read from).
func convertersHandOutWhatTheyTakeBack(c *core.Ctx) {
	p := c.P
	to, from := converterMethods(p)
	toOf := map[*types.Named]*ssa.Function{}
	for _, f := range to {
		toOf[core.NamedOf(f.Signature.Recv().Type())] = f
	}
	objPkg := p.Pkg("object").Types
	accepted := func(fn *ssa.Function, pi int, d int, out map[string]bool) { acceptedKinds(objPkg, fn, pi, d, out) }
	produced := func(fn *ssa.Function, d int, out map[string]ssa.Instruction) { producedKinds(objPkg, fn, d, out) }
	n := 0
	for _, f := range from {
		nt := core.NamedOf(f.Signature.Recv().Type())
		t := toOf[nt]
		if t == nil {
			continue
		}
		acc := map[string]bool{}
		accepted(t, 1, 0, acc)
		if len(acc) == 0 {
			continue
		}
		prod := map[string]ssa.Instruction{}
		produced(f, 0, prod)
		var kinds []string
		for k := range prod {
			kinds = append(kinds, k)
		}
		sort.Strings(kinds)
		var real []string
		for _, k := range kinds {
			if k != "*object.Error" && k != "*object.NilType" {
				real = append(real, k)
			}
		}
		if len(real) > 0 {
			// one Go type, one kind of script value: which kind arrives does not depend on the value
			c.Check(len(real) == 1, "object."+nt.Obj().Name()+"|From|one-kind", p.Pos(f.Pos()),
				nt.Obj().Name()+".From builds "+strings.Join(real, " or ")+ife(len(real) == 1, ": the kind of the script value is fixed by the Go type", ": which of them the script gets depends on the value (an unsigned integer above 2^63-1 arriving as a float while its neighbours arrive as ints), where a value outside the script's range is to be refused"))
		}
		for _, k := range kinds {
			if k == "*object.Error" || k == "*object.NilType" {
				continue
			}
			n++
			ok := acc[k]
			var accs []string
			for a := range acc {
				accs = append(accs, a)
			}
			sort.Strings(accs)
			c.Check(ok, "object."+nt.Obj().Name()+"|From:"+k+"|taken-back-by-To", p.Pos(prod[k].Pos()),
				nt.Obj().Name()+".From can hand the script a "+k+ife(ok, ", which To accepts", ", which To does not accept (it takes "+strings.Join(accs, ", ")+"): the value cannot go back to where it came from, and a Go value outside the script's range arrives as something else instead of being refused (uint64 above 2^63-1 as a float: 0xfedcba9876543210 == 0xfedcba9876543211 in the script)"))
		}
	}
	if n < 10 {
		core.Undecidedf("only %d (converter, produced kind) pairs found", n)
	}
	c.Stat("converter_produced_kinds", n)
}

// originsThroughInterfaces: core.Origins, continued through conversions to an
// interface type.
func originsThroughInterfaces(v ssa.Value) []ssa.Value {
	var out []ssa.Value
	seen := map[ssa.Value]bool{}
	var walk func(v ssa.Value)
	walk = func(v ssa.Value) {
		for _, o := range core.Origins(v) {
			if seen[o] {
				continue
			}
			seen[o] = true
			switch x := o.(type) {
			case *ssa.MakeInterface:
				walk(x.X)
			case *ssa.ChangeInterface:
				walk(x.X)
			default:
				out = append(out, o)
			}
		}
	}
	walk(v)
	return out
}

// ---------------------------------------------------------------------------
// hostSlicesAreCopiedBeforeTheyAreWrittenIn: a slice that the host passes to
// an exported function (the names of its globals) is the host's.  Where the
// repository keeps such a slice in a struct field and later writes into that
// field's slice in place (sorts it, assigns to an element), the field holds a
// copy.  Otherwise every compilation sorts the host's own slice, and two
// compilations on separate VMs that were given the same slice race on it.
func hostSlicesAreCopiedBeforeTheyAreWrittenIn(c *core.Ctx) {
	p := c.P
	type fkey struct {
		nt  *types.Named
		idx int
	}
	fns := repoFns(p, "compiler", "vm", ".", "importer", "parser")
	fieldLoad := func(v ssa.Value) (fkey, bool) {
		u, ok := v.(*ssa.UnOp)
		if !ok || u.Op != token.MUL {
			return fkey{}, false
		}
		fa, ok := u.X.(*ssa.FieldAddr)
		if !ok {
			return fkey{}, false
		}
		nt := core.NamedOf(fa.X.Type())
		if nt == nil {
			return fkey{}, false
		}
		if _, isSlice := u.Type().Underlying().(*types.Slice); !isSlice {
			return fkey{}, false
		}
		return fkey{nt, fa.Field}, true
	}
	mutated := map[fkey]string{}
	for _, fn := range fns {
		for _, b := range fn.Blocks {
			for _, in := range b.Instrs {
				switch x := in.(type) {
				case ssa.CallInstruction:
					cal := x.Common().StaticCallee()
					if cal == nil || cal.Pkg == nil {
						continue
					}
					path := cal.Pkg.Pkg.Path()
					if (path == "sort" || path == "slices") && (strings.HasPrefix(cal.Name(), "Sort") || cal.Name() == "Strings" || cal.Name() == "Ints" || cal.Name() == "Slice" || cal.Name() == "SliceStable" || cal.Name() == "Stable" || cal.Name() == "Reverse") {
						for _, a := range x.Common().Args {
							for _, o := range originsThroughInterfaces(a) {
								if k, ok := fieldLoad(o); ok {
									mutated[k] = "sorted in place by " + core.SSAName(fn) + " at " + p.Pos(in.Pos())
								}
							}
						}
					}
				case *ssa.Store:
					if ia, ok := x.Addr.(*ssa.IndexAddr); ok {
						if k, ok := fieldLoad(ia.X); ok {
							if _, have := mutated[k]; !have {
								mutated[k] = "written element by element by " + core.SSAName(fn) + " at " + p.Pos(in.Pos())
							}
						}
					}
				}
			}
		}
	}
	hostValue := func(v ssa.Value) string {
		for _, o := range core.Origins(v) {
			// a variable captured by reference: the load of the free variable
			if u, ok := o.(*ssa.UnOp); ok && u.Op == token.MUL {
				if fv, ok := u.X.(*ssa.FreeVar); ok {
					par := fv.Parent().Parent()
					if par != nil && par.Object() != nil && par.Object().Exported() {
						for _, pa := range par.Params {
							if pa.Name() == fv.Name() && types.Identical(types.NewPointer(pa.Type()), fv.Type()) && !reassigned(par, pa) {
								return "parameter " + pa.Name() + " of " + par.Name()
							}
						}
					}
				}
			}
			switch x := o.(type) {
			case *ssa.Parameter:
				if f := x.Parent(); f.Object() != nil && f.Object().Exported() && f.Parent() == nil {
					return "parameter " + x.Name() + " of " + f.Name()
				}
			case *ssa.FreeVar:
				// a closure made in an exported function over one of its parameters
				par := x.Parent().Parent()
				if par == nil || par.Object() == nil || !par.Object().Exported() {
					continue
				}
				for _, pa := range par.Params {
					if pa.Name() == x.Name() && types.Identical(pa.Type(), x.Type()) {
						return "parameter " + pa.Name() + " of " + par.Name()
					}
				}
			}
		}
		return ""
	}
	n := 0
	var keys []fkey
	for k := range mutated {
		keys = append(keys, k)
	}
	sort.Slice(keys, func(i, j int) bool {
		if keys[i].nt.Obj().Name() != keys[j].nt.Obj().Name() {
			return keys[i].nt.Obj().Name() < keys[j].nt.Obj().Name()
		}
		return keys[i].idx < keys[j].idx
	})
	for _, k := range keys {
		stt := k.nt.Underlying().(*types.Struct)
		fname := k.nt.Obj().Name() + "." + stt.Field(k.idx).Name()
		for _, fn := range fns {
			kk := 0
			for _, s := range storesToField(fn, k.nt, k.idx) {
				n++
				kk++
				from := hostValue(s.Val)
				c.Check(from == "", core.SSAName(fn)+"|"+fname+"|own-copy|"+sprintf("%d", kk), p.Pos(s.Pos()),
					fn.Name()+" stores a slice in "+fname+", which is "+mutated[k]+ife(from == "", "; what it stores is not a slice the host handed in", "; what it stores is "+from+" itself: the repository writes into the host's slice, and two evaluations that were given the same slice race on it"))
			}
		}
	}
	if n == 0 {
		core.Undecidedf("no slice field that is written in place is assigned anywhere")
	}
	c.Stat("fields_written_in_place", len(keys))
	c.Stat("stores_to_those_fields", n)
}

// reassigned: the parameter, spilled to a local because a closure captures it,
// is stored to again after the initial spill.
func reassigned(fn *ssa.Function, pa *ssa.Parameter) bool {
	if pa.Referrers() == nil {
		return false
	}
	for _, r := range *pa.Referrers() {
		st, ok := r.(*ssa.Store)
		if !ok || st.Val != ssa.Value(pa) {
			continue
		}
		al, ok := st.Addr.(*ssa.Alloc)
		if !ok || al.Referrers() == nil {
			continue
		}
		stores := 0
		for _, r2 := range *al.Referrers() {
			if s2, ok := r2.(*ssa.Store); ok && s2.Addr == ssa.Value(al) {
				stores++
			}
		}
		return stores > 1
	}
	return false
}

// ---------------------------------------------------------------------------
// receiversAskTheChannel: whether a script channel has anything to deliver is
// known to the Go channel inside it and to nothing else.  A function that
// receives from it (directly, or through the Receive method) answers "nothing"
// (Nil, or a false second result) only where the receive has been made: an
// answer given in front of it, from a flag that Close set, says "closed and
// drained" for a channel that is closed and still holds values, and they are
// never delivered.
func receiversAskTheChannel(c *core.Ctx) {
	p := c.P
	op := p.Pkg("object")
	chanT := core.MustType(op, "Chan")
	nilG := op.Types.Scope().Lookup("Nil")
	// functions that receive from the Go channel of a Chan
	receives := map[*ssa.Function]bool{}
	fns := repoFns(p, "object")
	isChanField := func(v ssa.Value) bool {
		u, ok := v.(*ssa.UnOp)
		if !ok || u.Op != token.MUL {
			return false
		}
		fa, ok := u.X.(*ssa.FieldAddr)
		if !ok || core.NamedOf(fa.X.Type()) != chanT {
			return false
		}
		_, isChan := u.Type().Underlying().(*types.Chan)
		return isChan
	}
	recvInstr := func(fn *ssa.Function) []ssa.Instruction {
		var out []ssa.Instruction
		for _, b := range fn.Blocks {
			for _, in := range b.Instrs {
				switch x := in.(type) {
				case *ssa.Select:
					for _, st := range x.States {
						if st.Dir == types.RecvOnly && isChanField(st.Chan) {
							out = append(out, in)
						}
					}
				case *ssa.UnOp:
					if x.Op == token.ARROW && isChanField(x.X) {
						out = append(out, in)
					}
				case ssa.CallInstruction:
					if cal := x.Common().StaticCallee(); cal != nil && receives[cal] {
						out = append(out, in)
					}
				}
			}
		}
		return out
	}
	for changed := true; changed; {
		changed = false
		for _, fn := range fns {
			if !receives[fn] && len(recvInstr(fn)) > 0 {
				receives[fn] = true
				changed = true
			}
		}
	}
	n := 0
	for _, fn := range fns {
		if !receives[fn] {
			continue
		}
		rs := recvInstr(fn)
		k := 0
		for _, b := range fn.Blocks {
			ret, ok := b.Instrs[len(b.Instrs)-1].(*ssa.Return)
			if !ok || len(ret.Results) == 0 {
				continue
			}
			// the "nothing to deliver" answers: the Nil object, or (nil, false)
			nothing := false
			for _, o := range originsThroughInterfaces(spilledResult(b, ret.Results[0])) {
				if u, ok := o.(*ssa.UnOp); ok && u.Op == token.MUL {
					if g, ok := u.X.(*ssa.Global); ok && g.Object() == nilG {
						nothing = true
					}
				}
			}
			if len(ret.Results) == 2 {
				if cst, ok := spilledResult(b, ret.Results[1]).(*ssa.Const); ok && cst.Type().String() == "bool" && cst.Value != nil && cst.Value.String() == "false" {
					if c0, ok := spilledResult(b, ret.Results[0]).(*ssa.Const); ok && c0.IsNil() {
						nothing = true
					}
				}
			}
			if !nothing {
				continue
			}
			n++
			k++
			after := false
			for _, r := range rs {
				if r.Block() == b || r.Block().Dominates(b) {
					after = true
				}
			}
			c.Check(after, core.SSAName(fn)+"|nothing-only-after-receiving|"+sprintf("%d", k), p.Pos(ret.Pos()),
				fn.Name()+" receives from a script channel and can answer that there is nothing to deliver"+ife(after, "; that answer is given after the receive", "; at "+p.Pos(ret.Pos())+" it gives that answer without having received: a channel that was closed with values still buffered is reported as drained, and those values are never delivered (ch.receive() after close)"))
		}
	}
	if len(receives) < 2 {
		core.Undecidedf("only %d functions receive from a script channel", len(receives))
	}
	c.Stat("receiving_functions", len(receives))
	c.Stat("nothing_answers", n)
}

// ---------------------------------------------------------------------------
// rootsAreLoadedOnlyWhenAskedFor: a root code object (the main program, a
// module) gets its array of global variables when it is loaded, and it is
// loaded when it is about to run.  The code handed to a function that
// allocates such an array is the code its caller was asked to load, never one
// it derived itself as "the root of" some other code: loading a root on the
// side, because a function of it turned up in a VM that does not have it,
// gives the module a second set of globals that its top-level code never ran
// on (mod.count is 2, mod.get() is nil).
func rootsAreLoadedOnlyWhenAskedFor(c *core.Ctx) {
	p := c.P
	fns := repoFns(p, "vm")
	cp := p.Pkg("compiler")
	codeT := core.MustType(cp, "Code")
	// functions that allocate a globals array: a store of a fresh slice into a field named Globals
	allocates := map[*ssa.Function]bool{}
	for _, fn := range fns {
		for _, b := range fn.Blocks {
			for _, in := range b.Instrs {
				st, ok := in.(*ssa.Store)
				if !ok {
					continue
				}
				fa, ok := st.Addr.(*ssa.FieldAddr)
				if !ok {
					continue
				}
				stt, ok := derefStruct(fa.X.Type())
				if !ok || stt.Field(fa.Field).Name() != "Globals" {
					continue
				}
				for _, o := range core.Origins(st.Val) {
					if _, ok := o.(*ssa.MakeSlice); ok {
						allocates[fn] = true
					}
				}
			}
		}
	}
	if len(allocates) == 0 {
		core.Undecidedf("no function of package vm allocates a globals array")
	}
	// transitively (two levels): functions that pass their own code parameter on to one
	reach := map[*ssa.Function]bool{}
	for f := range allocates {
		reach[f] = true
	}
	for i := 0; i < 2; i++ {
		for _, fn := range fns {
			if reach[fn] {
				continue
			}
			for _, b := range fn.Blocks {
				for _, in := range b.Instrs {
					if ci, ok := in.(ssa.CallInstruction); ok {
						if cal := ci.Common().StaticCallee(); cal != nil && reach[cal] {
							for _, a := range ci.Common().Args {
								if pa, ok := a.(*ssa.Parameter); ok && core.NamedOf(pa.Type()) == codeT {
									reach[fn] = true
								}
							}
						}
					}
				}
			}
		}
	}
	n := 0
	for _, fn := range fns {
		k := 0
		for _, b := range fn.Blocks {
			for _, in := range b.Instrs {
				ci, ok := in.(ssa.CallInstruction)
				if !ok {
					continue
				}
				cal := ci.Common().StaticCallee()
				if cal == nil || !reach[cal] {
					continue
				}
				for _, a := range ci.Common().Args {
					if core.NamedOf(a.Type()) != codeT {
						continue
					}
					n++
					k++
					derived := ""
					for _, o := range core.Origins(a) {
						if call, ok := o.(*ssa.Call); ok {
							if rc := call.Call.StaticCallee(); rc != nil && rc.Name() == "Root" && rc.Signature.Recv() != nil && core.NamedOf(rc.Signature.Recv().Type()) == codeT {
								derived = p.Pos(call.Pos())
							}
						}
					}
					c.Check(derived == "", core.SSAName(fn)+"|"+cal.Name()+"|loads-the-code-it-was-asked-for|"+sprintf("%d", k), p.Pos(in.Pos()),
						fn.Name()+" has "+cal.Name()+" load a code object (and allocate its globals)"+ife(derived == "", "; the code is one it was handed, not one it worked out as the root of another", "; the code is what Root() returned at "+derived+": a root that is not loaded here is loaded on the side with a fresh array of globals, on which its top-level code never ran - the module then has two states in one evaluation"))
				}
			}
		}
	}
	if n < 3 {
		core.Undecidedf("only %d calls hand a code object to a function that allocates globals", n)
	}
	c.Stat("root_loading_calls", n)
}

// ---------------------------------------------------------------------------
// hashKeysTakeTheValueAsItIs: the slot of a value in a set or map is its hash
// key, and two values share a slot exactly when their keys are equal.  A
// HashKey method therefore hands over the value as it is: no conversion on
// the way can map two different values to one (an int64 to a float64: every
// int above 2^53 shares its key with a neighbour; a float to an int; an
// integer to a narrower one).
func hashKeysTakeTheValueAsItIs(c *core.Ctx) {
	p := c.P
	n := 0
	hkT := core.MustType(p.Pkg("object"), "HashKey")
	for _, fn := range repoFns(p, "object") {
		if fn.Parent() != nil {
			continue
		}
		if fn.Name() != "HashKey" || fn.Signature.Recv() == nil {
			// ... or any other function that makes a key itself (it fills
			// the fields of a HashKey): a lookup under a key made for the
			// occasion is held to the same standard
			makes := false
			for _, b := range fn.Blocks {
				for _, in := range b.Instrs {
					if st, ok := in.(*ssa.Store); ok {
						if fa, ok := st.Addr.(*ssa.FieldAddr); ok && core.NamedOf(fa.X.Type()) == hkT {
							if _, isK := st.Val.(*ssa.Const); !isK {
								makes = true
							}
						}
					}
				}
			}
			if !makes {
				continue
			}
		}
		n++
		bad := ""
		seen := map[*ssa.Function]bool{}
		var walk func(f *ssa.Function, d int)
		walk = func(f *ssa.Function, d int) {
			if seen[f] || f.Blocks == nil {
				return
			}
			seen[f] = true
			for _, b := range f.Blocks {
				for _, in := range b.Instrs {
					switch x := in.(type) {
					case *ssa.Convert:
						sb, ok1 := x.X.Type().Underlying().(*types.Basic)
						db, ok2 := x.Type().Underlying().(*types.Basic)
						if !ok1 || !ok2 {
							continue
						}
						if _, isK := x.X.(*ssa.Const); isK {
							continue
						}
						lossy := lossyIntegerConversion(x)
						if sb.Info()&types.IsInteger != 0 && db.Info()&types.IsFloat != 0 {
							if lo, hi, ok := intRange(sb); ok && (hi.BitLen() > 53 || lo.BitLen() > 53) {
								lossy = true
							}
						}
						if sb.Kind() == types.Float64 && db.Kind() == types.Float32 {
							lossy = true
						}
						if lossy {
							bad = "converts " + sb.Name() + " to " + db.Name() + " at " + p.Pos(x.Pos())
						}
					case ssa.CallInstruction:
						if cal := x.Common().StaticCallee(); cal != nil && core.RepoFunc(cal) && cal.Pkg == fn.Pkg && d < 2 && cal.Signature.Recv() == nil {
							walk(cal, d+1)
						}
					}
				}
			}
		}
		walk(fn, 0)
		c.Check(bad == "", core.SSAName(fn)+"|value-as-it-is", p.Pos(fn.Pos()),
			core.SSAName(fn)+ife(bad == "", " builds the key from the value without a conversion that loses information", " "+bad+" on the way to the key: different values get the same key and share one slot (len({9007199254740992, 9007199254740993}) == 1, and 9007199254740993 in {9007199254740992} holds)"))
	}
	if n < 5 {
		core.Undecidedf("only %d HashKey methods found", n)
	}
	c.Stat("hashkey_methods", n)
}

// ---------------------------------------------------------------------------
// errorObjectsAreNotDropped: a method of a script object reports failure by
// returning an *Error (as such, or as its Object result).  A call whose
// result is thrown away cannot notice: the operation did not happen and the
// caller goes on as if it had (delete(list, 7) on a three-item list written as
// "pop without a use for the value": the index error is dropped and the call
// succeeds with the list unchanged).  Calls of repository functions that can
// return an error object use their result.
func errorObjectsAreNotDropped(c *core.Ctx) {
	p := c.P
	all := repoFns(p)
	may := mayReturnErrorObjects(p)
	n := 0
	for _, fn := range all {
		k := map[string]int{}
		for _, b := range fn.Blocks {
			for _, in := range b.Instrs {
				call, ok := in.(*ssa.Call)
				if !ok {
					continue
				}
				cal := call.Call.StaticCallee()
				if cal == nil || !may[cal] {
					continue
				}
				n++
				used := call.Referrers() != nil && len(*call.Referrers()) > 0
				if used {
					continue
				}
				k[cal.Name()]++
				why, listed := droppedResultsJustified[core.SSAName(fn)+"|"+core.SSAName(cal)]
				c.Check(listed, core.SSAName(fn)+"|"+core.SSAName(cal)+"|result-used|"+sprintf("%d", k[cal.Name()]), p.Pos(call.Pos()),
					fn.Name()+" calls "+core.SSAName(cal)+", which reports failure through the error object it returns, and throws the result away"+ife(listed, ": "+why, ": a failure goes unnoticed and the caller carries on as if the operation had happened (an out-of-range delete that succeeds and leaves the list as it was)"))
			}
		}
	}
	if n < 50 {
		core.Undecidedf("only %d calls of functions that can return an error object", n)
	}
	c.Pass("repo|calls-that-can-return-an-error-object-examined", "", sprintf("%d calls of repository functions that can return an error object were examined", n))
	c.Stat("calls_that_can_return_an_error_object", n)
	c.Stat("functions_that_can_return_an_error_object", len(may))
}

// droppedResultsJustified: calls whose error-object result is deliberately not
// looked at, by caller and callee, with the reason.
var droppedResultsJustified = map[string]string{}

// ---------------------------------------------------------------------------
// failuresNotedInCallbacksStick: a comparison function handed to Go's sort is
// called many times and has no way to stop the sort; a failure is noted in a
// variable of the enclosing function and looked at afterwards.  The callback
// stores into such a variable only what it has tested to be a failure: stored
// unconditionally (noted = err), the next comparison that works wipes the
// failure out, and the sort "succeeds" with items it could not compare
// (sorted(["a", 1, 2]) returning ["a", 1, 2]).
func failuresNotedInCallbacksStick(c *core.Ctx) {
	p := c.P
	n := 0
	for _, fn := range repoFns(p) {
		for _, b := range fn.Blocks {
			for _, in := range b.Instrs {
				ci, ok := in.(ssa.CallInstruction)
				if !ok {
					continue
				}
				cal := ci.Common().StaticCallee()
				if cal == nil || cal.Pkg == nil || (cal.Pkg.Pkg.Path() != "sort" && cal.Pkg.Pkg.Path() != "slices") {
					continue
				}
				for _, a := range ci.Common().Args {
					mc, ok := a.(*ssa.MakeClosure)
					if !ok {
						continue
					}
					cb, _ := mc.Fn.(*ssa.Function)
					if cb == nil || cb.Blocks == nil {
						continue
					}
					k := 0
					for _, b2 := range cb.Blocks {
						for _, in2 := range b2.Instrs {
							st, ok := in2.(*ssa.Store)
							if !ok {
								continue
							}
							fv, ok := st.Addr.(*ssa.FreeVar)
							if !ok {
								continue
							}
							et := fv.Type().(*types.Pointer).Elem()
							if et.String() != "error" && !isErrorObjectPtr(p, et) {
								continue
							}
							n++
							k++
							tested := false
							if cst, isK := st.Val.(*ssa.Const); isK {
								tested = !cst.IsNil()
							} else {
								for _, b3 := range cb.Blocks {
									if len(b3.Instrs) == 0 {
										continue
									}
									iff, ok := b3.Instrs[len(b3.Instrs)-1].(*ssa.If)
									if !ok {
										continue
									}
									bo, ok := iff.Cond.(*ssa.BinOp)
									if !ok || (bo.Op != token.NEQ && bo.Op != token.EQL) {
										continue
									}
									if !(bo.X == st.Val || bo.Y == st.Val) || !(isNilValue(bo.X) || isNilValue(bo.Y)) {
										continue
									}
									s := b3.Succs[0]
									if bo.Op == token.EQL {
										s = b3.Succs[1]
									}
									if len(s.Preds) == 1 && (s == b2 || s.Dominates(b2)) {
										tested = true
									}
								}
								if _, fresh := st.Val.(*ssa.Call); fresh && !tested {
									// a freshly built error (fmt.Errorf(...)) is not nil
									if cal2 := st.Val.(*ssa.Call).Call.StaticCallee(); cal2 != nil && cal2.Pkg != nil && (cal2.Pkg.Pkg.Path() == "fmt" || cal2.Pkg.Pkg.Path() == "errors") {
										tested = true
									}
								}
							}
							c.Check(tested, core.SSAName(cb)+"|"+fv.Name()+"|noted-only-when-a-failure|"+sprintf("%d", k), p.Pos(st.Pos()),
								"the comparison function "+cb.Name()+" notes a failure in "+fv.Name()+" of "+fn.Name()+ife(tested, "; what it stores there is known to be a failure", "; it stores there whatever the last comparison returned, also nil: a comparison that fails is forgotten when a later one works, and the sort reports success (sorted([\"a\", 1, 2]) returns [\"a\", 1, 2])"))
						}
					}
				}
			}
		}
	}
	if n == 0 {
		c.Pass("repo|no-error-variable-written-by-a-sort-callback", "", "no comparison function handed to sort or slices stores into a captured error variable")
	}
	c.Stat("error_stores_in_sort_callbacks", n)
}

func isErrorObjectPtr(p *core.Program, t types.Type) bool {
	pt, ok := t.(*types.Pointer)
	return ok && core.NamedOf(pt.Elem()) == core.MustType(p.Pkg("object"), "Error")
}

// ---------------------------------------------------------------------------
// loadedScalarsComeFromTheirOwnDefinition: the loader builds every code object
// from its own stored definition.  A string, number or flag of the code object
// that is being built is not read off another code object (its parent): the
// compiler does not make that inference and the marshaller does not undo it,
// so the loaded code differs from the code that was stored, and marshalling
// it again gives other bytes (a file name inherited from the enclosing code on
// load only).
func loadedScalarsComeFromTheirOwnDefinition(c *core.Ctx) {
	p := c.P
	cp := p.Pkg("compiler")
	codeT := core.MustType(cp, "Code")
	stt := codeT.Underlying().(*types.Struct)
	isStored := func(t types.Type) bool {
		nt := core.NamedOf(t)
		return nt != nil && nt.Obj().Pkg() == cp.Types && (strings.HasSuffix(nt.Obj().Name(), "Def") || nt.Obj().Name() == "state")
	}
	n := 0
	for _, fn := range repoFns(p, "compiler") {
		// loader functions: read the stored form
		reads := false
		for _, b := range fn.Blocks {
			for _, in := range b.Instrs {
				if fa, ok := in.(*ssa.FieldAddr); ok && isStored(fa.X.Type()) {
					reads = true
				}
			}
		}
		if !reads {
			continue
		}
		k := map[string]int{}
		for _, b := range fn.Blocks {
			for _, in := range b.Instrs {
				st, ok := in.(*ssa.Store)
				if !ok {
					continue
				}
				fa, ok := st.Addr.(*ssa.FieldAddr)
				if !ok || core.NamedOf(fa.X.Type()) != codeT {
					continue
				}
				if _, basic := stt.Field(fa.Field).Type().Underlying().(*types.Basic); !basic {
					continue
				}
				n++
				fname := stt.Field(fa.Field).Name()
				k[fname]++
				from := ""
				for _, o := range core.Origins(st.Val) {
					u, ok := o.(*ssa.UnOp)
					if !ok || u.Op != token.MUL {
						continue
					}
					if fa2, ok := u.X.(*ssa.FieldAddr); ok && core.NamedOf(fa2.X.Type()) == codeT && !core.SameStorage(fa2.X, fa.X) && fa2.X != fa.X {
						from = "Code." + stt.Field(fa2.Field).Name() + " of another code object (" + p.Pos(u.Pos()) + ")"
					}
				}
				c.Check(from == "", core.SSAName(fn)+"|Code."+fname+"|from-its-own-definition|"+sprintf("%d", k[fname]), p.Pos(st.Pos()),
					fn.Name()+" sets Code."+fname+" of a code object it is loading"+ife(from == "", " without reading it off another code object", " from "+from+": the compiler does not derive the field that way and the marshaller does not undo it, so marshalling the loaded code gives other bytes than the ones it was loaded from"))
			}
		}
	}
	if n < 3 {
		core.Undecidedf("only %d stores to scalar fields of Code in functions that read the stored form", n)
	}
	c.Stat("scalar_code_fields_set_by_the_loader", n)
}

// ---------------------------------------------------------------------------
// rollbackOnlyTakesAway: a type that can be rolled back has a method that
// takes a snapshot and one that is given the snapshot and returns the value
// to that state (the symbol table and the code object, after a piece that
// the compiler rejected).  Everything that was in the tables when the
// snapshot was taken is still there - compilation only adds - so going back
// means cutting slices to their old length and deleting map entries that are
// newer.  The method that goes back builds no table anew and enters nothing
// that does not come out of the snapshot: an index rebuilt from the items
// that remain is a different index when not every item was in it (variables
// of nested blocks claim a slot in the root table without being named there;
// rebuilt, `if true { x := 2 }` makes x the global after any rejected piece).
func rollbackOnlyTakesAway(c *core.Ctx) {
	p := c.P
	cp := p.Pkg("compiler")
	fns := repoFns(p, "compiler")
	// snapshot types: struct types of the package returned by a method without parameters
	snapOf := map[*types.Named]*types.Named{} // snapshot type -> owner
	for _, fn := range fns {
		if fn.Signature.Recv() == nil || fn.Parent() != nil || fn.Signature.Params().Len() != 0 || fn.Signature.Results().Len() != 1 {
			continue
		}
		rt := core.NamedOf(fn.Signature.Results().At(0).Type())
		if rt == nil || rt.Obj().Pkg() != cp.Types {
			continue
		}
		if _, isStruct := rt.Underlying().(*types.Struct); !isStruct {
			continue
		}
		if _, isPtr := fn.Signature.Results().At(0).Type().(*types.Pointer); isPtr {
			continue
		}
		snapOf[rt] = core.NamedOf(fn.Signature.Recv().Type())
	}
	n := 0
	for _, fn := range fns {
		if fn.Signature.Recv() == nil || fn.Parent() != nil || fn.Signature.Params().Len() != 1 {
			continue
		}
		owner := core.NamedOf(fn.Signature.Recv().Type())
		pt := core.NamedOf(fn.Signature.Params().At(0).Type())
		if pt == nil || snapOf[pt] != owner || owner == nil {
			continue
		}
		n++
		snap := fn.Params[1]
		fromSnap := func(v ssa.Value) bool {
			return core.DependsOn(v, func(w ssa.Value) bool { return w == ssa.Value(snap) })
		}
		bad := ""
		for _, b := range fn.Blocks {
			for _, in := range b.Instrs {
				switch x := in.(type) {
				case *ssa.MapUpdate:
					// the tables of the value that is rolled back, not the method's scratch maps
					own := false
					for _, o := range core.Origins(x.Map) {
						if u, ok := o.(*ssa.UnOp); ok && u.Op == token.MUL {
							if fa, ok := u.X.(*ssa.FieldAddr); ok && core.NamedOf(fa.X.Type()) == owner {
								own = true
							}
						}
					}
					if own && !fromSnap(x.Value) && !fromSnap(x.Key) {
						bad = "enters something in a map at " + p.Pos(x.Pos()) + " that does not come out of the snapshot"
					}
				case *ssa.Store:
					fa, ok := x.Addr.(*ssa.FieldAddr)
					if !ok || core.NamedOf(fa.X.Type()) != owner {
						continue
					}
					for _, o := range core.Origins(x.Val) {
						switch o.(type) {
						case *ssa.MakeMap, *ssa.MakeSlice:
							bad = "builds " + owner.Obj().Name() + "." + fieldNameOf(owner, fa.Field) + " anew at " + p.Pos(x.Pos())
						}
					}
				}
			}
		}
		c.Check(bad == "", core.SSAName(fn)+"|only-takes-away", p.Pos(fn.Pos()),
			core.SSAName(fn)+" returns a "+owner.Obj().Name()+" to a snapshot"+ife(bad == "", " by cutting back and deleting", "; it "+bad+": what is rebuilt from the items that remain is not what was there before when some of them were never entered (block variables claim a slot in the root symbol table without a name there; after a rejected piece `x := 1; if true { x := 2 }` reads x as 2)"))
	}
	if n < 2 {
		core.Undecidedf("only %d snapshot/rollback method pairs found in package compiler", n)
	}
	c.Stat("rollback_methods", n)
}

// ---------------------------------------------------------------------------
// moduleFunctionsCallTheirNamesake: the modules that carry the name of a Go
// standard package (strings, bytes, math, filepath, strconv, ...) give scripts
// that package's functions.  A builtin of such a module that bears the name of
// an exported function of the Go package calls that function (itself or
// through a helper of the module).  The ones that cannot, because the Go
// function reaches the real process, are listed with what they do instead,
// and that is checked for each (filepath.abs joins with the host OS's working
// directory; every path it returns has been through Clean or Join, as every
// result of Go's Abs has).
var moduleFunctionsIndependent = map[string]string{
	"modules/filepath.Abs":     "Go's Abs asks the real process for its working directory; the module asks the host OS and must return only cleaned paths (checked)",
	"modules/filepath.WalkDir": "Go's WalkDir walks the real file system; the module walks the host OS",
}

func moduleFunctionsCallTheirNamesake(c *core.Ctx) {
	p := c.P
	n := 0
	for _, pk := range p.Pkgs {
		rel := core.RelPkg(pk.Types)
		if !strings.HasPrefix(rel, "modules/") || strings.Count(rel, "/") != 1 {
			continue
		}
		base := strings.TrimPrefix(rel, "modules/")
		// the modules that wrap a computing package of the standard library (the ones that stand
		// between scripts and the process - os, fmt, http, time, rand - answer through the host OS
		// or differ by design)
		if !wrapsAComputingPackage[base] {
			continue
		}
		var gopkg *types.Package
		for _, im := range pk.Types.Imports() {
			if im.Name() == base && !strings.Contains(im.Path(), ".") {
				gopkg = im
			}
		}
		if gopkg == nil {
			continue
		}
		sp := p.SSAPkg(pk)
		if sp == nil {
			continue
		}
		var names []string
		for name := range sp.Members {
			names = append(names, name)
		}
		sort.Strings(names)
		for _, name := range names {
			fn, ok := sp.Members[name].(*ssa.Function)
			if !ok || fn.Blocks == nil || strings.HasSuffix(p.Fset.Position(fn.Pos()).Filename, "_test.go") {
				continue
			}
			target, _ := gopkg.Scope().Lookup(name).(*types.Func)
			if target == nil || !target.Exported() {
				continue
			}
			// builtins only: (ctx, ...Object) Object
			if fn.Signature.Params().Len() != 2 || !fn.Signature.Variadic() {
				continue
			}
			n++
			key := rel + "." + name
			calls := false
			seen := map[*ssa.Function]bool{}
			var walk func(f *ssa.Function, d int)
			walk = func(f *ssa.Function, d int) {
				if seen[f] || f.Blocks == nil {
					return
				}
				seen[f] = true
				for _, b := range f.Blocks {
					for _, in := range b.Instrs {
						if ci, ok := in.(ssa.CallInstruction); ok {
							cal := ci.Common().StaticCallee()
							if cal == nil {
								continue
							}
							if cal.Object() == types.Object(target) {
								calls = true
							}
							// the variant of the same function for strings (a script has strings: regexp.MatchString for Match)
							if cal.Pkg != nil && cal.Pkg.Pkg == gopkg && cal.Name() == name+"String" {
								calls = true
							}
							if cal.Pkg == fn.Pkg && d < 2 {
								walk(cal, d+1)
							}
						}
						if mc, ok := in.(*ssa.MakeClosure); ok && d < 2 {
							if cf, ok := mc.Fn.(*ssa.Function); ok {
								walk(cf, d+1)
							}
						}
					}
				}
			}
			walk(fn, 0)
			if why, ok := moduleFunctionsIndependent[key]; ok && !calls {
				okAlt, what := true, ""
				if key == "modules/filepath.Abs" {
					okAlt, what = returnsOnlyCleanedPaths(p, fn)
				}
				c.Check(okAlt, key+"|calls-its-namesake", p.Pos(fn.Pos()),
					base+"."+name+" is listed as implemented independently: "+why+ife(okAlt, "", "; "+what))
				continue
			}
			c.Check(calls, key+"|calls-its-namesake", p.Pos(fn.Pos()),
				"the builtin "+name+" of module "+base+ife(calls, " calls "+gopkg.Path()+"."+name, " does not call "+gopkg.Path()+"."+name+": it answers by other means, which agree with Go only where those means and the Go function agree"))
		}
	}
	if n < 30 {
		core.Undecidedf("only %d module builtins are named after a function of the Go package they wrap", n)
	}
	c.Stat("module_namesakes", n)
}

// returnsOnlyCleanedPaths: every string handed to object.NewString in fn comes
// out of path/filepath's Clean or Join.
func returnsOnlyCleanedPaths(p *core.Program, fn *ssa.Function) (bool, string) {
	found := 0
	for _, b := range fn.Blocks {
		for _, in := range b.Instrs {
			call, ok := in.(*ssa.Call)
			if !ok {
				continue
			}
			cal := call.Call.StaticCallee()
			if cal == nil || cal.Name() != "NewString" || len(call.Call.Args) != 1 {
				continue
			}
			found++
			for _, o := range core.Origins(call.Call.Args[0]) {
				oc, ok := o.(*ssa.Call)
				if !ok {
					return false, "the string returned at " + p.Pos(call.Pos()) + " has not been through filepath.Clean or filepath.Join (\"/usr/lib/\" comes back as it is; Go gives \"/usr/lib\")"
				}
				c2 := oc.Call.StaticCallee()
				if c2 == nil || c2.Pkg == nil || c2.Pkg.Pkg.Path() != "path/filepath" || (c2.Name() != "Clean" && c2.Name() != "Join") {
					return false, "the string returned at " + p.Pos(call.Pos()) + " has not been through filepath.Clean or filepath.Join (\"/usr/lib/\" comes back as it is; Go gives \"/usr/lib\")"
				}
			}
		}
	}
	if found == 0 {
		return false, "it returns no string"
	}
	return true, ""
}

var wrapsAComputingPackage = map[string]bool{"strings": true, "strconv": true, "math": true, "bytes": true, "base64": true, "filepath": true, "regexp": true}

// ---------------------------------------------------------------------------
// theConfigurationIsAppliedAsAWhole: a risor.Config describes the whole
// environment of an evaluation: its globals, importer, OS, and whether threads
// are allowed.  The VM keeps what options set until other options set it
// again, so the options that a Config produces for the VM cover every field of
// the environment on every path, also where the Config has nothing to say
// (no globals, no importer, no concurrency): otherwise an evaluation on a VM
// that was used before runs with what the earlier Config left there
// (WithoutDefaultGlobals() after a default evaluation still finds os; import
// works without an importer; spawn works without WithConcurrency).
var notPartOfTheEnvironment = map[string]string{
	"ip":           "the position in the code, set by WithInstructionOffset for a REPL-style resume; not part of a Config",
	"globalsGiven": "scratch flag of one application of options",
	"os":           "a Config that names no OS leaves the VM the one it has: the alternative, setting it to nil, sends a VM that was made with vm.WithOS(sandbox) to the OS of the process as soon as it is used through risor.Eval (C12 asks for the opposite); found by a wave-13 agent after D124 had made the option unconditional",
}

func theConfigurationIsAppliedAsAWhole(c *core.Ctx) {
	p := c.P
	vmT := vmType(p)
	st, _ := vmT.Underlying().(*types.Struct)
	optT := core.MustType(p.Pkg("vm"), "Option")
	// option constructors, by the field their closure writes
	ctorWrites := map[*ssa.Function]map[int]bool{}
	fields := map[int]bool{}
	for _, fn := range repoFns(p, "vm") {
		if fn.Parent() == nil || fn.Signature.Params().Len() != 1 || core.NamedOf(fn.Signature.Params().At(0).Type()) != vmT {
			continue
		}
		par := fn.Parent()
		if par.Signature.Results().Len() != 1 || core.NamedOf(par.Signature.Results().At(0).Type()) != optT {
			continue
		}
		for _, b := range fn.Blocks {
			for _, in := range b.Instrs {
				var fa *ssa.FieldAddr
				switch x := in.(type) {
				case *ssa.Store:
					fa, _ = x.Addr.(*ssa.FieldAddr)
				case *ssa.MapUpdate:
					if u, ok := x.Map.(*ssa.UnOp); ok {
						fa, _ = u.X.(*ssa.FieldAddr)
					}
				}
				if fa == nil || core.NamedOf(fa.X.Type()) != vmT {
					continue
				}
				if _, skip := notPartOfTheEnvironment[st.Field(fa.Field).Name()]; skip {
					continue
				}
				if ctorWrites[par] == nil {
					ctorWrites[par] = map[int]bool{}
				}
				ctorWrites[par][fa.Field] = true
				fields[fa.Field] = true
			}
		}
	}
	if len(fields) < 3 {
		core.Undecidedf("only %d environment fields are written by VM options", len(fields))
	}
	var producer *ssa.Function
	for _, fn := range repoFns(p, ".") {
		if fn.Name() == "VMOpts" && fn.Signature.Recv() != nil {
			producer = fn
		}
	}
	if producer == nil {
		core.Undecidedf("Config.VMOpts not found")
	}
	var fl []int
	for f := range fields {
		fl = append(fl, f)
	}
	sort.Ints(fl)
	for _, f := range fl {
		// blocks that call a constructor writing f
		with := map[*ssa.BasicBlock]bool{}
		for _, b := range producer.Blocks {
			for _, in := range b.Instrs {
				if ci, ok := in.(ssa.CallInstruction); ok {
					if cal := ci.Common().StaticCallee(); cal != nil && ctorWrites[cal][f] {
						with[b] = true
					}
				}
			}
		}
		// a path from the entry to a return that avoids them all
		avoid := false
		seen := map[*ssa.BasicBlock]bool{}
		var walk func(b *ssa.BasicBlock)
		walk = func(b *ssa.BasicBlock) {
			if seen[b] || with[b] {
				return
			}
			seen[b] = true
			if _, ok := b.Instrs[len(b.Instrs)-1].(*ssa.Return); ok {
				avoid = true
			}
			for _, s := range b.Succs {
				walk(s)
			}
		}
		walk(producer.Blocks[0])
		name := st.Field(f).Name()
		c.Check(!avoid, "risor.Config.VMOpts|"+name+"|set-on-every-path", p.Pos(producer.Pos()),
			"Config.VMOpts"+ife(!avoid, " produces an option that sets VirtualMachine."+name+" whatever the Config says about it", " can return without an option that sets VirtualMachine."+name+": a VM that was used before keeps what the earlier Config put there (risor.Eval(.., WithVM(m), WithoutDefaultGlobals()) after a default evaluation on m still reaches os; import works although this Config has no importer)"))
	}
	c.Stat("environment_fields", len(fl))
	// the OS is only ever set to something: an option that would set it to nil is not produced
	osIdx := fieldIdxByName(vmT, "os")
	for _, b := range producer.Blocks {
		for _, in := range b.Instrs {
			call, ok := in.(*ssa.Call)
			if !ok {
				continue
			}
			cal := call.Call.StaticCallee()
			if cal == nil || len(call.Call.Args) != 1 {
				continue
			}
			writesOS := false
			for _, an := range cal.AnonFuncs {
				for _, st := range storesToField(an, vmT, osIdx) {
					_ = st
					writesOS = true
				}
			}
			if !writesOS {
				continue
			}
			arg := call.Call.Args[0]
			guarded := false
			for _, b2 := range producer.Blocks {
				iff, ok := b2.Instrs[len(b2.Instrs)-1].(*ssa.If)
				if !ok {
					continue
				}
				bo, ok := iff.Cond.(*ssa.BinOp)
				if !ok || (bo.Op != token.NEQ && bo.Op != token.EQL) || !(isNilValue(bo.X) || isNilValue(bo.Y)) {
					continue
				}
				if !(bo.X == arg || bo.Y == arg || core.SameStorage(bo.X, arg) || core.SameStorage(bo.Y, arg)) {
					continue
				}
				nn := b2.Succs[0]
				if bo.Op == token.EQL {
					nn = b2.Succs[1]
				}
				if nn == b || nn.Dominates(b) {
					guarded = true
				}
			}
			c.Check(guarded, "risor.Config.VMOpts|os|set-only-to-an-OS", p.Pos(call.Pos()),
				"Config.VMOpts produces the option that sets the VM's OS"+ife(guarded, " only where the Config names one", " also where the Config names none: a VM that was made with an OS of its own (vm.WithOS(sandbox)) is set back to the OS of the process by the first risor.Eval on it"))
		}
	}
}

// ---------------------------------------------------------------------------
// theVMInstallsItsOwnContextValuesOnEveryPath: the context that builtins see
// carries the functions through which they reach "their" VM (call a function,
// spawn a thread, clone and call) and the OS.  A VM may run inside a builtin of
// another VM, on that VM's context; whatever it does not overwrite it
// inherits.  The function that prepares the context therefore sets each of
// these values on every path, also where the VM has nothing to offer (no
// concurrency): an evaluation that was not given WithConcurrency could spawn
// all the same, on the outer VM and under the outer VM's OS.
func theVMInstallsItsOwnContextValuesOnEveryPath(c *core.Ctx) {
	p := c.P
	n := 0
	for _, fn := range repoFns(p, "vm") {
		// setters called in this function: func(ctx, x) context.Context of object or os
		setters := map[*ssa.Function][]*ssa.BasicBlock{}
		for _, b := range fn.Blocks {
			for _, in := range b.Instrs {
				call, ok := in.(*ssa.Call)
				if !ok {
					continue
				}
				cal := call.Call.StaticCallee()
				if cal == nil || !core.RepoFunc(cal) || cal.Signature.Recv() != nil || cal.Signature.Params().Len() != 2 || cal.Signature.Results().Len() != 1 {
					continue
				}
				if !core.IsNamed(cal.Signature.Params().At(0).Type(), "context", "Context") || !core.IsNamed(cal.Signature.Results().At(0).Type(), "context", "Context") {
					continue
				}
				if !strings.HasPrefix(cal.Name(), "With") {
					continue
				}
				setters[cal] = append(setters[cal], b)
			}
		}
		if len(setters) < 3 {
			continue
		}
		var cs []*ssa.Function
		for s := range setters {
			cs = append(cs, s)
		}
		sort.Slice(cs, func(i, j int) bool { return cs[i].Name() < cs[j].Name() })
		for _, s := range cs {
			with := map[*ssa.BasicBlock]bool{}
			for _, b := range setters[s] {
				with[b] = true
			}
			avoid := false
			seen := map[*ssa.BasicBlock]bool{}
			var walk func(b *ssa.BasicBlock)
			walk = func(b *ssa.BasicBlock) {
				if seen[b] || with[b] {
					return
				}
				seen[b] = true
				if _, ok := b.Instrs[len(b.Instrs)-1].(*ssa.Return); ok {
					avoid = true
				}
				for _, sc := range b.Succs {
					walk(sc)
				}
			}
			walk(fn.Blocks[0])
			n++
			c.Check(!avoid, core.SSAName(fn)+"|"+s.Name()+"|on-every-path", p.Pos(fn.Pos()),
				fn.Name()+" prepares the context for builtins"+ife(!avoid, " and calls "+s.Name()+" on every path", "; "+s.Name()+" is called on some paths only: on the others the context keeps the value of whichever VM prepared it before (an evaluation inside a builtin of another VM spawns threads on that VM, under that VM's OS, although it was not given WithConcurrency itself)"))
		}
	}
	if n < 3 {
		core.Undecidedf("no function of package vm installs three or more context values")
	}
	c.Stat("context_values_installed", n)
}

// acceptedKinds: the types to which fn asserts its parameter pi (itself or in
// helpers of package object that it hands the parameter to).
func acceptedKinds(objPkg *types.Package, fn *ssa.Function, pi int, d int, out map[string]bool) {
	if fn.Blocks == nil || pi >= len(fn.Params) {
		return
	}
	par := fn.Params[pi]
	vals := map[ssa.Value]bool{par: true}
	// the parameter may be re-bound by a type switch (x := x.(type))
	for _, b := range fn.Blocks {
		for _, in := range b.Instrs {
			switch x := in.(type) {
			case *ssa.TypeAssert:
				if vals[x.X] {
					out[shortType(x.AssertedType)] = true
				}
			case ssa.CallInstruction:
				cal := x.Common().StaticCallee()
				if cal == nil || cal.Pkg == nil || cal.Pkg.Pkg != objPkg || d >= 2 {
					continue
				}
				for ai, a := range x.Common().Args {
					if vals[a] {
						acceptedKinds(objPkg, cal, ai, d+1, out)
					}
				}
			}
		}
	}
}

// producedKinds: the object types that fn can return as its first result,
// by the constructors (New...) whose results reach a return.
func producedKinds(objPkg *types.Package, fn *ssa.Function, d int, out map[string]ssa.Instruction) {
	if fn.Blocks == nil {
		return
	}
	for _, b := range fn.Blocks {
		ret, ok := b.Instrs[len(b.Instrs)-1].(*ssa.Return)
		if !ok || len(ret.Results) == 0 {
			continue
		}
		for _, o := range originsThroughInterfaces(spilledResult(b, ret.Results[0])) {
			call, ok := o.(*ssa.Call)
			if !ok {
				if ex, isEx := o.(*ssa.Extract); isEx && ex.Index == 0 {
					call, ok = ex.Tuple.(*ssa.Call)
				}
			}
			if !ok {
				continue
			}
			cal := call.Call.StaticCallee()
			if cal == nil || cal.Pkg == nil || cal.Pkg.Pkg != objPkg {
				continue
			}
			rt := cal.Signature.Results()
			if rt.Len() == 0 {
				continue
			}
			if strings.HasPrefix(cal.Name(), "New") && cal.Signature.Recv() == nil {
				if _, isPtr := rt.At(0).Type().(*types.Pointer); isPtr {
					out[shortType(rt.At(0).Type())] = call
					continue
				}
			}
			if cal.Signature.Recv() == nil && d < 2 {
				producedKinds(objPkg, cal, d+1, out)
			}
		}
	}
}

// ---------------------------------------------------------------------------
// membershipAcceptsWhatIterationYields: `x in c` agrees with iterating over c
// and comparing.  A container whose Contains looks at the kind of its argument
// (rather than comparing it with every item through Equals) accepts at least
// the kind of object that its own iterator hands out: a byte_slice yields
// bytes, so a byte can be a member.  Contains that does not know the kind its
// iterator yields answers false for every item of the container.
func membershipAcceptsWhatIterationYields(c *core.Ctx) {
	p := c.P
	op := p.Pkg("object")
	objPkg := op.Types
	convFrom := map[*types.Named]*ssa.Function{}
	_, from := converterMethods(p)
	for _, f := range from {
		convFrom[core.NamedOf(f.Signature.Recv().Type())] = f
	}
	n := 0
	byType := map[*types.Named]map[string]*ssa.Function{}
	for _, fn := range repoFns(p, "object") {
		if fn.Signature.Recv() == nil || fn.Parent() != nil {
			continue
		}
		if fn.Name() != "Contains" && fn.Name() != "Iter" {
			continue
		}
		nt := core.NamedOf(fn.Signature.Recv().Type())
		if byType[nt] == nil {
			byType[nt] = map[string]*ssa.Function{}
		}
		byType[nt][fn.Name()] = fn
	}
	var nts []*types.Named
	for nt, ms := range byType {
		if ms["Contains"] != nil && ms["Iter"] != nil {
			nts = append(nts, nt)
		}
	}
	sort.Slice(nts, func(i, j int) bool { return nts[i].Obj().Name() < nts[j].Obj().Name() })
	for _, nt := range nts {
		acc := map[string]bool{}
		acceptedKinds(objPkg, byType[nt]["Contains"], 1, 0, acc)
		if len(acc) == 0 {
			continue // compares with every item
		}
		// what the iterator yields: the converter the iterator is given, or the constructors in its Next
		yields := map[string]ssa.Instruction{}
		it := byType[nt]["Iter"]
		for _, b := range it.Blocks {
			for _, in := range b.Instrs {
				switch x := in.(type) {
				case *ssa.MakeInterface:
					if cn := core.NamedOf(x.X.Type()); cn != nil && convFrom[cn] != nil {
						producedKinds(objPkg, convFrom[cn], 0, yields)
					}
				case *ssa.Call:
					if cal := x.Call.StaticCallee(); cal != nil && cal.Pkg != nil && cal.Pkg.Pkg == objPkg && cal.Signature.Results().Len() > 0 {
						if itn := core.NamedOf(cal.Signature.Results().At(0).Type()); itn != nil {
							for _, m := range core.Methods(itn) {
								if m.Name() == "Next" {
									if sf := p.SSAFunc(m); sf != nil {
										producedKinds(objPkg, sf, 0, yields)
									}
								}
							}
						}
					}
				}
			}
		}
		var ks []string
		for k := range yields {
			ks = append(ks, k)
		}
		sort.Strings(ks)
		for _, k := range ks {
			n++
			var accs []string
			for a := range acc {
				accs = append(accs, a)
			}
			sort.Strings(accs)
			c.Check(acc[k], "object."+nt.Obj().Name()+"|yields:"+k+"|accepted-by-Contains", p.Pos(byType[nt]["Contains"].Pos()),
				"iterating over a "+nt.Obj().Name()+" yields "+k+ife(acc[k], ", which its Contains accepts", ", which its Contains does not accept (it takes "+strings.Join(accs, ", ")+"): `x in c` is false for every x that `for x in c` produces (byte(97) in byte_slice(\"abc\") is false)"))
		}
	}
	if n < 2 {
		core.Undecidedf("only %d (container, yielded kind) pairs found", n)
	}
	c.Stat("container_yield_kinds", n)
}

// ---------------------------------------------------------------------------
// verdictsAboutAModuleNameTheModule: importing a module runs its code, which
// may import other modules; an error that says "the importer has no such
// module" can therefore come from any depth.  Where the VM looks for such an
// error with errors.As in order to try something else (the name may be an
// attribute of the parent module), it also looks at which module the error is
// about: without that, a module that exists and fails because something it
// imports is missing is taken to be missing itself, its failure is swallowed,
// and the attribute of the same name is handed out instead.
func verdictsAboutAModuleNameTheModule(c *core.Ctx) {
	p := c.P
	cg := p.CallGraph()
	n := 0
	for _, fn := range repoFns(p, "vm") {
		k := 0
		for _, b := range fn.Blocks {
			for _, in := range b.Instrs {
				call, ok := in.(*ssa.Call)
				if !ok {
					continue
				}
				cal := call.Call.StaticCallee()
				if cal == nil || cal.Name() != "As" || cal.Pkg == nil || cal.Pkg.Pkg.Path() != "errors" || len(call.Call.Args) != 2 {
					continue
				}
				// the target: &local of type *T, T a struct of this package
				var target *ssa.Alloc
				for _, o := range originsThroughInterfaces(call.Call.Args[1]) {
					if al, ok := o.(*ssa.Alloc); ok {
						target = al
					}
				}
				if target == nil {
					continue
				}
				pt, ok := target.Type().(*types.Pointer).Elem().(*types.Pointer)
				if !ok {
					continue
				}
				nt := core.NamedOf(pt.Elem())
				if nt == nil || nt.Obj().Pkg() == nil || core.RelPkg(nt.Obj().Pkg()) != "vm" {
					continue
				}
				// is the error type built by a function that (transitively) runs this function again?
				recursive := false
				for _, g := range repoFns(p, "vm") {
					builds := false
					for _, b2 := range g.Blocks {
						for _, in2 := range b2.Instrs {
							if al, ok := in2.(*ssa.Alloc); ok && core.NamedOf(al.Type().(*types.Pointer).Elem()) == nt {
								builds = true
							}
						}
					}
					if builds && cg.Nodes[g] != nil && cg.Nodes[fn] != nil && reachesFunc(cg, g, fn, 6) && reachesFunc(cg, fn, g, 6) {
						recursive = true
					}
				}
				if !recursive {
					continue
				}
				n++
				k++
				// a field of the found error is compared with something
				compared := false
				if target.Referrers() != nil {
					for _, r := range *target.Referrers() {
						ld, ok := r.(*ssa.UnOp)
						if !ok || ld.Referrers() == nil {
							continue
						}
						for _, r2 := range *ld.Referrers() {
							fa, ok := r2.(*ssa.FieldAddr)
							if !ok || fa.Referrers() == nil {
								continue
							}
							for _, r3 := range *fa.Referrers() {
								if fl, ok := r3.(*ssa.UnOp); ok && fl.Referrers() != nil {
									for _, r4 := range *fl.Referrers() {
										if bo, ok := r4.(*ssa.BinOp); ok && (bo.Op == token.EQL || bo.Op == token.NEQ) {
											compared = true
										}
									}
								}
							}
						}
					}
				}
				c.Check(compared, core.SSAName(fn)+"|errors.As:"+nt.Obj().Name()+"|names-the-module|"+sprintf("%d", k), p.Pos(call.Pos()),
					fn.Name()+" looks for a "+nt.Obj().Name()+" in an error that may come from any depth of nested imports"+ife(compared, " and compares what the error is about with what it asked for", " and does not look at which module the error is about: `from a import b`, where a/b.risor exists and fails on `import missing`, swallows the failure and binds the attribute a.b instead"))
			}
		}
	}
	if n == 0 {
		core.Undecidedf("the VM looks for no error type of its own with errors.As across nested imports")
	}
	c.Stat("errors_as_sites_across_recursion", n)
}

// ---------------------------------------------------------------------------
// recursionOverGoTypesIsGuarded: the converter for a Go type is built from the
// converters of the types it is made of (element, key, field).  A Go type can
// be made of itself (type Tree []Tree, type M map[string]M); a function that
// takes a reflect.Type and reaches itself again through the construction of
// converters notes the types it is working on and refuses one that it meets
// again, or the native stack is exhausted, which ends the process
// (WithGlobal("x", Tree{})).
func recursionOverGoTypesIsGuarded(c *core.Ctx) {
	p := c.P
	cg := p.CallGraph()
	n := 0
	isReflectType := func(t types.Type) bool { return core.IsNamed(t, "reflect", "Type") }
	guardedFns := map[*ssa.Function]bool{}
	var cands []*ssa.Function
	for _, fn := range repoFns(p, "object") {
		if fn.Parent() != nil || fn.Signature.Recv() != nil || fn.Signature.Params().Len() == 0 || !isReflectType(fn.Signature.Params().At(0).Type()) {
			continue
		}
		if cg.Nodes[fn] == nil || !reachesFunc(cg, fn, fn, 5) {
			continue
		}
		// only the function that looks the memo up first (the entry of the cycle): it reads a package-level map keyed by reflect.Type
		readsMemo := false
		guard := false
		for _, b := range fn.Blocks {
			for _, in := range b.Instrs {
				lk, ok := in.(*ssa.Lookup)
				if !ok || !lk.CommaOk && false {
					continue
				}
				u, ok := lk.X.(*ssa.UnOp)
				if !ok {
					continue
				}
				g, ok := u.X.(*ssa.Global)
				if !ok {
					continue
				}
				mt, ok := g.Type().(*types.Pointer).Elem().Underlying().(*types.Map)
				if !ok || !isReflectType(mt.Key()) {
					continue
				}
				readsMemo = true
				// a table of types in progress: also written in this function, and deleted from
				wr, del := false, false
				for _, b2 := range fn.Blocks {
					for _, in2 := range b2.Instrs {
						switch x := in2.(type) {
						case *ssa.MapUpdate:
							if u2, ok := x.Map.(*ssa.UnOp); ok && u2.X == ssa.Value(g) {
								wr = true
							}
						}
					}
				}
				for _, f2 := range append([]*ssa.Function{fn}, fn.AnonFuncs...) {
					for _, b2 := range f2.Blocks {
						for _, in2 := range b2.Instrs {
							if ci, ok := in2.(ssa.CallInstruction); ok {
								if bi, ok := ci.Common().Value.(*ssa.Builtin); ok && bi.Name() == "delete" {
									for _, o := range core.Origins(ci.Common().Args[0]) {
										if u3, ok := o.(*ssa.UnOp); ok && u3.X == ssa.Value(g) {
											del = true
										}
									}
								}
							}
						}
					}
				}
				if wr && del {
					guard = true
				}
			}
		}
		if !readsMemo {
			continue
		}
		guardedFns[fn] = guard
		cands = append(cands, fn)
	}
	for _, fn := range cands {
		guard := guardedFns[fn]
		if !guard {
			// every way back to this function passes through one that keeps the table
			seen := map[*ssa.Function]bool{}
			back := false
			var walk func(f *ssa.Function, d int)
			walk = func(f *ssa.Function, d int) {
				if d > 6 || back {
					return
				}
				nd := cg.Nodes[f]
				if nd == nil {
					return
				}
				for _, e := range nd.Out {
					if e.Callee == nil || e.Callee.Func == nil || !core.RepoFunc(e.Callee.Func) {
						continue
					}
					g := e.Callee.Func
					if g == fn {
						back = true
						return
					}
					if guardedFns[g] || seen[g] {
						continue
					}
					seen[g] = true
					walk(g, d+1)
				}
			}
			walk(fn, 0)
			if !back {
				continue
			}
		}
		n++
		c.Check(guard, core.SSAName(fn)+"|types-in-progress-are-refused", p.Pos(fn.Pos()),
			fn.Name()+" builds the converter of a Go type from the converters of its parts and can reach itself"+ife(guard, "; it keeps a table of the types it is working on (entered before, deleted after) and looks a type up there", "; nothing notes the types that are being worked on: a type that is made of itself (type Tree []Tree) recurses until the native stack is exhausted, which ends the process"))
	}
	if n == 0 {
		core.Undecidedf("no function of package object recurses over reflect.Type behind a memo table")
	}
	c.Stat("type_recursions", n)
}

// ---------------------------------------------------------------------------
// formatArgumentsHaveADefinedText: text that a script can see (a message, the
// string form of an object) is made with Printf-style formatting in many
// places.  What is handed to the format as an argument has a text of its own:
// a script object goes through PrintableValue (or its Inspect/String), never
// through Interface(), which for a channel, a function or a proxy is a Go
// reference that %v prints as an address; and a value of a foreign interface
// type (fs.DirEntry) is not printed with %v, which prints the struct behind
// it, pointers included.  An address differs from run to run.
func formatArgumentsHaveADefinedText(c *core.Ctx) {
	p := c.P
	op := p.Pkg("object")
	objI := core.MustType(op, "Object")
	n := 0
	var fns []*ssa.Function
	for _, fn := range repoFns(p) {
		rel := core.RelPkg(fn.Pkg.Pkg)
		if rel == "object" || rel == "builtins" || strings.HasPrefix(rel, "modules/") {
			fns = append(fns, fn)
		}
	}
	for _, fn := range fns {
		k := 0
		for _, b := range fn.Blocks {
			for _, in := range b.Instrs {
				ci, ok := in.(ssa.CallInstruction)
				if !ok {
					continue
				}
				cal := ci.Common().StaticCallee()
				if cal == nil {
					continue
				}
				isFmt := cal.Pkg != nil && cal.Pkg.Pkg.Path() == "fmt" && strings.HasSuffix(cal.Name(), "f")
				if !isFmt && !(core.RepoFunc(cal) && printfLike(cal, 0)) {
					continue
				}
				args := ci.Common().Args
				if len(args) < 2 {
					continue
				}
				format := ""
				if k, ok := args[len(args)-2].(*ssa.Const); ok && k.Value != nil {
					format = k.Value.ExactString()
				}
				// the elements of the variadic slice
				var elems []ssa.Value
				seen := map[ssa.Value]bool{}
				var collect func(v ssa.Value)
				collect = func(v ssa.Value) {
					if seen[v] {
						return
					}
					seen[v] = true
					for _, o := range core.Origins(v) {
						switch x := o.(type) {
						case *ssa.Slice:
							if al, ok := x.X.(*ssa.Alloc); ok && al.Referrers() != nil {
								for _, r := range *al.Referrers() {
									if ia, ok := r.(*ssa.IndexAddr); ok && ia.Referrers() != nil {
										for _, r2 := range *ia.Referrers() {
											if st, ok := r2.(*ssa.Store); ok {
												elems = append(elems, st.Val)
											}
										}
									}
								}
							} else {
								collect(x.X)
							}
						case *ssa.Call:
							if bi, ok := x.Call.Value.(*ssa.Builtin); ok && bi.Name() == "append" {
								collect(x.Call.Args[0])
								if len(x.Call.Args) > 1 {
									collect(x.Call.Args[1])
								}
							}
						}
					}
				}
				collect(args[len(args)-1])
				for _, e := range elems {
					bad := ""
					for _, o := range originsThroughInterfaces(e) {
						if call, ok := o.(*ssa.Call); ok && call.Call.IsInvoke() && call.Call.Method.Name() == "Interface" && core.NamedOf(call.Call.Value.Type()) == objI {
							bad = "the Interface() of a script object of any kind (" + p.Pos(call.Pos()) + "): for a channel, a function or a proxy that is a Go reference, which prints as an address"
						}
						if strings.Contains(format, "%v") || strings.Contains(format, "%+v") {
							if it, ok := o.Type().Underlying().(*types.Interface); ok && it.NumMethods() > 0 {
								nt := core.NamedOf(o.Type())
								if nt != nil && nt.Obj().Pkg() != nil && nt != objI && nt.Obj().Name() != "error" && !hasMethod(it, "String") && !hasMethod(it, "Error") {
									bad = "a value of the interface type " + shortType(o.Type()) + " under %v: fmt prints the struct behind it, pointers included"
								}
							}
						}
					}
					if bad == "" {
						continue
					}
					n++
					k++
					c.Check(false, core.SSAName(fn)+"|"+cal.Name()+"|argument-has-a-defined-text|"+sprintf("%d", k), p.Pos(in.Pos()),
						fn.Name()+" formats text that a script can see and hands the format "+bad+"; the text differs from run to run (error(\"%v\", chan(1)) -> 0xc0000c80e0)")
				}
			}
		}
	}
	c.Pass("repo|format-arguments-examined", "", sprintf("%d format arguments without a defined text", n))
	c.Stat("format_arguments_without_a_defined_text", n)
}

func hasMethod(it *types.Interface, name string) bool {
	for i := 0; i < it.NumMethods(); i++ {
		if it.Method(i).Name() == name {
			return true
		}
	}
	return false
}

// ---------------------------------------------------------------------------
// theCompilerDoesNotWriteIntoTheSyntaxTree: the tree that the parser built is
// the compiler's input.  The compiler neither assigns to an element of a
// slice that a node hands out (a block's statements are the block's own
// slice) nor appends to one (append writes into the spare capacity of the
// node's array).  A tree that compilation changes gives other code, and
// another source text for its functions, when it is compiled again, and two
// compilations of one tree on different goroutines race.
func theCompilerDoesNotWriteIntoTheSyntaxTree(c *core.Ctx) {
	p := c.P
	fromNode := func(v ssa.Value) string {
		for _, o := range core.Origins(v) {
			if sl, ok := o.(*ssa.Slice); ok {
				for _, o2 := range core.Origins(sl.X) {
					o = o2
				}
			}
			call, ok := o.(*ssa.Call)
			if !ok {
				continue
			}
			var recv types.Type
			if call.Call.IsInvoke() {
				recv = call.Call.Value.Type()
			} else if cal := call.Call.StaticCallee(); cal != nil && cal.Signature.Recv() != nil {
				recv = cal.Signature.Recv().Type()
			}
			if recv == nil {
				continue
			}
			if nt := core.NamedOf(recv); nt != nil && nt.Obj().Pkg() != nil && core.RelPkg(nt.Obj().Pkg()) == "ast" {
				return nt.Obj().Name() + "." + calleeName(&call.Call) + "()"
			}
		}
		return ""
	}
	n, reads := 0, 0
	for _, fn := range repoFns(p, "compiler") {
		k := 0
		for _, b := range fn.Blocks {
			for _, in := range b.Instrs {
				what, src := "", ""
				switch x := in.(type) {
				case *ssa.Store:
					if ia, ok := x.Addr.(*ssa.IndexAddr); ok {
						if s := fromNode(ia.X); s != "" {
							what, src = "assigns to an element of", s
						}
					}
				case *ssa.Call:
					if bi, ok := x.Call.Value.(*ssa.Builtin); ok && bi.Name() == "append" && len(x.Call.Args) > 0 {
						if s := fromNode(x.Call.Args[0]); s != "" {
							what, src = "appends to", s
						}
					}
				case *ssa.IndexAddr:
					if fromNode(x.X) != "" {
						reads++
					}
				}
				if what == "" {
					continue
				}
				n++
				k++
				c.Check(false, core.SSAName(fn)+"|"+src+"|not-written|"+sprintf("%d", k), p.Pos(in.Pos()),
					fn.Name()+" "+what+" the slice that "+src+" hands out: that is the node's own slice, so compiling changes the tree (compiling one tree twice gives other bytecode and another function source; two goroutines compiling one tree race)")
			}
		}
	}
	if reads == 0 {
		core.Undecidedf("the compiler indexes no slice handed out by a syntax node")
	}
	c.Pass("compiler|slices-of-the-syntax-tree", "", sprintf("%d elements of slices handed out by syntax nodes are addressed, %d written", reads, n))
	c.Stat("tree_slice_element_accesses", reads)
}

// ---------------------------------------------------------------------------
// scriptSizesAreTestedBeforeMake: a size that a script supplies (byte_slice(n),
// buffer(n), chan(n), list(n)) reaches Go's make only after an ordering test:
// make panics on a negative length, and the script gets "panic: runtime error:
// makeslice: len out of range" instead of an error of its own.
func scriptSizesAreTestedBeforeMake(c *core.Ctx) {
	p := c.P
	cg := p.CallGraph()
	n := 0
	fromScript := func(sz ssa.Value) bool {
		for _, o := range core.Origins(sz) {
			if cv, ok := o.(*ssa.Convert); ok {
				if bt, ok := cv.X.Type().Underlying().(*types.Basic); ok && bt.Kind() == types.Int64 {
					for _, o2 := range core.Origins(cv.X) {
						if fieldOfObjectNumber(o2) || isAsHelperResult(o2) {
							return true
						}
					}
				}
			}
			if isAsHelperResult(o) || fieldOfObjectNumber(o) {
				return true
			}
		}
		return false
	}
	var tested func(fn *ssa.Function, sz ssa.Value, at ssa.Instruction) bool
	tested = func(fn *ssa.Function, sz ssa.Value, at ssa.Instruction) bool {
		if orderingGuards(fn, sz, at) {
			return true
		}
		// a size that is one of several values (a default, or the script's number): each
		// script-supplied one is tested on the way to the merge
		if phi, ok := sz.(*ssa.Phi); ok {
			all := true
			for i, e := range phi.Edges {
				if _, isK := e.(*ssa.Const); isK || !fromScript(e) {
					continue
				}
				pred := phi.Block().Preds[i]
				term := pred.Instrs[len(pred.Instrs)-1]
				// the edge may leave the testing block itself (if v < 0 { return } at the end of a branch)
				if iff, ok := term.(*ssa.If); ok {
					if bo, ok := iff.Cond.(*ssa.BinOp); ok && (bo.Op == token.LSS || bo.Op == token.LEQ || bo.Op == token.GTR || bo.Op == token.GEQ) && (bo.X == e || bo.Y == e) {
						continue
					}
				}
				if !tested(fn, e, term) {
					all = false
				}
			}
			return all
		}
		for _, o := range core.Origins(sz) {
			if cv, isCv := o.(*ssa.Convert); isCv && orderingGuards(fn, cv.X, at) {
				return true
			}
		}
		return false
	}
	var scope []*ssa.Function
	for _, fn := range repoFns(p) {
		rel := core.RelPkg(fn.Pkg.Pkg)
		if rel == "builtins" || rel == "object" || strings.HasPrefix(rel, "modules/") {
			scope = append(scope, fn)
		}
	}
	for _, fn := range scope {
		k := 0
		for _, b := range fn.Blocks {
			for _, in := range b.Instrs {
				var sizes []ssa.Value
				what := ""
				switch x := in.(type) {
				case *ssa.MakeSlice:
					sizes, what = []ssa.Value{x.Len}, "make of a slice"
					if x.Cap != x.Len {
						sizes = append(sizes, x.Cap)
					}
				case *ssa.MakeChan:
					sizes, what = []ssa.Value{x.Size}, "make of a channel"
				}
				for _, sz := range sizes {
					if sz == nil {
						continue
					}
					if _, isK := sz.(*ssa.Const); isK {
						continue
					}
					if fromScript(sz) {
						n++
						k++
						ok := tested(fn, sz, in)
						c.Check(ok, core.SSAName(fn)+"|size-tested-before-make|"+sprintf("%d", k), p.Pos(in.Pos()),
							fn.Name()+" hands a number that a script supplied to a "+what+ife(ok, " after an ordering test", " without an ordering test in front of it: a negative size makes Go panic (\"makeslice: len out of range\", \"makechan: size out of range\") where the script is owed an error of its own"))
						continue
					}
					// the size is a parameter of a constructor: the callers that hand it a script number
					pa, isParam := sz.(*ssa.Parameter)
					if !isParam || tested(fn, sz, in) {
						continue
					}
					pi := -1
					for i, q := range fn.Params {
						if q == pa {
							pi = i
						}
					}
					nd := cg.Nodes[fn]
					if pi < 0 || nd == nil {
						continue
					}
					for _, e := range nd.In {
						if e.Site == nil || e.Caller == nil || e.Caller.Func == nil || !core.RepoFunc(e.Caller.Func) {
							continue
						}
						args := e.Site.Common().Args
						if pi >= len(args) || !fromScript(args[pi]) {
							continue
						}
						caller := e.Caller.Func
						n++
						k++
						ok := tested(caller, args[pi], e.Site)
						c.Check(ok, core.SSAName(caller)+"|"+fn.Name()+"|size-tested-before-make|"+sprintf("%d", k), p.Pos(e.Site.Pos()),
							caller.Name()+" hands a number that a script supplied to "+fn.Name()+", which gives it to a "+what+ife(ok, "; an ordering test comes first", " untested, and no ordering test comes first: a negative size makes Go panic (\"makechan: size out of range\") where the script is owed an error of its own"))
					}
				}
			}
		}
	}
	if n < 3 {
		core.Undecidedf("only %d makes are given a script-supplied size", n)
	}
	c.Stat("makes_with_a_script_size", n)
}

// fieldOfObjectNumber: the load of the value field of a script Int.
func fieldOfObjectNumber(v ssa.Value) bool {
	u, ok := v.(*ssa.UnOp)
	if !ok || u.Op != token.MUL {
		return false
	}
	fa, ok := u.X.(*ssa.FieldAddr)
	if !ok {
		return false
	}
	nt := core.NamedOf(fa.X.Type())
	return nt != nil && nt.Obj().Name() == "Int" && nt.Obj().Pkg() != nil && core.RelPkg(nt.Obj().Pkg()) == "object"
}

// isAsHelperResult: the first result of object.AsInt (or Int.Value()).
func isAsHelperResult(v ssa.Value) bool {
	var call *ssa.Call
	if ex, ok := v.(*ssa.Extract); ok && ex.Index == 0 {
		call, _ = ex.Tuple.(*ssa.Call)
	} else {
		call, _ = v.(*ssa.Call)
	}
	if call == nil {
		return false
	}
	cal := call.Call.StaticCallee()
	if cal == nil || cal.Pkg == nil || core.RelPkg(cal.Pkg.Pkg) != "object" {
		return false
	}
	if cal.Name() == "AsInt" {
		return true
	}
	if cal.Name() == "Value" && cal.Signature.Recv() != nil {
		if nt := core.NamedOf(cal.Signature.Recv().Type()); nt != nil && nt.Obj().Name() == "Int" {
			return true
		}
	}
	return false
}

// ---------------------------------------------------------------------------
// theLoaderDoesNotSingleOutNames: what the stored form does not carry, the
// loader derives the way the compiler does (a code object is "named" when it
// is a function with a name).  It does not compare a stored name with a
// particular name: a script may use that name too (func __main__(n) { ..
// __main__(n-1) } loses its self-reference on reload and the reloaded code
// fails where the original works).
func theLoaderDoesNotSingleOutNames(c *core.Ctx) {
	p := c.P
	cp := p.Pkg("compiler")
	isStored := func(t types.Type) bool {
		nt := core.NamedOf(t)
		return nt != nil && nt.Obj().Pkg() == cp.Types && (strings.HasSuffix(nt.Obj().Name(), "Def") || nt.Obj().Name() == "state")
	}
	// fields of the stored form that the marshaller fills with constants only are tags of the
	// format ("int", "function"), not names that a script chose
	type fk struct {
		nt  *types.Named
		idx int
	}
	chosen := map[fk]bool{}
	for _, fn := range repoFns(p, "compiler") {
		for _, b := range fn.Blocks {
			for _, in := range b.Instrs {
				st, ok := in.(*ssa.Store)
				if !ok {
					continue
				}
				fa, ok := st.Addr.(*ssa.FieldAddr)
				if !ok || !isStored(fa.X.Type()) {
					continue
				}
				if _, isK := st.Val.(*ssa.Const); !isK {
					chosen[fk{core.NamedOf(fa.X.Type()), fa.Field}] = true
				}
			}
		}
	}
	n, cmp := 0, 0
	for _, fn := range repoFns(p, "compiler") {
		k := 0
		for _, b := range fn.Blocks {
			for _, in := range b.Instrs {
				bo, ok := in.(*ssa.BinOp)
				if !ok || (bo.Op != token.EQL && bo.Op != token.NEQ) {
					continue
				}
				for _, pair := range [][2]ssa.Value{{bo.X, bo.Y}, {bo.Y, bo.X}} {
					u, ok := pair[0].(*ssa.UnOp)
					if !ok || u.Op != token.MUL {
						continue
					}
					fa, ok := u.X.(*ssa.FieldAddr)
					if !ok || !isStored(fa.X.Type()) {
						continue
					}
					if bt, ok := u.Type().Underlying().(*types.Basic); !ok || bt.Kind() != types.String {
						continue
					}
					if !chosen[fk{core.NamedOf(fa.X.Type()), fa.Field}] {
						continue
					}
					cmp++
					k2, ok := pair[1].(*ssa.Const)
					if !ok || k2.Value == nil {
						continue
					}
					lit := k2.Value.ExactString()
					if lit == `""` {
						continue
					}
					n++
					k++
					c.Check(false, core.SSAName(fn)+"|"+fieldNameOf(core.NamedOf(fa.X.Type()), fa.Field)+"|no-particular-name|"+sprintf("%d", k), p.Pos(bo.Pos()),
						fn.Name()+" compares the stored "+fieldNameOf(core.NamedOf(fa.X.Type()), fa.Field)+" with "+lit+": a script can use that very name, and its code is then loaded as something else than it was compiled to (func __main__(n) loses its self-reference; the reloaded code panics)")
				}
			}
		}
	}
	if cmp == 0 {
		core.Undecidedf("the loader compares no stored string")
	}
	c.Pass("compiler/store|stored-strings", "", sprintf("%d comparisons of stored strings, %d of them with a particular name", cmp, n))
	c.Stat("stored_string_comparisons", cmp)
}

// ---------------------------------------------------------------------------
// numberingContinuesWhereTheCodeLeftOff: functions are numbered by a counter of
// the compiler, and the loader finds a function's code by that number.  A
// compiler that is handed code to continue (WithCode) starts its counter from
// that code: started from zero, the first function it compiles gets a number
// that a function of an earlier piece has already, the stored form has two
// functions under one id, and the reloaded code calls the wrong one or none.
func numberingContinuesWhereTheCodeLeftOff(c *core.Ctx) {
	p := c.P
	cp := p.Pkg("compiler")
	compT := core.MustType(cp, "Compiler")
	st := compT.Underlying().(*types.Struct)
	// counters: int fields of the Compiler that are incremented and turned into an id (Sprintf) somewhere
	n := 0
	for i := 0; i < st.NumFields(); i++ {
		bt, ok := st.Field(i).Type().Underlying().(*types.Basic)
		if !ok || bt.Info()&types.IsInteger == 0 {
			continue
		}
		incremented := false
		var seeded ssa.Instruction
		takesCode := false
		for _, fn := range repoFns(p, "compiler") {
			for _, s := range storesToField(fn, compT, i) {
				if bo, ok := s.Val.(*ssa.BinOp); ok && bo.Op == token.ADD {
					incremented = true
					continue
				}
				// a store in the constructor (or an option) of a value worked out from the code that was handed in
				if core.DependsOn(s.Val, func(w ssa.Value) bool {
					if call, ok := w.(*ssa.Call); ok {
						for _, a := range call.Call.Args {
							if pt, ok := a.Type().(*types.Pointer); ok && core.NamedOf(pt.Elem()) == core.MustType(cp, "Code") {
								return true
							}
						}
					}
					return false
				}) {
					seeded = s
				}
			}
		}
		if !incremented {
			continue
		}
		// can the compiler be handed code to continue?
		mi := fieldIdxByName(compT, "main")
		for _, fn := range repoFns(p, "compiler") {
			if fn.Parent() == nil {
				continue
			}
			for _, s := range storesToField(fn, compT, mi) {
				if _, ok := s.Val.(*ssa.FreeVar); ok {
					takesCode = true
				}
				for _, o := range core.Origins(s.Val) {
					if u, ok := o.(*ssa.UnOp); ok {
						if _, ok := u.X.(*ssa.FreeVar); ok {
							takesCode = true
						}
					}
					if _, ok := o.(*ssa.FreeVar); ok {
						takesCode = true
					}
				}
			}
		}
		if !takesCode {
			continue
		}
		n++
		c.Check(seeded != nil, "compiler.Compiler."+st.Field(i).Name()+"|continues-from-the-code-handed-in", p.Pos(st.Field(i).Pos()),
			"Compiler."+st.Field(i).Name()+" numbers what the compiler creates, and the compiler can be handed code to continue (an option stores it in Compiler.main)"+ife(seeded != nil, "; the counter is set from that code", "; the counter is never set from that code: a new compiler starts at zero, and the first function of the next piece gets the id of a function of an earlier piece (compile `func a() { return 1 }`, then `func b() { return 2 }`, then `[a(), b()]`, each with compiler.New(WithCode(prev)): both functions have id \"1\", and the marshalled code panics after loading)"))
	}
	if n == 0 {
		core.Undecidedf("no counter of the Compiler found next to an option that hands it code")
	}
	c.Stat("compiler_counters", n)
}

// ---------------------------------------------------------------------------
// mountPointsAreNormalisedWhenTheyAreRegistered: the mount table is searched
// with cleaned paths, component by component.  The key under which a mount is
// entered is therefore cleaned as well ("/a/" serves "/a" like "/a" does), and
// the mount that is entered carries that key as its Target, which the search
// trims from the path: the host's Mount value is not trusted to repeat it
// ({"/data": {Source: r}} with the Target left empty handed the source
// "/data/x" instead of "/x").
func mountPointsAreNormalisedWhenTheyAreRegistered(c *core.Ctx) {
	p := c.P
	osp := p.Pkg("os")
	vosT := core.MustType(osp, "VirtualOS")
	mountT := core.MustType(osp, "Mount")
	mi := fieldIdxByName(vosT, "mounts")
	ti := fieldIdxByName(mountT, "Target")
	if mi < 0 || ti < 0 {
		core.Undecidedf("VirtualOS.mounts / Mount.Target not found")
	}
	n := 0
	for _, fn := range repoFns(p, "os") {
		k := 0
		for _, mu := range updatesMapFieldAll(fn, vosT, mi) {
			n++
			k++
			cleaned := false
			for _, o := range core.Origins(mu.Key) {
				if call, ok := o.(*ssa.Call); ok {
					if cal := call.Call.StaticCallee(); cal != nil && cal.Pkg != nil && (cal.Pkg.Pkg.Path() == "path/filepath" || cal.Pkg.Pkg.Path() == "path") && cal.Name() == "Clean" {
						cleaned = true
					}
				}
			}
			// the value: a Mount made here whose Target is the key
			own := false
			for _, o := range core.Origins(mu.Value) {
				al, ok := o.(*ssa.Alloc)
				if !ok || al.Referrers() == nil {
					continue
				}
				for _, r := range *al.Referrers() {
					fa, ok := r.(*ssa.FieldAddr)
					if !ok || fa.Field != ti || fa.Referrers() == nil {
						continue
					}
					for _, r2 := range *fa.Referrers() {
						if st, ok := r2.(*ssa.Store); ok && (st.Val == mu.Key || core.SameStorage(st.Val, mu.Key)) {
							own = true
						}
					}
				}
			}
			// a mount without a source has nothing to serve its mount point with
			sourceTested := false
			si := fieldIdxByName(mountT, "Source")
			for _, b2 := range fn.Blocks {
				for _, in2 := range b2.Instrs {
					bo, ok := in2.(*ssa.BinOp)
					if !ok || (bo.Op != token.EQL && bo.Op != token.NEQ) {
						continue
					}
					for _, side := range []ssa.Value{bo.X, bo.Y} {
						if u, ok := side.(*ssa.UnOp); ok && u.Op == token.MUL {
							if fa, ok := u.X.(*ssa.FieldAddr); ok && fa.Field == si && core.NamedOf(fa.X.Type()) == mountT {
								sourceTested = true
							}
						}
					}
				}
			}
			bad := ""
			if cleaned && own && !sourceTested {
				bad = "a mount whose Source is nil is entered like any other: the first operation under its mount point dereferences nil"
			}
			if !cleaned {
				bad = "the key is entered as the host wrote it, not cleaned (a mount at \"/a/\" does not serve \"/a\")"
			} else if !own {
				bad = "the Mount that is entered is the host's, whose Target need not be the key (the search trims the Target from the path: with an empty Target the source is handed the whole path)"
			}
			c.Check(bad == "", core.SSAName(fn)+"|mount-entered-under-its-cleaned-key|"+sprintf("%d", k), p.Pos(mu.Pos()),
				fn.Name()+" enters a mount into the table"+ife(bad == "", " under the cleaned mount point, with a Mount of its own that carries that key as its Target", ": "+bad))
		}
	}
	if n == 0 {
		core.Undecidedf("no function enters a mount into VirtualOS.mounts")
	}
	c.Stat("mount_registrations", n)
}

// updatesMapFieldAll: the map updates in fn (and nothing else) whose map is the
// given field of the given struct type.
func updatesMapFieldAll(fn *ssa.Function, nt *types.Named, idx int) []*ssa.MapUpdate {
	var out []*ssa.MapUpdate
	for _, b := range fn.Blocks {
		for _, in := range b.Instrs {
			mu, ok := in.(*ssa.MapUpdate)
			if !ok {
				continue
			}
			for _, o := range core.Origins(mu.Map) {
				if u, ok := o.(*ssa.UnOp); ok && u.Op == token.MUL {
					if fa, ok := u.X.(*ssa.FieldAddr); ok && fa.Field == idx && core.NamedOf(fa.X.Type()) == nt {
						out = append(out, mu)
					}
				}
			}
		}
	}
	return out
}

// ---------------------------------------------------------------------------
// theMarshallerRefusesWhatTheLoaderCannotRead: everything the marshaller
// produces can be loaded again.  The loader wants the parent of every code
// object to come before it, so the marshaller starts from a code object that
// has no parent (and says so when it is handed a function's code); and
// encoding/json reads at most 10000 levels of nesting, so the marshaller,
// which nests a symbol table inside its parent, bounds the depth of what it
// writes (5100 nested blocks parse, compile and marshal, and the result could
// not be read back).
func theMarshallerRefusesWhatTheLoaderCannotRead(c *core.Ctx) {
	p := c.P
	cp := p.Pkg("compiler")
	codeT := core.MustType(cp, "Code")
	pi := fieldIdxByName(codeT, "parent")
	stateT := core.LookupType(cp, "state")
	if pi < 0 || stateT == nil {
		core.Undecidedf("compiler.Code.parent / compiler.state not found")
	}
	var entry *ssa.Function
	for _, fn := range repoFns(p, "compiler") {
		if fn.Parent() != nil || fn.Signature.Params().Len() != 1 || fn.Signature.Results().Len() != 2 {
			continue
		}
		if pt, ok := fn.Signature.Params().At(0).Type().(*types.Pointer); !ok || core.NamedOf(pt.Elem()) != codeT {
			continue
		}
		if rt, ok := fn.Signature.Results().At(0).Type().(*types.Pointer); ok && core.NamedOf(rt.Elem()) == stateT {
			entry = fn
		}
	}
	if entry == nil {
		core.Undecidedf("the function that turns a Code into its stored form was not found")
	}
	// (a) an error return behind a nil test of the parameter's parent
	refuses := false
	// (b) an error return behind an ordering comparison with a constant
	bounded := false
	for _, b := range entry.Blocks {
		iff, ok := b.Instrs[len(b.Instrs)-1].(*ssa.If)
		if !ok {
			continue
		}
		bo, ok := iff.Cond.(*ssa.BinOp)
		if !ok {
			continue
		}
		errBranch := func() bool {
			for _, s := range b.Succs {
				for _, in := range s.Instrs {
					if r, ok := in.(*ssa.Return); ok && len(r.Results) == 2 {
						if k, isK := spilledResult(s, r.Results[1]).(*ssa.Const); !isK || !k.IsNil() {
							return true
						}
					}
				}
			}
			return false
		}
		switch bo.Op {
		case token.EQL, token.NEQ:
			for _, side := range []ssa.Value{bo.X, bo.Y} {
				if u, ok := side.(*ssa.UnOp); ok && u.Op == token.MUL {
					if fa, ok := u.X.(*ssa.FieldAddr); ok && fa.Field == pi && core.NamedOf(fa.X.Type()) == codeT && fa.X == ssa.Value(entry.Params[0]) && errBranch() {
						refuses = true
					}
				}
			}
		case token.GTR, token.GEQ, token.LSS, token.LEQ:
			for _, side := range []ssa.Value{bo.X, bo.Y} {
				if k, ok := side.(*ssa.Const); ok && k.Value != nil && k.Int64() > 0 && k.Int64() < 5000 && errBranch() {
					bounded = true
				}
			}
		}
	}
	c.Check(refuses, core.SSAName(entry)+"|refuses-code-that-has-a-parent", p.Pos(entry.Pos()),
		entry.Name()+" turns a code object into the stored form"+ife(refuses, " and refuses one that has a parent", " and accepts one that has a parent: the loader wants every parent to come first, so MarshalCode(fn.Code()) produces data that UnmarshalCode rejects (\"parent code not found: __main__\")"))
	c.Check(bounded, core.SSAName(entry)+"|bounds-the-nesting-it-writes", p.Pos(entry.Pos()),
		entry.Name()+" writes symbol tables nested inside their parents"+ife(bounded, " and refuses a nesting beyond a constant below encoding/json's limit", " without a bound: encoding/json reads at most 10000 levels, two per table, so the code of 5100 nested blocks marshals and cannot be read back (\"exceeded max depth\")"))
}

// ---------------------------------------------------------------------------
// compileErrorsCarryAPosition: a compile error names the line and the column
// of what it is about.  The compiler has one function that renders an error
// with its position; an error text that begins "compile error" is built there
// and nowhere else in the compile functions, and an error that comes out of
// the symbol table (which knows no positions) is given the position of the
// node before it is returned.  The sites that are left are listed with the
// reason.
var compileErrorsWithoutPosition = map[string]string{
	"(*compiler.Compiler).compileFunc|fmt.Errorf": "\"unsupported default value (got .., line N)\": the wording, with a line and no column, is pinned by compiler_test.go (TestCompileErrors)",
	"compiler.New|InsertVariable":                 "the names of the host's globals are entered before there is any source text",
}

func compileErrorsCarryAPosition(c *core.Ctx) {
	p := c.P
	cp := p.Pkg("compiler")
	compT := core.MustType(cp, "Compiler")
	stT := core.MustType(cp, "SymbolTable")
	var formatter *ssa.Function
	for _, fn := range repoFns(p, "compiler") {
		if fn.Name() == "formatError" {
			formatter = fn
		}
	}
	if formatter == nil {
		core.Undecidedf("Compiler.formatError not found")
	}
	positioned := func(v ssa.Value) bool {
		// the error goes into a function of the Compiler that calls the formatter (or is its result)
		if v.Referrers() == nil {
			return false
		}
		for _, r := range *v.Referrers() {
			if ci, ok := r.(ssa.CallInstruction); ok {
				if cal := ci.Common().StaticCallee(); cal != nil && (cal == formatter || callsFunc(cal, formatter)) {
					return true
				}
			}
		}
		return false
	}
	n := 0
	for _, fn := range repoFns(p, "compiler") {
		if fn == formatter {
			continue
		}
		// functions of the Compiler (and their closures) only: the symbol table and the store have no positions
		root := fn
		for root.Parent() != nil {
			root = root.Parent()
		}
		isCompilerFn := root.Signature.Recv() != nil && core.NamedOf(root.Signature.Recv().Type()) == compT || root.Name() == "New" || root.Name() == "Compile"
		if !isCompilerFn {
			continue
		}
		k := map[string]int{}
		for _, b := range fn.Blocks {
			for _, in := range b.Instrs {
				call, ok := in.(*ssa.Call)
				if !ok {
					continue
				}
				cal := call.Call.StaticCallee()
				if cal == nil {
					continue
				}
				kind := ""
				if cal.Pkg != nil && cal.Pkg.Pkg.Path() == "fmt" && cal.Name() == "Errorf" && len(call.Call.Args) > 0 {
					if k0, ok := call.Call.Args[0].(*ssa.Const); ok && k0.Value != nil && strings.HasPrefix(strings.Trim(k0.Value.ExactString(), "\""), "compile error") {
						kind = "fmt.Errorf"
					}
				}
				if cal.Signature.Recv() != nil && core.NamedOf(cal.Signature.Recv().Type()) == stT {
					res := cal.Signature.Results()
					if res.Len() > 0 && isErrorType(res.At(res.Len()-1).Type()) {
						kind = cal.Name()
					}
				}
				if kind == "" {
					continue
				}
				n++
				ok2 := false
				if kind == "fmt.Errorf" {
					ok2 = false
				} else {
					// the error result of the symbol table call: positioned before it is returned
					var errv ssa.Value
					if call.Referrers() != nil {
						for _, r := range *call.Referrers() {
							if ex, ok := r.(*ssa.Extract); ok && isErrorType(ex.Type()) {
								errv = ex
							}
						}
					}
					if isErrorType(call.Type()) {
						errv = call
					}
					ok2 = errv == nil || positioned(errv) || !reachesReturn(errv)
				}
				key := core.SSAName(fn) + "|" + kind
				k[key]++
				why, listed := compileErrorsWithoutPosition[key]
				c.Check(ok2 || listed, key+"|carries-a-position|"+sprintf("%d", k[key]), p.Pos(call.Pos()),
					fn.Name()+ife(kind == "fmt.Errorf", " builds a \"compile error\" with fmt.Errorf", " takes an error from SymbolTable."+kind)+ife(ok2, " and gives it the position of the node", ife(listed, ": "+why, ": the error reaches the caller of Compile without a line and a column (`x := 1\\nx := 2`: compile error: variable \"x\" already exists)")))
			}
		}
	}
	if n < 10 {
		core.Undecidedf("only %d error-producing sites found in the compile functions", n)
	}
	c.Stat("compile_error_sites", n)
}

// callsFunc: f calls g directly.
func callsFunc(f, g *ssa.Function) bool {
	if f == nil || f.Blocks == nil {
		return false
	}
	for _, b := range f.Blocks {
		for _, in := range b.Instrs {
			if ci, ok := in.(ssa.CallInstruction); ok && ci.Common().StaticCallee() == g {
				return true
			}
		}
	}
	return false
}

// reachesReturn: the value is returned by its function (directly or through a phi or a spilled result).
func reachesReturn(v ssa.Value) bool {
	seen := map[ssa.Value]bool{}
	var walk func(v ssa.Value) bool
	walk = func(v ssa.Value) bool {
		if seen[v] || v.Referrers() == nil {
			return false
		}
		seen[v] = true
		for _, r := range *v.Referrers() {
			switch x := r.(type) {
			case *ssa.Return:
				return true
			case *ssa.Phi:
				if walk(x) {
					return true
				}
			case *ssa.Store:
				if al, ok := x.Addr.(*ssa.Alloc); ok && x.Val == v {
					if al.Referrers() != nil {
						for _, r2 := range *al.Referrers() {
							if u, ok := r2.(*ssa.UnOp); ok && walk(u) {
								return true
							}
						}
					}
				}
			}
		}
		return false
	}
	return walk(v)
}

// mayReturnErrorObjects: the repository functions one of whose results can be
// an *object.Error that the function (or one it calls) has just built.
var mayReturnErrorObjectsCache = map[*core.Program]map[*ssa.Function]bool{}

func mayReturnErrorObjects(p *core.Program) map[*ssa.Function]bool {
	if m, ok := mayReturnErrorObjectsCache[p]; ok {
		return m
	}
	op := p.Pkg("object")
	errT := core.MustType(op, "Error")
	objT := core.MustType(op, "Object")
	all := repoFns(p)
	isErrPtr := func(t types.Type) bool {
		pt, ok := t.(*types.Pointer)
		return ok && core.NamedOf(pt.Elem()) == errT
	}
	carries := func(t types.Type) bool {
		return isErrPtr(t) || core.NamedOf(t) == objT && !isErrPtr(t) && func() bool { _, isPtr := t.(*types.Pointer); return !isPtr }()
	}
	may := map[*ssa.Function]bool{}
	for changed := true; changed; {
		changed = false
		for _, fn := range all {
			if may[fn] || fn.Signature.Results().Len() == 0 {
				continue
			}
			res := fn.Signature.Results()
			for ri := 0; ri < res.Len() && !may[fn]; ri++ {
				if !carries(res.At(ri).Type()) {
					continue
				}
				for _, b := range fn.Blocks {
					ret, ok := b.Instrs[len(b.Instrs)-1].(*ssa.Return)
					if !ok || ri >= len(ret.Results) {
						continue
					}
					for _, o := range originsThroughInterfaces(spilledResult(b, ret.Results[ri])) {
						if cst, ok := o.(*ssa.Const); ok && cst.IsNil() {
							continue
						}
						if isErrPtr(o.Type()) {
							may[fn] = true
						}
						call, ok := o.(*ssa.Call)
						if !ok {
							if ex, isEx := o.(*ssa.Extract); isEx {
								call, ok = ex.Tuple.(*ssa.Call)
							}
						}
						if ok {
							if cal := call.Call.StaticCallee(); cal != nil && may[cal] {
								may[fn] = true
							}
						}
					}
				}
			}
			if may[fn] {
				changed = true
			}
		}
	}
	mayReturnErrorObjectsCache[p] = may
	return may
}

// ---------------------------------------------------------------------------
// convertedErrorsAreValues: a Go error that is data (the value of a struct
// field, an element, a global) becomes an error object in the script.  That
// object is a value, not a failure: the converter that makes it clears the
// raised flag that NewError sets.  With the flag set, reading the field is
// taken for a failed attribute access, and the script cannot look at the error
// at all (o.Err raises instead of yielding the value).
func convertedErrorsAreValues(c *core.Ctx) {
	p := c.P
	_, from := converterMethods(p)
	fns := append([]*ssa.Function{}, from...)
	for _, fn := range repoFns(p, "object") {
		if fn.Parent() != nil || fn.Signature.Recv() != nil || fn.Signature.Params().Len() != 1 || fn.Signature.Results().Len() != 1 {
			continue
		}
		if it, ok := fn.Signature.Params().At(0).Type().Underlying().(*types.Interface); !ok || it.NumMethods() != 0 {
			continue
		}
		if core.IsNamed(fn.Signature.Results().At(0).Type(), pkgPath("object"), "Object") {
			fns = append(fns, fn)
		}
	}
	n := 0
	for _, fn := range fns {
		k := 0
		for _, b := range fn.Blocks {
			for _, in := range b.Instrs {
				call, ok := in.(*ssa.Call)
				if !ok {
					continue
				}
				cal := call.Call.StaticCallee()
				if cal == nil || cal.Name() != "NewError" || cal.Pkg == nil || core.RelPkg(cal.Pkg.Pkg) != "object" {
					continue
				}
				// the argument is the Go value that is being converted (not an error of the conversion itself)
				fromInput := false
				for _, a := range call.Call.Args {
					if core.DependsOn(a, func(w ssa.Value) bool {
						for _, pa := range fn.Params {
							if w == ssa.Value(pa) && pa != fn.Params[0] || (fn.Signature.Recv() == nil && w == ssa.Value(pa)) {
								return true
							}
						}
						return false
					}) {
						fromInput = true
					}
				}
				if !fromInput {
					continue
				}
				n++
				k++
				cleared := false
				if call.Referrers() != nil {
					for _, r := range *call.Referrers() {
						if c2, ok := r.(*ssa.Call); ok {
							if m := c2.Call.StaticCallee(); m != nil && m.Name() == "WithRaised" && len(c2.Call.Args) == 2 {
								if kf, ok := c2.Call.Args[1].(*ssa.Const); ok && kf.Value != nil && kf.Value.String() == "false" {
									cleared = true
								}
							}
						}
					}
				}
				c.Check(cleared, core.SSAName(fn)+"|error-value-not-raised|"+sprintf("%d", k), p.Pos(call.Pos()),
					core.SSAName(fn)+" turns a Go error that is data into an error object"+ife(cleared, " and clears its raised flag: it is a value", " and leaves its raised flag set: where the object comes out of an attribute access it is taken for the failure of that access, and the script cannot read an error-typed field (o.Err raises)"))
			}
		}
	}
	if n == 0 {
		core.Undecidedf("no converter turns a Go error into an error object")
	}
	c.Stat("error_value_conversions", n)
}

// ---------------------------------------------------------------------------
// entriesMadeOnTheWayAreWithdrawnWithTheirCause: the registry of Go types and
// the memo of converters are filled recursively: while the entry for a type is
// being built, entries for the types it is made of are made and completed.
// When the outer entry cannot be completed it is taken out again; the entries
// made on the way refer to it (a field of the unfinished type) and are taken
// out with it.  For that, every function that enters a type into one of these
// tables while it can be on such a recursion also notes the type in a
// package-level list, and a function deletes the listed types.  Left in, the
// inner entries make the outcome of a later evaluation depend on an earlier
// one: `b.N` for a *PB whose field type PA has a chan field is refused in a
// fresh process, and accepted once an evaluation that offered a *PA has
// failed.
func entriesMadeOnTheWayAreWithdrawnWithTheirCause(c *core.Ctx) {
	p := c.P
	cg := p.CallGraph()
	isReflectType := func(t types.Type) bool { return core.IsNamed(t, "reflect", "Type") }
	fns := repoFns(p, "object")
	// memo tables: package-level maps keyed by reflect.Type
	globalMapOf := func(v ssa.Value) *ssa.Global {
		for _, o := range core.Origins(v) {
			if u, ok := o.(*ssa.UnOp); ok && u.Op == token.MUL {
				if g, ok := u.X.(*ssa.Global); ok {
					if mt, ok := g.Type().(*types.Pointer).Elem().Underlying().(*types.Map); ok && isReflectType(mt.Key()) {
						return g
					}
				}
			}
		}
		return nil
	}
	// a function that deletes from the memo inside a range over a package-level slice
	withdraws := map[*ssa.Global]bool{}
	for _, fn := range fns {
		rangesGlobalSlice := false
		for _, b := range fn.Blocks {
			for _, in := range b.Instrs {
				// range over a slice is lowered to index loops: a load of a global-rooted slice that is indexed
				if ia, ok := in.(*ssa.IndexAddr); ok {
					for _, o := range core.Origins(ia.X) {
						if u, ok := o.(*ssa.UnOp); ok && u.Op == token.MUL {
							if root := addrRoot(u.X); root != nil {
								if _, isG := root.(*ssa.Global); isG {
									rangesGlobalSlice = true
								}
							}
						}
					}
				}
			}
		}
		if !rangesGlobalSlice {
			continue
		}
		for _, b := range fn.Blocks {
			for _, in := range b.Instrs {
				if ci, ok := in.(ssa.CallInstruction); ok {
					if bi, ok := ci.Common().Value.(*ssa.Builtin); ok && bi.Name() == "delete" {
						if g := globalMapOf(ci.Common().Args[0]); g != nil {
							withdraws[g] = true
						}
					}
				}
			}
		}
	}
	n := 0
	for _, fn := range fns {
		if cg.Nodes[fn] == nil || !reachesFunc(cg, fn, fn, 6) {
			continue
		}
		k := 0
		for _, b := range fn.Blocks {
			for _, in := range b.Instrs {
				mu, ok := in.(*ssa.MapUpdate)
				if !ok {
					continue
				}
				g := globalMapOf(mu.Map)
				if g == nil || !isReflectType(mu.Key.Type()) {
					continue
				}
				// tables of types in progress (entries deleted again by the same function) are not memos
				if _, isInt := g.Type().(*types.Pointer).Elem().Underlying().(*types.Map).Elem().Underlying().(*types.Basic); isInt {
					continue
				}
				n++
				k++
				noted := false
				for _, b2 := range fn.Blocks {
					for _, in2 := range b2.Instrs {
						call, ok := in2.(*ssa.Call)
						if !ok {
							continue
						}
						bi, ok := call.Call.Value.(*ssa.Builtin)
						if !ok || bi.Name() != "append" || len(call.Call.Args) < 2 {
							continue
						}
						fromGlobal := false
						for _, o := range core.Origins(call.Call.Args[0]) {
							if u, ok := o.(*ssa.UnOp); ok && u.Op == token.MUL {
								if _, isG := addrRoot(u.X).(*ssa.Global); isG {
									fromGlobal = true
								}
							}
						}
						if !fromGlobal {
							continue
						}
						if core.DependsOn(call.Call.Args[1], func(w ssa.Value) bool { return w == mu.Key }) {
							noted = true
						}
						// append(list, key): the key sits in the slot of a variadic argument slice
						for _, o := range core.Origins(call.Call.Args[1]) {
							if sl, ok := o.(*ssa.Slice); ok {
								if al, ok := sl.X.(*ssa.Alloc); ok && al.Referrers() != nil {
									for _, r := range *al.Referrers() {
										if ia, ok := r.(*ssa.IndexAddr); ok && ia.Referrers() != nil {
											for _, r2 := range *ia.Referrers() {
												if st, ok := r2.(*ssa.Store); ok && (st.Val == mu.Key || core.SameStorage(st.Val, mu.Key)) {
													noted = true
												}
											}
										}
									}
								}
							}
						}
					}
				}
				ok2 := noted && withdraws[g]
				c.Check(ok2, core.SSAName(fn)+"|"+g.Name()+"|entry-noted-for-withdrawal|"+sprintf("%d", k), p.Pos(mu.Pos()),
					fn.Name()+" enters a type into "+g.Name()+" while the entry of another type may be in progress"+ife(ok2, "; it notes the type in a package-level list, and the listed types are deleted when the outermost entry fails", ife(noted, "; it notes the type, but nothing deletes the noted types from "+g.Name(), "; it does not note the type anywhere: when the outer entry fails, this one stays, built on a type that was never completed, and a later evaluation that offers the inner type is accepted although a fresh process refuses it")))
			}
		}
	}
	if n < 2 {
		core.Undecidedf("only %d recursive functions enter a type into a package-level table keyed by reflect.Type", n)
	}
	c.Stat("recursive_memo_entries", n)
}

// ---------------------------------------------------------------------------
// importerFailuresAreNotTakenForAbsence: `from a import b` first asks for the
// module a/b and, when there is none, takes b to be an attribute of a.  "There
// is none" and "it is there and does not compile" are different answers of an
// importer: the local importer marks the second kind (it wraps what parsing
// and compiling return in an error type of its own), and the VM turns an
// importer's error into "module unavailable" only after it has looked for that
// mark.  Without it, a syntax error in a/b.risor is swallowed and the
// attribute a.b is bound instead.
func importerFailuresAreNotTakenForAbsence(c *core.Ctx) {
	p := c.P
	// (a) the importer: errors of the front end are wrapped
	n := 0
	frontEnd := func(f *ssa.Function) bool {
		found := false
		seen := map[*ssa.Function]bool{}
		var walk func(f *ssa.Function, d int)
		walk = func(f *ssa.Function, d int) {
			if f == nil || seen[f] || f.Blocks == nil || d > 2 {
				return
			}
			seen[f] = true
			for _, b := range f.Blocks {
				for _, in := range b.Instrs {
					if ci, ok := in.(ssa.CallInstruction); ok {
						if cal := ci.Common().StaticCallee(); cal != nil && cal.Pkg != nil {
							rel := core.RelPkg(cal.Pkg.Pkg)
							if (rel == "parser" && cal.Name() == "Parse") || (rel == "compiler" && cal.Name() == "Compile") {
								found = true
							}
							if core.RepoFunc(cal) {
								walk(cal, d+1)
							}
						}
					}
				}
			}
		}
		walk(f, 0)
		return found
	}
	bodies := importBodies(p)
	for _, fn := range repoFns(p, "importer") {
		if !bodies[fn] {
			continue
		}
		k := 0
		for _, b := range fn.Blocks {
			ret, ok := b.Instrs[len(b.Instrs)-1].(*ssa.Return)
			if !ok || len(ret.Results) < 2 {
				continue
			}
			for _, o := range originsThroughInterfaces(spilledResult(b, ret.Results[len(ret.Results)-1])) {
				ex, ok := o.(*ssa.Extract)
				if !ok {
					continue
				}
				call, ok := ex.Tuple.(*ssa.Call)
				if !ok {
					continue
				}
				cal := call.Call.StaticCallee()
				if cal == nil || !frontEnd(cal) || bodies[cal] {
					continue // (the errors of another import body are judged in that body)
				}
				n++
				k++
				c.Check(false, core.SSAName(fn)+"|"+cal.Name()+"|front-end-error-marked|"+sprintf("%d", k), p.Pos(ret.Pos()),
					fn.Name()+" returns the error of "+cal.Name()+" (parsing and compiling the module it has found) as it is: the VM cannot tell it from \"no such module\", and `from a import b` with a syntax error in a/b.risor binds the attribute a.b instead of failing")
			}
		}
		if k == 0 {
			n++
			c.Pass(core.SSAName(fn)+"|front-end-errors-marked", p.Pos(fn.Pos()), fn.Name()+" returns no error of the parser or the compiler unwrapped")
		}
	}
	// (b) the VM: an importer's error becomes "unavailable" only behind errors.As
	for _, fn := range repoFns(p, "vm") {
		for _, b := range fn.Blocks {
			for _, in := range b.Instrs {
				call, ok := in.(*ssa.Call)
				if !ok || !call.Call.IsInvoke() || call.Call.Method.Name() != "Import" {
					continue
				}
				var errv ssa.Value
				if call.Referrers() != nil {
					for _, r := range *call.Referrers() {
						if ex, ok := r.(*ssa.Extract); ok && isErrorType(ex.Type()) {
							errv = ex
						}
					}
				}
				if errv == nil || errv.Referrers() == nil {
					continue
				}
				// where the error is stored into a struct of the VM's own (the unavailable-verdict)
				for _, r := range *errv.Referrers() {
					st, ok := r.(*ssa.Store)
					if !ok {
						continue
					}
					fa, ok := st.Addr.(*ssa.FieldAddr)
					if !ok {
						continue
					}
					nt := core.NamedOf(fa.X.Type())
					if nt == nil || nt.Obj().Pkg() == nil || core.RelPkg(nt.Obj().Pkg()) != "vm" {
						continue
					}
					n++
					looked := false
					for _, b2 := range fn.Blocks {
						for _, in2 := range b2.Instrs {
							c2, ok := in2.(*ssa.Call)
							if !ok {
								continue
							}
							cal := c2.Call.StaticCallee()
							if cal == nil || cal.Name() != "As" || cal.Pkg == nil || cal.Pkg.Pkg.Path() != "errors" || len(c2.Call.Args) != 2 || c2.Call.Args[0] != errv {
								continue
							}
							if c2.Referrers() == nil {
								continue
							}
							for _, r2 := range *c2.Referrers() {
								if iff, ok := r2.(*ssa.If); ok {
									s := iff.Block().Succs[1]
									if s == st.Block() || s.Dominates(st.Block()) {
										looked = true
									}
								}
							}
						}
					}
					c.Check(looked, core.SSAName(fn)+"|"+nt.Obj().Name()+"|only-after-looking-for-the-importers-mark", p.Pos(st.Pos()),
						fn.Name()+" wraps the importer's error in a "+nt.Obj().Name()+ife(looked, " after errors.As has found no error type in it that the importer marks failures with", " whatever it is: a module that was found and does not compile is taken for a module that is not there"))
				}
			}
		}
	}
	if n < 2 {
		core.Undecidedf("importer Import methods / the VM's use of them not found")
	}
}

// ---------------------------------------------------------------------------
// aConfigurationEditsOnlyModulesItOwns: removing or replacing a member of a
// module for one configuration is an edit of that module object.  The object
// may be shared with other configurations (a host hands the same module, or
// the globals of one Config, to several): the functions of package risor that
// call Module.Override do so on a module that comes out of a function of the
// Config which copies the module (calls Module.Copy) before it hands it out.
// Edited in place, WithoutGlobal("os.exit") in one configuration removes
// os.exit from every configuration that shares the module.
func aConfigurationEditsOnlyModulesItOwns(c *core.Ctx) {
	p := c.P
	op := p.Pkg("object")
	modT := core.MustType(op, "Module")
	fns := repoFns(p, ".")
	// functions that copy a module
	copies := map[*ssa.Function]bool{}
	for _, fn := range fns {
		for _, b := range fn.Blocks {
			for _, in := range b.Instrs {
				if call, ok := in.(*ssa.Call); ok {
					if cal := call.Call.StaticCallee(); cal != nil && cal.Name() == "Copy" && cal.Signature.Recv() != nil && core.NamedOf(cal.Signature.Recv().Type()) == modT {
						copies[fn] = true
					}
				}
			}
		}
	}
	// ... and the functions that hand out what such a function returns
	for changed := true; changed; {
		changed = false
		for _, fn := range fns {
			if copies[fn] {
				continue
			}
			for _, b := range fn.Blocks {
				for _, in := range b.Instrs {
					if call, ok := in.(*ssa.Call); ok {
						if cal := call.Call.StaticCallee(); cal != nil && copies[cal] {
							copies[fn] = true
							changed = true
						}
					}
				}
			}
		}
	}
	n := 0
	for _, fn := range fns {
		k := 0
		for _, b := range fn.Blocks {
			for _, in := range b.Instrs {
				call, ok := in.(*ssa.Call)
				if !ok {
					continue
				}
				cal := call.Call.StaticCallee()
				if cal == nil || cal.Name() != "Override" || cal.Signature.Recv() == nil || core.NamedOf(cal.Signature.Recv().Type()) != modT {
					continue
				}
				n++
				k++
				owned := false
				for _, o := range core.Origins(call.Call.Args[0]) {
					var src *ssa.Call
					if ex, ok := o.(*ssa.Extract); ok {
						src, _ = ex.Tuple.(*ssa.Call)
					} else {
						src, _ = o.(*ssa.Call)
					}
					if src == nil {
						owned = false
						break
					}
					sc := src.Call.StaticCallee()
					if sc != nil && (copies[sc] || (sc.Name() == "Copy" && sc.Signature.Recv() != nil && core.NamedOf(sc.Signature.Recv().Type()) == modT)) {
						owned = true
					} else {
						owned = false
						break
					}
				}
				c.Check(owned, core.SSAName(fn)+"|Override|on-a-module-the-configuration-owns|"+sprintf("%d", k), p.Pos(call.Pos()),
					fn.Name()+" edits a module with Override"+ife(owned, "; the module is a copy that the configuration made for itself", "; the module is the object that the globals hold, which other configurations may hold as well: what is removed or replaced for this configuration is removed or replaced for them (WithGlobals(cfg1.Globals()) + WithoutGlobal(\"os.exit\") takes os.exit away from cfg1)"))
			}
		}
	}
	if n == 0 {
		core.Undecidedf("package risor does not call Module.Override")
	}
	c.Stat("module_edits", n)
}
