package rules

import (
	"go/constant"
	"go/token"
	"go/types"
	"math"
	"math/big"
	"sort"
	"strings"

	"golang.org/x/tools/go/ssa"

	"risorcheck/core"
)

// Rules written after the ninth wave of independently produced changes and the
// defects its authors reported in the unmodified tree (D76 ff.).

// ---------------------------------------------------------------------------
// helpers

func ife(cond bool, a, b string) string {
	if cond {
		return a
	}
	return b
}

// isReflectCall: call is a static call of reflect.<recv>.<name> (recv "" for a
// package-level function).
func isReflectCall(cc *ssa.CallCommon, recv, name string) bool {
	cal := cc.StaticCallee()
	if cal == nil || cal.Pkg == nil || cal.Pkg.Pkg.Path() != "reflect" || cal.Name() != name {
		return false
	}
	r := cal.Signature.Recv()
	if recv == "" {
		return r == nil
	}
	if r == nil {
		return false
	}
	nt := core.NamedOf(r.Type())
	return nt != nil && nt.Obj().Name() == recv
}

// converterMethods returns the To and From methods of the types of package
// object that implement TypeConverter.
func converterMethods(p *core.Program) (to, from []*ssa.Function) {
	for _, fn := range repoFns(p, "object") {
		recv := fn.Signature.Recv()
		if recv == nil || fn.Parent() != nil {
			continue
		}
		sig := fn.Signature
		if sig.Params().Len() != 1 || sig.Results().Len() != 2 {
			continue
		}
		if !core.IsNamed(sig.Results().At(1).Type(), "", "error") && sig.Results().At(1).Type().String() != "error" {
			continue
		}
		switch fn.Name() {
		case "To":
			if core.IsNamed(sig.Params().At(0).Type(), pkgPath("object"), "Object") {
				to = append(to, fn)
			}
		case "From":
			if _, ok := sig.Params().At(0).Type().Underlying().(*types.Interface); ok && core.IsNamed(sig.Results().At(0).Type(), pkgPath("object"), "Object") {
				from = append(from, fn)
			}
		}
	}
	return
}

// intRange returns the range of an integer basic kind (int and uint taken as
// 64 bits wide); ok is false for anything else.
func intRange(b *types.Basic) (lo, hi *big.Int, ok bool) {
	mk := func(bits uint, signed bool) (*big.Int, *big.Int) {
		one := big.NewInt(1)
		if signed {
			h := new(big.Int).Lsh(one, bits-1)
			return new(big.Int).Neg(h), new(big.Int).Sub(h, one)
		}
		return big.NewInt(0), new(big.Int).Sub(new(big.Int).Lsh(one, bits), one)
	}
	switch b.Kind() {
	case types.Int8:
		lo, hi = mk(8, true)
	case types.Int16:
		lo, hi = mk(16, true)
	case types.Int32:
		lo, hi = mk(32, true)
	case types.Int64, types.Int:
		lo, hi = mk(64, true)
	case types.Uint8:
		lo, hi = mk(8, false)
	case types.Uint16:
		lo, hi = mk(16, false)
	case types.Uint32:
		lo, hi = mk(32, false)
	case types.Uint64, types.Uint, types.Uintptr:
		lo, hi = mk(64, false)
	default:
		return nil, nil, false
	}
	return lo, hi, true
}

// lossyIntegerConversion: cv converts to an integer type that cannot hold every
// value of the source type.
func lossyIntegerConversion(cv *ssa.Convert) bool {
	sb, ok1 := cv.X.Type().Underlying().(*types.Basic)
	db, ok2 := cv.Type().Underlying().(*types.Basic)
	if !ok1 || !ok2 || db.Info()&types.IsInteger == 0 {
		return false
	}
	if _, isK := cv.X.(*ssa.Const); isK {
		return false
	}
	if sb.Info()&types.IsFloat != 0 {
		return true
	}
	slo, shi, ok := intRange(sb)
	if !ok {
		return false
	}
	dlo, dhi, _ := intRange(db)
	return slo.Cmp(dlo) < 0 || shi.Cmp(dhi) > 0
}

// orderingGuards: an If on an ordering (or, for floats, any) comparison of a
// value related to v dominates instruction at.
func orderingGuards(fn *ssa.Function, v ssa.Value, at ssa.Instruction) bool {
	related := func(s ssa.Value) bool {
		if _, isK := s.(*ssa.Const); isK {
			return false
		}
		return s == v || core.SameStorage(s, v) || core.DependsOn(s, func(w ssa.Value) bool { return w == v || core.SameStorage(w, v) }) ||
			core.DependsOn(v, func(w ssa.Value) bool { return w == s })
	}
	for _, b2 := range fn.Blocks {
		if len(b2.Instrs) == 0 || (b2 != at.Block() && !b2.Dominates(at.Block())) {
			continue
		}
		iff, ok := b2.Instrs[len(b2.Instrs)-1].(*ssa.If)
		if !ok || b2 == at.Block() {
			continue
		}
		for _, bo := range condLeaves(iff.Cond) {
			switch bo.Op {
			case token.LSS, token.LEQ, token.GTR, token.GEQ:
				if related(bo.X) || related(bo.Y) {
					return true
				}
			}
		}
	}
	return false
}

// orderingGuardsOfTheValue is orderingGuards for comparisons of v itself or of
// something computed from v (not of something v was computed from).
func orderingGuardsOfTheValue(fn *ssa.Function, v ssa.Value, at ssa.Instruction) bool {
	related := func(s ssa.Value) bool {
		if _, isK := s.(*ssa.Const); isK {
			return false
		}
		return s == v || core.SameStorage(s, v) || core.DependsOn(s, func(w ssa.Value) bool { return w == v || core.SameStorage(w, v) })
	}
	for _, b2 := range fn.Blocks {
		if len(b2.Instrs) == 0 || b2 == at.Block() || !b2.Dominates(at.Block()) {
			continue
		}
		iff, ok := b2.Instrs[len(b2.Instrs)-1].(*ssa.If)
		if !ok {
			continue
		}
		for _, bo := range condLeaves(iff.Cond) {
			switch bo.Op {
			case token.LSS, token.LEQ, token.GTR, token.GEQ:
				if related(bo.X) || related(bo.Y) {
					return true
				}
			}
		}
	}
	return false
}

// bothSidesGuarded: among the comparisons that dominate at, the value is
// compared with a positive constant and with a negative one (or its absolute
// value is compared): a range has two ends.
func bothSidesGuarded(fn *ssa.Function, v ssa.Value, at ssa.Instruction) bool {
	related := func(s ssa.Value) bool {
		if _, isK := s.(*ssa.Const); isK {
			return false
		}
		return s == v || core.SameStorage(s, v) || core.DependsOn(s, func(w ssa.Value) bool { return w == v || core.SameStorage(w, v) })
	}
	viaAbs := func(s ssa.Value) bool {
		return core.DependsOn(s, func(w ssa.Value) bool {
			call, ok := w.(*ssa.Call)
			if !ok {
				return false
			}
			cal := call.Call.StaticCallee()
			return cal != nil && cal.Pkg != nil && cal.Pkg.Pkg.Path() == "math" && cal.Name() == "Abs"
		})
	}
	pos, neg := false, false
	for _, b2 := range fn.Blocks {
		if len(b2.Instrs) == 0 || b2 == at.Block() || !b2.Dominates(at.Block()) {
			continue
		}
		iff, ok := b2.Instrs[len(b2.Instrs)-1].(*ssa.If)
		if !ok {
			continue
		}
		for _, bo := range condLeaves(iff.Cond) {
			switch bo.Op {
			case token.LSS, token.LEQ, token.GTR, token.GEQ:
			default:
				continue
			}
			for _, pair := range [][2]ssa.Value{{bo.X, bo.Y}, {bo.Y, bo.X}} {
				k, isK := pair[1].(*ssa.Const)
				if !isK || k.Value == nil || !related(pair[0]) {
					continue
				}
				if viaAbs(pair[0]) {
					return true
				}
				switch constant.Sign(constant.ToFloat(k.Value)) {
				case 1:
					pos = true
				case -1:
					neg = true
				}
			}
		}
	}
	return pos && neg
}

// condLeaves returns the comparison that decides an If (one leaf: short-circuit
// conditions are separate blocks in SSA).
func condLeaves(v ssa.Value) []*ssa.BinOp {
	if bo, ok := v.(*ssa.BinOp); ok {
		return []*ssa.BinOp{bo}
	}
	return nil
}

// rangeCheckedBy: v is (a component of) the result of a static call to a repo
// function that compares a value with two of its int64 parameters, and the
// constants passed for them lie inside [lo, hi].
func rangeCheckedBy(v ssa.Value, lo, hi *big.Int) (string, bool) {
	for _, o := range core.Origins(stripConv(v)) {
		if ex, ok := o.(*ssa.Extract); ok {
			o = ex.Tuple
		}
		call, ok := o.(*ssa.Call)
		if !ok {
			continue
		}
		cal := call.Call.StaticCallee()
		// strconv.ParseInt / ParseUint with a constant bit size refuse what does not fit that size
		if cal != nil && cal.Pkg != nil && cal.Pkg.Pkg.Path() == "strconv" && (cal.Name() == "ParseInt" || cal.Name() == "ParseUint") && len(call.Call.Args) == 3 {
			if k, ok := call.Call.Args[2].(*ssa.Const); ok && k.Value != nil && k.Value.Kind() == constant.Int {
				bits := k.Int64()
				if bits > 0 && bits <= 64 {
					plo, phi := big.NewInt(0), new(big.Int).Sub(new(big.Int).Lsh(big.NewInt(1), uint(bits)), big.NewInt(1))
					if cal.Name() == "ParseInt" {
						phi = new(big.Int).Sub(new(big.Int).Lsh(big.NewInt(1), uint(bits-1)), big.NewInt(1))
						plo = new(big.Int).Neg(new(big.Int).Lsh(big.NewInt(1), uint(bits-1)))
					}
					if plo.Cmp(lo) >= 0 && phi.Cmp(hi) <= 0 {
						return "strconv." + cal.Name() + " with that bit size", true
					}
					return "strconv." + cal.Name() + " with a bit size whose range is not the target's", false
				}
			}
		}
		if cal == nil || cal.Blocks == nil || !core.RepoFunc(cal) {
			continue
		}
		// parameters that take part in an ordering comparison inside the callee
		var bounds []*big.Int
		for i, prm := range cal.Params {
			pb, ok := prm.Type().Underlying().(*types.Basic)
			if !ok || pb.Info()&types.IsInteger == 0 {
				continue
			}
			compared := false
			for _, b := range cal.Blocks {
				for _, in := range b.Instrs {
					if bo, ok := in.(*ssa.BinOp); ok {
						switch bo.Op {
						case token.LSS, token.LEQ, token.GTR, token.GEQ:
							if bo.X == prm || bo.Y == prm {
								compared = true
							}
						}
					}
				}
			}
			if !compared || i >= len(call.Call.Args) {
				continue
			}
			k, ok := stripConv(call.Call.Args[i]).(*ssa.Const)
			if !ok || k.Value == nil || k.Value.Kind() != constant.Int {
				return "", false
			}
			bi, ok := new(big.Int).SetString(k.Value.ExactString(), 10)
			if !ok {
				return "", false
			}
			bounds = append(bounds, bi)
		}
		if len(bounds) < 2 {
			continue
		}
		for _, bnd := range bounds {
			if bnd.Cmp(lo) < 0 || bnd.Cmp(hi) > 0 {
				return cal.Name() + " with bounds outside the target's range", false
			}
		}
		return cal.Name(), true
	}
	return "", false
}

// ---------------------------------------------------------------------------
// converterNarrowingIsRangeChecked: a TypeConverter turns a script number into
// a narrower Go integer (or a Go unsigned into the script's int64) only under a
// range test.  A plain conversion wraps around or truncates: s.TakeI8(300)
// hands the Go method 44, s.U64 = -1 stores 18446744073709551615, and a
// uint64 global above MaxInt64 reads as a negative number.
func converterNarrowingIsRangeChecked(c *core.Ctx) {
	p := c.P
	to, from := converterMethods(p)
	if len(to) < 10 || len(from) < 10 {
		core.Undecidedf("only %d To and %d From methods of TypeConverter implementations found", len(to), len(from))
	}
	// The converters selected by kind: what reflect.Value.Uint() can return
	// inside the From method of a converter registered for the kinds uint8,
	// uint16 and uint32 only is bounded by the kind, not by uint64.
	kindsOf := map[*types.Named][]int64{}
	if init := p.Pkg("object"); init != nil {
		for _, fn := range repoFns(p, "object") {
			if fn.Name() != "init" {
				continue
			}
			for _, b := range fn.Blocks {
				for _, in := range b.Instrs {
					mu, ok := in.(*ssa.MapUpdate)
					if !ok {
						continue
					}
					k, ok := mu.Key.(*ssa.Const)
					if !ok || !core.IsNamed(k.Type(), "reflect", "Kind") {
						continue
					}
					if mi, ok := mu.Value.(*ssa.MakeInterface); ok {
						if nt := core.NamedOf(mi.X.Type()); nt != nil {
							kindsOf[nt] = append(kindsOf[nt], k.Int64())
						}
					}
				}
			}
		}
	}
	if len(kindsOf) < 10 {
		core.Undecidedf("the table of converters by reflect.Kind was not found in the initialiser of package object (%d entries)", len(kindsOf))
	}
	smallUnsigned := func(fn *ssa.Function, cv *ssa.Convert) bool {
		isUint := false
		for _, o := range core.Origins(cv.X) {
			if call, ok := o.(*ssa.Call); ok && isReflectCall(&call.Call, "Value", "Uint") {
				isUint = true
			}
		}
		if !isUint || fn.Signature.Recv() == nil {
			return false
		}
		kinds := kindsOf[core.NamedOf(fn.Signature.Recv().Type())]
		if len(kinds) == 0 {
			return false
		}
		for _, k := range kinds {
			// reflect.Uint8, Uint16, Uint32
			if k != 8 && k != 9 && k != 10 {
				return false
			}
		}
		return true
	}
	// the As* helpers of package object (AsByte, AsInt, ...) turn a script value
	// into a Go value for builtins and methods in the same way
	var helpers []*ssa.Function
	for _, fn := range repoFns(p, "object") {
		if fn.Parent() == nil && fn.Signature.Recv() == nil && strings.HasPrefix(fn.Name(), "As") && fn.Signature.Params().Len() == 1 &&
			core.IsNamed(fn.Signature.Params().At(0).Type(), pkgPath("object"), "Object") && fn.Signature.Results().Len() == 2 {
			helpers = append(helpers, fn)
		}
	}
	// and the package-level functions that turn any Go value into a script value (FromGoType):
	// what the converters do for a value of known type they do for one of unknown type
	for _, fn := range repoFns(p, "object") {
		if fn.Parent() != nil || fn.Signature.Recv() != nil || fn.Signature.Params().Len() != 1 || fn.Signature.Results().Len() != 1 {
			continue
		}
		if it, ok := fn.Signature.Params().At(0).Type().Underlying().(*types.Interface); !ok || it.NumMethods() != 0 {
			continue
		}
		if !core.IsNamed(fn.Signature.Results().At(0).Type(), pkgPath("object"), "Object") {
			continue
		}
		helpers = append(helpers, fn)
	}
	// ... and the builtins that make a script value of a narrower kind (byte,
	// byte_slice, chr) out of a script number: the script asked for a value of
	// that kind, not for the number modulo 256.  (A conversion to a full-width
	// integer, int(3.7), is the truncation that the builtin is for.)
	builtinFns := map[*ssa.Function]bool{}
	for _, fn := range repoFns(p, "builtins") {
		if fn.Parent() == nil && fn.Signature.Recv() == nil && fn.Signature.Params().Len() == 2 && fn.Signature.Variadic() &&
			fn.Signature.Results().Len() == 1 && core.IsNamed(fn.Signature.Results().At(0).Type(), pkgPath("object"), "Object") {
			builtinFns[fn] = true
			helpers = append(helpers, fn)
		}
	}
	narrowTarget := func(cv *ssa.Convert) bool {
		db, ok := cv.Type().Underlying().(*types.Basic)
		if !ok {
			return false
		}
		switch db.Kind() {
		case types.Uint8, types.Int8, types.Uint16, types.Int16, types.Uint32, types.Int32:
			return true
		}
		return false
	}
	n := 0
	for _, fn := range append(append(append([]*ssa.Function{}, to...), from...), helpers...) {
		var lossy []*ssa.Convert
		var narrows []*ssa.Convert
		for _, b := range fn.Blocks {
			for _, in := range b.Instrs {
				if cv, ok := in.(*ssa.Convert); ok && lossyIntegerConversion(cv) && !smallUnsigned(fn, cv) {
					if builtinFns[fn] && !narrowTarget(cv) {
						continue
					}
					lossy = append(lossy, cv)
				}
				// float64 to float32: what is beyond the range becomes an infinity
				if cv, ok := in.(*ssa.Convert); ok {
					sb, ok1 := cv.X.Type().Underlying().(*types.Basic)
					db, ok2 := cv.Type().Underlying().(*types.Basic)
					if _, isK := cv.X.(*ssa.Const); ok1 && ok2 && !isK && sb.Kind() == types.Float64 && db.Kind() == types.Float32 {
						narrows = append(narrows, cv)
					}
				}
			}
		}
		for i, cv := range narrows {
			okf := orderingGuards(fn, cv.X, cv) && bothSidesGuarded(fn, cv.X, cv)
			n++
			c.Check(okf, core.SSAName(fn)+"|float32-under-range-test|"+sprintf("%d", i+1), p.Pos(cv.Pos()),
				core.SSAName(fn)+" narrows a float64 to float32"+ife(okf, " after an ordering test of the value", " without an ordering test: a value beyond the range of float32 becomes an infinity instead of being refused (o.F32 = 1e300 stores +Inf)"))
		}
		if len(lossy) == 0 {
			continue
		}
		n++
		bad := ""
		how := ""
		for _, cv := range lossy {
			db := cv.Type().Underlying().(*types.Basic)
			lo, hi, _ := intRange(db)
			if !builtinFns[fn] && orderingGuards(fn, cv.X, cv) {
				how = "a range test"
				continue
			}
			// (in a builtin the test must be of the number itself: the loop
			// that walks the items of a list compares its counter, on which the
			// item depends, and says nothing about the item)
			if builtinFns[fn] && orderingGuardsOfTheValue(fn, cv.X, cv) {
				how = "a range test"
				continue
			}
			if name, ok := rangeCheckedBy(cv.X, lo, hi); ok {
				how = name
				continue
			} else if name != "" {
				bad = p.Pos(cv.Pos()) + " (" + name + ")"
				continue
			}
			if bad == "" {
				bad = p.Pos(cv.Pos())
			}
		}
		c.Check(bad == "", core.SSAName(fn)+"|narrowing-under-range-test", p.Pos(fn.Pos()),
			core.SSAName(fn)+" narrows a number to "+lossy[0].Type().String()+" only after "+ife(how != "", how, "a range test")+ifs(bad != "", ": the conversion at "+bad+" is neither dominated by an ordering comparison of its operand nor fed by a range-checking helper whose constant bounds fit the target type; an out-of-range value wraps around or is truncated instead of being rejected"))
	}
	c.Stat("narrowing_converters", n)
}

// ---------------------------------------------------------------------------
// converterInterfaceAssertionsGuardNil: the From method of a converter for a Go
// interface type (error, context.Context) receives a nil interface when the
// field, result or global is nil.  A single-valued assertion of it to an
// interface type panics; the nil is tested first.
func converterInterfaceAssertionsGuardNil(c *core.Ctx) {
	p := c.P
	_, from := converterMethods(p)
	n := 0
	for _, fn := range from {
		if len(fn.Params) < 2 {
			continue
		}
		prm := fn.Params[1]
		for _, b := range fn.Blocks {
			for _, in := range b.Instrs {
				ta, ok := in.(*ssa.TypeAssert)
				if !ok || ta.X != prm {
					continue
				}
				if _, isIface := ta.AssertedType.Underlying().(*types.Interface); !isIface {
					continue
				}
				n++
				guarded := ta.CommaOk
				if !guarded {
					for _, b2 := range fn.Blocks {
						if len(b2.Instrs) == 0 || b2 == b || !b2.Dominates(b) {
							continue
						}
						if iff, ok := b2.Instrs[len(b2.Instrs)-1].(*ssa.If); ok {
							if bo, ok := iff.Cond.(*ssa.BinOp); ok && (bo.Op == token.EQL || bo.Op == token.NEQ) {
								if (bo.X == prm && isNilValue(bo.Y)) || (bo.Y == prm && isNilValue(bo.X)) {
									guarded = true
								}
							}
						}
					}
				}
				c.Check(guarded, core.SSAName(fn)+"|nil-interface-tested-before-assertion", p.Pos(ta.Pos()),
					core.SSAName(fn)+" asserts the Go value it is handed to "+ta.AssertedType.String()+ife(!guarded, " in the single-valued form and without testing it for nil first: a nil "+ta.AssertedType.String()+" field or result panics here (s.Err with a nil error)", " only after testing it for nil, or in the comma-ok form"))
			}
		}
	}
	c.Stat("interface_assertions_in_from", n)
}

// ---------------------------------------------------------------------------
// proxyCallPassesExactlyTheArguments: the function that calls a Go method by
// reflection on behalf of a script (reflect.Value.Call with inputs built from
// the script's arguments) (a) compares the number of arguments it consumed
// with the number given once it is done consuming, so that surplus arguments
// are an error and not silently dropped, and (b) hands a Go parameter the zero
// value for a script nil only for the kinds that have a nil.
func proxyCallPassesExactlyTheArguments(c *core.Ctx) {
	p := c.P
	objSlice := func(t types.Type) bool {
		sl, ok := t.Underlying().(*types.Slice)
		return ok && core.IsNamed(sl.Elem(), pkgPath("object"), "Object")
	}
	n := 0
	for _, fn := range repoFns(p, "object") {
		var args *ssa.Parameter
		for _, prm := range fn.Params {
			if objSlice(prm.Type()) {
				args = prm
			}
		}
		if args == nil {
			continue
		}
		calls := false
		for _, b := range fn.Blocks {
			for _, in := range b.Instrs {
				if call, ok := in.(*ssa.Call); ok && isReflectCall(&call.Call, "Value", "Call") {
					calls = true
				}
			}
		}
		if !calls {
			continue
		}
		n++
		// (a) a comparison with len(args) outside every loop
		after := false
		for _, b := range fn.Blocks {
			for _, in := range b.Instrs {
				bo, ok := in.(*ssa.BinOp)
				if !ok {
					continue
				}
				switch bo.Op {
				case token.LSS, token.LEQ, token.GTR, token.GEQ, token.NEQ, token.EQL:
				default:
					continue
				}
				isLen := func(v ssa.Value) bool {
					call, ok := v.(*ssa.Call)
					if !ok {
						return false
					}
					bi, ok := call.Call.Value.(*ssa.Builtin)
					return ok && bi.Name() == "len" && len(call.Call.Args) == 1 && call.Call.Args[0] == args
				}
				if (isLen(bo.X) || isLen(bo.Y)) && !inLoop(b) {
					if _, k1 := bo.X.(*ssa.Const); k1 {
						continue
					}
					if _, k2 := bo.Y.(*ssa.Const); k2 {
						continue
					}
					// the other side is what the loop counted (a value that is carried round a
					// loop), not a number worked out beforehand from the method's signature: such a
					// number is right only if it agrees with what the loop does for every parameter
					// (a context parameter takes no script argument)
					other := bo.X
					if isLen(bo.X) {
						other = bo.Y
					}
					counted := false
					for _, o := range core.Origins(other) {
						if add, ok := o.(*ssa.BinOp); ok && add.Op == token.ADD {
							counted = true
						}
					}
					if _, isPhi := other.(*ssa.Phi); isPhi {
						counted = true
					}
					if counted {
						after = true
					}
				}
			}
		}
		c.Check(after, core.SSAName(fn)+"|consumed-arguments-compared-with-given", p.Pos(fn.Pos()),
			core.SSAName(fn)+" compares the number of script arguments it consumed with len("+args.Name()+") outside the loop that consumes them"+ifs(!after, ": no such comparison exists, so arguments beyond the Go method's parameters are dropped without an error (s.Two(1, \"b\", \"c\") calls Two(1, \"b\"))"))
		// (b) reflect.Zero for a nil argument only on the equal-edge of Kind tests
		fns := []*ssa.Function{fn}
		for _, b := range fn.Blocks {
			for _, in := range b.Instrs {
				if call, ok := in.(*ssa.Call); ok {
					if cal := call.Call.StaticCallee(); cal != nil && cal.Blocks != nil && core.RepoFunc(cal) {
						for _, prm := range cal.Params {
							if core.IsNamed(prm.Type(), pkgPath("object"), "Object") {
								fns = append(fns, cal)
								break
							}
						}
					}
				}
			}
		}
		seen := map[*ssa.Function]bool{}
		zeros := 0
		for _, f := range fns {
			if seen[f] {
				continue
			}
			seen[f] = true
			for _, b := range f.Blocks {
				for _, in := range b.Instrs {
					call, ok := in.(*ssa.Call)
					if !ok || !isReflectCall(&call.Call, "", "Zero") {
						continue
					}
					zeros++
					ok2 := false
					for _, b2 := range f.Blocks {
						if len(b2.Instrs) == 0 {
							continue
						}
						iff, isIf := b2.Instrs[len(b2.Instrs)-1].(*ssa.If)
						if !isIf {
							continue
						}
						bo, isBo := iff.Cond.(*ssa.BinOp)
						if !isBo || bo.Op != token.EQL {
							continue
						}
						kindCall := func(v ssa.Value) bool {
							cc, ok := v.(*ssa.Call)
							return ok && cc.Call.IsInvoke() && cc.Call.Method.Name() == "Kind" || ok && isReflectCall(&cc.Call, "Value", "Kind")
						}
						if !kindCall(bo.X) && !kindCall(bo.Y) {
							continue
						}
						t := b2.Succs[0]
						if t == b || t.Dominates(b) {
							ok2 = true
						}
					}
					c.Check(ok2, core.SSAName(f)+"|nil-only-for-nillable-kinds", p.Pos(call.Pos()),
						f.Name()+" passes reflect.Zero of the parameter type for a script nil"+ife(ok2, " only where a test of the parameter's Kind selected it", ": the call is not on the equal-branch of a Kind test, so an int, string or struct parameter silently receives its zero value for nil"))
				}
			}
		}
		if zeros == 0 {
			c.Pass(core.SSAName(fn)+"|nil-only-for-nillable-kinds", p.Pos(fn.Pos()), fn.Name()+" never substitutes a zero value for a nil argument")
		}
	}
	if n == 0 {
		core.Undecidedf("no function of package object calls reflect.Value.Call with script arguments")
	}
	c.Stat("reflective_callers", n)
}

// ---------------------------------------------------------------------------
// arraysRejectLongerLists: a converter that fills a Go array (reflect.ArrayOf)
// from a script list index by index compares the list's length with the
// array's before the loop; reflect.Value.Index past the end panics.
func arraysRejectLongerLists(c *core.Ctx) {
	p := c.P
	to, _ := converterMethods(p)
	n := 0
	for _, fn := range to {
		var arrayOf, index ssa.Instruction
		for _, b := range fn.Blocks {
			for _, in := range b.Instrs {
				if call, ok := in.(*ssa.Call); ok {
					if isReflectCall(&call.Call, "", "ArrayOf") {
						arrayOf = in
					}
					if isReflectCall(&call.Call, "Value", "Index") && inLoop(b) {
						index = in
					}
				}
			}
		}
		if arrayOf == nil || index == nil {
			continue
		}
		n++
		guarded := false
		for _, b := range fn.Blocks {
			if len(b.Instrs) == 0 || inLoop(b) || !b.Dominates(index.Block()) {
				continue
			}
			iff, ok := b.Instrs[len(b.Instrs)-1].(*ssa.If)
			if !ok {
				continue
			}
			bo, ok := iff.Cond.(*ssa.BinOp)
			if !ok {
				continue
			}
			switch bo.Op {
			case token.LSS, token.LEQ, token.GTR, token.GEQ, token.NEQ, token.EQL:
				for _, s := range []ssa.Value{bo.X, bo.Y} {
					if call, ok := s.(*ssa.Call); ok {
						if bi, ok := call.Call.Value.(*ssa.Builtin); ok && bi.Name() == "len" {
							guarded = true
						}
					}
				}
			}
		}
		c.Check(guarded, core.SSAName(fn)+"|list-length-compared-with-array-length", p.Pos(index.Pos()),
			core.SSAName(fn)+" fills a Go array from a script list index by index"+ife(guarded, " after comparing the list's length", " without comparing the list's length with the array's first: a longer list panics in reflect.Value.Index (s.Arr = [1, 2, 3, 4] for a [3]int)"))
	}
	if n == 0 {
		core.Undecidedf("no converter fills a reflect.ArrayOf value in a loop")
	}
	c.Stat("array_filling_converters", n)
}

// ---------------------------------------------------------------------------
// proxiesAreNotBuiltOnNilPointers: a proxy dereferences the pointer it wraps
// on every attribute access (reflect.ValueOf(p.obj).Elem().FieldByName).  The
// converter that wraps a Go pointer in a proxy tests it for nil first (a nil
// *T is the script's nil), or the constructor does.
func proxiesAreNotBuiltOnNilPointers(c *core.Ctx) {
	p := c.P
	proxyT := core.MustType(p.Pkg("object"), "Proxy")
	// a reflect.Value.IsNil test one of whose outcomes leaves the function
	// without reaching the construction
	hasNilTest := func(f *ssa.Function, before ssa.Instruction) bool {
		for _, b := range f.Blocks {
			for _, in := range b.Instrs {
				call, ok := in.(*ssa.Call)
				if !ok || !isReflectCall(&call.Call, "Value", "IsNil") {
					continue
				}
				if before == nil {
					return true
				}
				refs := call.Referrers()
				if refs == nil {
					continue
				}
				for _, r := range *refs {
					iff, ok := r.(*ssa.If)
					if !ok {
						continue
					}
					for _, s := range iff.Block().Succs {
						if len(s.Instrs) > 0 && s != before.Block() && !instrReaches(s.Instrs[0], before) {
							return true
						}
					}
				}
			}
		}
		return false
	}
	var ctor *ssa.Function
	for _, fn := range repoFns(p, "object") {
		for _, b := range fn.Blocks {
			for _, in := range b.Instrs {
				if al, ok := in.(*ssa.Alloc); ok && al.Heap && core.NamedOf(al.Type()) == proxyT && fn.Parent() == nil {
					ctor = fn
				}
			}
		}
	}
	if ctor == nil {
		core.Undecidedf("no function of package object constructs a Proxy")
	}
	n := 0
	// an exported constructor is called by hosts as well: it looks at the pointer itself
	if ctor.Object() != nil && ctor.Object().Exported() {
		n++
		okc := hasNilTest(ctor, nil)
		c.Check(okc, core.SSAName(ctor)+"|exported-constructor-tests-the-pointer", p.Pos(ctor.Pos()),
			ctor.Name()+" is exported and builds a proxy on whatever it is handed"+ife(okc, "; it tests a pointer for nil first", "; it does not test a pointer for nil: object.NewProxy((*T)(nil)) succeeds, and every attribute access on the result panics in reflect (\"call of reflect.Value.FieldByName on zero Value\")"))
	}
	for _, fn := range repoFns(p, "object") {
		if fn == ctor {
			continue
		}
		for _, b := range fn.Blocks {
			for _, in := range b.Instrs {
				call, ok := in.(*ssa.Call)
				if !ok || call.Call.StaticCallee() != ctor {
					continue
				}
				n++
				ok2 := hasNilTest(ctor, nil) || hasNilTest(fn, in)
				c.Check(ok2, core.SSAName(fn)+"|pointer-tested-for-nil-before-proxying", p.Pos(call.Pos()),
					core.SSAName(fn)+" wraps a Go value in a proxy"+ife(ok2, " after a reflect.Value.IsNil test (here or in "+ctor.Name()+")", ": neither it nor "+ctor.Name()+" tests the pointer for nil, and every attribute access on the proxy of a nil *T panics (n.Next.Val with Next == nil)"))
			}
		}
	}
	if n == 0 {
		core.Undecidedf("%s has no caller in package object", ctor.Name())
	}
	c.Stat("proxy_constructions", n)
}

var _ = math.MaxInt64

// ---------------------------------------------------------------------------
// sliceElementsAreProxiedInPlace: a struct reached through a Go slice is
// proxied by address, the way Proxy.GetAttr proxies a struct field
// (value.Addr()): the slice converter's From takes the address of an
// addressable element before it hands it on.  Converting
// reflect.Value.Index(i).Interface() proxies a copy, and what a script writes
// through n.Kids[0].Val = 5 is lost.
func sliceElementsAreProxiedInPlace(c *core.Ctx) {
	p := c.P
	to, from := converterMethods(p)
	makesSlice := map[*types.Named]bool{}
	for _, fn := range to {
		for _, b := range fn.Blocks {
			for _, in := range b.Instrs {
				if call, ok := in.(*ssa.Call); ok && isReflectCall(&call.Call, "", "MakeSlice") {
					makesSlice[core.NamedOf(fn.Signature.Recv().Type())] = true
				}
			}
		}
	}
	n := 0
	for _, fn := range from {
		if !makesSlice[core.NamedOf(fn.Signature.Recv().Type())] {
			continue
		}
		for _, b := range fn.Blocks {
			for _, in := range b.Instrs {
				call, ok := in.(*ssa.Call)
				if !ok || !isReflectCall(&call.Call, "Value", "Interface") || !inLoop(b) || len(call.Call.Args) == 0 {
					continue
				}
				fromIndex, byAddr := false, false
				for _, o := range core.Origins(call.Call.Args[0]) {
					if oc, ok := o.(*ssa.Call); ok {
						if isReflectCall(&oc.Call, "Value", "Index") {
							fromIndex = true
						}
						if isReflectCall(&oc.Call, "Value", "Addr") {
							byAddr = true
						}
					}
				}
				if !fromIndex && !byAddr {
					continue
				}
				n++
				c.Check(byAddr, core.SSAName(fn)+"|elements-by-address", p.Pos(call.Pos()),
					core.SSAName(fn)+" converts the elements of a Go slice"+ife(byAddr, " by address where they are addressable", " from reflect.Value.Index(i).Interface() only, which copies a struct element: the proxy wraps the copy and writes through it never reach the slice (n.Kids[0].Val = 5; n.Kids[0].Val -> the old value), unlike a struct field, which Proxy.GetAttr proxies through Addr()"))
			}
		}
	}
	if n == 0 {
		core.Undecidedf("no slice converter converts its elements in a loop")
	}
	c.Stat("slice_element_conversions", n)
}

// ---------------------------------------------------------------------------
// repeatCountsAreValidated: strings.Repeat and bytes.Repeat panic on a negative
// count (and on a result that overflows).  Where a module function or a method
// of a script value hands them a count that comes from the script, an ordering
// comparison of that count decides first, so that the script gets an error and
// not a Go panic.
func repeatCountsAreValidated(c *core.Ctx) {
	p := c.P
	n := 0
	for _, fn := range repoFns(p) {
		rel := core.RelPkg(fn.Pkg.Pkg)
		if rel != "object" && rel != "builtins" && !strings.HasPrefix(rel, "modules/") {
			continue
		}
		for _, b := range fn.Blocks {
			for _, in := range b.Instrs {
				call, ok := in.(*ssa.Call)
				if !ok {
					continue
				}
				cal := call.Call.StaticCallee()
				if cal == nil || cal.Pkg == nil || cal.Name() != "Repeat" || (cal.Pkg.Pkg.Path() != "strings" && cal.Pkg.Pkg.Path() != "bytes") || len(call.Call.Args) != 2 {
					continue
				}
				cnt := call.Call.Args[1]
				if _, isK := cnt.(*ssa.Const); isK {
					continue
				}
				n++
				ok2 := orderingGuards(fn, cnt, call)
				c.Check(ok2, core.SSAName(fn)+"|repeat-count-validated", p.Pos(call.Pos()),
					core.SSAName(fn)+" calls "+cal.Pkg.Pkg.Path()+".Repeat with a count that is not a constant"+ife(ok2, " after an ordering comparison of it", " and no ordering comparison of that count dominates the call: a negative count from the script is a Go panic (\"negative Repeat count\"), not a script error"))
			}
		}
	}
	if n == 0 {
		core.Undecidedf("no module function or value method calls strings.Repeat or bytes.Repeat")
	}
	c.Stat("repeat_calls", n)
}

// ---------------------------------------------------------------------------
// containersNeverEncodeAsNull: a list, map or set is never JSON null: null
// decodes to nil, which is not equal to the empty container it was made from
// (decode(encode(list())) != list()).  The JSON methods of the container types
// and what they call neither return the literal null nor hand their raw Go
// storage (a possibly nil slice or map) to encoding/json.
func containersNeverEncodeAsNull(c *core.Ctx) {
	p := c.P
	op := p.Pkg("object")
	contT := core.MustType(op, "Container")
	ci, _ := contT.Underlying().(*types.Interface)
	if ci == nil {
		core.Undecidedf("object.Container is not an interface")
	}
	n := 0
	for _, fn := range repoFns(p, "object") {
		if fn.Name() != "MarshalJSON" || fn.Signature.Recv() == nil || fn.Parent() != nil {
			continue
		}
		rt := fn.Signature.Recv().Type()
		if !types.Implements(rt, ci) {
			continue
		}
		nt := core.NamedOf(rt)
		if nt == nil {
			continue
		}
		if st, ok := nt.Underlying().(*types.Struct); ok {
			// only containers of objects: storage is a slice or map of Object
			holds := false
			for i := 0; i < st.NumFields(); i++ {
				switch u := st.Field(i).Type().Underlying().(type) {
				case *types.Slice:
					holds = holds || core.IsNamed(u.Elem(), pkgPath("object"), "Object")
				case *types.Map:
					holds = holds || core.IsNamed(u.Elem(), pkgPath("object"), "Object")
				}
			}
			if !holds {
				continue
			}
		}
		n++
		// the method and the methods of the same receiver it calls
		fns := []*ssa.Function{fn}
		seen := map[*ssa.Function]bool{fn: true}
		for i := 0; i < len(fns); i++ {
			for _, b := range fns[i].Blocks {
				for _, in := range b.Instrs {
					if ci, ok := in.(ssa.CallInstruction); ok {
						if cal := ci.Common().StaticCallee(); cal != nil && cal.Blocks != nil && !seen[cal] && cal.Signature.Recv() != nil && core.NamedOf(cal.Signature.Recv().Type()) == nt {
							seen[cal] = true
							fns = append(fns, cal)
						}
					}
				}
			}
		}
		bad := ""
		for _, f := range fns {
			for _, b := range f.Blocks {
				for _, in := range b.Instrs {
					switch x := in.(type) {
					case *ssa.Convert:
						if k, ok := x.X.(*ssa.Const); ok && k.Value != nil && k.Value.Kind() == constant.String && constant.StringVal(k.Value) == "null" {
							bad = "the literal null at " + p.Pos(x.Pos())
						}
					case *ssa.Call:
						if cal := x.Call.StaticCallee(); cal != nil && cal.Pkg != nil && cal.Pkg.Pkg.Path() == "encoding/json" && cal.Name() == "Marshal" && len(x.Call.Args) == 1 {
							for _, o := range core.Origins(x.Call.Args[0]) {
								if mi, ok := o.(*ssa.MakeInterface); ok {
									if u, ok := mi.X.(*ssa.UnOp); ok {
										if fa, ok := u.X.(*ssa.FieldAddr); ok && core.NamedOf(fa.X.Type()) == nt {
											switch mi.X.Type().Underlying().(type) {
											case *types.Slice, *types.Map:
												bad = "json.Marshal of the raw storage at " + p.Pos(x.Pos()) + " (null when it is nil)"
											}
										}
									}
								}
							}
						}
					}
				}
			}
		}
		c.Check(bad == "", "object."+nt.Obj().Name()+"|never-encoded-as-null", p.Pos(fn.Pos()),
			nt.Obj().Name()+" encodes as a JSON array or object whatever its Go storage is"+ifs(bad != "", ": "+bad+"; json.marshal(list()) gives null, which decodes to nil, not to []"))
	}
	if n < 2 {
		core.Undecidedf("only %d container types with a MarshalJSON method found", n)
	}
	c.Stat("container_marshalers", n)
}

// ---------------------------------------------------------------------------
// scriptDivisionsAreGuarded: where the value types, the builtins and the
// modules divide an integer by a value that comes from the script, a test of
// the divisor against a constant decides first.  An integer division by zero
// is a Go panic; inside the VM it is recovered into an error that try cannot
// catch and that reads "panic: runtime error: integer divide by zero", and a
// wrapper of a Go function that itself has an answer for a zero divisor
// (math.Mod gives NaN) stops agreeing with it.
func scriptDivisionsAreGuarded(c *core.Ctx) {
	p := c.P
	n := 0
	perFn := map[*ssa.Function]int{}
	for _, fn := range repoFns(p) {
		rel := core.RelPkg(fn.Pkg.Pkg)
		if rel != "object" && rel != "builtins" && !strings.HasPrefix(rel, "modules/") {
			continue
		}
		for _, b := range fn.Blocks {
			for _, in := range b.Instrs {
				bo, ok := in.(*ssa.BinOp)
				if !ok || (bo.Op != token.QUO && bo.Op != token.REM) {
					continue
				}
				bt, ok := bo.X.Type().Underlying().(*types.Basic)
				if !ok || bt.Info()&types.IsInteger == 0 {
					continue
				}
				if k, ok := bo.Y.(*ssa.Const); ok && k.Value != nil {
					continue
				}
				n++
				perFn[fn]++
				guarded := false
				for _, b2 := range fn.Blocks {
					if len(b2.Instrs) == 0 || b2 == b || !b2.Dominates(b) {
						continue
					}
					iff, ok := b2.Instrs[len(b2.Instrs)-1].(*ssa.If)
					if !ok {
						continue
					}
					if cond, ok := iff.Cond.(*ssa.BinOp); ok {
						for _, pair := range [][2]ssa.Value{{cond.X, cond.Y}, {cond.Y, cond.X}} {
							if pair[0] == bo.Y || core.SameStorage(pair[0], bo.Y) || sameAccessPath(stripConv(pair[0]), stripConv(bo.Y), 0) {
								if k, ok := pair[1].(*ssa.Const); ok && k.Value != nil {
									guarded = true
								}
							}
						}
					}
				}
				c.Check(guarded, core.SSAName(fn)+"|integer-divisor-tested|"+sprintf("%d", perFn[fn]), p.Pos(bo.Pos()),
					core.SSAName(fn)+" divides an integer by a value that is not a constant"+ife(guarded, " after testing that value against a constant", " and does not test it against zero first: a zero divisor from the script is a Go panic, not a script error"))
			}
		}
	}
	if n == 0 {
		core.Undecidedf("no integer division by a non-constant in the value types, builtins and modules")
	}
	c.Stat("script_integer_divisions", n)
}

// ---------------------------------------------------------------------------
// byteSliceMethodsCallTheirNamesake: a method of the byte_slice type that bears
// the name of an exported function of Go's bytes package is that function
// applied to the slice: it calls it.  An equivalent written with another
// function of the package (Index of the character's encoding for IndexRune)
// differs from Go where the two differ (invalid UTF-8 and U+FFFD).  The methods
// that are implemented independently today are listed with the reason.
var byteSliceIndependent = map[string]string{
	"Clone": "copies with make+copy and wraps the copy in a new script object; it is not exposed as a wrapper of bytes.Clone",
}

func byteSliceMethodsCallTheirNamesake(c *core.Ctx) {
	p := c.P
	op := p.Pkg("object")
	bsT := core.MustType(op, "ByteSlice")
	var goBytes *types.Package
	for _, im := range op.Types.Imports() {
		if im.Path() == "bytes" {
			goBytes = im
		}
	}
	if goBytes == nil {
		core.Undecidedf("package object does not import bytes")
	}
	n := 0
	for _, m := range core.Methods(bsT) {
		target, _ := goBytes.Scope().Lookup(m.Name()).(*types.Func)
		if target == nil || !target.Exported() {
			continue
		}
		sf := p.SSAFunc(m)
		if sf == nil || sf.Blocks == nil {
			continue
		}
		n++
		if why, ok := byteSliceIndependent[m.Name()]; ok {
			c.Pass("object.ByteSlice."+m.Name()+"|calls-bytes-namesake", p.Pos(sf.Pos()), "listed as implemented independently: "+why)
			continue
		}
		calls := false
		for _, b := range sf.Blocks {
			for _, in := range b.Instrs {
				if call, ok := in.(*ssa.Call); ok {
					if cal := call.Call.StaticCallee(); cal != nil && cal.Object() == types.Object(target) {
						calls = true
					}
				}
			}
		}
		c.Check(calls, "object.ByteSlice."+m.Name()+"|calls-bytes-namesake", p.Pos(sf.Pos()),
			"byte_slice."+m.Name()+ife(calls, " calls bytes."+m.Name(), " does not call bytes."+m.Name()+": it answers by other means, which agree with Go only where those means and bytes."+m.Name()+" agree"))
	}
	if n < 10 {
		core.Undecidedf("only %d methods of ByteSlice are named after a function of package bytes", n)
	}
	c.Stat("byte_slice_namesakes", n)
}

// ---------------------------------------------------------------------------
// equalsAndHashKeyLookAtTheSameThing: a hashable value is one set member (and
// one map key) per HashKey, so two values with the same HashKey must be ==,
// and `in` agrees with comparing.  Where HashKey is computed from what a
// pointer field points at (the text of a compiled pattern), Equals and Compare
// do not compare that pointer by identity: two values built from the same
// text would share a set slot and yet be unequal, and each would order before
// the other.
func equalsAndHashKeyLookAtTheSameThing(c *core.Ctx) {
	p := c.P
	n := 0
	byType := map[*types.Named]map[string]*ssa.Function{}
	for _, fn := range repoFns(p) {
		if fn.Signature.Recv() == nil || fn.Parent() != nil {
			continue
		}
		switch fn.Name() {
		case "HashKey", "Equals", "Compare":
		default:
			continue
		}
		nt := core.NamedOf(fn.Signature.Recv().Type())
		if nt == nil {
			continue
		}
		if byType[nt] == nil {
			byType[nt] = map[string]*ssa.Function{}
		}
		byType[nt][fn.Name()] = fn
	}
	var nts []*types.Named
	for nt, ms := range byType {
		if ms["HashKey"] != nil && (ms["Equals"] != nil || ms["Compare"] != nil) {
			nts = append(nts, nt)
		}
	}
	sort.Slice(nts, func(i, j int) bool { return nts[i].Obj().Name() < nts[j].Obj().Name() })
	for _, nt := range nts {
		ms := byType[nt]
		// pointer fields through which HashKey calls a method
		through := map[int]bool{}
		hk := ms["HashKey"]
		for _, b := range hk.Blocks {
			for _, in := range b.Instrs {
				call, ok := in.(*ssa.Call)
				if !ok || len(call.Call.Args) == 0 || call.Call.StaticCallee() == nil || call.Call.StaticCallee().Signature.Recv() == nil {
					continue
				}
				if u, ok := call.Call.Args[0].(*ssa.UnOp); ok {
					if fa, ok := u.X.(*ssa.FieldAddr); ok && core.NamedOf(fa.X.Type()) == nt {
						if _, isPtr := u.Type().Underlying().(*types.Pointer); isPtr {
							through[fa.Field] = true
						}
					}
				}
			}
		}
		if len(through) == 0 {
			continue
		}
		for _, name := range []string{"Equals", "Compare"} {
			fn := ms[name]
			if fn == nil {
				continue
			}
			n++
			bad := ""
			for _, b := range fn.Blocks {
				for _, in := range b.Instrs {
					bo, ok := in.(*ssa.BinOp)
					if !ok || (bo.Op != token.EQL && bo.Op != token.NEQ) {
						continue
					}
					fld := func(v ssa.Value) int {
						if u, ok := v.(*ssa.UnOp); ok {
							if fa, ok := u.X.(*ssa.FieldAddr); ok && core.NamedOf(fa.X.Type()) == nt {
								return fa.Field
							}
						}
						return -1
					}
					fx, fy := fld(bo.X), fld(bo.Y)
					if fx >= 0 && fx == fy && through[fx] {
						bad = p.Pos(bo.Pos())
					}
				}
			}
			st := nt.Underlying().(*types.Struct)
			var fnames []string
			for f := range through {
				fnames = append(fnames, st.Field(f).Name())
			}
			sort.Strings(fnames)
			c.Check(bad == "", core.SSAName(fn)+"|agrees-with-HashKey-on-"+strings.Join(fnames, "+"), p.Pos(fn.Pos()),
				core.SSAName(fn)+ife(bad == "", " does not compare the pointer field "+strings.Join(fnames, ", ")+" by identity", " compares the pointer field "+strings.Join(fnames, ", ")+" by identity at "+bad)+", while HashKey is computed from what it points at"+ifs(bad != "", ": two values made from the same text are one member of a set and still not ==, so `in` disagrees with comparing"))
		}
	}
	if n == 0 {
		c.Pass("repo|hashkey-through-pointers", "", "no hashable type computes its HashKey through a pointer field")
	}
	c.Stat("hashkey_through_pointer_types", n)
}

// ---------------------------------------------------------------------------
// handbackHelperRejectsTheUnassignable: what a TypeConverter produced reaches a
// Go location (reflect.Set, Append, SetMapIndex, Call) through one helper that
// converts between a type and its named variants.  That helper also says no:
// it has an error result, tests reflect.Type.AssignableTo, and returns a
// non-nil error on some path; and no caller drops that error.  Anything it let
// through unchanged that is not assignable makes reflect panic (a proxy of
// another struct type, a string for a non-empty interface, a nil pointer for a
// struct value).
func handbackHelperRejectsTheUnassignable(c *core.Ctx) {
	p := c.P
	n := 0
	for _, fn := range repoFns(p, "object") {
		if fn.Parent() != nil || !isConversionHelper(fn) || len(fn.Params) != 2 {
			continue
		}
		if !core.IsNamed(fn.Params[0].Type(), "reflect", "Value") {
			continue
		}
		n++
		res := fn.Signature.Results()
		hasErr := res.Len() == 2 && isErrorType(res.At(1).Type())
		errReturned := false
		if hasErr {
			for _, b := range fn.Blocks {
				for _, in := range b.Instrs {
					if r, ok := in.(*ssa.Return); ok && len(r.Results) == 2 {
						for _, o := range core.Origins(spilledResult(b, r.Results[1])) {
							if k, isK := o.(*ssa.Const); !isK || !k.IsNil() {
								errReturned = true
							}
						}
					}
				}
			}
		}
		c.Check(hasErr && errReturned, core.SSAName(fn)+"|rejects-the-unassignable", p.Pos(fn.Pos()),
			core.SSAName(fn)+" prepares converter results for a Go location"+ife(hasErr && errReturned, " and returns an error for a value that is not assignable to it", " but has no way to refuse: a value that is neither assignable nor convertible by name goes through unchanged and reflect panics on it (o.PIn = o.PA for fields of two struct types)"))
		// callers look at the error
		for _, g := range repoFns(p, "object") {
			k := 0
			for _, b := range g.Blocks {
				for _, in := range b.Instrs {
					call, ok := in.(*ssa.Call)
					if !ok || call.Call.StaticCallee() != fn {
						continue
					}
					k++
					used := false
					if refs := call.Referrers(); refs != nil {
						for _, r := range *refs {
							if ex, ok := r.(*ssa.Extract); ok && ex.Index == 1 && ex.Referrers() != nil && len(*ex.Referrers()) > 0 {
								used = true
							}
							if _, ok := r.(*ssa.Return); ok {
								used = true
							}
						}
					}
					if !hasErr {
						continue
					}
					c.Check(used, core.SSAName(g)+"|looks-at-the-error-of-"+fn.Name()+"|"+sprintf("%d", k), p.Pos(call.Pos()),
						core.SSAName(g)+" calls "+fn.Name()+ife(used, " and looks at its error", " and drops its error"))
				}
			}
		}
	}
	if n == 0 {
		core.Undecidedf("no conversion helper (reflect.Value, reflect.Type) found in package object")
	}
	c.Stat("handback_helpers", n)
}

// ---------------------------------------------------------------------------
// reflectedResultsAreNilTestedAsValues: whether a result of a reflective call
// is nil is asked of the reflect.Value (IsNil), not of the interface it is
// boxed in.  reflect.Value.Interface() of a nil pointer of a concrete type is
// a non-nil interface: compared with nil directly, a Go method that returns
// (*MyErr)(nil) raises an error whose text is "<nil>".
func reflectedResultsAreNilTestedAsValues(c *core.Ctx) {
	p := c.P
	n := 0
	for _, fn := range repoFns(p, "object") {
		calls := false
		for _, b := range fn.Blocks {
			for _, in := range b.Instrs {
				if call, ok := in.(*ssa.Call); ok && isReflectCall(&call.Call, "Value", "Call") {
					calls = true
				}
			}
		}
		if !calls {
			continue
		}
		isNilTests := 0
		for _, b := range fn.Blocks {
			for _, in := range b.Instrs {
				if call, ok := in.(*ssa.Call); ok && isReflectCall(&call.Call, "Value", "IsNil") {
					isNilTests++
				}
			}
		}
		k := 0
		for _, b := range fn.Blocks {
			for _, in := range b.Instrs {
				bo, ok := in.(*ssa.BinOp)
				if !ok || (bo.Op != token.EQL && bo.Op != token.NEQ) {
					continue
				}
				var other ssa.Value
				switch {
				case isNilValue(bo.Y):
					other = bo.X
				case isNilValue(bo.X):
					other = bo.Y
				default:
					continue
				}
				call, ok := other.(*ssa.Call)
				if !ok || !isReflectCall(&call.Call, "Value", "Interface") {
					continue
				}
				k++
				n++
				c.Check(false, core.SSAName(fn)+"|nil-asked-of-the-reflect-value|"+sprintf("%d", k), p.Pos(bo.Pos()),
					core.SSAName(fn)+" compares reflect.Value.Interface() of a result of a reflective call with nil: for a nil pointer of a concrete type the interface is not nil (a method returning (*MyErr)(nil) raises an error that prints as <nil>); the question is reflect.Value.IsNil")
			}
		}
		if k == 0 {
			c.Check(isNilTests > 0, core.SSAName(fn)+"|nil-asked-of-the-reflect-value", p.Pos(fn.Pos()),
				core.SSAName(fn)+" calls a Go method by reflection and "+ife(isNilTests > 0, "asks reflect.Value.IsNil about its results", "never asks reflect.Value.IsNil about its results"))
			n++
		}
	}
	if n == 0 {
		core.Undecidedf("no function of package object calls reflect.Value.Call")
	}
	c.Stat("reflective_callers_nil_tests", n)
}

// ---------------------------------------------------------------------------
// floatLimitsRejectTwoToThe63: a float is converted to an int64 only when it
// is below 2^63.  math.MaxInt64 is not representable as a float64 and rounds
// up to exactly 2^63, so `f > math.MaxInt64` lets the float 2^63 through, and
// int64(2^63) is MinInt64 on amd64.  The guard in front of such a conversion
// has a comparison that rejects 2^63 itself: f >= c with c <= 2^63, or f > c
// with c < 2^63.
func floatLimitsRejectTwoToThe63(c *core.Ctx) {
	p := c.P
	two63 := new(big.Float).SetMantExp(big.NewFloat(1), 63)
	n := 0
	for _, fn := range repoFns(p, "object") {
		for _, b := range fn.Blocks {
			for _, in := range b.Instrs {
				cv, ok := in.(*ssa.Convert)
				if !ok {
					continue
				}
				sb, ok1 := cv.X.Type().Underlying().(*types.Basic)
				db, ok2 := cv.Type().Underlying().(*types.Basic)
				if !ok1 || !ok2 || sb.Kind() != types.Float64 || db.Kind() != types.Int64 {
					continue
				}
				if _, isK := cv.X.(*ssa.Const); isK {
					continue
				}
				// only conversions that a range test guards at all (the others are C08-R15's and C15-R10's business)
				hasUpper, rejects := false, false
				for _, b2 := range fn.Blocks {
					if len(b2.Instrs) == 0 || b2 == b || !b2.Dominates(b) {
						continue
					}
					iff, ok := b2.Instrs[len(b2.Instrs)-1].(*ssa.If)
					if !ok {
						continue
					}
					bo, ok := iff.Cond.(*ssa.BinOp)
					if !ok {
						continue
					}
					op := bo.Op
					v, k := bo.X, bo.Y
					if _, isConst := v.(*ssa.Const); isConst {
						v, k = bo.Y, bo.X
						switch op {
						case token.LSS:
							op = token.GTR
						case token.LEQ:
							op = token.GEQ
						case token.GTR:
							op = token.LSS
						case token.GEQ:
							op = token.LEQ
						}
					}
					kc, ok := k.(*ssa.Const)
					if !ok || kc.Value == nil || (v != cv.X && !core.SameStorage(v, cv.X)) {
						continue
					}
					f, _ := new(big.Float).SetString(kc.Value.ExactString())
					if f == nil {
						if r, ok2 := new(big.Rat).SetString(kc.Value.ExactString()); ok2 {
							f = new(big.Float).SetRat(r)
						}
					}
					if f == nil || f.Sign() <= 0 {
						continue
					}
					// the constant as the float64 the comparison really uses
					f64, _ := f.Float64()
					fr := big.NewFloat(f64)
					switch op {
					case token.GEQ:
						hasUpper = true
						if fr.Cmp(two63) <= 0 {
							rejects = true
						}
					case token.GTR:
						hasUpper = true
						if fr.Cmp(two63) < 0 {
							rejects = true
						}
					}
				}
				if !hasUpper {
					continue
				}
				n++
				c.Check(rejects, core.SSAName(fn)+"|float-limit-rejects-2^63", p.Pos(cv.Pos()),
					core.SSAName(fn)+" converts a float to int64 behind an upper limit"+ife(rejects, " that rejects 2^63", " that 2^63 itself passes (a limit written as math.MaxInt64 is 2^63 as a float, and `>` does not reject it): int64(2^63) is MinInt64, so the Go side receives -9223372036854775808 for 9223372036854775808.0"))
			}
		}
	}
	if n == 0 {
		core.Undecidedf("no float-to-int64 conversion of package object is guarded by an upper limit")
	}
	c.Stat("guarded_float_to_int64", n)
}

// ---------------------------------------------------------------------------
// attributesAreDiscoveredAsTheyAreAccessed: a proxy reads and writes a field
// with reflect.Value.FieldByName on the struct it wraps, which panics when the
// field is promoted through an embedded pointer that is nil.  The fields a Go
// type offers as attributes are therefore the struct's own (NumField/Field),
// not reflect.VisibleFields, which adds the promoted ones.
func attributesAreDiscoveredAsTheyAreAccessed(c *core.Ctx) {
	p := c.P
	byName, visible := 0, ""
	for _, fn := range repoFns(p, "object") {
		for _, b := range fn.Blocks {
			for _, in := range b.Instrs {
				call, ok := in.(*ssa.Call)
				if !ok {
					continue
				}
				if isReflectCall(&call.Call, "Value", "FieldByName") {
					byName++
				}
				if isReflectCall(&call.Call, "", "VisibleFields") {
					visible = core.SSAName(fn) + " at " + p.Pos(call.Pos())
				}
			}
		}
	}
	if byName == 0 {
		core.Undecidedf("package object never calls reflect.Value.FieldByName")
	}
	c.Check(visible == "", "object|fields-discovered-without-promotion", "",
		sprintf("package object accesses struct fields by name in %d places (reflect.Value.FieldByName panics on a field promoted through a nil embedded pointer)", byName)+ife(visible == "", "; it never enumerates fields with reflect.VisibleFields", "; "+visible+" enumerates them with reflect.VisibleFields, which includes promoted fields: rec.Rev with a nil *Audit embedded in rec is a reflect panic instead of a missing attribute"))
	c.Stat("field_by_name_sites", byName)
}

// ---------------------------------------------------------------------------
// immutableValuesAreNotWrittenByTheirMethods: a string, an int, a float, a bool
// or a byte never changes.  Their methods neither store into a field of the
// receiver nor into an element of a slice or array kept there: an operation
// that returns a new value computed in place on storage the value keeps (a
// cache of the string's code points, reversed in place by reversed()) changes
// what the other operations see.
func immutableValuesAreNotWrittenByTheirMethods(c *core.Ctx) {
	p := c.P
	op := p.Pkg("object")
	n := 0
	for _, name := range []string{"String", "Int", "Float", "Bool", "Byte", "NilType"} {
		nt := core.MustType(op, name)
		for _, m := range core.Methods(nt) {
			sf := p.SSAFunc(m)
			if sf == nil || sf.Blocks == nil || len(sf.Params) == 0 {
				continue
			}
			n++
			recv := ssa.Value(sf.Params[0])
			bad := ""
			for _, b := range sf.Blocks {
				for _, in := range b.Instrs {
					st, ok := in.(*ssa.Store)
					if !ok {
						continue
					}
					switch a := st.Addr.(type) {
					case *ssa.FieldAddr:
						if a.X == recv {
							bad = "stores into the field " + fieldNameOf(nt, a.Field) + " at " + p.Pos(st.Pos())
						}
					case *ssa.IndexAddr:
						// an element of something loaded from a receiver field, or returned by another method of the receiver
						for _, o := range core.Origins(a.X) {
							if u, ok := o.(*ssa.UnOp); ok {
								if fa, ok := u.X.(*ssa.FieldAddr); ok && fa.X == recv {
									bad = "writes an element of the receiver's " + fieldNameOf(nt, fa.Field) + " at " + p.Pos(st.Pos())
								}
							}
							if oc, ok := o.(*ssa.Call); ok {
								if cal := oc.Call.StaticCallee(); cal != nil && cal.Signature.Recv() != nil && core.NamedOf(cal.Signature.Recv().Type()) == nt && len(oc.Call.Args) > 0 && oc.Call.Args[0] == recv {
									if _, isSlice := oc.Type().Underlying().(*types.Slice); isSlice && keepsResult(cal) {
										bad = "writes an element of the slice that " + cal.Name() + " keeps in the receiver, at " + p.Pos(st.Pos())
									}
								}
							}
						}
					}
				}
			}
			c.Check(bad == "", "object."+name+"."+m.Name()+"|does-not-write-the-value", p.Pos(sf.Pos()),
				name+"."+m.Name()+ife(bad == "", " does not write the value it is called on", " "+bad+": the value is shared by everything that holds it, and what its other operations return changes"))
		}
	}
	if n < 50 {
		core.Undecidedf("only %d methods of the immutable value types found", n)
	}
	c.Stat("immutable_value_methods", n)
}

func fieldNameOf(nt *types.Named, i int) string {
	if st, ok := nt.Underlying().(*types.Struct); ok && i >= 0 && i < st.NumFields() {
		return anchorName(nt, i) // the name the rules know the field by (fieldhints.go)
	}
	return "?"
}

// keepsResult: f returns a slice that it also stores in (or loads from) a field of its receiver.
func keepsResult(f *ssa.Function) bool {
	if f.Blocks == nil || len(f.Params) == 0 {
		return false
	}
	recv := ssa.Value(f.Params[0])
	for _, b := range f.Blocks {
		for _, in := range b.Instrs {
			if r, ok := in.(*ssa.Return); ok && len(r.Results) > 0 {
				for _, o := range core.Origins(spilledResult(b, r.Results[0])) {
					if u, ok := o.(*ssa.UnOp); ok {
						if fa, ok := u.X.(*ssa.FieldAddr); ok && fa.X == recv {
							return true
						}
					}
				}
			}
		}
	}
	return false
}

// ---------------------------------------------------------------------------
// floatOperandsYieldFloats: an arithmetic operation one of whose operands is a
// float yields a float.  The methods of the numeric types that take the right
// operand as a float64 return what NewFloat makes (or an error): a result
// pushed through an integer on the way (2 ** 0.5 computed as int64(math.Pow))
// is truncated, and differs from the same operation on a byte.
func floatOperandsYieldFloats(c *core.Ctx) {
	p := c.P
	n := 0
	for _, fn := range repoFns(p, "object") {
		if fn.Signature.Recv() == nil || fn.Parent() != nil || len(fn.Params) != 3 {
			continue
		}
		if !strings.HasPrefix(fn.Name(), "runOperation") {
			continue
		}
		bt, ok := fn.Params[2].Type().Underlying().(*types.Basic)
		if !ok || bt.Kind() != types.Float64 {
			continue
		}
		n++
		bad := ""
		for _, b := range fn.Blocks {
			for _, in := range b.Instrs {
				r, ok := in.(*ssa.Return)
				if !ok || len(r.Results) != 1 {
					continue
				}
				for _, o := range core.Origins(spilledResult(b, r.Results[0])) {
					if mi, ok := o.(*ssa.MakeInterface); ok {
						o = mi.X
					}
					call, ok := o.(*ssa.Call)
					if !ok {
						continue
					}
					cal := call.Call.StaticCallee()
					if cal == nil {
						continue
					}
					switch {
					case cal.Name() == "NewFloat", cal.Name() == "NewBool", strings.HasSuffix(cal.Name(), "Errorf"), cal.Name() == "NewError":
					default:
						bad = cal.Name() + " at " + p.Pos(call.Pos())
					}
				}
			}
		}
		c.Check(bad == "", core.SSAName(fn)+"|float-operand-yields-float", p.Pos(fn.Pos()),
			core.SSAName(fn)+" operates on a float operand and returns "+ife(bad == "", "floats (or errors)", "what "+bad+" makes: the result is not a float, so it has been truncated on the way"))
	}
	if n < 2 {
		core.Undecidedf("only %d numeric operation methods with a float operand found", n)
	}
	c.Stat("float_operand_methods", n)
}

// ---------------------------------------------------------------------------
// sortOrdersAreTotalOverFloats: a comparison function handed to the sort
// package that orders by a float with `<` says what it does with NaN.  NaN is
// neither less nor greater than anything; with it in the input the comparison
// is no order, the result depends on where the elements stood before, and for
// the items of a set that is Go's map order: the printed form of {NaN, 1.0,
// 2.0} changes from run to run.
func sortOrdersAreTotalOverFloats(c *core.Ctx) {
	p := c.P
	n := 0
	for _, fn := range repoFns(p, "object", "builtins") {
		if fn.Parent() == nil {
			continue
		}
		toSort := false
		for _, b := range fn.Parent().Blocks {
			for _, in := range b.Instrs {
				call, ok := in.(*ssa.Call)
				if !ok {
					continue
				}
				cal := call.Call.StaticCallee()
				if cal == nil || cal.Pkg == nil || cal.Pkg.Pkg.Path() != "sort" {
					continue
				}
				for _, a := range call.Call.Args {
					for _, o := range core.Origins(a) {
						if mc, ok := o.(*ssa.MakeClosure); ok && mc.Fn == ssa.Value(fn) {
							toSort = true
						}
					}
				}
			}
		}
		if !toSort {
			continue
		}
		floatLess, nanTest := "", false
		for _, b := range fn.Blocks {
			for _, in := range b.Instrs {
				switch x := in.(type) {
				case *ssa.BinOp:
					if x.Op == token.LSS || x.Op == token.GTR {
						if bt, ok := x.X.Type().Underlying().(*types.Basic); ok && bt.Info()&types.IsFloat != 0 {
							floatLess = p.Pos(x.Pos())
						}
					}
				case *ssa.Call:
					if cal := x.Call.StaticCallee(); cal != nil && cal.Pkg != nil && cal.Pkg.Pkg.Path() == "math" && cal.Name() == "IsNaN" {
						nanTest = true
					}
				}
			}
		}
		if floatLess == "" {
			continue
		}
		n++
		c.Check(nanTest, core.SSAName(fn)+"|float-order-handles-nan", p.Pos(fn.Pos()),
			core.SSAName(fn.Parent())+" sorts with a comparison that orders floats with < (at "+floatLess+")"+ife(nanTest, " and places NaN explicitly", " and does not say where NaN goes: with a NaN among the elements the comparison is not an order, and the outcome depends on the order the elements came in"))
	}
	if n == 0 {
		core.Undecidedf("no sort comparison orders floats")
	}
	c.Stat("float_sort_comparisons", n)
}
