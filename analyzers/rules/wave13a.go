package rules

import (
	"go/ast"
	"go/token"
	"go/types"
	"sort"
	"strings"

	"golang.org/x/tools/go/ssa"

	"risorcheck/core"
)

// Generalisations written for the thirteenth wave and for what its agents
// reported about the unmodified tree.

// backRefField is a field of a script object that points back at the module
// the object is a member of and that the object's GetAttr hands to the script.
type backRefField struct {
	owner *types.Named
	idx   int
}

// moduleBackReferences finds them: fields of type *Module, in a type of
// package object other than Module, that the type's GetAttr loads.
func moduleBackReferences(p *core.Program) []backRefField {
	op := p.Pkg("object")
	modT := core.MustType(op, "Module")
	var out []backRefField
	sc := op.Types.Scope()
	for _, name := range sc.Names() {
		tn, ok := sc.Lookup(name).(*types.TypeName)
		if !ok {
			continue
		}
		nt, ok := tn.Type().(*types.Named)
		if !ok || nt == modT {
			continue
		}
		st, ok := nt.Underlying().(*types.Struct)
		if !ok {
			continue
		}
		ga := core.Method(nt, "GetAttr")
		if ga == nil {
			continue
		}
		sf := p.SSAFunc(ga)
		if sf == nil || sf.Blocks == nil {
			continue
		}
		for i := 0; i < st.NumFields(); i++ {
			if core.NamedOf(st.Field(i).Type()) != modT {
				continue
			}
			if _, isPtr := st.Field(i).Type().(*types.Pointer); !isPtr {
				continue
			}
			loaded := false
			for _, b := range sf.Blocks {
				for _, in := range b.Instrs {
					if fa, ok := in.(*ssa.FieldAddr); ok && fa.Field == i && core.NamedOf(fa.X.Type()) == nt {
						loaded = true
					}
				}
			}
			if loaded {
				out = append(out, backRefField{nt, i})
			}
		}
	}
	return out
}

// ---------------------------------------------------------------------------
// membersPointAtTheModuleTheyAreIn: a function that makes a module and fills
// its table of builtins with members points the members' back-reference at the
// module it makes.  A member that still points at another module (the one the
// new module was copied from) hands that module to the script: what a
// configuration removed from or replaced in its own copy is then reachable as
// os.getenv.__module__.exit.
func membersPointAtTheModuleTheyAreIn(c *core.Ctx) {
	p := c.P
	op := p.Pkg("object")
	modT := core.MustType(op, "Module")
	refs := moduleBackReferences(p)
	if len(refs) == 0 {
		core.Undecidedf("no object type hands out a *Module field through GetAttr")
	}
	c.Stat("back_reference_fields", len(refs))
	bIdx := fieldIdxByName(modT, "builtins")
	if bIdx < 0 {
		core.Undecidedf("Module has no builtins table")
	}
	// setsRef(fn, v): fn stores v (or a parameter, when v is nil) in a back-reference field
	storesRef := func(fn *ssa.Function, isNew func(ssa.Value) bool) bool {
		for _, r := range refs {
			for _, st := range storesToField(fn, r.owner, r.idx) {
				if isNew(st.Val) {
					return true
				}
			}
		}
		return false
	}
	n := 0
	for _, fn := range repoFns(p, "object") {
		// the module the function makes
		var made []*ssa.Alloc
		for _, b := range fn.Blocks {
			for _, in := range b.Instrs {
				if al, ok := in.(*ssa.Alloc); ok && al.Heap && core.NamedOf(al.Type()) == modT {
					if _, isStruct := al.Type().(*types.Pointer).Elem().Underlying().(*types.Struct); isStruct {
						made = append(made, al)
					}
				}
			}
		}
		if len(made) == 0 {
			continue
		}
		for _, al := range made {
			// the table it gives it, and whether members are put in that table
			var table ssa.Value
			for _, st := range storesToField(fn, modT, bIdx) {
				if fa := st.Addr.(*ssa.FieldAddr); fa.X == ssa.Value(al) {
					table = st.Val
				}
			}
			if table == nil {
				continue
			}
			filled := false
			for _, b := range fn.Blocks {
				for _, in := range b.Instrs {
					if mu, ok := in.(*ssa.MapUpdate); ok {
						if fa, ok := loadOfField(mu.Map, modT, bIdx); ok && fa.X == ssa.Value(al) {
							filled = true
						}
						for _, o := range core.Origins(table) {
							for _, o2 := range core.Origins(mu.Map) {
								if o == o2 {
									filled = true
								}
							}
						}
					}
				}
			}
			if !filled {
				continue
			}
			n++
			isNew := func(v ssa.Value) bool {
				for _, o := range core.Origins(v) {
					if o == ssa.Value(al) {
						return true
					}
				}
				return false
			}
			ok := storesRef(fn, isNew)
			if !ok {
				// ... or hands the new module to a function that does
				for _, b := range fn.Blocks {
					for _, in := range b.Instrs {
						call, isCall := in.(*ssa.Call)
						if !isCall {
							continue
						}
						cal := call.Call.StaticCallee()
						if cal == nil || cal.Blocks == nil || !core.RepoFunc(cal) {
							continue
						}
						for ai, a := range call.Call.Args {
							if !isNew(a) || ai >= len(cal.Params) {
								continue
							}
							prm := cal.Params[ai]
							if storesRef(cal, func(v ssa.Value) bool {
								for _, o := range core.Origins(v) {
									if o == ssa.Value(prm) {
										return true
									}
								}
								return false
							}) {
								ok = true
							}
						}
					}
				}
			}
			c.Check(ok, core.SSAName(fn)+"|Module|members-point-at-the-module-they-are-in", p.Pos(al.Pos()),
				fn.Name()+" makes a module and puts members in its table"+ife(ok, "; it points the members' back-reference (__module__) at the module it makes", "; the members keep the back-reference they had: a member of a copied module hands the script the module it was copied from, with everything that was removed from or replaced in the copy (os.getenv.__module__.exit under WithoutGlobal(\"os.exit\"))"))
		}
	}
	if n == 0 {
		core.Undecidedf("no function in package object makes a module with members")
	}
	c.Stat("module_makers", n)
}

// ---------------------------------------------------------------------------
// theBaseDoesNotMoveWithTheWorkingDirectory: the base of a rooted filesystem
// is a directory, not a spelling: the constructor makes it absolute, so that
// it names the same directory whatever the working directory of the process
// is when an operation runs (a script under the simple OS changes it with
// cd).  A base that is kept as the host spelled it ("data") is resolved anew
// by every operation, and after a change of directory the filesystem operates
// on another tree.
func theBaseDoesNotMoveWithTheWorkingDirectory(c *core.Ctx) {
	p := c.P
	lp := p.Pkg("os/localfs")
	fsT := core.MustType(lp, "Filesystem")
	bIdx := fieldIdxByName(fsT, "base")
	if bIdx < 0 {
		core.Undecidedf("localfs.Filesystem has no base")
	}
	n := 0
	for _, fn := range repoFns(p, "os/localfs") {
		if fn.Parent() != nil {
			continue // an option notes what the host gave; the constructor settles it
		}
		stores := storesToField(fn, fsT, bIdx)
		if len(stores) == 0 {
			continue
		}
		for i, st := range stores {
			n++
			abs := core.DependsOn(st.Val, func(w ssa.Value) bool {
				call, ok := w.(*ssa.Call)
				if !ok {
					return false
				}
				cal := call.Call.StaticCallee()
				return cal != nil && cal.Pkg != nil && cal.Pkg.Pkg.Path() == "path/filepath" && cal.Name() == "Abs"
			})
			c.Check(abs, core.SSAName(fn)+"|Filesystem.base|absolute|"+sprintf("%d", i+1), p.Pos(st.Pos()),
				fn.Name()+" sets the base of the filesystem"+ife(abs, " from filepath.Abs", " to a path that was not made absolute: a relative base is resolved against the working directory of the process by every operation, and names another directory after a change of directory (WithBase(\"base\"), os.Chdir(\"/\"): ReadFile(\"in.txt\") opens /base/in.txt)"))
		}
	}
	if n == 0 {
		core.Undecidedf("no function of os/localfs settles Filesystem.base")
	}
	c.Stat("base_settlements", n)
}

// ---------------------------------------------------------------------------
// theFrameTableIsTestedBeforeItGrows: a call that takes the next frame
// (index fp+1 of the frame table) tests first that there is one, and returns
// an error when there is none.  Leaving it to the index to panic unwinds by a
// Go panic, which runs the deferred closures of every native call on the way
// on top of the stack that is being given up: what script functions deferred
// (func f() { defer f(); f() }) then nests a thousand frames per level of a
// thousand levels, and the native stack is exhausted, which ends the process.
func theFrameTableIsTestedBeforeItGrows(c *core.Ctx) {
	p := c.P
	vp := p.Pkg("vm")
	vmT := core.MustType(vp, "VirtualMachine")
	fIdx := fieldIdxByName(vmT, "frames")
	if fIdx < 0 {
		core.Undecidedf("VirtualMachine has no frame table")
	}
	fns := repoFns(p, "vm")
	indexes := map[*ssa.Function]int{}
	for _, fn := range fns {
		for _, b := range fn.Blocks {
			for _, in := range b.Instrs {
				ia, ok := in.(*ssa.IndexAddr)
				if !ok {
					continue
				}
				fa, ok := ia.X.(*ssa.FieldAddr)
				if !ok || fa.Field != fIdx || core.NamedOf(fa.X.Type()) != vmT {
					continue
				}
				for i, prm := range fn.Params {
					if ia.Index == ssa.Value(prm) {
						indexes[fn] = i
					}
				}
			}
		}
	}
	if len(indexes) == 0 {
		core.Undecidedf("no function of package vm indexes the frame table with a parameter")
	}
	n := 0
	for _, fn := range fns {
		k := 0
		for _, b := range fn.Blocks {
			for _, in := range b.Instrs {
				call, ok := in.(*ssa.Call)
				if !ok {
					continue
				}
				cal := call.Call.StaticCallee()
				pi, isIdx := indexes[cal]
				if cal == nil || !isIdx || pi >= len(call.Call.Args) {
					continue
				}
				sum, ok := call.Call.Args[pi].(*ssa.BinOp)
				if !ok || sum.Op != token.ADD {
					continue // the frame the VM is in, or one below it
				}
				n++
				k++
				guarded := orderingGuards(fn, sum.X, call)
				c.Check(guarded, core.SSAName(fn)+"|"+cal.Name()+"|next-frame-tested|"+sprintf("%d", k), p.Pos(call.Pos()),
					fn.Name()+" takes the next frame with "+cal.Name()+ife(guarded, " after testing that the table has one", " without testing that the table has one: the overflow is a Go panic, and what the functions on the way have deferred runs on top of the stack that the panic is unwinding (func f() { defer f(); f() }; f() exhausts the native stack)"))
			}
		}
	}
	if n == 0 {
		core.Undecidedf("no call in package vm takes the next frame")
	}
	c.Stat("next_frame_calls", n)
}

// ---------------------------------------------------------------------------
// theVisitRecordGoesThroughWrappers: the recursive operations on containers
// (printing, comparing, converting) carry a record of the containers they are
// in, and end when they come back to one.  (a) A type that has a method with
// the name of one of the walks (inspectVisit, equalsVisit, ...) is a case of
// the function of that name that dispatches the walk: a type that is left to
// the default is asked through its public method, which starts a new record.
// (b) A method of a type that can be an item of a container does not call the
// public method (the one that starts a record) of a container it holds in a
// field: an iterator over a list that is an item of that list otherwise
// prints the list, which prints the iterator, for ever.
var printsWhatCannotHoldAContainer = map[string]string{}

// walksThatEndAtAType: a walk that does not go into a type that the others go into, with the reason.
var walksThatEndAtAType = map[string]string{
	"marshalVisit|Entry": "an entry refuses to be marshalled (Entry.MarshalJSON returns an error), so the walk ends there",
	"marshalVisit|ListIter":   "an iterator refuses to be marshalled (ListIter.MarshalJSON returns an error), so the walk ends there",
	"marshalVisit|MapIter":    "an iterator refuses to be marshalled (MapIter.MarshalJSON returns an error), so the walk ends there",
	"equalsVisit|ListIter":    "iterators are compared by identity (ListIter.Equals), which does not look into the list",
	"equalsVisit|MapIter":     "iterators are compared by identity (MapIter.Equals), which does not look into the map",
	"interfaceVisit|ListIter": "ListIter.Interface drains the iterator itself: every step moves it on, also the steps of a nested call on the same iterator, so the walk ends with the list (seen: [1 [1 []]])",
	"interfaceVisit|MapIter":  "MapIter.Interface drains the iterator itself, like ListIter.Interface",
}

func theVisitRecordGoesThroughWrappers(c *core.Ctx) {
	p := c.P
	op := p.Pkg("object")
	sp := p.SSAPkg(op)
	visT := core.MustType(op, "visit")
	listT := core.MustType(op, "List")
	mapT := core.MustType(op, "Map")
	// the dispatching functions: package-level, with a *visit parameter
	dispatch := map[string]*ssa.Function{}
	for name, mem := range sp.Members {
		fn, ok := mem.(*ssa.Function)
		if !ok || fn.Blocks == nil || fn.Signature.Recv() != nil {
			continue
		}
		for _, prm := range fn.Params {
			if core.NamedOf(prm.Type()) == visT {
				dispatch[name] = fn
			}
		}
	}
	if len(dispatch) == 0 {
		core.Undecidedf("package object has no function that dispatches a walk with a visit record")
	}
	n := 0
	var names []string
	for name := range dispatch {
		names = append(names, name)
	}
	sort.Strings(names)
	for _, name := range names {
		fn := dispatch[name]
		// the types the function tells apart
		cases := map[*types.Named]bool{}
		for _, b := range fn.Blocks {
			for _, in := range b.Instrs {
				if ta, ok := in.(*ssa.TypeAssert); ok {
					if nt := core.NamedOf(ta.AssertedType); nt != nil {
						cases[nt] = true
					}
				}
			}
		}
		sc := op.Types.Scope()
		for _, tname := range sc.Names() {
			tn, ok := sc.Lookup(tname).(*types.TypeName)
			if !ok {
				continue
			}
			nt, ok := tn.Type().(*types.Named)
			if !ok {
				continue
			}
			if core.Method(nt, name) == nil {
				continue
			}
			n++
			c.Check(cases[nt], "object."+name+"|"+tname+"|dispatched", p.Pos(fn.Pos()),
				tname+" has a method "+name+ife(cases[nt], ", and the function "+name+" hands it the record", ", and the function "+name+" leaves it to the default: a "+tname+" that is met on the walk is asked through its public method, which starts a new record, and a cycle through it is not noticed"))
		}
	}
	// (c) what one walk tells apart, the others tell apart as well
	union := map[*types.Named]bool{}
	casesOf := map[string]map[*types.Named]bool{}
	for _, name := range names {
		casesOf[name] = map[*types.Named]bool{}
		for _, b := range dispatch[name].Blocks {
			for _, in := range b.Instrs {
				if ta, ok := in.(*ssa.TypeAssert); ok {
					if nt := core.NamedOf(ta.AssertedType); nt != nil && nt.Obj().Pkg() == op.Types {
						casesOf[name][nt] = true
						union[nt] = true
					}
				}
			}
		}
	}
	var utypes []*types.Named
	for nt := range union {
		utypes = append(utypes, nt)
	}
	sort.Slice(utypes, func(i, j int) bool { return utypes[i].Obj().Name() < utypes[j].Obj().Name() })
	for _, name := range names {
		for _, nt := range utypes {
			n++
			why, listed := walksThatEndAtAType[name+"|"+nt.Obj().Name()]
			has := casesOf[name][nt]
			c.Check(has || listed, "object."+name+"|"+nt.Obj().Name()+"|told-apart-like-in-the-other-walks", p.Pos(dispatch[name].Pos()),
				"the function "+name+ife(has, " hands the record on to a "+nt.Obj().Name(), ife(listed, " leaves a "+nt.Obj().Name()+" to the default: "+why, " leaves a "+nt.Obj().Name()+" to the default, which another walk hands the record on to because the value it wraps can be the container that is being walked: a cycle through it is not noticed in this walk")))
		}
	}
	// (b)
	starters := map[*ssa.Function]bool{}
	for _, nt := range []*types.Named{listT, mapT} {
		for _, m := range core.Methods(nt) {
			sf := p.SSAFunc(m)
			if sf == nil || sf.Blocks == nil || !m.Exported() {
				continue
			}
			for _, b := range sf.Blocks {
				for _, in := range b.Instrs {
					if al, ok := in.(*ssa.Alloc); ok && core.NamedOf(al.Type()) == visT {
						starters[sf] = true
					}
					if call, ok := in.(*ssa.Call); ok {
						if cal := call.Call.StaticCallee(); cal != nil && cal.Blocks != nil && cal.Signature.Recv() == nil && cal.Signature.Results().Len() == 1 && core.NamedOf(cal.Signature.Results().At(0).Type()) == visT {
							starters[sf] = true
						}
					}
				}
			}
		}
	}
	if len(starters) < 4 {
		core.Undecidedf("only %d methods of List and Map start a visit record", len(starters))
	}
	objI := core.MustType(op, "Object").Underlying().(*types.Interface)
	for _, fn := range repoFns(p, "object") {
		if fn.Signature.Recv() == nil || len(fn.Params) == 0 {
			continue
		}
		rt := core.NamedOf(fn.Signature.Recv().Type())
		if rt == nil || rt == listT || rt == mapT || !types.Implements(types.NewPointer(rt), objI) {
			continue
		}
		recv := ssa.Value(fn.Params[0])
		k := 0
		for _, b := range fn.Blocks {
			for _, in := range b.Instrs {
				call, ok := in.(*ssa.Call)
				if !ok {
					continue
				}
				cal := call.Call.StaticCallee()
				if cal == nil || !starters[cal] || len(call.Call.Args) == 0 {
					continue
				}
				held := false
				for _, o := range core.Origins(call.Call.Args[0]) {
					if u, ok := o.(*ssa.UnOp); ok && u.Op == token.MUL {
						if fa, ok := u.X.(*ssa.FieldAddr); ok && fa.X == recv {
							held = true
						}
					}
				}
				if !held {
					continue
				}
				n++
				k++
				key := core.SSAName(fn) + "|" + cal.Name() + "|held-container-walked-with-the-record|" + sprintf("%d", k)
				why, listed := printsWhatCannotHoldAContainer[core.SSAName(fn)]
				c.Check(listed, key, p.Pos(call.Pos()),
					rt.Obj().Name()+"."+fn.Name()+" calls "+core.NamedOf(cal.Signature.Recv().Type()).Obj().Name()+"."+cal.Name()+" on the container it holds"+ife(listed, ": "+why, ", which starts a new record of the containers that are being walked: when the "+rt.Obj().Name()+" is an item of that container (l := [1]; it := iter(l); l.append(it); string(l)) the walk never ends and the native stack is exhausted"))
			}
		}
	}
	if n == 0 {
		core.Undecidedf("no walk found")
	}
	c.Stat("walk_obligations", n)
}

// ---------------------------------------------------------------------------
// theSelfSlotIsFilledWheneverItWasReserved: the compiler reserves, after the
// parameters of a named function, a slot for the function itself, and the VM
// fills it when a call is made.  Both decide by a field of the code object.
// What the VM asks (the accessor it consults before it stores the function in
// the slot) depends on the fields by which the compiler reserved the slot and
// on nothing else: a reference to the name resolves to that slot from the
// body, and through a cell from every closure nested in the body, whatever a
// flag that was noted on the way says about the body itself.
func theSelfSlotIsFilledWheneverItWasReserved(c *core.Ctx) {
	p := c.P
	cp := p.Pkg("compiler")
	codeT := core.MustType(cp, "Code")
	vmT := core.MustType(p.Pkg("vm"), "VirtualMachine")
	callFn := p.SSAFunc(core.MustMethod(vmT, "callFunction"))
	if callFn == nil || callFn.Blocks == nil {
		core.Undecidedf("vm.callFunction not found")
	}
	// the accessors of Code that decide a branch of callFunction in which the function is stored
	fnParam := ssa.Value(nil)
	for _, prm := range callFn.Params {
		if nt := core.NamedOf(prm.Type()); nt != nil && nt.Obj().Name() == "Function" {
			fnParam = prm
		}
	}
	if fnParam == nil {
		core.Undecidedf("callFunction has no function parameter")
	}
	var accessors []*ssa.Function
	for _, b := range callFn.Blocks {
		iff, ok := b.Instrs[len(b.Instrs)-1].(*ssa.If)
		if !ok {
			continue
		}
		call, ok := iff.Cond.(*ssa.Call)
		if !ok {
			continue
		}
		cal := call.Call.StaticCallee()
		if cal == nil || cal.Signature.Recv() == nil || core.NamedOf(cal.Signature.Recv().Type()) != codeT {
			continue
		}
		stored := false
		for _, in := range b.Succs[0].Instrs {
			if st, ok := in.(*ssa.Store); ok {
				for _, o := range originsThroughInterfaces(st.Val) {
					if o == fnParam {
						stored = true
					}
				}
			}
		}
		if stored {
			accessors = append(accessors, cal)
		}
	}
	if len(accessors) == 0 {
		core.Undecidedf("callFunction stores the function under no accessor of the code object")
	}
	// the fields by which the compiler reserves a symbol
	st := codeT.Underlying().(*types.Struct)
	stT := core.MustType(cp, "SymbolTable")
	reservedBy := map[int]bool{}
	for _, fn := range repoFns(p, "compiler") {
		for _, b := range fn.Blocks {
			iff, ok := b.Instrs[len(b.Instrs)-1].(*ssa.If)
			if !ok {
				continue
			}
			u, ok := iff.Cond.(*ssa.UnOp)
			if !ok {
				continue
			}
			fa, ok := u.X.(*ssa.FieldAddr)
			if !ok || core.NamedOf(fa.X.Type()) != codeT {
				continue
			}
			for _, in := range b.Succs[0].Instrs {
				if call, ok := in.(*ssa.Call); ok {
					if cal := call.Call.StaticCallee(); cal != nil && cal.Signature.Recv() != nil && core.NamedOf(cal.Signature.Recv().Type()) == stT && strings.HasPrefix(cal.Name(), "Insert") {
						reservedBy[fa.Field] = true
					}
				}
			}
		}
	}
	if len(reservedBy) == 0 {
		core.Undecidedf("no compile function reserves a symbol under a field of the code object")
	}
	for _, acc := range accessors {
		var others []string
		n := 0
		for _, b := range acc.Blocks {
			for _, in := range b.Instrs {
				ret, ok := in.(*ssa.Return)
				if !ok || len(ret.Results) == 0 {
					continue
				}
				seen := map[ssa.Value]bool{}
				core.DependsOn(ret.Results[0], func(w ssa.Value) bool {
					if u, ok := w.(*ssa.UnOp); ok && u.Op == token.MUL && !seen[w] {
						seen[w] = true
						if fa, ok := u.X.(*ssa.FieldAddr); ok && core.NamedOf(fa.X.Type()) == codeT {
							n++
							if !reservedBy[fa.Field] {
								others = append(others, st.Field(fa.Field).Name())
							}
						}
					}
					return false
				})
				// also the conditions that decide which result is returned
				for _, b2 := range acc.Blocks {
					if iff, ok := b2.Instrs[len(b2.Instrs)-1].(*ssa.If); ok {
						core.DependsOn(iff.Cond, func(w ssa.Value) bool {
							if u, ok := w.(*ssa.UnOp); ok && u.Op == token.MUL && !seen[w] {
								seen[w] = true
								if fa, ok := u.X.(*ssa.FieldAddr); ok && core.NamedOf(fa.X.Type()) == codeT && !reservedBy[fa.Field] {
									others = append(others, st.Field(fa.Field).Name())
								}
							}
							return false
						})
					}
				}
			}
		}
		sort.Strings(others)
		c.Check(len(others) == 0 && n > 0, "compiler.Code."+acc.Name()+"|answers-by-what-reserved-the-slot", p.Pos(acc.Pos()),
			"callFunction fills the slot of the function itself when Code."+acc.Name()+" says so"+ife(len(others) == 0, "; the answer is the field by which the compiler reserved the slot", "; the answer also depends on "+strings.Join(others, ", ")+", which the compiler does not consult when it reserves the slot: a reference that reaches the slot another way (from a closure nested in the body) finds it empty"))
	}
	c.Stat("self_slot_accessors", len(accessors))
}

// ---------------------------------------------------------------------------
// nestingCountersAreKeptOnEveryPath: a function of the VM that counts how
// deeply it is nested (it adds one to a field of the VM on the way in and
// takes one off on the way out) (a) takes it off in a deferred function, so
// that the count is right again after an error and after a Go panic that
// passes through - the field belongs to the VM and no later invocation resets
// it; and (b), when it tests the count against a limit, makes no call that can
// come back to the VM's call path before the count was raised: a path that is
// not counted nests without limit.
func nestingCountersAreKeptOnEveryPath(c *core.Ctx) {
	p := c.P
	cg := p.CallGraph()
	vmT := vmType(p)
	callFn := p.SSAFunc(core.MustMethod(vmT, "callFunction"))
	st := vmT.Underlying().(*types.Struct)
	fieldOf := func(v ssa.Value) int {
		u, ok := v.(*ssa.UnOp)
		if !ok || u.Op != token.MUL {
			return -1
		}
		fa, ok := u.X.(*ssa.FieldAddr)
		if !ok || core.NamedOf(fa.X.Type()) != vmT {
			return -1
		}
		return fa.Field
	}
	type step struct {
		st       *ssa.Store
		deferred bool
	}
	n := 0
	for _, fn := range repoFns(p, "vm") {
		if fn.Parent() != nil {
			continue
		}
		incs, decs := map[int][]step{}, map[int][]step{}
		compared := map[int]bool{}
		var scan func(f *ssa.Function, deferred bool, d int)
		scan = func(f *ssa.Function, deferred bool, d int) {
			for _, b := range f.Blocks {
				for _, in := range b.Instrs {
					switch x := in.(type) {
					case *ssa.Store:
						fa, ok := x.Addr.(*ssa.FieldAddr)
						if !ok || core.NamedOf(fa.X.Type()) != vmT {
							continue
						}
						bo, ok := x.Val.(*ssa.BinOp)
						if !ok || fieldOf(bo.X) != fa.Field {
							continue
						}
						if k, isK := bo.Y.(*ssa.Const); !isK || k.Value == nil || k.Value.ExactString() != "1" {
							continue
						}
						if bo.Op == token.ADD {
							incs[fa.Field] = append(incs[fa.Field], step{x, deferred})
						} else if bo.Op == token.SUB {
							decs[fa.Field] = append(decs[fa.Field], step{x, deferred})
						}
					case *ssa.BinOp:
						switch x.Op {
						case token.LSS, token.LEQ, token.GTR, token.GEQ:
							if i := fieldOf(x.X); i >= 0 {
								compared[i] = true
							}
							if i := fieldOf(x.Y); i >= 0 {
								compared[i] = true
							}
						}
					case *ssa.Defer:
						if mc, ok := x.Call.Value.(*ssa.MakeClosure); ok && d < 1 {
							if cf, ok := mc.Fn.(*ssa.Function); ok {
								scan(cf, true, d+1)
							}
						}
					}
				}
			}
		}
		scan(fn, false, 0)
		for fi, is := range incs {
			ds := decs[fi]
			if len(ds) == 0 {
				continue
			}
			inline := false
			for _, i := range is {
				if !i.deferred {
					inline = true
				}
			}
			if !inline {
				continue
			}
			n++
			fname := st.Field(fi).Name()
			// (a)
			bad := ""
			for _, d := range ds {
				if !d.deferred {
					bad = p.Pos(d.st.Pos())
				}
			}
			// calls between the increment and the decrement?
			c.Check(bad == "", core.SSAName(fn)+"|"+fname+"|taken-off-in-a-deferred-function", p.Pos(fn.Pos()),
				fn.Name()+" counts its nesting in "+fname+ife(bad == "", " and takes the count off in a deferred function", " and takes the count off at "+bad+", which is not reached when what it calls in between fails or panics: the field keeps the count, and every later invocation on the VM starts that much closer to the limit"))
			// (b)
			if !compared[fi] {
				continue
			}
			n++
			bad = ""
			for _, b := range fn.Blocks {
				for _, in := range b.Instrs {
					ci, ok := in.(ssa.CallInstruction)
					if !ok {
						continue
					}
					if _, isDefer := in.(*ssa.Defer); isDefer {
						continue
					}
					reenters := false
					if cal := ci.Common().StaticCallee(); cal != nil {
						reenters = cal == callFn || (core.RepoFunc(cal) && cg.Nodes[cal] != nil && reachesFunc(cg, cal, callFn, 6))
					} else if ci.Common().IsInvoke() {
						reenters = ci.Common().Method.Name() == "Call"
					}
					if !reenters {
						continue
					}
					counted := false
					for _, i := range is {
						if !i.deferred && instrDominates(i.st, in) {
							counted = true
						}
					}
					if !counted {
						bad = p.Pos(in.Pos())
					}
				}
			}
			c.Check(bad == "", core.SSAName(fn)+"|"+fname+"|every-re-entry-is-counted", p.Pos(fn.Pos()),
				fn.Name()+" limits its nesting by "+fname+ife(bad == "", "; every call it makes that can come back to callFunction is made after the count was raised", "; the call at "+bad+" can come back to callFunction and is made on a path on which the count was not raised: what nests along that path is not limited (func f() { defer call(f) }; f())"))
		}
	}
	if n == 0 {
		core.Undecidedf("no function of the VM counts its nesting")
	}
	c.Stat("nesting_counter_obligations", n)
}

// ---------------------------------------------------------------------------
// whatEndsABlockedOperationWaitsForNoLockItHolds: a goroutine that waits for
// the end of the evaluation's context and then ends an operation that may be
// blocked (it closes the file under a read) does so without waiting for a lock
// that the blocked operation holds.  A watcher that closes through a method
// that takes the object's mutex, while the read holds that mutex for as long
// as it is blocked, never gets to close: the one thing that would have woken
// the read cannot happen, and the evaluation does not end with its context.
func whatEndsABlockedOperationWaitsForNoLockItHolds(c *core.Ctx) {
	p := c.P
	isMutexCall := func(in ssa.Instruction, name string) (int, *types.Named, bool) {
		ci, ok := in.(ssa.CallInstruction)
		if !ok {
			return 0, nil, false
		}
		cal := ci.Common().StaticCallee()
		if cal == nil || cal.Pkg == nil || cal.Pkg.Pkg.Path() != "sync" || cal.Name() != name || len(ci.Common().Args) == 0 {
			return 0, nil, false
		}
		fa, ok := ci.Common().Args[0].(*ssa.FieldAddr)
		if !ok {
			return 0, nil, false
		}
		return fa.Field, core.NamedOf(fa.X.Type()), true
	}
	// locksTaken(f): the mutex fields (of repository types) that f locks, itself or one call down
	var locksTaken func(f *ssa.Function, d int) map[string]bool
	locksTaken = func(f *ssa.Function, d int) map[string]bool {
		out := map[string]bool{}
		if f == nil || f.Blocks == nil {
			return out
		}
		for _, b := range f.Blocks {
			for _, in := range b.Instrs {
				if fi, nt, ok := isMutexCall(in, "Lock"); ok && nt != nil {
					out[nt.Obj().Name()+"."+fieldNameOf(nt, fi)] = true
				}
				if ci, ok := in.(ssa.CallInstruction); ok && d < 2 {
					if cal := ci.Common().StaticCallee(); cal != nil && core.RepoFunc(cal) {
						for k := range locksTaken(cal, d+1) {
							out[k] = true
						}
					}
				}
			}
		}
		return out
	}
	// heldAcrossBlocking: mutex fields that some method holds while it calls Read/Write/... of an interface value
	blockingNames := map[string]bool{"Read": true, "Write": true, "ReadAt": true, "WriteAt": true, "ReadFrom": true, "WriteTo": true, "Accept": true, "Wait": true}
	held := map[string]string{}
	for _, rel := range []string{"object", "os", "modules/os"} {
		if !p.HasPkg(rel) {
			continue
		}
		for _, fn := range repoFns(p, rel) {
			var locks, unlocks []ssa.Instruction
			lockName := map[ssa.Instruction]string{}
			for _, b := range fn.Blocks {
				for _, in := range b.Instrs {
					if fi, nt, ok := isMutexCall(in, "Lock"); ok && nt != nil {
						locks = append(locks, in)
						lockName[in] = nt.Obj().Name() + "." + fieldNameOf(nt, fi)
					}
					if _, _, ok := isMutexCall(in, "Unlock"); ok {
						if _, isDefer := in.(*ssa.Defer); !isDefer {
							unlocks = append(unlocks, in)
						}
					}
				}
			}
			if len(locks) == 0 {
				continue
			}
			for _, b := range fn.Blocks {
				for _, in := range b.Instrs {
					ci, ok := in.(ssa.CallInstruction)
					if !ok || !ci.Common().IsInvoke() || !blockingNames[ci.Common().Method.Name()] {
						continue
					}
					for _, l := range locks {
						if !instrReaches(l, in) {
							continue
						}
						released := false
						for _, u := range unlocks {
							if instrReaches(l, u) && instrDominates(u, in) {
								released = true
							}
						}
						if !released {
							held[lockName[l]] = fn.Name() + " at " + p.Pos(in.Pos())
						}
					}
				}
			}
		}
	}
	n := 0
	for _, rel := range []string{"object", "os", "modules/os"} {
		if !p.HasPkg(rel) {
			continue
		}
		for _, fn := range repoFns(p, rel) {
			if fn.Parent() == nil {
				continue
			}
			// a goroutine body that waits for a context
			isGo := false
			for _, b := range fn.Parent().Blocks {
				for _, in := range b.Instrs {
					if g, ok := in.(*ssa.Go); ok {
						if mc, ok := g.Call.Value.(*ssa.MakeClosure); ok && mc.Fn == ssa.Value(fn) {
							isGo = true
						}
					}
				}
			}
			if !isGo {
				continue
			}
			waits := false
			for _, b := range fn.Blocks {
				for _, in := range b.Instrs {
					if ci, ok := in.(ssa.CallInstruction); ok && ci.Common().IsInvoke() && ci.Common().Method.Name() == "Done" {
						waits = true
					}
				}
			}
			if !waits {
				continue
			}
			n++
			bad := ""
			for _, b := range fn.Blocks {
				for _, in := range b.Instrs {
					ci, ok := in.(ssa.CallInstruction)
					if !ok {
						continue
					}
					cal := ci.Common().StaticCallee()
					if cal == nil || !core.RepoFunc(cal) {
						continue
					}
					for k := range locksTaken(cal, 0) {
						if where, isHeld := held[k]; isHeld {
							bad = "it calls " + cal.Name() + ", which locks " + k + "; " + where + " holds that lock while it is blocked"
						}
					}
				}
			}
			c.Check(bad == "", core.SSAName(fn.Parent())+"|watcher|waits-for-no-lock-held-across-a-blocking-call", p.Pos(fn.Pos()),
				"the goroutine that "+fn.Parent().Name()+" starts waits for the context and then ends what may be blocked"+ife(bad == "", " without waiting for a lock that a blocked operation holds", "; "+bad+": the watcher never gets to end the operation, and the evaluation does not end with its context"))
		}
	}
	if n == 0 {
		core.Undecidedf("no goroutine that waits for a context found")
	}
	c.Stat("context_watchers", n)
}

// ---------------------------------------------------------------------------
// oneScriptArgumentIsOneGoArgument: a function that calls a Go function by
// reflection for a script converts the arguments the script gave, one Go
// argument for each.  What it hands to the conversion is an element of its
// own argument slice: never an item taken out of one of the arguments (a list
// spread over a variadic parameter), which gives the Go side another number
// of arguments than the script wrote - for f(xs ...any) a list is itself a
// perfectly good single argument.
func oneScriptArgumentIsOneGoArgument(c *core.Ctx) {
	p := c.P
	op := p.Pkg("object")
	objI := core.MustType(op, "Object")
	n := 0
	for _, fn := range repoFns(p, "object") {
		// calls a Go function by reflection and takes the script's arguments as a slice of objects
		reflects := false
		for _, b := range fn.Blocks {
			for _, in := range b.Instrs {
				if ci, ok := in.(ssa.CallInstruction); ok {
					if cal := ci.Common().StaticCallee(); cal != nil && cal.Pkg != nil && cal.Pkg.Pkg.Path() == "reflect" && (cal.Name() == "Call" || cal.Name() == "CallSlice") {
						reflects = true
					}
				}
			}
		}
		if !reflects {
			continue
		}
		var argsParam *ssa.Parameter
		for _, prm := range fn.Params {
			if sl, ok := prm.Type().Underlying().(*types.Slice); ok && core.NamedOf(sl.Elem()) == objI {
				argsParam = prm
			}
		}
		if argsParam == nil {
			continue
		}
		fromArgs := func(v ssa.Value) (bool, string) {
			for _, o := range core.Origins(v) {
				u, ok := o.(*ssa.UnOp)
				if !ok || u.Op != token.MUL {
					if o == ssa.Value(argsParam) {
						continue
					}
					if _, isK := o.(*ssa.Const); isK {
						continue
					}
					return false, o.String()
				}
				ia, ok := u.X.(*ssa.IndexAddr)
				if !ok {
					return false, o.String()
				}
				for _, so := range core.Origins(ia.X) {
					if sl, ok := so.(*ssa.Slice); ok {
						so = sl.X
						for _, so2 := range core.Origins(so) {
							if so2 != ssa.Value(argsParam) {
								return false, "an element of " + so2.String()
							}
						}
						continue
					}
					if so != ssa.Value(argsParam) {
						if lu, ok := so.(*ssa.UnOp); ok {
							if fa, ok := lu.X.(*ssa.FieldAddr); ok {
								if nt := core.NamedOf(fa.X.Type()); nt != nil {
									return false, "an item of a " + nt.Obj().Name() + " (" + fieldNameOf(nt, fa.Field) + ")"
								}
							}
						}
						return false, "an element of " + so.String()
					}
				}
			}
			return true, ""
		}
		k := 0
		for _, b := range fn.Blocks {
			for _, in := range b.Instrs {
				ci, ok := in.(ssa.CallInstruction)
				if !ok {
					continue
				}
				cal := ci.Common().StaticCallee()
				var cargs []ssa.Value
				name := ""
				if cal != nil && core.RepoFunc(cal) {
					cargs = ci.Common().Args
					name = cal.Name()
				} else if ci.Common().IsInvoke() && ci.Common().Method.Name() == "To" {
					cargs = ci.Common().Args
					name = "To"
				} else {
					continue
				}
				for _, a := range cargs {
					if core.NamedOf(a.Type()) != objI {
						continue
					}
					n++
					k++
					ok2, what := fromArgs(a)
					c.Check(ok2, core.SSAName(fn)+"|"+name+"|converts-an-argument-of-the-script|"+sprintf("%d", k), p.Pos(in.Pos()),
						fn.Name()+" hands "+name+ife(ok2, " an element of its argument slice", " "+what+": the Go function receives another number of arguments than the script wrote (a list passed to f(xs ...any) arrives as its items)"))
				}
			}
		}
	}
	if n == 0 {
		core.Undecidedf("no reflective call site converts script arguments")
	}
	c.Stat("reflective_argument_conversions", n)
}

// ---------------------------------------------------------------------------
// containersAreFilledThroughTheElementConverter: a converter of a container
// type (slice, array, map, pointer) owns a converter for its elements, and
// what its To method writes into the Go container is what that converter made
// of the script's item.  The element converter is where the rules about single
// values live (a float beyond the range of float32 is refused); a shortcut
// that writes the item with reflect's SetFloat or SetInt narrows silently.
func containersAreFilledThroughTheElementConverter(c *core.Ctx) {
	p := c.P
	op := p.Pkg("object")
	tcI := core.MustType(op, "TypeConverter")
	writes := map[string]bool{"Append": true, "Set": true, "SetMapIndex": true, "SetFloat": true, "SetInt": true, "SetUint": true, "SetString": true, "SetBool": true, "SetComplex": true, "SetBytes": true}
	n := 0
	for _, fn := range repoFns(p, "object") {
		if fn.Name() != "To" || fn.Signature.Recv() == nil {
			continue
		}
		rt := core.NamedOf(fn.Signature.Recv().Type())
		if rt == nil {
			continue
		}
		st, ok := rt.Underlying().(*types.Struct)
		if !ok {
			continue
		}
		owns := false
		for i := 0; i < st.NumFields(); i++ {
			if core.NamedOf(st.Field(i).Type()) == tcI {
				owns = true
			}
		}
		if !owns {
			continue
		}
		k := 0
		for _, b := range fn.Blocks {
			for _, in := range b.Instrs {
				ci, ok := in.(ssa.CallInstruction)
				if !ok {
					continue
				}
				cal := ci.Common().StaticCallee()
				if cal == nil || cal.Pkg == nil || cal.Pkg.Pkg.Path() != "reflect" || !writes[cal.Name()] {
					continue
				}
				args := ci.Common().Args
				if len(args) < 2 {
					continue
				}
				written := args[1:]
				if cal.Name() == "SetMapIndex" && len(args) == 3 {
					// (the keys of a script map are strings and are written as they are)
					written = args[2:]
				}
				for _, a := range written {
					// (the variadic tail of Append arrives as a slice literal)
					vals := []ssa.Value{a}
					if sl, ok := a.(*ssa.Slice); ok {
						vals = nil
						if al, ok := sl.X.(*ssa.Alloc); ok && al.Referrers() != nil {
							for _, r := range *al.Referrers() {
								if ia, ok := r.(*ssa.IndexAddr); ok && ia.Referrers() != nil {
									for _, r2 := range *ia.Referrers() {
										if s, ok := r2.(*ssa.Store); ok {
											vals = append(vals, s.Val)
										}
									}
								}
							}
						}
					}
					for _, v := range vals {
						n++
						k++
						through := core.DependsOn(v, func(w ssa.Value) bool {
							call, ok := w.(*ssa.Call)
							return ok && call.Call.IsInvoke() && call.Call.Method.Name() == "To" && core.NamedOf(call.Call.Value.Type()) == tcI
						})
						// reflect.Zero / reflect.New of the element type: an empty element, not an item of the script
						empty := core.DependsOn(v, func(w ssa.Value) bool {
							call, ok := w.(*ssa.Call)
							if !ok {
								return false
							}
							cal := call.Call.StaticCallee()
							return cal != nil && cal.Pkg != nil && cal.Pkg.Pkg.Path() == "reflect" && (cal.Name() == "Zero" || cal.Name() == "New" || cal.Name() == "MakeSlice" || cal.Name() == "MakeMap" || cal.Name() == "MakeMapWithSize")
						})
						c.Check(through || empty, core.SSAName(fn)+"|reflect."+cal.Name()+"|element-made-by-the-element-converter|"+sprintf("%d", k), p.Pos(in.Pos()),
							rt.Obj().Name()+".To writes an element with reflect."+cal.Name()+ife(through, " that its element converter made of the script's item", ife(empty, " that is an empty value of the element type", " that did not pass its element converter: what that converter refuses (a float beyond the range of float32) is written as reflect narrows it")))
					}
				}
			}
		}
	}
	if n == 0 {
		core.Undecidedf("no container converter writes elements by reflection")
	}
	c.Stat("container_element_writes", n)
}

// ---------------------------------------------------------------------------
// pathsUnderNoMountAreRefused: an operation of the virtual OS that finds no
// mount for a path refuses the path, there and then: the branch taken when the
// lookup fails returns an error, and decides nothing else.  A branch that goes
// on to answer (a synthetic directory for a path that leads to a mount point)
// answers for paths that lie under no mount point, which the other operations
// on the very same path refuse.
func pathsUnderNoMountAreRefused(c *core.Ctx) {
	p := c.P
	n := 0
	for _, fn := range repoFns(p, "os") {
		k := 0
		for _, b := range fn.Blocks {
			for _, in := range b.Instrs {
				call, ok := in.(*ssa.Call)
				if !ok || call.Referrers() == nil {
					continue
				}
				cal := call.Call.StaticCallee()
				if cal == nil || cal.Name() != "findMount" || cal.Signature.Results().Len() < 2 {
					continue
				}
				last := cal.Signature.Results().Len() - 1
				for _, r := range *call.Referrers() {
					ex, ok := r.(*ssa.Extract)
					if !ok || ex.Index != last || ex.Referrers() == nil {
						continue
					}
					for _, r2 := range *ex.Referrers() {
						iff, ok := r2.(*ssa.If)
						if !ok {
							continue
						}
						// the block entered when nothing was found
						miss := iff.Block().Succs[1]
						n++
						k++
						bad := ""
						term := miss.Instrs[len(miss.Instrs)-1]
						ret, isRet := term.(*ssa.Return)
						switch {
						case !isRet:
							bad = "goes on to decide something else (" + p.Pos(term.Pos()) + ")"
						case len(ret.Results) == 0:
							// nothing to refuse with
						default:
							ev := ret.Results[len(ret.Results)-1]
							if isErrorType(ev.Type()) {
								if kk, isK := ev.(*ssa.Const); isK && kk.IsNil() {
									bad = "returns without an error"
								}
							} else if bt, isB := ev.Type().Underlying().(*types.Basic); !isB || bt.Kind() != types.Bool {
								bad = "returns something that is not an error"
							}
						}
						c.Check(bad == "", core.SSAName(fn)+"|findMount|miss-is-refused|"+sprintf("%d", k), p.Pos(call.Pos()),
							fn.Name()+" looks the path up in the mount table; when no mount serves it"+ife(bad == "", " it refuses the path", " it "+bad+": a path that lies under no mount point is answered by this operation and refused by the others"))
					}
				}
			}
		}
	}
	if n < 10 {
		core.Undecidedf("only %d mount lookups with a tested outcome found in package os", n)
	}
	c.Stat("mount_lookups", n)
}

// ---------------------------------------------------------------------------
// vmOptionsSetWhatTheyAreGiven: an option of the VM sets the field it is for
// to the value it was made with, whatever that value is.  The options that a
// configuration sends describe it as a whole (risor.Config.VMOpts sends an
// importer also when it has none): an option that leaves the field alone when
// its value is nil keeps what an earlier evaluation on the same VM had put
// there, and the evaluation imports from the earlier one's root.
func vmOptionsSetWhatTheyAreGiven(c *core.Ctx) {
	p := c.P
	vmT := vmType(p)
	n := 0
	for _, fn := range repoFns(p, "vm") {
		if fn.Parent() == nil || fn.Signature.Params().Len() != 1 || fn.Signature.Recv() != nil {
			continue
		}
		if pt, ok := fn.Signature.Params().At(0).Type().(*types.Pointer); !ok || core.NamedOf(pt.Elem()) != vmT {
			continue
		}
		if len(fn.FreeVars) == 0 {
			continue
		}
		fromFree := func(v ssa.Value) *ssa.FreeVar {
			var out *ssa.FreeVar
			for _, o := range core.Origins(v) {
				if fv, ok := o.(*ssa.FreeVar); ok {
					out = fv
				}
				if u, ok := o.(*ssa.UnOp); ok && u.Op == token.MUL {
					if fv, ok := u.X.(*ssa.FreeVar); ok {
						out = fv
					}
				}
			}
			return out
		}
		k := 0
		for _, b := range fn.Blocks {
			for _, in := range b.Instrs {
				st, ok := in.(*ssa.Store)
				if !ok {
					continue
				}
				fa, ok := st.Addr.(*ssa.FieldAddr)
				if !ok || core.NamedOf(fa.X.Type()) != vmT {
					continue
				}
				n++
				k++
				bad := ""
				for _, b2 := range fn.Blocks {
					if b2 == b || !b2.Dominates(b) || len(b2.Instrs) == 0 {
						continue
					}
					iff, ok := b2.Instrs[len(b2.Instrs)-1].(*ssa.If)
					if !ok {
						continue
					}
					// (a test of what the option was made with, whether or not
					// that is what is stored: WithGlobals given an empty map
					// still says "these are the globals now")
					if core.DependsOn(iff.Cond, func(w ssa.Value) bool { return fromFree(w) != nil }) {
						bad = p.Pos(iff.Cond.Pos())
					}
					// ... or a test of the field itself ("only if it is not set yet"):
					// the VM then keeps what an earlier evaluation gave it
					// (a flag that is raised under a test of itself is a latch, not a setting)
					if _, isLatch := st.Val.(*ssa.Const); !isLatch && core.DependsOn(iff.Cond, func(w ssa.Value) bool {
						_, ok := loadOfField(w, vmT, fa.Field)
						return ok
					}) {
						bad = p.Pos(iff.Cond.Pos())
					}
				}
				c.Check(bad == "", core.SSAName(fn.Parent())+"|VirtualMachine."+fieldNameOf(vmT, fa.Field)+"|set-whatever-the-value-is|"+sprintf("%d", k), p.Pos(st.Pos()),
					"the option that "+fn.Parent().Name()+" makes sets "+fieldNameOf(vmT, fa.Field)+ife(bad == "", " to the value it was given", " only when the value passes the test at "+bad+": given a value that does not, it leaves what earlier options put there, and an evaluation whose configuration has nothing to give runs with what an earlier evaluation on the VM had"))
			}
		}
	}
	if n == 0 {
		core.Undecidedf("no option of the VM stores its value in a field")
	}
	c.Stat("vm_option_stores", n)
}

// ---------------------------------------------------------------------------
// stringsInImportStatementsAreValidated: what an import statement names is
// an identifier, or a string that the parser has validated (identifiers
// separated by slashes).  The VM joins the names onto the importer's root with
// filepath.Join, which resolves ".." - the only thing between a script and
// <root>/../secret is that validation.  A parse function of the import
// statements that accepts a string token therefore validates, itself, the
// string it accepted.
func stringsInImportStatementsAreValidated(c *core.Ctx) {
	p := c.P
	pp := p.Pkg("parser")
	validate := core.LookupFunc(pp, "validateImportPath")
	if validate == nil {
		core.Undecidedf("parser.validateImportPath not found")
	}
	vf := p.SSAFunc(validate)
	tokP := p.Pkg("token")
	strK := tokP.Types.Scope().Lookup("STRING")
	if strK == nil {
		core.Undecidedf("token.STRING not found")
	}
	strVal := strK.(*types.Const).Val().ExactString()
	n := 0
	for _, fn := range repoFns(p, "parser") {
		if !strings.Contains(strings.ToLower(fn.Name()), "import") || fn == vf {
			continue
		}
		accepts := ""
		validates := false
		for _, b := range fn.Blocks {
			for _, in := range b.Instrs {
				ci, ok := in.(ssa.CallInstruction)
				if !ok {
					continue
				}
				cal := ci.Common().StaticCallee()
				if cal == vf {
					validates = true
				}
				if cal == nil || !core.RepoFunc(cal) {
					continue
				}
				switch cal.Name() {
				case "peekTokenIs", "curTokenIs", "expectPeek":
					for _, a := range ci.Common().Args {
						vals := []ssa.Value{a}
						// (the variadic kinds of expectPeek arrive as a slice literal)
						if sl, ok := a.(*ssa.Slice); ok {
							if al, ok := sl.X.(*ssa.Alloc); ok && al.Referrers() != nil {
								for _, r := range *al.Referrers() {
									if ia, ok := r.(*ssa.IndexAddr); ok && ia.Referrers() != nil {
										for _, r2 := range *ia.Referrers() {
											if s, ok := r2.(*ssa.Store); ok {
												vals = append(vals, s.Val)
											}
										}
									}
								}
							}
						}
						for _, v := range vals {
							if k, ok := v.(*ssa.Const); ok && k.Value != nil && k.Value.ExactString() == strVal && core.NamedOf(k.Type()) != nil && core.NamedOf(k.Type()).Obj().Pkg() == tokP.Types {
								accepts = p.Pos(in.Pos())
							}
						}
					}
				}
			}
		}
		if accepts == "" {
			continue
		}
		n++
		c.Check(validates, core.SSAName(fn)+"|accepted-string-validated", p.Pos(fn.Pos()),
			fn.Name()+" accepts a string token (at "+accepts+")"+ife(validates, " and validates the string with validateImportPath", " and does not validate it: the string becomes a name that the VM joins onto the importer's root as it is (from pkg import \"../../secret\" runs <root>/../secret)"))
	}
	if n == 0 {
		core.Undecidedf("no parse function of the import statements accepts a string")
	}
	c.Stat("import_string_acceptors", n)
}

// ---------------------------------------------------------------------------
// orderAndEqualityLookAtTheNumbers: Compare and Equals of the numeric types
// decide by Go's comparison of the numbers, both of them.  A Compare that
// orders the bit patterns instead (math.Float64bits, the IEEE total order)
// puts -0.0 before +0.0 while Equals, which compares the floats, calls them
// equal: sorted() and == then disagree about the same two values.
func orderAndEqualityLookAtTheNumbers(c *core.Ctx) {
	p := c.P
	n := 0
	var reach func(f *ssa.Function, d int, seen map[*ssa.Function]bool) string
	reach = func(f *ssa.Function, d int, seen map[*ssa.Function]bool) string {
		if f == nil || f.Blocks == nil || seen[f] {
			return ""
		}
		seen[f] = true
		for _, b := range f.Blocks {
			for _, in := range b.Instrs {
				ci, ok := in.(ssa.CallInstruction)
				if !ok {
					continue
				}
				cal := ci.Common().StaticCallee()
				if cal == nil {
					continue
				}
				if cal.Pkg != nil && cal.Pkg.Pkg.Path() == "math" && (cal.Name() == "Float64bits" || cal.Name() == "Float32bits") {
					return "math." + cal.Name() + " at " + p.Pos(in.Pos())
				}
				if core.RepoFunc(cal) && d < 2 && cal.Name() != "Compare" && cal.Name() != "Equals" {
					if w := reach(cal, d+1, seen); w != "" {
						return w
					}
				}
			}
		}
		return ""
	}
	for _, fn := range repoFns(p, "object") {
		if (fn.Name() != "Compare" && fn.Name() != "Equals") || fn.Signature.Recv() == nil || fn.Synthetic != "" {
			continue
		}
		rt := core.NamedOf(fn.Signature.Recv().Type())
		if rt == nil {
			continue
		}
		// the numeric types: the payload is a Go number
		st, ok := rt.Underlying().(*types.Struct)
		if !ok {
			continue
		}
		numeric := false
		for i := 0; i < st.NumFields(); i++ {
			if bt, ok := st.Field(i).Type().Underlying().(*types.Basic); ok && bt.Info()&types.IsNumeric != 0 && st.Field(i).Name() == "value" {
				numeric = true
			}
		}
		if !numeric {
			continue
		}
		n++
		w := reach(fn, 0, map[*ssa.Function]bool{})
		c.Check(w == "", "object."+rt.Obj().Name()+"."+fn.Name()+"|decides-by-the-numbers", p.Pos(fn.Pos()),
			rt.Obj().Name()+"."+fn.Name()+ife(w == "", " decides by comparing the numbers", " decides by the bit pattern of a float ("+w+"): -0.0 and +0.0, which the other of Compare and Equals calls equal, are told apart"))
	}
	if n < 4 {
		core.Undecidedf("only %d Compare/Equals methods of numeric types found", n)
	}
	c.Stat("numeric_comparisons", n)
}

// ---------------------------------------------------------------------------
// iteratorsReadTheContainerAtEveryStep: an iterator over a script container
// holds the container and looks at its items when it is asked for the next
// one.  A slice header taken from the container when the iterator is made is
// neither a snapshot nor the container: shifts in place show through, the
// length does not follow, and after an append that reallocates the iterator
// walks an array that the list has left.
func iteratorsReadTheContainerAtEveryStep(c *core.Ctx) {
	p := c.P
	op := p.Pkg("object")
	objI := core.MustType(op, "Object").Underlying().(*types.Interface)
	n := 0
	for _, fn := range repoFns(p, "object") {
		// makes an iterator: allocates a struct whose type is named ...Iter
		for _, b := range fn.Blocks {
			for _, in := range b.Instrs {
				al, ok := in.(*ssa.Alloc)
				if !ok || !al.Heap {
					continue
				}
				it := core.NamedOf(al.Type())
				if it == nil || !strings.HasSuffix(strings.ToLower(it.Obj().Name()), "iter") || it.Obj().Pkg() != op.Types {
					continue
				}
				if _, isStruct := it.Underlying().(*types.Struct); !isStruct {
					continue
				}
				n++
				bad := ""
				for _, st := range storesToAlloc(fn, al) {
					if _, isSlice := st.Val.Type().Underlying().(*types.Slice); !isSlice {
						continue
					}
					for _, o := range core.Origins(st.Val) {
						if sl, ok := o.(*ssa.Slice); ok {
							o = sl.X
						}
						u, ok := o.(*ssa.UnOp)
						if !ok || u.Op != token.MUL {
							continue
						}
						fa, ok := u.X.(*ssa.FieldAddr)
						if !ok {
							continue
						}
						owner := core.NamedOf(fa.X.Type())
						if owner == nil || owner.Obj().Pkg() != op.Types || !types.Implements(types.NewPointer(owner), objI) {
							continue
						}
						bad = "the " + fieldNameOf(owner, fa.Field) + " of the " + owner.Obj().Name() + " (" + p.Pos(st.Pos()) + ")"
					}
				}
				c.Check(bad == "", core.SSAName(fn)+"|"+it.Obj().Name()+"|holds-the-container-not-its-slice", p.Pos(al.Pos()),
					fn.Name()+" makes a "+it.Obj().Name()+ife(bad == "", " that holds no slice header taken from a script container", " and stores in it "+bad+": the header is taken once, so what the script does to the container during the loop is seen in part (shifts in place) or not at all (after a reallocating append)"))
			}
		}
	}
	if n < 5 {
		core.Undecidedf("only %d iterator constructions found", n)
	}
	c.Stat("iterator_constructions", n)
}

// storesToAlloc: the stores into fields of the struct that al allocates.
func storesToAlloc(fn *ssa.Function, al *ssa.Alloc) []*ssa.Store {
	var out []*ssa.Store
	for _, b := range fn.Blocks {
		for _, in := range b.Instrs {
			if st, ok := in.(*ssa.Store); ok {
				if fa, ok := st.Addr.(*ssa.FieldAddr); ok && fa.X == ssa.Value(al) {
					out = append(out, st)
				}
			}
		}
	}
	return out
}

// ---------------------------------------------------------------------------
// theLoaderLimitsWhatTheCompilerLimits: the loader refuses stored code by its
// size only where the compiler would have refused to make it: a test of the
// length of a table of the stored form against a constant has a counterpart
// in the compiler, a test of the length of the same table of the code object.
// A limit that only the loader knows (the number of instruction words: jumps
// are relative, nothing bounds the length of the stream) refuses data that
// the marshaller has produced from code that compiles and runs.
func theLoaderLimitsWhatTheCompilerLimits(c *core.Ctx) {
	p := c.P
	cp := p.Pkg("compiler")
	codeT := core.MustType(cp, "Code")
	unm := core.LookupFunc(cp, "UnmarshalCode")
	if unm == nil {
		core.Undecidedf("compiler.UnmarshalCode not found")
	}
	storeFile := p.Fset.Position(unm.Pos()).Filename
	// the tables whose length the compiler tests against a constant
	limited := map[string]bool{}
	lenOfField := func(v ssa.Value, owner func(*types.Named) bool) (string, bool) {
		call, ok := v.(*ssa.Call)
		if !ok {
			return "", false
		}
		if bi, ok := call.Call.Value.(*ssa.Builtin); !ok || bi.Name() != "len" || len(call.Call.Args) != 1 {
			return "", false
		}
		for _, o := range core.Origins(call.Call.Args[0]) {
			if u, ok := o.(*ssa.UnOp); ok && u.Op == token.MUL {
				if fa, ok := u.X.(*ssa.FieldAddr); ok {
					if nt := core.NamedOf(fa.X.Type()); nt != nil && owner(nt) {
						return fieldNameOf(nt, fa.Field), true
					}
				}
			}
		}
		return "", false
	}
	fns := repoFns(p, "compiler")
	for _, fn := range fns {
		if p.Fset.Position(fn.Pos()).Filename == storeFile {
			continue
		}
		for _, b := range fn.Blocks {
			for _, in := range b.Instrs {
				bo, ok := in.(*ssa.BinOp)
				if !ok {
					continue
				}
				switch bo.Op {
				case token.LSS, token.LEQ, token.GTR, token.GEQ:
				default:
					continue
				}
				for _, pair := range [][2]ssa.Value{{bo.X, bo.Y}, {bo.Y, bo.X}} {
					if _, isK := pair[1].(*ssa.Const); !isK {
						continue
					}
					if name, ok := lenOfField(pair[0], func(nt *types.Named) bool { return nt == codeT }); ok {
						limited[strings.ToLower(name)] = true
					}
				}
			}
		}
	}
	n := 0
	for _, fn := range fns {
		if p.Fset.Position(fn.Pos()).Filename != storeFile {
			continue
		}
		k := 0
		for _, b := range fn.Blocks {
			for _, in := range b.Instrs {
				bo, ok := in.(*ssa.BinOp)
				if !ok {
					continue
				}
				switch bo.Op {
				case token.LSS, token.LEQ, token.GTR, token.GEQ:
				default:
					continue
				}
				for _, pair := range [][2]ssa.Value{{bo.X, bo.Y}, {bo.Y, bo.X}} {
					kc, isK := pair[1].(*ssa.Const)
					if !isK || kc.Value == nil {
						continue
					}
					name, ok := lenOfField(pair[0], func(nt *types.Named) bool {
						return nt != codeT && nt.Obj().Pkg() == cp.Types && p.Fset.Position(nt.Obj().Pos()).Filename == storeFile
					})
					if !ok {
						continue
					}
					// (a test against zero or one asks whether there is anything, not how much)
					if v := kc.Value.ExactString(); v == "0" || v == "1" {
						continue
					}
					n++
					k++
					has := limited[strings.ToLower(name)]
					c.Check(has, core.SSAName(fn)+"|"+name+"|limit-known-to-the-compiler|"+sprintf("%d", k), p.Pos(bo.Pos()),
						fn.Name()+" tests the number of "+name+" of a stored code object against "+kc.Value.ExactString()+ife(has, "; the compiler limits the same table of the code objects it makes", "; the compiler puts no limit on that table: code that compiles, runs and is marshalled is refused when it is loaded again"))
				}
			}
		}
	}
	if n == 0 {
		c.Pass("compiler|loader-tests-no-table-length", "", "the loader tests the length of no table of the stored form against a constant")
	}
	c.Stat("loader_length_tests", n)
	c.Stat("tables_limited_by_the_compiler", len(limited))
}

// ---------------------------------------------------------------------------
// theWritersOfTheStoredFormAgree: the stored form of a code object is written
// by more than one entry point (MarshalCode, and Code.MarshalJSON for
// json.Marshal(code)); all of them get it from one function and encode what
// that function returned.  A writer that puts something into the stored form
// after that function has returned (a version number) writes data that its
// siblings do not write, and a reader that asks for it refuses theirs.
func theWritersOfTheStoredFormAgree(c *core.Ctx) {
	p := c.P
	cp := p.Pkg("compiler")
	maker := core.LookupFunc(cp, "stateFromCode")
	if maker == nil {
		core.Undecidedf("compiler.stateFromCode not found")
	}
	mf := p.SSAFunc(maker)
	stT := core.NamedOf(mf.Signature.Results().At(0).Type())
	if stT == nil {
		core.Undecidedf("stateFromCode does not return a named type")
	}
	n := 0
	for _, fn := range repoFns(p, "compiler") {
		if fn == mf {
			continue
		}
		makes, encodes := false, false
		for _, b := range fn.Blocks {
			for _, in := range b.Instrs {
				if ci, ok := in.(ssa.CallInstruction); ok {
					cal := ci.Common().StaticCallee()
					if cal == mf {
						makes = true
					}
					if cal != nil && cal.Pkg != nil && cal.Pkg.Pkg.Path() == "encoding/json" && strings.HasPrefix(cal.Name(), "Marshal") {
						encodes = true
					}
				}
			}
		}
		if !makes || !encodes {
			continue
		}
		n++
		bad := ""
		for _, b := range fn.Blocks {
			for _, in := range b.Instrs {
				if st, ok := in.(*ssa.Store); ok {
					if fa, ok := st.Addr.(*ssa.FieldAddr); ok && core.NamedOf(fa.X.Type()) == stT {
						bad = fieldNameOf(stT, fa.Field) + " at " + p.Pos(st.Pos())
					}
				}
			}
		}
		// ... and what it hands out was encoded in this call: nothing that was
		// kept from an earlier one (the code may have grown since)
		kept := ""
		for _, b := range fn.Blocks {
			for _, in := range b.Instrs {
				ret, ok := in.(*ssa.Return)
				if !ok || len(ret.Results) != 2 {
					continue
				}
				if k, isK := spilledResult(b, ret.Results[0]).(*ssa.Const); isK && k.IsNil() {
					continue
				}
				fresh := core.DependsOn(spilledResult(b, ret.Results[0]), func(w ssa.Value) bool {
					call, ok := w.(*ssa.Call)
					if !ok {
						return false
					}
					cal := call.Call.StaticCallee()
					return cal != nil && cal.Pkg != nil && cal.Pkg.Pkg.Path() == "encoding/json" && strings.HasPrefix(cal.Name(), "Marshal")
				})
				if !fresh {
					kept = p.Pos(ret.Pos())
				}
			}
		}
		n++
		c.Check(kept == "", core.SSAName(fn)+"|hands-out-what-it-encoded-now", p.Pos(fn.Pos()),
			fn.Name()+" writes the stored form of a code object"+ife(kept == "", " and hands out what it has encoded in this call", "; the return at "+kept+" hands out bytes that were not encoded in this call (kept in the code object from an earlier one): a compiler that has added to the code since gets the stored form of the shorter code"))
		c.Check(bad == "", core.SSAName(fn)+"|encodes-what-stateFromCode-returned", p.Pos(fn.Pos()),
			fn.Name()+" writes the stored form of a code object"+ife(bad == "", ": it encodes what stateFromCode returned, like the other writers", " and sets "+bad+" itself after stateFromCode has returned: the other writers of the same form do not, and data that they produce differs from what this one produces (a reader that asks for the field refuses theirs)"))
	}
	if n < 2 {
		core.Undecidedf("only %d writers of the stored form found", n)
	}
	c.Stat("stored_form_writers", n)
}

// ---------------------------------------------------------------------------
// namesAreReadFromTheirStorage: code that reads a name loads it from where the
// name lives at run time (a global, a local, a cell).  The compiler does not
// replace the load by the value it believes the name has (LoadConst of the
// literal a constant was declared with): the declaration is an instruction
// like any other, and when the piece that contains it fails before it runs,
// later pieces read a value that was never stored - vm.Get says nil, the
// script says 5.
func namesAreReadFromTheirStorage(c *core.Ctx) {
	p := c.P
	cp := p.Pkg("compiler")
	stT := core.MustType(cp, "SymbolTable")
	symT := core.MustType(cp, "Symbol")
	opP := p.Pkg("op")
	loadConst := opP.Types.Scope().Lookup("LoadConst")
	if loadConst == nil {
		core.Undecidedf("op.LoadConst not found")
	}
	lcVal := loadConst.(*types.Const).Val().ExactString()
	n := 0
	for _, fn := range repoFns(p, "compiler") {
		var resolves []ssa.Instruction
		for _, b := range fn.Blocks {
			for _, in := range b.Instrs {
				if ci, ok := in.(ssa.CallInstruction); ok {
					if cal := ci.Common().StaticCallee(); cal != nil && cal.Signature.Recv() != nil && core.NamedOf(cal.Signature.Recv().Type()) == stT && cal.Name() == "Resolve" {
						resolves = append(resolves, in)
					}
				}
			}
		}
		if len(resolves) == 0 {
			continue
		}
		n++
		bad := ""
		for _, b := range fn.Blocks {
			for _, in := range b.Instrs {
				ci, ok := in.(ssa.CallInstruction)
				if !ok {
					continue
				}
				cal := ci.Common().StaticCallee()
				if cal == nil {
					continue
				}
				if cal.Signature.Recv() != nil && core.NamedOf(cal.Signature.Recv().Type()) == symT && cal.Name() == "Value" {
					bad = "asks the symbol for a value at " + p.Pos(in.Pos())
				}
				if cal.Name() == "emit" && len(ci.Common().Args) >= 2 {
					if k, ok := ci.Common().Args[1].(*ssa.Const); ok && k.Value != nil && k.Value.ExactString() == lcVal && core.NamedOf(k.Type()) != nil && core.NamedOf(k.Type()).Obj().Pkg() == opP.Types {
						// ... whose operand comes from what the resolution found
						fromResolution := false
						for _, a := range ci.Common().Args[2:] {
							vals := []ssa.Value{a}
							if sl, ok := a.(*ssa.Slice); ok {
								if al, ok := sl.X.(*ssa.Alloc); ok && al.Referrers() != nil {
									for _, r := range *al.Referrers() {
										if ia, ok := r.(*ssa.IndexAddr); ok && ia.Referrers() != nil {
											for _, r2 := range *ia.Referrers() {
												if s, ok := r2.(*ssa.Store); ok {
													vals = append(vals, s.Val)
												}
											}
										}
									}
								}
							}
							for _, v := range vals {
								if core.DependsOn(v, func(w ssa.Value) bool {
									for _, r := range resolves {
										if rv, ok := r.(ssa.Value); ok && w == rv {
											return true
										}
									}
									return false
								}) {
									fromResolution = true
								}
							}
						}
						if fromResolution {
							bad = "emits LoadConst with what it found for a name it has resolved at " + p.Pos(in.Pos())
						}
					}
				}
			}
		}
		c.Check(bad == "", core.SSAName(fn)+"|resolved-names-are-loaded-from-their-storage", p.Pos(fn.Pos()),
			fn.Name()+" resolves a name"+ife(bad == "", " and emits a load from where the name lives", " and "+bad+": the value is taken at compile time on the belief that the declaration has run, which does not hold for a piece that failed before it got there"))
	}
	if n < 3 {
		core.Undecidedf("only %d compile functions resolve names", n)
	}
	c.Stat("name_resolving_functions", n)
}

// ---------------------------------------------------------------------------
// aRollbackPutsEveryPartBack: the function that puts a code object back to a
// state taken earlier puts every part back on every path: where it hands a
// part to that part's own restore (the symbol table), no return is reached
// without that call.  A short cut that returns early because "nothing was
// compiled" skips the symbol table, which the first pass of Compile has
// written before anything was compiled: the names of the functions of a
// rejected input stay declared.
func aRollbackPutsEveryPartBack(c *core.Ctx) {
	p := c.P
	n := 0
	for _, fn := range repoFns(p, "compiler") {
		if fn.Name() != "restore" || fn.Signature.Recv() == nil {
			continue
		}
		var subs []ssa.Instruction
		for _, b := range fn.Blocks {
			for _, in := range b.Instrs {
				if ci, ok := in.(ssa.CallInstruction); ok {
					if cal := ci.Common().StaticCallee(); cal != nil && cal != fn && cal.Name() == "restore" && core.RepoFunc(cal) {
						if _, isDefer := in.(*ssa.Defer); !isDefer {
							subs = append(subs, in)
						}
					}
				}
			}
		}
		if len(subs) == 0 {
			continue
		}
		for i, sub := range subs {
			n++
			bad := ""
			for _, b := range fn.Blocks {
				for _, in := range b.Instrs {
					if ret, ok := in.(*ssa.Return); ok && !instrDominates(sub, ret) {
						bad = p.Pos(ret.Pos())
					}
				}
			}
			cal := sub.(ssa.CallInstruction).Common().StaticCallee()
			c.Check(bad == "", core.SSAName(fn)+"|"+core.SSAName(cal)+"|on-every-path|"+sprintf("%d", i+1), p.Pos(sub.Pos()),
				core.SSAName(fn)+" hands a part to "+core.SSAName(cal)+ife(bad == "", " on every path", "; the return at "+bad+" is reached without it: that part keeps what the rejected input put there (the names its first pass declared)"))
		}
	}
	if n == 0 {
		core.Undecidedf("no restore function of the compiler hands a part to another restore")
	}
	c.Stat("nested_restores", n)
}

// ---------------------------------------------------------------------------
// methodsCallTheirGoNamesake: a method of the string and byte-slice objects
// that carries the name of a function of Go's strings or bytes package is a
// wrapper of that function and calls it.  The module function of the same
// name calls it too (C19-R20): a method that answers by other means (a
// hand-written Join) agrees with the module function, and with Go, only where
// those means happen to.
var methodsAnsweringThemselves = map[string]string{}

func methodsCallTheirGoNamesake(c *core.Ctx) {
	p := c.P
	op := p.Pkg("object")
	n := 0
	for _, pair := range [][2]string{{"String", "strings"}, {"ByteSlice", "bytes"}} {
		nt := core.MustType(op, pair[0])
		var gopkg *types.Package
		for _, im := range op.Types.Imports() {
			if im.Path() == pair[1] {
				gopkg = im
			}
		}
		if gopkg == nil {
			continue
		}
		for _, m := range core.Methods(nt) {
			target, _ := gopkg.Scope().Lookup(m.Name()).(*types.Func)
			if target == nil || !target.Exported() {
				continue
			}
			fn := p.SSAFunc(m)
			if fn == nil || fn.Blocks == nil {
				continue
			}
			// the methods of the object interface itself (String, Equals, Compare ...) are not wrappers
			switch m.Name() {
			case "Compare", "Equal", "Clone":
				continue
			}
			n++
			calls := false
			seen := map[*ssa.Function]bool{}
			var walk func(f *ssa.Function, d int)
			walk = func(f *ssa.Function, d int) {
				if seen[f] || f.Blocks == nil {
					return
				}
				seen[f] = true
				for _, b := range f.Blocks {
					for _, in := range b.Instrs {
						if ci, ok := in.(ssa.CallInstruction); ok {
							cal := ci.Common().StaticCallee()
							if cal == nil {
								continue
							}
							if cal.Object() == types.Object(target) {
								calls = true
							}
							if cal.Pkg == fn.Pkg && d < 2 {
								walk(cal, d+1)
							}
						}
					}
				}
			}
			walk(fn, 0)
			key := "object." + pair[0] + "." + m.Name()
			why, listed := methodsAnsweringThemselves[key]
			c.Check(calls || listed, key+"|calls-its-namesake", p.Pos(fn.Pos()),
				pair[0]+"."+m.Name()+ife(calls, " calls "+pair[1]+"."+m.Name(), ife(listed, " answers by itself: "+why, " does not call "+pair[1]+"."+m.Name()+": it answers by other means, which agree with Go and with the module function of the same name only where those means and the Go function agree (\",\".join([\"\", \"a\"]))")))
		}
	}
	if n < 10 {
		core.Undecidedf("only %d methods are named after a function of the Go package they wrap", n)
	}
	c.Stat("method_namesakes", n)
}

// ---------------------------------------------------------------------------
// aGroupThatSpansLinesClosesAfterALineBreakToo: a parse function that lets a
// group span lines (it steps over line breaks right after the opening
// bracket) lets the line be broken before the closing bracket as well: where
// it expects the closer as the next token, the statement before is a step over
// line breaks.  A function that folds that step into the comma branch accepts
// `(\n a,\n b,\n)` and rejects `(\n a,\n b\n)`.
func aGroupThatSpansLinesClosesAfterALineBreakToo(c *core.Ctx) {
	p := c.P
	pp := p.Pkg("parser")
	tokArg := func(ce *ast.CallExpr, names ...string) bool {
		for _, a := range ce.Args {
			s := exprStr(a)
			for _, nme := range names {
				if s == "token."+nme {
					return true
				}
			}
		}
		return false
	}
	callOf := func(e ast.Expr) (*ast.CallExpr, string) {
		if ue, ok := ast.Unparen(e).(*ast.UnaryExpr); ok {
			e = ue.X
		}
		ce, ok := ast.Unparen(e).(*ast.CallExpr)
		if !ok {
			return nil, ""
		}
		sel, ok := ce.Fun.(*ast.SelectorExpr)
		if !ok {
			return nil, ""
		}
		return ce, sel.Sel.Name
	}
	isNewlineStep := func(s ast.Stmt) bool {
		if fs, ok := s.(*ast.ForStmt); ok && fs.Cond != nil {
			if ce, name := callOf(fs.Cond); ce != nil && name == "peekTokenIs" && tokArg(ce, "NEWLINE") {
				return true
			}
		}
		return false
	}
	n := 0
	funcBodies(pp, func(fn *types.Func, fd *ast.FuncDecl) {
		// spans lines: an opener test whose body steps over line breaks
		spans := false
		ast.Inspect(fd.Body, func(nd ast.Node) bool {
			if is, ok := nd.(*ast.IfStmt); ok {
				if ce, name := callOf(is.Cond); ce != nil && (name == "peekTokenIs" || name == "curTokenIs") && tokArg(ce, "LPAREN", "LBRACKET", "LBRACE") {
					for _, s := range is.Body.List {
						if isNewlineStep(s) {
							spans = true
						}
					}
				}
			}
			return true
		})
		if !spans {
			return
		}
		k := 0
		ast.Inspect(fd.Body, func(nd ast.Node) bool {
			bs, ok := nd.(*ast.BlockStmt)
			if !ok {
				return true
			}
			for i, s := range bs.List {
				is, ok := s.(*ast.IfStmt)
				if !ok {
					continue
				}
				expects := false
				ast.Inspect(is.Cond, func(x ast.Node) bool {
					if e, ok := x.(ast.Expr); ok {
						if ce, name := callOf(e); ce != nil && name == "expectPeek" && tokArg(ce, "RPAREN", "RBRACKET", "RBRACE") {
							expects = true
						}
					}
					return true
				})
				if !expects {
					continue
				}
				n++
				k++
				okb := i > 0 && isNewlineStep(bs.List[i-1])
				c.Check(okb, qual(pp, fd)+"|closer-expected-after-a-step-over-line-breaks|"+sprintf("%d", k), p.Pos(is.Pos()),
					fd.Name.Name+" lets its group span lines and expects the closing bracket"+ife(okb, " after a step over line breaks", " without a step over line breaks before it: a line broken before the closing bracket (after a last item without a comma) is a parse error, while the same group with a trailing comma parses"))
			}
			return true
		})
	})
	if n == 0 {
		core.Undecidedf("no parse function lets a group span lines")
	}
	c.Stat("multi_line_group_closers", n)
}

// ---------------------------------------------------------------------------
// equalityIsNotInherited: x == x holds for every value (NaN aside).  An
// Equals method asserts that the other operand is of its own type before it
// compares; a type that embeds another object type and takes over that type's
// Equals hands it an operand of the outer type, the assertion fails, and the
// value is not equal to itself (it := iter(ch); it == it is false).  Every
// object type that embeds another one defines its own Equals.
func equalityIsNotInherited(c *core.Ctx) {
	p := c.P
	n := 0
	for _, rel := range []string{"object"} {
		pk := p.Pkg(rel)
		objI := core.MustType(p.Pkg("object"), "Object").Underlying().(*types.Interface)
		sc := pk.Types.Scope()
		for _, name := range sc.Names() {
			tn, ok := sc.Lookup(name).(*types.TypeName)
			if !ok {
				continue
			}
			nt, ok := tn.Type().(*types.Named)
			if !ok {
				continue
			}
			st, ok := nt.Underlying().(*types.Struct)
			if !ok || !types.Implements(types.NewPointer(nt), objI) {
				continue
			}
			// embeds an object type (other than the shared base of defaults)
			embeds := ""
			for i := 0; i < st.NumFields(); i++ {
				f := st.Field(i)
				if !f.Embedded() {
					continue
				}
				et := core.NamedOf(f.Type())
				if et == nil || et.Obj().Pkg() != pk.Types {
					continue
				}
				if core.Method(et, "Equals") != nil {
					embeds = et.Obj().Name()
				}
			}
			if embeds == "" {
				continue
			}
			n++
			sel := types.NewMethodSet(types.NewPointer(nt)).Lookup(pk.Types, "Equals")
			own := sel != nil && len(sel.Index()) == 1
			c.Check(own, "object."+name+"|Equals|its-own", p.Pos(tn.Pos()),
				name+" embeds "+embeds+ife(own, " and defines its own Equals", " and takes over its Equals, which asserts that the other operand is a "+embeds+": a "+name+" is then not equal to itself"))
		}
	}
	if n == 0 {
		c.Pass("object|no-object-type-embeds-another", "", "no object type embeds another object type that defines Equals")
	}
	c.Stat("embedding_object_types", n)
}

// ---------------------------------------------------------------------------
// positionsFromFragmentsDoNotOutliveTheFragment: the expressions inside a
// template string are parsed on their own, so the positions of their nodes
// count from the start of the fragment.  While such an expression is compiled
// the compiler corrects them (templatePosition); when it is done, the
// compiler's own note of where it is (position, used by the errors that are
// not handed a node: a table that is full, a jump that is too far) is put back
// to a place of the enclosing source.  Left at the fragment's last node, the
// next such error names a line and a column that the source does not have.
func positionsFromFragmentsDoNotOutliveTheFragment(c *core.Ctx) {
	p := c.P
	cp := p.Pkg("compiler")
	ct := core.MustType(cp, "Compiler")
	tIdx, pIdx := fieldIdxByName(ct, "templatePosition"), fieldIdxByName(ct, "position")
	if tIdx < 0 || pIdx < 0 {
		core.Undecidedf("compiler.Compiler has no templatePosition / position")
	}
	compile := p.SSAFunc(core.MustMethod(ct, "compile"))
	n := 0
	for _, fn := range repoFns(p, "compiler") {
		if len(storesToField(fn, ct, tIdx)) == 0 {
			continue
		}
		k := 0
		for _, b := range fn.Blocks {
			for _, in := range b.Instrs {
				ci, ok := in.(ssa.CallInstruction)
				if !ok || ci.Common().StaticCallee() != compile {
					continue
				}
				// a compile that runs with the correction switched on
				on := false
				for _, st := range storesToField(fn, ct, tIdx) {
					if kc, isK := st.Val.(*ssa.Const); isK && kc.IsNil() {
						continue
					}
					if instrReaches(st, in) {
						on = true
					}
				}
				if !on {
					continue
				}
				n++
				k++
				back := false
				for _, st := range storesToField(fn, ct, pIdx) {
					if instrReaches(in, st) && instrDominates(in, st) {
						back = true
					}
				}
				c.Check(back, core.SSAName(fn)+"|position-put-back-after-the-fragment|"+sprintf("%d", k), p.Pos(in.Pos()),
					fn.Name()+" compiles an expression of a template string with the positions corrected"+ife(back, " and puts the compiler's position back afterwards", " and leaves the compiler's position at the last node of the fragment: an error that is reported at that position afterwards (the table of constants is full) names a line and a column counted from the start of the fragment"))
			}
		}
	}
	if n == 0 {
		core.Undecidedf("no function compiles a template fragment under templatePosition")
	}
	c.Stat("fragment_compiles", n)
}

// ---------------------------------------------------------------------------
// textCopiedAcrossLineEndsDropsTheCarriageReturn: a function of the lexer that
// copies source text into a token as it stands, up to a closing delimiter and
// across line ends (a raw string), leaves out the carriage return of a CRLF
// line end.  Otherwise the same program saved with CRLF line endings has
// another string constant in it than the one saved with LF.
func textCopiedAcrossLineEndsDropsTheCarriageReturn(c *core.Ctx) {
	p := c.P
	lp := p.Pkg("lexer")
	lexT := core.MustType(lp, "Lexer")
	chIdx := fieldIdxByName(lexT, "characters")
	if chIdx < 0 {
		core.Undecidedf("lexer.Lexer has no characters")
	}
	n := 0
	for _, fn := range repoFns(p, "lexer") {
		if fn.Signature.Recv() == nil || fn.Parent() != nil {
			continue
		}
		// returns a string made of a slice of the source
		slices := false
		for _, b := range fn.Blocks {
			for _, in := range b.Instrs {
				if sl, ok := in.(*ssa.Slice); ok {
					if _, ok := loadOfField(sl.X, lexT, chIdx); ok {
						slices = true
					}
				}
			}
		}
		if !slices || fn.Signature.Results().Len() == 0 || !core.IsStringType(fn.Signature.Results().At(0).Type()) {
			continue
		}
		// reads up to a delimiter: a loop that is left on equality with a rune
		// constant and decides nothing by the class of the character
		byClass, byDelimiter, seesCR := false, false, false
		var walk func(f *ssa.Function, d int)
		seen := map[*ssa.Function]bool{}
		walk = func(f *ssa.Function, d int) {
			if seen[f] || f.Blocks == nil {
				return
			}
			seen[f] = true
			for _, b := range f.Blocks {
				for _, in := range b.Instrs {
					switch x := in.(type) {
					case *ssa.BinOp:
						if x.Op != token.EQL && x.Op != token.NEQ {
							continue
						}
						for _, o := range []ssa.Value{x.X, x.Y} {
							if k, ok := o.(*ssa.Const); ok && k.Value != nil {
								if bt, ok := k.Type().Underlying().(*types.Basic); ok && bt.Kind() == types.Int32 {
									if f == fn && k.Int64() != 0 {
										byDelimiter = true
									}
									if k.Int64() == 13 {
										seesCR = true
									}
								}
							}
						}
					case ssa.CallInstruction:
						cal := x.Common().StaticCallee()
						if cal == nil {
							continue
						}
						if cal.Pkg != nil && cal.Pkg.Pkg.Path() == "unicode" {
							byClass = true
						}
						if cal.Pkg != nil && cal.Pkg.Pkg.Path() == "strings" && strings.HasPrefix(cal.Name(), "Replace") {
							for _, a := range x.Common().Args {
								if k, ok := a.(*ssa.Const); ok && k.Value != nil && strings.Contains(k.Value.ExactString(), `\r`) {
									seesCR = true
								}
							}
						}
						if core.RepoFunc(cal) && cal.Pkg == fn.Pkg && d < 1 {
							if cal.Signature.Results().Len() == 1 {
								if bt, ok := cal.Signature.Results().At(0).Type().Underlying().(*types.Basic); ok && bt.Kind() == types.Bool && cal.Signature.Params().Len() == 1 {
									byClass = true // isLetter(ch), isDigit(ch) ...
								}
							}
							walk(cal, d+1)
						}
					}
				}
			}
		}
		walk(fn, 0)
		if byClass || !byDelimiter {
			continue
		}
		n++
		c.Check(seesCR, core.SSAName(fn)+"|drops-the-carriage-return", p.Pos(fn.Pos()),
			fn.Name()+" copies source text up to a closing delimiter, across line ends"+ife(seesCR, ", and looks for carriage returns", ", and never looks for a carriage return: with CRLF line endings the text it returns has a \\r in it that the same source with LF line endings does not have"))
	}
	if n == 0 {
		core.Undecidedf("no function of the lexer copies source text up to a delimiter")
	}
	c.Stat("delimited_copies", n)
}

// ---------------------------------------------------------------------------
// signalRegistrationsAreUndone: os/signal.Notify changes what the process does
// with a signal for as long as the channel stays registered - for SIGINT and
// SIGTERM, that the process is no longer ended by them.  A library function
// that registers a channel for the time of one evaluation takes it off again
// when it returns (a deferred signal.Stop of the same channel): otherwise the
// first evaluation that served HTTP leaves a host that SIGTERM cannot stop, and
// every evaluation in the process lives with it.
func signalRegistrationsAreUndone(c *core.Ctx) {
	p := c.P
	n := 0
	for _, fn := range repoFns(p) {
		if fn.Pkg == nil || strings.HasPrefix(core.RelPkg(fn.Pkg.Pkg), "cmd/") {
			continue // a command owns its process
		}
		k := 0
		for _, b := range fn.Blocks {
			for _, in := range b.Instrs {
				ci, ok := in.(ssa.CallInstruction)
				if !ok {
					continue
				}
				cal := ci.Common().StaticCallee()
				if cal == nil || cal.Pkg == nil || cal.Pkg.Pkg.Path() != "os/signal" || cal.Name() != "Notify" || len(ci.Common().Args) == 0 {
					continue
				}
				n++
				k++
				ch := ci.Common().Args[0]
				undone := false
				for _, b2 := range fn.Blocks {
					for _, in2 := range b2.Instrs {
						d, ok := in2.(*ssa.Defer)
						if !ok {
							continue
						}
						c2 := d.Call.StaticCallee()
						if c2 != nil && c2.Pkg != nil && c2.Pkg.Pkg.Path() == "os/signal" && c2.Name() == "Stop" && len(d.Call.Args) == 1 {
							for _, o := range core.Origins(d.Call.Args[0]) {
								for _, o2 := range core.Origins(ch) {
									if o == o2 {
										undone = true
									}
								}
							}
						}
					}
				}
				c.Check(undone, core.SSAName(fn)+"|signal.Notify|undone-when-the-function-returns|"+sprintf("%d", k), p.Pos(in.Pos()),
					fn.Name()+" registers a channel for signals"+ife(undone, " and takes it off again with a deferred signal.Stop", " and never takes it off: after the evaluation the process still hands SIGINT and SIGTERM to a channel nobody reads, and can no longer be ended by them"))
			}
		}
	}
	if n == 0 {
		c.Pass("repo|no-signal-registration", "", "no library function registers a channel for signals")
	}
	c.Stat("signal_registrations", n)
}

// ---------------------------------------------------------------------------
// everySymbolHasASlotOfItsOwn: the index of a symbol is its place in the list
// of the symbols of the function (or module) it belongs to: the table gives a
// new symbol the length of that list, and appends it.  Closures hold cells that
// point at slots, and a slot that is handed out again after its block has ended
// (to save locals) makes a closure over the first variable read and write the
// second.
func everySymbolHasASlotOfItsOwn(c *core.Ctx) {
	p := c.P
	cp := p.Pkg("compiler")
	symT := core.MustType(cp, "Symbol")
	stT := core.MustType(cp, "SymbolTable")
	iIdx := fieldIdxByName(symT, "index")
	lIdx := fieldIdxByName(stT, "symbols")
	if iIdx < 0 || lIdx < 0 {
		core.Undecidedf("compiler.Symbol.index / SymbolTable.symbols not found")
	}
	n := 0
	for _, fn := range repoFns(p, "compiler") {
		for i, st := range storesToField(fn, symT, iIdx) {
			// (the loader puts back the index that was stored)
			if strings.HasSuffix(p.Fset.Position(fn.Pos()).Filename, "store.go") {
				continue
			}
			n++
			bad := ""
			var walk func(v ssa.Value, seen map[ssa.Value]bool)
			walk = func(v ssa.Value, seen map[ssa.Value]bool) {
				if seen[v] {
					return
				}
				seen[v] = true
				switch x := v.(type) {
				case *ssa.Convert:
					walk(x.X, seen)
				case *ssa.Phi:
					for _, e := range x.Edges {
						walk(e, seen)
					}
				case *ssa.Call:
					if bi, ok := x.Call.Value.(*ssa.Builtin); ok && bi.Name() == "len" && len(x.Call.Args) == 1 {
						if _, ok := loadOfField(x.Call.Args[0], stT, lIdx); ok {
							return
						}
					}
					bad = x.String()
				default:
					bad = v.String()
				}
			}
			walk(st.Val, map[ssa.Value]bool{})
			c.Check(bad == "", core.SSAName(fn)+"|Symbol.index|is-the-length-of-the-list|"+sprintf("%d", i+1), p.Pos(st.Pos()),
				fn.Name()+" gives a symbol its index"+ife(bad == "", ": the length of the table's list of symbols, to which it is appended", ": on some path it is "+bad+" and not the length of the table's list of symbols: two symbols of one function can then share a slot, and a closure over the first reads and writes the second"))
		}
	}
	if n == 0 {
		core.Undecidedf("no function of the compiler gives a symbol its index")
	}
	c.Stat("symbol_index_stores", n)
}

// variadicVals: the values passed for a variadic parameter (the slice literal
// that go/ssa builds for them), or the argument itself.
func variadicVals(a ssa.Value) []ssa.Value {
	sl, ok := a.(*ssa.Slice)
	if !ok {
		return []ssa.Value{a}
	}
	var vals []ssa.Value
	if al, ok := sl.X.(*ssa.Alloc); ok && al.Referrers() != nil {
		type iv struct {
			i int64
			v ssa.Value
		}
		var got []iv
		for _, r := range *al.Referrers() {
			if ia, ok := r.(*ssa.IndexAddr); ok && ia.Referrers() != nil {
				idx := int64(0)
				if k, ok := ia.Index.(*ssa.Const); ok {
					idx = k.Int64()
				}
				for _, r2 := range *ia.Referrers() {
					if s, ok := r2.(*ssa.Store); ok {
						got = append(got, iv{idx, s.Val})
					}
				}
			}
		}
		sort.Slice(got, func(i, j int) bool { return got[i].i < got[j].i })
		for _, g := range got {
			vals = append(vals, g.v)
		}
	}
	return vals
}

// ---------------------------------------------------------------------------
// handedDownCellsAreIndexedByTheEnclosingFunction: a function literal nested
// two levels deep gets the cell of an outer variable from the closure it is
// created in: the instruction names the variable by its place in THAT
// closure's list of free variables, which the compiler finds by resolving the
// name in the enclosing function's table.  The place in the new function's own
// list is another number whenever the two functions captured their variables
// in a different order, and the new closure then reads and writes a different
// variable.
func handedDownCellsAreIndexedByTheEnclosingFunction(c *core.Ctx) {
	p := c.P
	cp := p.Pkg("compiler")
	stT := core.MustType(cp, "SymbolTable")
	opP := p.Pkg("op")
	mk := opP.Types.Scope().Lookup("MakeCell")
	if mk == nil {
		core.Undecidedf("op.MakeCell not found")
	}
	mkVal := mk.(*types.Const).Val().ExactString()
	n := 0
	for _, fn := range repoFns(p, "compiler") {
		k := 0
		for _, b := range fn.Blocks {
			for _, in := range b.Instrs {
				ci, ok := in.(ssa.CallInstruction)
				if !ok {
					continue
				}
				cal := ci.Common().StaticCallee()
				if cal == nil || cal.Name() != "emit" || len(ci.Common().Args) < 3 {
					continue
				}
				kc, ok := ci.Common().Args[1].(*ssa.Const)
				if !ok || kc.Value == nil || kc.Value.ExactString() != mkVal || core.NamedOf(kc.Type()) == nil || core.NamedOf(kc.Type()).Obj().Pkg() != opP.Types {
					continue
				}
				ops := variadicVals(ci.Common().Args[2])
				if len(ops) != 2 {
					continue
				}
				mode, ok := ops[1].(*ssa.Const)
				if !ok || mode.Int64() != 1 {
					continue // a local of the function itself
				}
				n++
				k++
				from := func(name string) bool {
					return core.DependsOn(ops[0], func(w ssa.Value) bool {
						call, ok := w.(*ssa.Call)
						if !ok {
							return false
						}
						c2 := call.Call.StaticCallee()
						return c2 != nil && c2.Signature.Recv() != nil && core.NamedOf(c2.Signature.Recv().Type()) == stT && c2.Name() == name
					})
				}
				isCallOf := func(w ssa.Value, name string) bool {
					call, ok := w.(*ssa.Call)
					if !ok {
						return false
					}
					c2 := call.Call.StaticCallee()
					return c2 != nil && c2.Signature.Recv() != nil && core.NamedOf(c2.Signature.Recv().Type()) == stT && c2.Name() == name
				}
				// (what Resolve was asked for comes from the new function's list; what it found does not)
				freeDirect := core.DependsOnAvoiding(ops[0], func(w ssa.Value) bool { return isCallOf(w, "Free") }, func(w ssa.Value) bool { return isCallOf(w, "Resolve") })
				okb := from("Resolve") && !freeDirect
				c.Check(okb, core.SSAName(fn)+"|MakeCell|handed-down-cell-indexed-by-the-enclosing-function|"+sprintf("%d", k), p.Pos(in.Pos()),
					fn.Name()+" hands the cell of an outer variable down to a nested function literal"+ife(okb, ", naming it by what resolving the variable in the enclosing function found", ", naming it by its place in the new function's own list of free variables and not by what resolving it in the enclosing function finds: where the two lists differ the new closure gets the cell of another variable"))
			}
		}
	}
	if n == 0 {
		core.Undecidedf("no compile function hands a cell down")
	}
	c.Stat("handed_down_cells", n)
}

// ---------------------------------------------------------------------------
// levelsAddedInALoopStayCounted: the parser bounds the depth of the tree it
// builds with a counter.  Where it makes the tree deeper once per round of a
// loop (the operators of a chain a()()().., 1+1+1.., each applied to the
// expression so far), the count goes up once per round and is not taken off
// again inside the loop: the loop does not recurse, so nothing else bounds the
// chain, and the compiler and the printer recurse over a tree as deep as the
// chain is long (a fatal stack overflow for a 16 MB source).
func levelsAddedInALoopStayCounted(c *core.Ctx) {
	p := c.P
	pp := p.Pkg("parser")
	parserT := core.MustType(pp, "Parser")
	dIdx := fieldIdxByName(parserT, "depth")
	enterM := core.Method(parserT, "enter")
	if dIdx < 0 || enterM == nil {
		core.Undecidedf("parser.Parser.depth / enter not found")
	}
	enter := p.SSAFunc(enterM)
	n := 0
	for _, fn := range repoFns(p, "parser") {
		if fn == enter {
			continue
		}
		k := 0
		for _, b := range fn.Blocks {
			for _, in := range b.Instrs {
				ci, ok := in.(ssa.CallInstruction)
				if !ok || ci.Common().StaticCallee() != enter || !inLoop(b) {
					continue
				}
				n++
				k++
				bad := ""
				for _, st := range storesToField(fn, parserT, dIdx) {
					// in the same loop: the store and the call reach each other
					if instrReaches(in, st) && instrReaches(st, in) {
						bad = p.Pos(st.Pos())
					}
				}
				c.Check(bad == "", core.SSAName(fn)+"|enter|stays-counted-in-the-loop|"+sprintf("%d", k), p.Pos(in.Pos()),
					fn.Name()+" counts a level once per round of a loop"+ife(bad == "", " and leaves it counted until the function returns", " and takes it off again inside the loop (at "+bad+"): a chain of operators of any length then parses into a tree that deep, over which the printer and the compiler recurse until the native stack is exhausted"))
			}
		}
	}
	if n == 0 {
		core.Undecidedf("no parse function counts a level inside a loop")
	}
	c.Stat("levels_counted_in_loops", n)
}

// ---------------------------------------------------------------------------
// parseResultsAreNotAssertedBlind: a single-valued type assertion panics on a
// nil interface.  The parser asserts the result of one of its own parse
// functions that way only when that function has no path on which it returns
// nil: a function that learns to refuse something (and returns nil with the
// error set) otherwise turns the refusal into a Go panic in the caller, which
// nothing in parser.Parse recovers.
func parseResultsAreNotAssertedBlind(c *core.Ctx) {
	p := c.P
	pp := p.Pkg("parser")
	parserT := core.MustType(pp, "Parser")
	returnsNil := func(f *ssa.Function) string {
		if f == nil || f.Blocks == nil {
			return ""
		}
		for _, b := range f.Blocks {
			for _, in := range b.Instrs {
				ret, ok := in.(*ssa.Return)
				if !ok || len(ret.Results) != 1 {
					continue
				}
				// (a return behind "the token's literal is empty" is not a path
				// of its own: the lexer gives no token of a kind that the caller
				// has tested for an empty literal)
				emptyLiteral := false
				for _, b2 := range f.Blocks {
					if len(b2.Instrs) == 0 || b2 == b || !b2.Dominates(b) {
						continue
					}
					if iff, ok := b2.Instrs[len(b2.Instrs)-1].(*ssa.If); ok && iff.Block().Succs[0] == b {
						if bo, ok := iff.Cond.(*ssa.BinOp); ok && bo.Op == token.EQL {
							for _, pair := range [][2]ssa.Value{{bo.X, bo.Y}, {bo.Y, bo.X}} {
								k, isK := pair[1].(*ssa.Const)
								u, isU := pair[0].(*ssa.UnOp)
								if isK && isU && k.Value != nil && k.Value.ExactString() == `""` {
									if fa, ok := u.X.(*ssa.FieldAddr); ok {
										if nt := core.NamedOf(fa.X.Type()); nt != nil && fieldNameOf(nt, fa.Field) == "Literal" {
											emptyLiteral = true
										}
									}
								}
							}
						}
					}
				}
				if emptyLiteral {
					continue
				}
				for _, o := range core.Origins(spilledResult(b, ret.Results[0])) {
					if k, ok := o.(*ssa.Const); ok && k.IsNil() {
						return p.Pos(ret.Pos())
					}
				}
			}
		}
		return ""
	}
	n := 0
	for _, fn := range repoFns(p, "parser") {
		k := 0
		for _, b := range fn.Blocks {
			for _, in := range b.Instrs {
				ta, ok := in.(*ssa.TypeAssert)
				if !ok || ta.CommaOk {
					continue
				}
				for _, o := range core.Origins(ta.X) {
					call, ok := o.(*ssa.Call)
					if !ok {
						continue
					}
					cal := call.Call.StaticCallee()
					if cal == nil || cal.Signature.Recv() == nil || core.NamedOf(cal.Signature.Recv().Type()) != parserT {
						continue
					}
					n++
					k++
					where := returnsNil(cal)
					// tested for nil before the assertion?
					tested := false
					if where != "" {
						for _, b2 := range fn.Blocks {
							if len(b2.Instrs) == 0 || !b2.Dominates(b) || b2 == b {
								continue
							}
							if iff, ok := b2.Instrs[len(b2.Instrs)-1].(*ssa.If); ok {
								if bo, ok := iff.Cond.(*ssa.BinOp); ok && (bo.X == ssa.Value(call) || bo.Y == ssa.Value(call)) {
									tested = true
								}
							}
						}
					}
					okb := where == "" || tested
					c.Check(okb, core.SSAName(fn)+"|"+cal.Name()+"|asserted-only-when-never-nil|"+sprintf("%d", k), p.Pos(ta.Pos()),
						fn.Name()+" asserts the type of what "+cal.Name()+" returned without a second result"+ife(okb, ife(where == "", "; "+cal.Name()+" has no path on which it returns nil", "; the result is tested for nil first"), "; "+cal.Name()+" returns nil at "+where+": the assertion then panics in "+fn.Name()+", and parser.Parse hands the panic to its caller"))
				}
			}
		}
	}
	if n == 0 {
		c.Pass("parser|no-blind-assertion-of-a-parse-result", "", "no single-valued type assertion of the result of a parse function")
	}
	c.Stat("asserted_parse_results", n)
}

// ---------------------------------------------------------------------------
// callbackLoopsAreBoundedByWhatWasThere: a method of a container that calls a
// callback once per item walks the items that were there when it started (a
// range over the slice, whose length Go reads once).  A loop that reads the
// length again every round can be kept going by its own callback
// (l.each(l.append)); when the callback is a builtin nothing in the loop is an
// instruction of the VM, so the halt flag is never looked at - such a loop
// asks the context itself, or the evaluation cannot be stopped.
func callbackLoopsAreBoundedByWhatWasThere(c *core.Ctx) {
	p := c.P
	n := 0
	for _, fn := range repoFns(p, "object") {
		if fn.Signature.Recv() == nil || len(fn.Params) == 0 {
			continue
		}
		recv := ssa.Value(fn.Params[0])
		// calls a callback inside a loop
		var calls []ssa.Instruction
		for _, b := range fn.Blocks {
			if !inLoop(b) {
				continue
			}
			for _, in := range b.Instrs {
				ci, ok := in.(ssa.CallInstruction)
				if !ok {
					continue
				}
				cm := ci.Common()
				if cal := cm.StaticCallee(); cal != nil && cal.Pkg == fn.Pkg && cal != fn && callsACallback(cal) {
					// the call of the callback, in a helper of its own
					calls = append(calls, in)
				} else if cm.IsInvoke() && cm.Method.Name() == "Call" {
					calls = append(calls, in)
				} else if cm.StaticCallee() == nil && !cm.IsInvoke() {
					if _, isB := cm.Value.(*ssa.Builtin); !isB {
						if sig, ok := cm.Value.Type().Underlying().(*types.Signature); ok && sig.Params().Len() >= 2 && core.IsNamed(sig.Params().At(0).Type(), "context", "Context") {
							calls = append(calls, in)
						}
					}
				}
			}
		}
		if len(calls) == 0 {
			continue
		}
		n++
		reread, polled := "", false
		for _, b := range fn.Blocks {
			if !inLoop(b) {
				continue
			}
			for _, in := range b.Instrs {
				if call, ok := in.(*ssa.Call); ok {
					if bi, ok := call.Call.Value.(*ssa.Builtin); ok && bi.Name() == "len" && len(call.Call.Args) == 1 {
						if u, ok := call.Call.Args[0].(*ssa.UnOp); ok && u.Op == token.MUL {
							if fa, ok := u.X.(*ssa.FieldAddr); ok && fa.X == recv {
								for _, cl := range calls {
									if instrReaches(cl, in) && instrReaches(in, cl) {
										reread = p.Pos(call.Pos())
									}
								}
							}
						}
					}
					if call.Call.IsInvoke() && (call.Call.Method.Name() == "Err" || call.Call.Method.Name() == "Done") {
						polled = true
					}
				}
			}
		}
		okb := reread == "" || polled
		c.Check(okb, core.SSAName(fn)+"|callback-loop-bounded-by-what-was-there", p.Pos(fn.Pos()),
			core.SSAName(fn)+" calls a callback once per round of a loop"+ife(reread == "", " over the items that were there when it started", ife(polled, " whose bound it reads again every round, and asks the context in the loop", " whose bound it reads again every round (at "+reread+") without asking the context: a callback that lengthens the container keeps the loop going, and with a builtin for a callback no instruction of the VM runs that would notice the end of the evaluation (l.each(l.append))")))
	}
	if n < 3 {
		core.Undecidedf("only %d container methods call a callback in a loop", n)
	}
	c.Stat("callback_loops", n)
}

// ---------------------------------------------------------------------------
// callbacksThatRunElsewhereRunOnAClone: a builtin that keeps a script function
// to call it later from another goroutine (the handler of an HTTP server, a
// goroutine it starts) takes the clone-call function from the context, which
// runs every call on a VM of its own.  The plain call function runs on the VM
// of the evaluation: two requests in flight then share its frames, its operand
// stack and its instruction pointer.
func callbacksThatRunElsewhereRunOnAClone(c *core.Ctx) {
	p := c.P
	n := 0
	for _, fn := range repoFns(p) {
		if fn.Parent() != nil || fn.Pkg == nil {
			continue
		}
		rel := core.RelPkg(fn.Pkg.Pkg)
		if !strings.HasPrefix(rel, "modules/") && rel != "builtins" && rel != "object" {
			continue
		}
		for _, b := range fn.Blocks {
			for _, in := range b.Instrs {
				call, ok := in.(*ssa.Call)
				if !ok {
					continue
				}
				cal := call.Call.StaticCallee()
				if cal == nil || cal.Pkg == nil || core.RelPkg(cal.Pkg.Pkg) != "object" || cal.Name() != "GetCallFunc" {
					continue
				}
				// where what was obtained goes
				var elsewhere string
				fromCall := func(v ssa.Value) bool {
					return core.DependsOn(v, func(w ssa.Value) bool { return w == ssa.Value(call) })
				}
				for _, b2 := range fn.Blocks {
					for _, in2 := range b2.Instrs {
						switch x := in2.(type) {
						case *ssa.Go:
							for _, a := range x.Call.Args {
								if fromCall(a) {
									elsewhere = "a goroutine (" + p.Pos(x.Pos()) + ")"
								}
							}
							if fromCall(x.Call.Value) {
								elsewhere = "a goroutine (" + p.Pos(x.Pos()) + ")"
							}
						case *ssa.Call:
							if c2 := x.Call.StaticCallee(); c2 != nil && c2.Pkg != nil && c2.Pkg.Pkg.Path() == "net/http" {
								for _, a := range x.Call.Args {
									if fromCall(a) {
										elsewhere = "net/http." + c2.Name() + " (" + p.Pos(x.Pos()) + ")"
									}
								}
							}
						}
					}
				}
				n++
				c.Check(elsewhere == "", core.SSAName(fn)+"|GetCallFunc|not-handed-to-another-goroutine", p.Pos(call.Pos()),
					fn.Name()+" takes the call function of the evaluation's VM"+ife(elsewhere == "", " and calls it on the goroutine of the evaluation", " and hands a closure over it to "+elsewhere+": the script function then runs on the evaluation's VM from another goroutine, and two calls in flight share its frames and its operand stack (the clone-call function is for this)"))
			}
		}
	}
	if n < 5 {
		core.Undecidedf("only %d uses of the call function found", n)
	}
	c.Stat("call_function_uses", n)
}

// ---------------------------------------------------------------------------
// atomicFieldsAreAlwaysAccessedAtomically: a field that some function reads or
// writes through sync/atomic (the address of the field is handed to
// atomic.Load.., Store.., Add.., CompareAndSwap..) is shared between
// goroutines; every other access goes through sync/atomic as well.  A plain
// read in the dispatch loop next to an atomic store in the context watcher is
// a data race.
func atomicFieldsAreAlwaysAccessedAtomically(c *core.Ctx) {
	p := c.P
	type fk struct {
		nt  *types.Named
		idx int
	}
	atomicFields := map[fk]bool{}
	isAtomicUse := func(fa *ssa.FieldAddr) bool {
		if fa.Referrers() == nil {
			return false
		}
		for _, r := range *fa.Referrers() {
			if ci, ok := r.(ssa.CallInstruction); ok {
				if cal := ci.Common().StaticCallee(); cal != nil && cal.Pkg != nil && cal.Pkg.Pkg.Path() == "sync/atomic" {
					return true
				}
			}
		}
		return false
	}
	fns := repoFns(p)
	for _, fn := range fns {
		for _, b := range fn.Blocks {
			for _, in := range b.Instrs {
				if fa, ok := in.(*ssa.FieldAddr); ok && isAtomicUse(fa) {
					if nt := core.NamedOf(fa.X.Type()); nt != nil && core.InRepo(nt.Obj().Pkg()) {
						atomicFields[fk{nt, fa.Field}] = true
					}
				}
			}
		}
	}
	if len(atomicFields) == 0 {
		core.Undecidedf("no field of a repository type is accessed through sync/atomic")
	}
	n := 0
	for _, fn := range fns {
		perField := map[fk]string{}
		seen := map[fk]bool{}
		for _, b := range fn.Blocks {
			for _, in := range b.Instrs {
				fa, ok := in.(*ssa.FieldAddr)
				if !ok {
					continue
				}
				nt := core.NamedOf(fa.X.Type())
				key := fk{nt, fa.Field}
				if nt == nil || !atomicFields[key] {
					continue
				}
				seen[key] = true
				if isAtomicUse(fa) || fa.Referrers() == nil {
					continue
				}
				for _, r := range *fa.Referrers() {
					switch x := r.(type) {
					case *ssa.UnOp:
						if x.Op == token.MUL {
							perField[key] = "read at " + p.Pos(x.Pos())
						}
					case *ssa.Store:
						if x.Addr == ssa.Value(fa) {
							// (a store into an object that no other goroutine has yet: the field of a fresh allocation)
							if al, ok := fa.X.(*ssa.Alloc); ok && al.Heap {
								continue
							}
							perField[key] = "written at " + p.Pos(x.Pos())
						}
					}
				}
			}
		}
		var keys []fk
		for k := range seen {
			keys = append(keys, k)
		}
		sort.Slice(keys, func(i, j int) bool {
			if keys[i].nt.Obj().Name() != keys[j].nt.Obj().Name() {
				return keys[i].nt.Obj().Name() < keys[j].nt.Obj().Name()
			}
			return keys[i].idx < keys[j].idx
		})
		for _, k := range keys {
			n++
			bad := perField[k]
			c.Check(bad == "", core.SSAName(fn)+"|"+k.nt.Obj().Name()+"."+fieldNameOf(k.nt, k.idx)+"|accessed-through-sync/atomic", p.Pos(fn.Pos()),
				fn.Name()+" accesses "+k.nt.Obj().Name()+"."+fieldNameOf(k.nt, k.idx)+", which other code accesses through sync/atomic,"+ife(bad == "", " through sync/atomic as well", " plainly ("+bad+"): a data race with the goroutines that store it atomically"))
		}
	}
	c.Stat("atomic_field_accessors", n)
}

// ---------------------------------------------------------------------------
// aCaseReturnsTheErrorOfTheContextItWaitedFor: an operation that waits in a
// select for its value and for the end of a context reports, in the case of
// the context, the error of that context.  A case that waits for another
// channel (the Done channel of the evaluation that made the object, kept in a
// field) and returns the caller's ctx.Err() returns nil when only the other
// context is over: a send then completes without an error and without
// delivering its value, and a range loop ends before the channel is closed.
func aCaseReturnsTheErrorOfTheContextItWaitedFor(c *core.Ctx) {
	p := c.P
	n := 0
	doneOf := func(v ssa.Value) (ssa.Value, bool) {
		for _, o := range core.Origins(v) {
			call, ok := o.(*ssa.Call)
			if ok && call.Call.IsInvoke() && call.Call.Method.Name() == "Done" {
				return call.Call.Value, true
			}
		}
		return nil, false
	}
	for _, fn := range repoFns(p, "object") {
		k := 0
		for _, b := range fn.Blocks {
			for _, in := range b.Instrs {
				sel, ok := in.(*ssa.Select)
				if !ok || sel.Referrers() == nil {
					continue
				}
				// the index of the case that was taken
				var idx ssa.Value
				for _, r := range *sel.Referrers() {
					if ex, ok := r.(*ssa.Extract); ok && ex.Index == 0 {
						idx = ex
					}
				}
				if idx == nil || idx.Referrers() == nil {
					continue
				}
				caseBlock := map[int64]*ssa.BasicBlock{}
				for _, r := range *idx.Referrers() {
					bo, ok := r.(*ssa.BinOp)
					if !ok || bo.Op != token.EQL || bo.Referrers() == nil {
						continue
					}
					k, ok := bo.Y.(*ssa.Const)
					if !ok {
						continue
					}
					for _, r2 := range *bo.Referrers() {
						if iff, ok := r2.(*ssa.If); ok {
							caseBlock[k.Int64()] = iff.Block().Succs[0]
						}
					}
				}
				for i, st := range sel.States {
					if st.Dir != types.RecvOnly {
						continue
					}
					cb := caseBlock[int64(i)]
					if cb == nil {
						continue
					}
					waited, isDone := doneOf(st.Chan)
					// the context errors that the case returns
					for _, b2 := range fn.Blocks {
						if b2 != cb && !cb.Dominates(b2) {
							continue
						}
						for _, in2 := range b2.Instrs {
							ret, ok := in2.(*ssa.Return)
							if !ok {
								continue
							}
							for _, res := range ret.Results {
								for _, o := range core.Origins(spilledResult(b2, res)) {
									call, ok := o.(*ssa.Call)
									if !ok || !call.Call.IsInvoke() || call.Call.Method.Name() != "Err" || !core.IsNamed(call.Call.Value.Type(), "context", "Context") {
										continue
									}
									n++
									k++
									same := isDone && (call.Call.Value == waited || core.SameStorage(call.Call.Value, waited))
									c.Check(same, core.SSAName(fn)+"|select|case-returns-the-error-of-its-own-context|"+sprintf("%d", k), p.Pos(ret.Pos()),
										fn.Name()+" returns a context's Err() from a case of a select"+ife(same, " that waited for the Done channel of that context", " that did not wait for the Done channel of that context: when the channel it did wait for is ready and the context is not over, the error is nil and the operation looks completed (a send that delivered nothing)"))
								}
							}
						}
					}
				}
			}
		}
	}
	if n == 0 {
		core.Undecidedf("no select case in package object returns a context's error")
	}
	c.Stat("context_cases", n)
}

// ---------------------------------------------------------------------------
// aCloneGetsEachTableFromTheSameTable: Clone gives the new VM tables of its own
// (modules, loaded code, globals given by the host) and fills each from the
// table of the same name of the VM it clones.  A table filled from somewhere
// else (the modules from the globals: the host's modules only) leaves out what
// the script has put there since: a thread that imports a module its spawner
// has imported runs the module's top-level code again, over the globals it
// shares with the spawner.
func aCloneGetsEachTableFromTheSameTable(c *core.Ctx) {
	p := c.P
	vmT := vmType(p)
	var clones []*ssa.Function
	for _, fn := range repoFns(p, "vm") {
		if fn.Name() == "Clone" && fn.Signature.Recv() != nil && core.NamedOf(fn.Signature.Recv().Type()) == vmT && fn.Parent() == nil {
			clones = append(clones, fn)
			for _, b := range fn.Blocks {
				for _, in := range b.Instrs {
					if ci, ok := in.(ssa.CallInstruction); ok {
						if cal := ci.Common().StaticCallee(); cal != nil && cal.Blocks != nil && cal.Signature.Recv() != nil && core.NamedOf(cal.Signature.Recv().Type()) == vmT {
							clones = append(clones, cal)
						}
					}
				}
			}
		}
	}
	if len(clones) == 0 {
		core.Undecidedf("VirtualMachine.Clone not found")
	}
	n := 0
	// tables copied by a copier (a helper that returns a new map with the entries of its argument, or maps.Clone)
	for _, in := range cloneModelOf(p).Inits {
		if in.Kind != "copy" || in.Read == nil {
			continue
		}
		if _, byCall := in.Read.(*ssa.Call); !byCall {
			continue // copies made by a loop are the map updates decided below
		}
		n++
		c.Check(in.Source == in.Field, core.SSAName(in.Fn)+"|"+fieldNameOf(vmT, in.Field)+"|filled-from-the-same-table", p.Pos(in.Store.Pos()),
			in.Fn.Name()+" fills the "+fieldNameOf(vmT, in.Field)+" of the new VM"+ife(in.Source == in.Field, " from the "+fieldNameOf(vmT, in.Field)+" of the VM it clones", " from the "+fieldNameOf(vmT, in.Source)+" of the VM it clones: what is in its "+fieldNameOf(vmT, in.Field)+" and not there (the modules that the script has imported) is missing in the clone"))
	}
	for _, fn := range clones {
		recv := ssa.Value(fn.Params[0])
		for _, b := range fn.Blocks {
			for _, in := range b.Instrs {
				mu, ok := in.(*ssa.MapUpdate)
				if !ok {
					continue
				}
				// the field of the new VM that the map ends up in
				target := -1
				for _, o := range core.Origins(mu.Map) {
					if o.Referrers() == nil {
						continue
					}
					for _, r := range *o.Referrers() {
						if st, ok := r.(*ssa.Store); ok && st.Val == o {
							if fa, ok := st.Addr.(*ssa.FieldAddr); ok && core.NamedOf(fa.X.Type()) == vmT && fa.X != recv {
								target = fa.Field
							}
						}
					}
				}
				if target < 0 {
					continue
				}
				// the table that the entries come from: the range whose Next feeds the update
				source := -2
				core.DependsOn(mu.Value, func(w ssa.Value) bool {
					nx, ok := w.(*ssa.Next)
					if !ok {
						return false
					}
					if rg, ok := nx.Iter.(*ssa.Range); ok {
						if fa, ok := loadOfField(rg.X, vmT, -1); ok {
							_ = fa
						}
						if u, ok := rg.X.(*ssa.UnOp); ok {
							if fa, ok := u.X.(*ssa.FieldAddr); ok && core.NamedOf(fa.X.Type()) == vmT && fa.X == recv {
								source = fa.Field
							}
						}
					}
					return false
				})
				if source == -2 {
					continue
				}
				n++
				c.Check(source == target, core.SSAName(fn)+"|"+fieldNameOf(vmT, target)+"|filled-from-the-same-table", p.Pos(mu.Pos()),
					fn.Name()+" fills the "+fieldNameOf(vmT, target)+" of the new VM"+ife(source == target, " from the "+fieldNameOf(vmT, target)+" of the VM it clones", " from the "+fieldNameOf(vmT, source)+" of the VM it clones: what is in its "+fieldNameOf(vmT, target)+" and not there (the modules that the script has imported) is missing in the clone"))
			}
		}
	}
	if n == 0 {
		core.Undecidedf("Clone fills no table of the new VM from a table of the VM it clones")
	}
	c.Stat("cloned_tables", n)
}

// ---------------------------------------------------------------------------
// whatIsNotedAsOwnIsTheCopy: the configuration edits copies of modules and
// remembers which modules are its copies, so that it copies each module once.
// What it enters in that record is the copy it made - not the module it
// copied, which is the host's and may be met again under another name (the
// same module as "os" and as "sys"): taken for its own the second time, it
// would be edited in place, for every configuration that shares it.
func whatIsNotedAsOwnIsTheCopy(c *core.Ctx) {
	p := c.P
	root := p.Pkg("")
	cfgT := core.MustType(root, "Config")
	modT := core.MustType(p.Pkg("object"), "Module")
	oIdx := fieldIdxByName(cfgT, "ownModules")
	if oIdx < 0 {
		core.Undecidedf("risor.Config has no ownModules")
	}
	n := 0
	for _, fn := range repoFns(p, ".") {
		k := 0
		for _, b := range fn.Blocks {
			for _, in := range b.Instrs {
				mu, ok := in.(*ssa.MapUpdate)
				if !ok {
					continue
				}
				if _, ok := loadOfField(mu.Map, cfgT, oIdx); !ok {
					continue
				}
				n++
				k++
				isCopy := true
				for _, o := range core.Origins(mu.Key) {
					call, ok := o.(*ssa.Call)
					if !ok {
						isCopy = false
						continue
					}
					cal := call.Call.StaticCallee()
					if cal == nil || cal.Name() != "Copy" || cal.Signature.Recv() == nil || core.NamedOf(cal.Signature.Recv().Type()) != modT {
						isCopy = false
					}
				}
				c.Check(isCopy, core.SSAName(fn)+"|ownModules|entry-is-the-copy|"+sprintf("%d", k), p.Pos(mu.Pos()),
					fn.Name()+" notes a module as the configuration's own"+ife(isCopy, ": the copy that it has just made", ": not the copy it makes but the module it was handed, which belongs to the host: met again under another name it is taken for the configuration's own and edited in place"))
			}
		}
	}
	if n == 0 {
		core.Undecidedf("no function notes a module as the configuration's own")
	}
	c.Stat("own_module_entries", n)
}

// ---------------------------------------------------------------------------
// theVirtualOSAsksItselfNotThePackage: package os of the repository has
// package-level functions that answer from the real operating system (the
// lookups of os/user, the helpers behind SimpleOS) next to the methods of the
// same names that the virtual OS answers from its own tables.  A method of the
// virtual OS calls none of the former: one missing receiver (LookupUid for
// osObj.LookupUid) and a script under a host-supplied OS is told about a real
// account of the machine.
func theVirtualOSAsksItselfNotThePackage(c *core.Ctx) {
	p := c.P
	osP := p.Pkg("os")
	vosT := core.MustType(osP, "VirtualOS")
	hostPkgs := map[string]bool{"os": true, "os/user": true, "os/exec": true, "syscall": true}
	memo := map[*ssa.Function]string{}
	var reaches func(f *ssa.Function, d int) string
	reaches = func(f *ssa.Function, d int) string {
		if f == nil || f.Blocks == nil || d > 3 {
			return ""
		}
		if w, ok := memo[f]; ok {
			return w
		}
		memo[f] = ""
		for _, b := range f.Blocks {
			for _, in := range b.Instrs {
				ci, ok := in.(ssa.CallInstruction)
				if !ok {
					continue
				}
				cal := ci.Common().StaticCallee()
				if cal == nil || cal.Pkg == nil {
					continue
				}
				if hostPkgs[cal.Pkg.Pkg.Path()] && cal.Signature.Recv() == nil {
					memo[f] = cal.Pkg.Pkg.Path() + "." + cal.Name()
					return memo[f]
				}
				if core.RepoFunc(cal) && cal.Signature.Recv() == nil {
					if w := reaches(cal, d+1); w != "" {
						memo[f] = w
						return w
					}
				}
			}
		}
		return ""
	}
	n := 0
	for _, m := range core.Methods(vosT) {
		fn := p.SSAFunc(m)
		if fn == nil || fn.Blocks == nil {
			continue
		}
		n++
		bad := ""
		bodies := append([]*ssa.Function{fn}, fn.AnonFuncs...)
		for _, f := range bodies {
			for _, b := range f.Blocks {
				for _, in := range b.Instrs {
					ci, ok := in.(ssa.CallInstruction)
					if !ok {
						continue
					}
					cal := ci.Common().StaticCallee()
					if cal == nil || cal.Pkg == nil || cal.Pkg.Pkg != osP.Types || cal.Signature.Recv() != nil {
						continue
					}
					if w := reaches(cal, 0); w != "" {
						bad = cal.Name() + " (which reaches " + w + ") at " + p.Pos(in.Pos())
					}
				}
			}
		}
		c.Check(bad == "", "os.VirtualOS."+m.Name()+"|asks-itself", p.Pos(fn.Pos()),
			"VirtualOS."+m.Name()+ife(bad == "", " calls no package-level function of package os that answers from the real operating system", " calls the package-level function "+bad+": the answer comes from the real operating system and not from the host's OS"))
	}
	if n < 20 {
		core.Undecidedf("only %d methods of VirtualOS found", n)
	}
	c.Stat("virtual_os_methods", n)
}

// ---------------------------------------------------------------------------
// whatHoldsLoadedCodeIsForgottenWithIt: the VM wraps each code object in a
// loaded form that is bound to an array of globals, and keeps the wrappers in
// a table that it drops when it is given new code to run (the next evaluation
// on a reused VM gets fresh globals).  Every other field of the VM that holds
// such a wrapper is dropped in the same place: a cache of "the function called
// last" that survives hands the next evaluation's first call the globals of
// the evaluation before.
func whatHoldsLoadedCodeIsForgottenWithIt(c *core.Ctx) {
	p := c.P
	vp := p.Pkg("vm")
	vmT := vmType(p)
	codeT := core.LookupType(vp, "code")
	if codeT == nil {
		core.Undecidedf("vm.code not found")
	}
	st := vmT.Underlying().(*types.Struct)
	holds := func(t types.Type) bool {
		switch x := t.(type) {
		case *types.Pointer:
			return core.NamedOf(x.Elem()) == codeT
		case *types.Map:
			if pt, ok := x.Elem().(*types.Pointer); ok {
				return core.NamedOf(pt.Elem()) == codeT
			}
		case *types.Slice:
			if pt, ok := x.Elem().(*types.Pointer); ok {
				return core.NamedOf(pt.Elem()) == codeT
			}
		}
		return false
	}
	lcIdx := fieldIdxByName(vmT, "loadedCode")
	if lcIdx < 0 {
		core.Undecidedf("VirtualMachine has no loadedCode")
	}
	// the functions that drop the table: they store a new map into loadedCode of their receiver
	var droppers []*ssa.Function
	for _, fn := range repoFns(p, "vm") {
		if fn.Signature.Recv() == nil || len(fn.Params) == 0 || core.NamedOf(fn.Signature.Recv().Type()) != vmT || fn.Name() == "Clone" {
			continue
		}
		for _, s := range storesToField(fn, vmT, lcIdx) {
			if fa := s.Addr.(*ssa.FieldAddr); fa.X == ssa.Value(fn.Params[0]) {
				if _, isMk := s.Val.(*ssa.MakeMap); isMk {
					droppers = append(droppers, fn)
				}
			}
		}
	}
	if len(droppers) == 0 {
		core.Undecidedf("no method of the VM drops its table of loaded code")
	}
	n := 0
	for _, fn := range droppers {
		for i := 0; i < st.NumFields(); i++ {
			if i == lcIdx || !holds(st.Field(i).Type()) {
				continue
			}
			n++
			reset := len(storesToField(fn, vmT, i)) > 0
			if !reset {
				for _, b := range fn.Blocks {
					for _, in := range b.Instrs {
						if ci, ok := in.(ssa.CallInstruction); ok {
							if cal := ci.Common().StaticCallee(); cal != nil && cal.Blocks != nil && core.RepoFunc(cal) && len(storesToField(cal, vmT, i)) > 0 {
								reset = true
							}
						}
					}
				}
			}
			c.Check(reset, core.SSAName(fn)+"|"+st.Field(i).Name()+"|forgotten-with-the-loaded-code", p.Pos(fn.Pos()),
				fn.Name()+" drops the table of loaded code"+ife(reset, " and sets "+st.Field(i).Name()+", which holds loaded code too", " and leaves "+st.Field(i).Name()+", which holds loaded code too, as it is: the next evaluation on the VM can be handed a wrapper that is bound to the globals of the evaluation before"))
		}
	}
	if n == 0 {
		c.Pass("vm|loadedCode-is-the-only-holder", "", "no other field of the VM holds loaded code")
	}
	c.Stat("loaded_code_holders", n)
}

// ---------------------------------------------------------------------------
// sortedResultsComeOutOfTheStableSort: the sorting builtins hand back a list
// only after a stable sort has ordered it (object.Sort, sort.SliceStable):
// there is no path from the entry to a return of a list that goes round every
// sort.  A short cut for input that "is in order already" (returned as it is,
// or reversed) decides by comparing neighbours, for which equal items look
// descending as well as ascending: reversed, they change places, and sorted()
// is no longer stable.
func sortedResultsComeOutOfTheStableSort(c *core.Ctx) {
	p := c.P
	n := 0
	isStableSort := func(cal *ssa.Function) bool {
		if cal == nil || cal.Pkg == nil {
			return false
		}
		if core.RelPkg(cal.Pkg.Pkg) == "object" && cal.Name() == "Sort" {
			return true
		}
		return cal.Pkg.Pkg.Path() == "sort" && (cal.Name() == "SliceStable" || cal.Name() == "Stable")
	}
	for _, fn := range repoFns(p, "builtins", "object") {
		if fn.Parent() != nil {
			continue
		}
		sortBlocks := map[*ssa.BasicBlock]bool{}
		for _, b := range fn.Blocks {
			for _, in := range b.Instrs {
				if ci, ok := in.(ssa.CallInstruction); ok && isStableSort(ci.Common().StaticCallee()) {
					sortBlocks[b] = true
				}
			}
		}
		if len(sortBlocks) == 0 || (fn.Pkg != nil && core.RelPkg(fn.Pkg.Pkg) == "object" && fn.Name() == "Sort") {
			continue
		}
		// blocks reachable from the entry without passing a sort
		free := map[*ssa.BasicBlock]bool{}
		var walk func(b *ssa.BasicBlock)
		walk = func(b *ssa.BasicBlock) {
			if free[b] || sortBlocks[b] {
				return
			}
			free[b] = true
			for _, s := range b.Succs {
				walk(s)
			}
		}
		walk(fn.Blocks[0])
		k := 0
		for _, b := range fn.Blocks {
			for _, in := range b.Instrs {
				ret, ok := in.(*ssa.Return)
				if !ok || len(ret.Results) != 1 {
					continue
				}
				isList := false
				for _, o := range originsThroughInterfaces(spilledResult(b, ret.Results[0])) {
					if call, ok := o.(*ssa.Call); ok {
						if cal := call.Call.StaticCallee(); cal != nil && cal.Name() == "NewList" {
							isList = true
						}
					}
				}
				if !isList {
					continue
				}
				n++
				k++
				c.Check(!free[b], core.SSAName(fn)+"|list-returned-after-the-stable-sort|"+sprintf("%d", k), p.Pos(ret.Pos()),
					fn.Name()+" returns a list"+ife(!free[b], " only after the stable sort has ordered it", " on a path that goes round the stable sort: what it returns there is ordered by other means, which do not keep equal items in the order they came in"))
			}
		}
	}
	if n == 0 {
		core.Undecidedf("no sorting builtin returns a list")
	}
	c.Stat("sorted_list_returns", n)
}

// ---------------------------------------------------------------------------
// theWalkComparesTheSizesItself: equality of containers is decided by a walk
// (equalsVisit) that calls itself for the containers inside.  The walk tests,
// itself, that the two containers have the same number of items before it
// compares item by item: a test that is made by the public Equals only is made
// for the outermost pair, and a map nested in a list is then "equal" to every
// map that has all its entries - in that direction only.
func theWalkComparesTheSizesItself(c *core.Ctx) {
	p := c.P
	n := 0
	for _, fn := range repoFns(p, "object") {
		if fn.Name() != "equalsVisit" || fn.Signature.Recv() == nil || len(fn.Params) < 2 {
			continue
		}
		rt := core.NamedOf(fn.Signature.Recv().Type())
		if rt == nil {
			continue
		}
		// walks items in a loop
		loops := false
		for _, b := range fn.Blocks {
			if inLoop(b) {
				loops = true
			}
		}
		if !loops {
			continue
		}
		n++
		sized := false
		for _, b := range fn.Blocks {
			for _, in := range b.Instrs {
				bo, ok := in.(*ssa.BinOp)
				if !ok || (bo.Op != token.EQL && bo.Op != token.NEQ) {
					continue
				}
				isLen := func(v ssa.Value) bool {
					call, ok := v.(*ssa.Call)
					if !ok {
						return false
					}
					bi, ok := call.Call.Value.(*ssa.Builtin)
					return ok && bi.Name() == "len"
				}
				if isLen(bo.X) && isLen(bo.Y) {
					sized = true
				}
			}
		}
		c.Check(sized, "object."+rt.Obj().Name()+".equalsVisit|compares-the-sizes", p.Pos(fn.Pos()),
			rt.Obj().Name()+".equalsVisit walks the items of two containers"+ife(sized, " after comparing how many there are", " without comparing how many there are: a container nested in another is equal to every container that holds all its items and more, in one direction only"))
	}
	if n < 2 {
		core.Undecidedf("only %d walking equalsVisit methods found", n)
	}
	c.Stat("equality_walks", n)
}

// ---------------------------------------------------------------------------
// derivedOperandsAreDerivedLast: where the compiler supplies an operand that
// the source leaves out by computing it from another operand at run time (the
// end of x[a:] is the length of x), the instruction that computes it comes
// after every expression of the construct has been evaluated.  Computed first,
// the length is that of the container before the start expression ran, and a
// start expression that changes the container (q[q.pop(0):]) is sliced with a
// stale end.
func derivedOperandsAreDerivedLast(c *core.Ctx) {
	p := c.P
	cp := p.Pkg("compiler")
	ct := core.MustType(cp, "Compiler")
	compile := p.SSAFunc(core.MustMethod(ct, "compile"))
	opP := p.Pkg("op")
	lenOp := opP.Types.Scope().Lookup("Length")
	if lenOp == nil {
		core.Undecidedf("op.Length not found")
	}
	lenVal := lenOp.(*types.Const).Val().ExactString()
	n := 0
	for _, fn := range repoFns(p, "compiler") {
		k := 0
		for _, b := range fn.Blocks {
			for _, in := range b.Instrs {
				ci, ok := in.(ssa.CallInstruction)
				if !ok {
					continue
				}
				cal := ci.Common().StaticCallee()
				if cal == nil || cal.Name() != "emit" || len(ci.Common().Args) < 2 {
					continue
				}
				kc, ok := ci.Common().Args[1].(*ssa.Const)
				if !ok || kc.Value == nil || kc.Value.ExactString() != lenVal || core.NamedOf(kc.Type()) == nil || core.NamedOf(kc.Type()).Obj().Pkg() != opP.Types {
					continue
				}
				n++
				k++
				bad := ""
				for _, b2 := range fn.Blocks {
					for _, in2 := range b2.Instrs {
						if c2, ok := in2.(ssa.CallInstruction); ok && c2.Common().StaticCallee() == compile && in2 != in && instrReaches(in, in2) && !instrReaches(in2, in) {
							bad = p.Pos(in2.Pos())
						}
					}
				}
				c.Check(bad == "", core.SSAName(fn)+"|op.Length|after-every-operand|"+sprintf("%d", k), p.Pos(in.Pos()),
					fn.Name()+" has the length of an operand computed at run time"+ife(bad == "", " after every expression of the construct has been compiled", " and compiles another expression of the construct after it (at "+bad+"): the length is taken before that expression runs, and is stale when the expression changes the container"))
			}
		}
	}
	if n == 0 {
		c.Pass("compiler|no-derived-length", "", "no compile function has a length computed at run time for an operand that the source leaves out")
	}
	c.Stat("derived_lengths", n)
}

// ---------------------------------------------------------------------------
// floatsAreWrittenInTheirOwnWidth: strconv.FormatFloat is told the width of
// the number it formats (32 or 64), and writes the shortest text that gives
// back a number of THAT width.  A float64 formatted with width 32 is rounded to
// float32 precision on the way: 6.283185307179586 is stored as 6.2831855, and
// the code that is loaded again computes with another constant.
func floatsAreWrittenInTheirOwnWidth(c *core.Ctx) {
	p := c.P
	n := 0
	for _, fn := range repoFns(p) {
		k := 0
		for _, b := range fn.Blocks {
			for _, in := range b.Instrs {
				call, ok := in.(*ssa.Call)
				if !ok {
					continue
				}
				cal := call.Call.StaticCallee()
				if cal == nil || cal.Pkg == nil || cal.Pkg.Pkg.Path() != "strconv" || (cal.Name() != "FormatFloat" && cal.Name() != "AppendFloat") {
					continue
				}
				args := call.Call.Args
				if cal.Name() == "AppendFloat" {
					args = args[1:]
				}
				if len(args) != 4 {
					continue
				}
				bits, ok := args[3].(*ssa.Const)
				if !ok {
					continue
				}
				n++
				k++
				// the width of the number before it was converted for the call
				wide := true
				v := args[0]
				for {
					cv, ok := v.(*ssa.Convert)
					if !ok {
						break
					}
					if bt, ok := cv.X.Type().Underlying().(*types.Basic); ok && bt.Kind() == types.Float32 {
						wide = false
					}
					v = cv.X
				}
				okb := !(wide && bits.Int64() == 32)
				c.Check(okb, core.SSAName(fn)+"|strconv."+cal.Name()+"|width-of-the-number|"+sprintf("%d", k), p.Pos(call.Pos()),
					fn.Name()+" formats a float"+ife(okb, " with the width it has", "64 as if it were a float32 (bit size 32): the text gives back the nearest float32, not the number (6.283185307179586 becomes 6.2831855)"))
			}
		}
	}
	if n == 0 {
		c.Pass("repo|no-FormatFloat", "", "no call of strconv.FormatFloat with a constant bit size")
	}
	c.Stat("formatfloat_calls", n)
}

// ---------------------------------------------------------------------------
// blocksPutTheEnclosingTableBack: a compile function that enters a block (it
// makes the code object's current symbol table a new child table) puts the
// enclosing table back in a deferred function, so that it is back also when
// the function returns an error from the middle of the block.  Put back on the
// success path only, a rejected piece leaves the top level inside the dead
// block: globals defined afterwards are invisible to the host, and the
// rollback of later pieces no longer removes their names.
func blocksPutTheEnclosingTableBack(c *core.Ctx) {
	p := c.P
	cp := p.Pkg("compiler")
	codeT := core.MustType(cp, "Code")
	stT := core.MustType(cp, "SymbolTable")
	sIdx := fieldIdxByName(codeT, "symbols")
	pIdx := fieldIdxByName(stT, "parent")
	if sIdx < 0 || pIdx < 0 {
		core.Undecidedf("compiler.Code.symbols / SymbolTable.parent not found")
	}
	isParentLoad := func(v ssa.Value) bool {
		for _, o := range core.Origins(v) {
			if _, ok := loadOfField(o, stT, pIdx); ok {
				return true
			}
		}
		return false
	}
	n := 0
	for _, fn := range repoFns(p, "compiler") {
		if fn.Parent() != nil {
			continue
		}
		enters := false
		for _, st := range storesToField(fn, codeT, sIdx) {
			if !isParentLoad(st.Val) {
				// a new table made from the one the code object has now, put in
				// its place (not the table of a code object that is being made)
				if al, isAlloc := st.Addr.(*ssa.FieldAddr).X.(*ssa.Alloc); isAlloc && al.Heap {
					continue
				}
				if call, isCall := st.Val.(*ssa.Call); isCall && len(call.Call.Args) > 0 {
					if _, ok := loadOfField(call.Call.Args[0], codeT, sIdx); ok {
						enters = true
					}
				}
			}
		}
		if !enters {
			continue
		}
		n++
		deferredLeave, inlineLeave := false, ""
		for _, st := range storesToField(fn, codeT, sIdx) {
			if isParentLoad(st.Val) {
				inlineLeave = p.Pos(st.Pos())
			}
		}
		for _, af := range fn.AnonFuncs {
			isDeferred := false
			for _, b := range fn.Blocks {
				for _, in := range b.Instrs {
					if d, ok := in.(*ssa.Defer); ok {
						if mc, ok := d.Call.Value.(*ssa.MakeClosure); ok && mc.Fn == ssa.Value(af) {
							isDeferred = true
						}
					}
				}
			}
			if !isDeferred {
				continue
			}
			for _, st := range storesToField(af, codeT, sIdx) {
				if isParentLoad(st.Val) {
					deferredLeave = true
				}
			}
		}
		c.Check(deferredLeave, core.SSAName(fn)+"|Code.symbols|enclosing-table-put-back-in-a-deferred-function", p.Pos(fn.Pos()),
			fn.Name()+" enters a block of the symbol table"+ife(deferredLeave, " and puts the enclosing table back in a deferred function", ife(inlineLeave != "", " and puts the enclosing table back at "+inlineLeave+", which an error return from inside the block does not reach", " and never puts the enclosing table back")+": after a rejected piece the code object is left inside the dead block"))
	}
	if n < 3 {
		core.Undecidedf("only %d compile functions enter a block", n)
	}
	c.Stat("block_entering_functions", n)
}

// ---------------------------------------------------------------------------
// whatIsEnteredIsLeft: a walk over containers notes a container when it goes
// into it (enter) and takes the note off when it comes out (leave, deferred
// right after): a second occurrence of the same container next to the first
// is then a container like any other.  A return between the two (a short cut
// for an empty container) leaves the note standing, and the second occurrence
// of one empty list in a value looks like a value that contains itself.
func whatIsEnteredIsLeft(c *core.Ctx) {
	p := c.P
	op := p.Pkg("object")
	visT := core.MustType(op, "visit")
	n := 0
	for _, fn := range repoFns(p, "object") {
		if fn.Parent() != nil {
			continue
		}
		k := 0
		for _, b := range fn.Blocks {
			for _, in := range b.Instrs {
				call, ok := in.(*ssa.Call)
				if !ok {
					continue
				}
				cal := call.Call.StaticCallee()
				if cal == nil || cal.Signature.Recv() == nil || core.NamedOf(cal.Signature.Recv().Type()) != visT || !strings.HasPrefix(cal.Name(), "enter") {
					continue
				}
				n++
				k++
				// the branch taken when the container is being walked already
				var active *ssa.BasicBlock
				if call.Referrers() != nil {
					for _, r := range *call.Referrers() {
						if iff, ok := r.(*ssa.If); ok {
							active = iff.Block().Succs[0]
						}
					}
				}
				var leave ssa.Instruction
				for _, b2 := range fn.Blocks {
					for _, in2 := range b2.Instrs {
						if d, ok := in2.(*ssa.Defer); ok {
							if c2 := d.Call.StaticCallee(); c2 != nil && c2.Signature.Recv() != nil && core.NamedOf(c2.Signature.Recv().Type()) == visT && strings.HasPrefix(c2.Name(), "leave") {
								leave = in2
							}
						}
					}
				}
				bad := ""
				if leave == nil {
					bad = "there is no deferred leave"
				} else {
					for _, b2 := range fn.Blocks {
						if active != nil && (b2 == active || active.Dominates(b2)) {
							continue
						}
						for _, in2 := range b2.Instrs {
							if ret, ok := in2.(*ssa.Return); ok && instrReaches(in, ret) && !instrDominates(leave, ret) {
								bad = "the return at " + p.Pos(ret.Pos()) + " comes before the deferred leave"
							}
						}
					}
				}
				c.Check(bad == "", core.SSAName(fn)+"|"+cal.Name()+"|left-on-every-path|"+sprintf("%d", k), p.Pos(call.Pos()),
					fn.Name()+" notes the container it goes into"+ife(bad == "", " and defers taking the note off before anything else can return", "; "+bad+": the note stays, and the next occurrence of the same container in the value is taken for a cycle"))
			}
		}
	}
	if n < 4 {
		core.Undecidedf("only %d walks note the container they go into", n)
	}
	c.Stat("entered_containers", n)
}

// ---------------------------------------------------------------------------
// aStepOverLineBreaksStandsWhereTheLineBreakIs: the helper that skips line
// breaks looks at the CURRENT token.  In a branch that was entered because
// the NEXT token is of some kind (in, a comma), the current token is that
// token after one advance, and the line break that may follow it is the
// current token only after a second one: a call of the helper after the
// first advance does nothing, and a line broken there is a parse error.
func aStepOverLineBreaksStandsWhereTheLineBreakIs(c *core.Ctx) {
	p := c.P
	pp := p.Pkg("parser")
	// the helpers that are a loop over NEWLINE tokens, by the token they look at
	curStyle := map[string]bool{}
	tokTest := func(e ast.Expr) (string, string) { // (peekTokenIs|curTokenIs, kind)
		var name, kind string
		ast.Inspect(e, func(n ast.Node) bool {
			ce, ok := n.(*ast.CallExpr)
			if !ok || len(ce.Args) == 0 {
				return true
			}
			if sel, ok := ce.Fun.(*ast.SelectorExpr); ok && (sel.Sel.Name == "peekTokenIs" || sel.Sel.Name == "curTokenIs") {
				if name == "" || sel.Sel.Name == "peekTokenIs" {
					name, kind = sel.Sel.Name, exprStr(ce.Args[len(ce.Args)-1])
				}
			}
			return true
		})
		return name, kind
	}
	funcBodies(pp, func(fn *types.Func, fd *ast.FuncDecl) {
		if len(fd.Body.List) == 1 {
			if fs, ok := fd.Body.List[0].(*ast.ForStmt); ok && fs.Cond != nil {
				if name, kind := tokTest(fs.Cond); name == "curTokenIs" && kind == "token.NEWLINE" {
					curStyle[fd.Name.Name] = true
				}
			}
		}
	})
	if len(curStyle) == 0 {
		core.Undecidedf("no helper of the parser skips line breaks by looking at the current token")
	}
	callName := func(s ast.Stmt) string {
		var e ast.Expr
		switch x := s.(type) {
		case *ast.ExprStmt:
			e = x.X
		case *ast.IfStmt:
			if as, ok := x.Init.(*ast.AssignStmt); ok && len(as.Rhs) == 1 {
				e = as.Rhs[0]
			}
		}
		if ce, ok := e.(*ast.CallExpr); ok {
			if sel, ok := ce.Fun.(*ast.SelectorExpr); ok {
				return sel.Sel.Name
			}
		}
		return ""
	}
	n := 0
	funcBodies(pp, func(fn *types.Func, fd *ast.FuncDecl) {
		k := 0
		ast.Inspect(fd.Body, func(nd ast.Node) bool {
			var cond ast.Expr
			var body *ast.BlockStmt
			switch x := nd.(type) {
			case *ast.IfStmt:
				cond, body = x.Cond, x.Body
			case *ast.ForStmt:
				cond, body = x.Cond, x.Body
			}
			if cond == nil || body == nil {
				return true
			}
			name, kind := tokTest(cond)
			if name == "" || kind == "token.NEWLINE" {
				return true
			}
			advanced := 0
			for _, s := range body.List {
				cn := callName(s)
				if cn == "nextToken" {
					advanced++
					continue
				}
				if curStyle[cn] {
					n++
					k++
					// where the token of the tested kind is: current (0) or next (1); after `advanced` advances
					at := 0
					if name == "peekTokenIs" {
						at = 1
					}
					okb := advanced > at
					c.Check(okb, qual(pp, fd)+"|"+cn+"|after-the-token-was-passed|"+sprintf("%d", k), p.Pos(s.Pos()),
						fd.Name.Name+" skips line breaks with "+cn+" in a branch entered on "+name+"("+kind+")"+ife(okb, " after it has moved past that token", ", while that token is still the current one: the helper looks at the current token and does nothing, and a line broken after the token is a parse error"))
					break
				}
				// a statement that calls nothing of the parser (it builds a node
				// from the current token) leaves the position where it is
				movesOrUnknown := false
				ast.Inspect(s, func(x ast.Node) bool {
					if ce, ok := x.(*ast.CallExpr); ok {
						if sel, ok := ce.Fun.(*ast.SelectorExpr); ok {
							if id, ok := sel.X.(*ast.Ident); ok && fd.Recv != nil && len(fd.Recv.List) == 1 && len(fd.Recv.List[0].Names) == 1 && id.Name == fd.Recv.List[0].Names[0].Name {
								if sel.Sel.Name != "curTokenIs" && sel.Sel.Name != "peekTokenIs" {
									movesOrUnknown = true
								}
							}
						}
					}
					return true
				})
				if movesOrUnknown {
					// something else than an advance comes first: the position is no longer known here
					break
				}
			}
			return true
		})
	})
	if n == 0 {
		core.Undecidedf("no branch of the parser skips line breaks after a tested token")
	}
	c.Stat("line_break_steps_after_a_tested_token", n)
}

// ---------------------------------------------------------------------------
// errorsAboutANodeAreReportedAtTheNode: a compile function that is handed a
// node reports what is wrong with that node at the node's own position.  The
// compiler's running position (where it is, for the errors of functions that
// have no node: a table that is full) has moved on to the last thing compiled
// inside the node by the time an error about the node itself is raised - for
// `v := '..{n + n}'` to a place inside the template, counted from the start
// of the fragment.  An error about a node is neither given that position nor
// handed to a helper that uses it.
func errorsAboutANodeAreReportedAtTheNode(c *core.Ctx) {
	p := c.P
	cp := p.Pkg("compiler")
	ct := core.MustType(cp, "Compiler")
	pIdx := fieldIdxByName(ct, "position")
	if pIdx < 0 {
		core.Undecidedf("compiler.Compiler has no position")
	}
	var formatter *ssa.Function
	for _, fn := range repoFns(p, "compiler") {
		if fn.Name() == "formatError" {
			formatter = fn
		}
	}
	if formatter == nil {
		core.Undecidedf("compiler.formatError not found")
	}
	isRunning := func(v ssa.Value) bool {
		for _, o := range core.Origins(v) {
			if _, ok := loadOfField(o, ct, pIdx); ok {
				return true
			}
		}
		return false
	}
	// helpers that take an error and report it at the running position
	usesRunning := map[*ssa.Function]bool{}
	for _, fn := range repoFns(p, "compiler") {
		takesErr := false
		for _, prm := range fn.Params {
			if isErrorType(prm.Type()) {
				takesErr = true
			}
		}
		if !takesErr {
			continue
		}
		for _, b := range fn.Blocks {
			for _, in := range b.Instrs {
				if call, ok := in.(*ssa.Call); ok && call.Call.StaticCallee() == formatter && len(call.Call.Args) >= 3 && isRunning(call.Call.Args[2]) {
					usesRunning[fn] = true
				}
			}
		}
	}
	n := 0
	for _, fn := range repoFns(p, "compiler") {
		hasNode := false
		for _, prm := range fn.Params {
			if nt := core.NamedOf(prm.Type()); nt != nil && nt.Obj().Pkg() != nil && core.RelPkg(nt.Obj().Pkg()) == "ast" {
				hasNode = true
			}
		}
		if !hasNode {
			continue
		}
		k := 0
		for _, b := range fn.Blocks {
			for _, in := range b.Instrs {
				call, ok := in.(*ssa.Call)
				if !ok {
					continue
				}
				cal := call.Call.StaticCallee()
				if cal == nil || cal.Pkg == nil || cal.Pkg.Pkg != cp.Types {
					continue
				}
				bad := ""
				if usesRunning[cal] {
					bad = "hands the error to " + cal.Name() + ", which reports it at the compiler's running position"
				}
				// a position parameter fed with the running position
				for i, prm := range cal.Params {
					if core.IsNamed(prm.Type(), pkgPath("token"), "Position") && i < len(call.Call.Args) {
						n++
						k++
						if isRunning(call.Call.Args[i]) {
							bad = "gives " + cal.Name() + " the compiler's running position"
						}
						c.Check(bad == "", core.SSAName(fn)+"|"+cal.Name()+"|reported-at-the-node|"+sprintf("%d", k), p.Pos(call.Pos()),
							fn.Name()+" reports an error about its node"+ife(bad == "", " at a position it takes from the node", ": it "+bad+", which by then is the position of the last thing compiled inside the node"))
						bad = ""
					}
				}
				if bad != "" {
					n++
					k++
					c.Check(false, core.SSAName(fn)+"|"+cal.Name()+"|reported-at-the-node|"+sprintf("%d", k), p.Pos(call.Pos()),
						fn.Name()+" reports an error about its node: it "+bad+", which by then is the position of the last thing compiled inside the node")
				}
			}
		}
	}
	if n < 20 {
		core.Undecidedf("only %d positioned error reports found in the compile functions", n)
	}
	c.Stat("positioned_reports", n)
}

// parseFnReturnsNil: the parse method has a path on which it returns nil.
func parseFnReturnsNil(f *ssa.Function) bool {
	if f == nil || f.Blocks == nil {
		return false
	}
	for _, b := range f.Blocks {
		for _, in := range b.Instrs {
			ret, ok := in.(*ssa.Return)
			if !ok || len(ret.Results) != 1 {
				continue
			}
			for _, o := range core.Origins(spilledResult(b, ret.Results[0])) {
				if k, ok := o.(*ssa.Const); ok && k.IsNil() {
					return true
				}
			}
		}
	}
	return false
}

// ---------------------------------------------------------------------------
// parseResultsAreNotUsedBeforeTheyAreTested: what a parse function returned is
// nil when the input was wrong there.  The parser calls no method on such a
// result (key.String() for a better message) before it has tested it for nil:
// the arguments of an error message are evaluated before the message is, and
// the nil dereference leaves parser.Parse as a Go panic.
func parseResultsAreNotUsedBeforeTheyAreTested(c *core.Ctx) {
	p := c.P
	pp := p.Pkg("parser")
	parserT := core.MustType(pp, "Parser")
	n := 0
	for _, fn := range repoFns(p, "parser") {
		k := 0
		for _, b := range fn.Blocks {
			for _, in := range b.Instrs {
				ci, ok := in.(ssa.CallInstruction)
				if !ok || !ci.Common().IsInvoke() {
					continue
				}
				recv := ci.Common().Value
				// where the receiver comes from: a parse method that can return nil
				var src *ssa.Call
				for _, o := range core.Origins(recv) {
					if ta, ok := o.(*ssa.TypeAssert); ok {
						for _, o2 := range core.Origins(ta.X) {
							o = o2
						}
					}
					if ex, ok := o.(*ssa.Extract); ok {
						o = ex.Tuple
						if ta, ok := o.(*ssa.TypeAssert); ok {
							for _, o2 := range core.Origins(ta.X) {
								o = o2
							}
						}
					}
					call, ok := o.(*ssa.Call)
					if !ok {
						continue
					}
					cal := call.Call.StaticCallee()
					if cal != nil && cal.Signature.Recv() != nil && core.NamedOf(cal.Signature.Recv().Type()) == parserT && parseFnReturnsNil(cal) {
						src = call
					}
				}
				if src == nil {
					continue
				}
				n++
				k++
				// a nil test of the value (or of something made from it) dominates the call
				tested := false
				for _, b2 := range fn.Blocks {
					if len(b2.Instrs) == 0 || b2 == b || !b2.Dominates(b) {
						continue
					}
					iff, ok := b2.Instrs[len(b2.Instrs)-1].(*ssa.If)
					if !ok {
						continue
					}
					switch cond := iff.Cond.(type) {
					case *ssa.BinOp:
						for _, side := range []ssa.Value{cond.X, cond.Y} {
							if side == recv || core.DependsOn(side, func(w ssa.Value) bool { return w == ssa.Value(src) }) {
								tested = true
							}
						}
					case *ssa.Extract:
						// the ok of a two-valued assertion of the value
						if ta, ok := cond.Tuple.(*ssa.TypeAssert); ok && core.DependsOn(ta.X, func(w ssa.Value) bool { return w == ssa.Value(src) }) {
							tested = true
						}
					}
				}
				c.Check(tested, core.SSAName(fn)+"|"+src.Call.StaticCallee().Name()+"."+ci.Common().Method.Name()+"|tested-before-use|"+sprintf("%d", k), p.Pos(in.Pos()),
					fn.Name()+" calls "+ci.Common().Method.Name()+"() on what "+src.Call.StaticCallee().Name()+" returned"+ife(tested, " after testing it", " without testing it for nil: "+src.Call.StaticCallee().Name()+" returns nil where the input is wrong, and the call is a nil dereference that leaves parser.Parse as a panic"))
			}
		}
	}
	if n == 0 {
		c.Pass("parser|no-method-call-on-a-parse-result", "", "the parser calls no method on the result of a parse function that can return nil")
	}
	c.Stat("methods_called_on_parse_results", n)
}

// ---------------------------------------------------------------------------
// whatErrorsAsFoundIsUsedOnlyWhenItFoundIt: errors.As fills its target only
// when it returns true.  A method is called on the target only where that
// answer was tested: the message-formatting methods of the errors that the API
// returns run in the host, outside every recover, and a nil interface there is
// a panic in the caller of Eval.
func whatErrorsAsFoundIsUsedOnlyWhenItFoundIt(c *core.Ctx) {
	p := c.P
	n := 0
	for _, fn := range repoFns(p) {
		k := 0
		for _, b := range fn.Blocks {
			for _, in := range b.Instrs {
				call, ok := in.(*ssa.Call)
				if !ok {
					continue
				}
				cal := call.Call.StaticCallee()
				if cal == nil || cal.Pkg == nil || cal.Pkg.Pkg.Path() != "errors" || cal.Name() != "As" || len(call.Call.Args) != 2 {
					continue
				}
				// the target variable
				var target *ssa.Alloc
				for _, o := range core.Origins(call.Call.Args[1]) {
					if mi, ok := o.(*ssa.MakeInterface); ok {
						o = mi.X
					}
					if al, ok := o.(*ssa.Alloc); ok {
						target = al
					}
				}
				if target == nil || target.Referrers() == nil {
					continue
				}
				if _, isIface := target.Type().(*types.Pointer).Elem().Underlying().(*types.Interface); !isIface {
					if _, isPtr := target.Type().(*types.Pointer).Elem().Underlying().(*types.Pointer); !isPtr {
						continue
					}
				}
				n++
				k++
				// the block entered when As said yes
				var yes *ssa.BasicBlock
				if call.Referrers() != nil {
					for _, r := range *call.Referrers() {
						if iff, ok := r.(*ssa.If); ok {
							yes = iff.Block().Succs[0]
						}
						if un, ok := r.(*ssa.UnOp); ok && un.Op == token.NOT && un.Referrers() != nil {
							for _, r2 := range *un.Referrers() {
								if iff, ok := r2.(*ssa.If); ok {
									yes = iff.Block().Succs[1]
								}
							}
						}
					}
				}
				bad := ""
				for _, r := range *target.Referrers() {
					ld, ok := r.(*ssa.UnOp)
					if !ok || ld.Op != token.MUL || ld.Referrers() == nil || !instrReaches(call, ld) {
						continue
					}
					for _, r2 := range *ld.Referrers() {
						use, ok := r2.(ssa.CallInstruction)
						if !ok {
							continue
						}
						isRecv := use.Common().IsInvoke() && use.Common().Value == ssa.Value(ld)
						if !isRecv {
							if fa, ok := r2.(*ssa.FieldAddr); ok {
								_ = fa
							}
							continue
						}
						ub := use.Block()
						if yes == nil || !(ub == yes || yes.Dominates(ub)) {
							bad = p.Pos(use.Pos())
						}
					}
				}
				c.Check(bad == "", core.SSAName(fn)+"|errors.As|target-used-only-when-found|"+sprintf("%d", k), p.Pos(call.Pos()),
					fn.Name()+" asks errors.As for an error of some kind"+ife(bad == "", " and calls its methods only where As said it found one", " and calls a method on the target at "+bad+" whether As found one or not: when it did not, the target is nil and the call panics in whoever formats the error"))
			}
		}
	}
	if n == 0 {
		c.Pass("repo|no-errors.As-into-an-interface", "", "no call of errors.As with an interface or pointer target")
	}
	c.Stat("errors_as_calls", n)
}

// ---------------------------------------------------------------------------
// convertersDoNotFormatTheValue: a converter takes the Go value as it is (by a
// type assertion or through reflect) and makes the script value of it.  It
// does not print the value with fmt to get at its content: fmt honours
// String() and Error() methods, and a named string type that has one arrives
// as that text instead of its value - and is written back as that text.
func convertersDoNotFormatTheValue(c *core.Ctx) {
	p := c.P
	_, from := converterMethods(p)
	n := 0
	for _, fn := range from {
		if len(fn.Params) < 2 {
			continue
		}
		prm := ssa.Value(fn.Params[1])
		n++
		bad := ""
		for _, b := range fn.Blocks {
			for _, in := range b.Instrs {
				call, ok := in.(*ssa.Call)
				if !ok {
					continue
				}
				cal := call.Call.StaticCallee()
				if cal == nil || cal.Pkg == nil || cal.Pkg.Pkg.Path() != "fmt" || !strings.HasPrefix(cal.Name(), "Sprint") {
					continue
				}
				// the value is among what is printed, and the print is what the result is made of
				printsValue := false
				for _, a := range call.Call.Args {
					for _, v := range variadicVals(a) {
						if core.DependsOn(v, func(w ssa.Value) bool { return w == prm }) {
							printsValue = true
						}
					}
				}
				if !printsValue {
					continue
				}
				for _, b2 := range fn.Blocks {
					for _, in2 := range b2.Instrs {
						ret, ok := in2.(*ssa.Return)
						if !ok || len(ret.Results) == 0 {
							continue
						}
						// (an error message may name the value)
						if len(ret.Results) == 2 {
							if k, isK := spilledResult(b2, ret.Results[1]).(*ssa.Const); !isK || !k.IsNil() {
								continue
							}
						}
						if core.DependsOn(spilledResult(b2, ret.Results[0]), func(w ssa.Value) bool { return w == ssa.Value(call) }) {
							bad = p.Pos(call.Pos())
						}
					}
				}
			}
		}
		c.Check(bad == "", core.SSAName(fn)+"|value-not-formatted", p.Pos(fn.Pos()),
			core.SSAName(fn)+ife(bad == "", " makes the script value of the Go value itself", " makes the script value of what fmt prints for the Go value (at "+bad+"): a type with a String() or Error() method arrives as that text, not as its value"))
	}
	if n < 10 {
		core.Undecidedf("only %d From methods of converters found", n)
	}
	c.Stat("from_methods", n)
}

// ---------------------------------------------------------------------------
// theVirtualOSKeepsNoMapOfTheHost: an option of the virtual OS that takes a map
// or a slice copies what is in it.  A host builds one OS per evaluation from
// one base map; an option that keeps the map itself makes all those OS objects
// share it, each behind its own lock: setenv in one evaluation and getenv in
// another are a data race on one Go map, and what one sets the others see.
func theVirtualOSKeepsNoMapOfTheHost(c *core.Ctx) {
	p := c.P
	osP := p.Pkg("os")
	vosT := core.MustType(osP, "VirtualOS")
	n := 0
	for _, fn := range repoFns(p, "os") {
		if fn.Parent() == nil || fn.Signature.Params().Len() != 1 {
			continue
		}
		if pt, ok := fn.Signature.Params().At(0).Type().(*types.Pointer); !ok || core.NamedOf(pt.Elem()) != vosT {
			continue
		}
		k := 0
		for _, b := range fn.Blocks {
			for _, in := range b.Instrs {
				st, ok := in.(*ssa.Store)
				if !ok {
					continue
				}
				fa, ok := st.Addr.(*ssa.FieldAddr)
				if !ok || core.NamedOf(fa.X.Type()) != vosT {
					continue
				}
				// (a slice that is only read is covered by C09-R20, which asks
				// for a copy where the repository writes into it)
				if _, isMap := st.Val.Type().Underlying().(*types.Map); !isMap {
					continue
				}
				n++
				k++
				alias := false
				for _, o := range core.Origins(st.Val) {
					if _, ok := o.(*ssa.FreeVar); ok {
						alias = true
					}
					if u, ok := o.(*ssa.UnOp); ok && u.Op == token.MUL {
						if _, ok := u.X.(*ssa.FreeVar); ok {
							alias = true
						}
					}
				}
				c.Check(!alias, core.SSAName(fn.Parent())+"|VirtualOS."+fieldNameOf(vosT, fa.Field)+"|own-storage|"+sprintf("%d", k), p.Pos(st.Pos()),
					"the option that "+fn.Parent().Name()+" makes gives the OS a "+fieldNameOf(vosT, fa.Field)+ife(!alias, " of its own", " that is the map (or slice) the host passed in: every OS built from the same one shares it, each behind its own lock, and what a script sets in one evaluation shows in the others and in the host's map"))
			}
		}
	}
	if n == 0 {
		c.Pass("os|options-store-no-container", "", "no option of the virtual OS stores a map or a slice")
	}
	c.Stat("os_option_container_stores", n)
}

// ---------------------------------------------------------------------------
// aCloneHasTheConfigurationOfItsOriginal: what the options of the VM set (the
// importer, the OS, whether goroutines are allowed, the globals the host gave)
// is the configuration of the evaluation, and a clone - the VM a thread runs
// on - is made with the same configuration.  A field that Clone leaves at its
// zero value changes what the thread may do: without concAllowed a thread
// cannot start a thread, and a dispatcher that spawns its workers fails.
var notCarriedIntoAClone = map[string]string{
	"ip":           "a clone starts at the beginning of what it is asked to call, not where its original stands",
	"globalsGiven": "bookkeeping of one round of options (whether WithGlobals was seen), not configuration",
}

func aCloneHasTheConfigurationOfItsOriginal(c *core.Ctx) {
	p := c.P
	vmT := vmType(p)
	// the fields that options set
	set := map[int]bool{}
	for _, fn := range repoFns(p, "vm") {
		if fn.Parent() == nil || fn.Signature.Params().Len() != 1 || fn.Signature.Recv() != nil {
			continue
		}
		if pt, ok := fn.Signature.Params().At(0).Type().(*types.Pointer); !ok || core.NamedOf(pt.Elem()) != vmT {
			continue
		}
		for _, b := range fn.Blocks {
			for _, in := range b.Instrs {
				if st, ok := in.(*ssa.Store); ok {
					if fa, ok := st.Addr.(*ssa.FieldAddr); ok && core.NamedOf(fa.X.Type()) == vmT {
						set[fa.Field] = true
					}
				}
			}
		}
	}
	if len(set) < 3 {
		core.Undecidedf("only %d fields of the VM are set by options", len(set))
	}
	var clone *ssa.Function
	for _, fn := range repoFns(p, "vm") {
		if fn.Name() == "Clone" && fn.Signature.Recv() != nil && core.NamedOf(fn.Signature.Recv().Type()) == vmT && fn.Parent() == nil {
			clone = fn
		}
	}
	if clone == nil {
		core.Undecidedf("VirtualMachine.Clone not found")
	}
	bodies := []*ssa.Function{clone}
	for _, b := range clone.Blocks {
		for _, in := range b.Instrs {
			if ci, ok := in.(ssa.CallInstruction); ok {
				if cal := ci.Common().StaticCallee(); cal != nil && cal.Blocks != nil && cal.Signature.Recv() != nil && core.NamedOf(cal.Signature.Recv().Type()) == vmT {
					bodies = append(bodies, cal)
				}
			}
		}
	}
	written := map[int]bool{}
	for _, f := range bodies {
		recv := ssa.Value(f.Params[0])
		for _, b := range f.Blocks {
			for _, in := range b.Instrs {
				if st, ok := in.(*ssa.Store); ok {
					if fa, ok := st.Addr.(*ssa.FieldAddr); ok && core.NamedOf(fa.X.Type()) == vmT && (f != clone || fa.X != recv) {
						written[fa.Field] = true
					}
				}
			}
		}
	}
	var idxs []int
	for i := range set {
		idxs = append(idxs, i)
	}
	sort.Ints(idxs)
	n := 0
	for _, i := range idxs {
		name := fieldNameOf(vmT, i)
		n++
		why, listed := notCarriedIntoAClone[name]
		c.Check(written[i] || listed, "vm.VirtualMachine.Clone|"+name+"|carried-into-the-clone", p.Pos(clone.Pos()),
			"options set "+name+ife(written[i], ", and Clone gives the new VM a value for it", ife(listed, ", and Clone leaves it alone: "+why, ", and Clone leaves it at its zero value in the new VM: a thread runs with another configuration than the evaluation that started it")))
	}
	c.Stat("configuration_fields", n)
}

// ---------------------------------------------------------------------------
// removalsAreAppliedAlsoWhenAnOverrideFails: a configuration is initialised
// once; what it removes is removed on every path through that initialisation.
// A return with the error of a refused override before the removals have been
// applied leaves every denied name in place for good (initialised is set
// already), and a host that drives the compiler and the VM from the Config
// itself never sees the error.
func removalsAreAppliedAlsoWhenAnOverrideFails(c *core.Ctx) {
	p := c.P
	root := p.Pkg("")
	cfgT := core.MustType(root, "Config")
	initM := core.Method(cfgT, "init")
	denyM := core.Method(cfgT, "applyDenylist")
	if initM == nil || denyM == nil {
		core.Undecidedf("Config.init / Config.applyDenylist not found")
	}
	fn, deny := p.SSAFunc(initM), p.SSAFunc(denyM)
	iIdx := fieldIdxByName(cfgT, "initialized")
	var marks []*ssa.Store
	if iIdx >= 0 {
		marks = storesToField(fn, cfgT, iIdx)
	}
	var call ssa.Instruction
	for _, b := range fn.Blocks {
		for _, in := range b.Instrs {
			if ci, ok := in.(ssa.CallInstruction); ok && ci.Common().StaticCallee() == deny {
				call = in
			}
		}
	}
	if call == nil {
		c.Check(false, "risor.Config.init|applyDenylist|on-every-path", p.Pos(fn.Pos()), "Config.init does not apply the removals")
		return
	}
	bad := ""
	for _, b := range fn.Blocks {
		for _, in := range b.Instrs {
			ret, ok := in.(*ssa.Return)
			if !ok {
				continue
			}
			after := len(marks) == 0
			for _, m := range marks {
				if instrReaches(m, ret) {
					after = true
				}
			}
			if after && !instrDominates(call, ret) {
				bad = p.Pos(ret.Pos())
			}
		}
	}
	c.Check(bad == "", "risor.Config.init|applyDenylist|on-every-path", p.Pos(call.Pos()),
		"Config.init applies the removals"+ife(bad == "", " on every path on which it initialises the configuration", "; the return at "+bad+" comes before them: after a refused override the configuration counts as initialised and every name it was to remove is still there"))
}

// ---------------------------------------------------------------------------
// theMountLookupIsGivenThePathAsItCame: an operation of the virtual OS hands
// the mount lookup the path string it was given, and the lookup makes it
// absolute and cleans it.  A path that was edited on the way (trailing
// separators trimmed: "/" becomes "") means something else to the lookup (an
// empty path is relative, and is served from the working directory): the root
// is then served by whatever mount the working directory is in.
func theMountLookupIsGivenThePathAsItCame(c *core.Ctx) {
	p := c.P
	osP := p.Pkg("os")
	vosT := core.MustType(osP, "VirtualOS")
	n := 0
	for _, m := range core.Methods(vosT) {
		fn := p.SSAFunc(m)
		if fn == nil || fn.Blocks == nil || m.Name() == "findMount" {
			continue
		}
		k := 0
		for _, b := range fn.Blocks {
			for _, in := range b.Instrs {
				call, ok := in.(*ssa.Call)
				if !ok {
					continue
				}
				cal := call.Call.StaticCallee()
				if cal == nil || cal.Name() != "findMount" || len(call.Call.Args) < 2 {
					continue
				}
				n++
				k++
				asItCame := true
				what := ""
				for _, o := range core.Origins(call.Call.Args[1]) {
					if _, isParam := o.(*ssa.Parameter); isParam {
						continue
					}
					// (a path that the method puts together itself with filepath.Join,
					// the temporary directory of MkdirTemp, is not an edited path)
					if oc, ok := o.(*ssa.Call); ok {
						if c2 := oc.Call.StaticCallee(); c2 != nil && c2.Pkg != nil && c2.Pkg.Pkg.Path() == "path/filepath" && (c2.Name() == "Join" || c2.Name() == "Clean") {
							continue
						}
					}
					asItCame = false
					what = o.String()
				}
				c.Check(asItCame, "os.VirtualOS."+m.Name()+"|findMount|path-as-it-came|"+sprintf("%d", k), p.Pos(call.Pos()),
					"VirtualOS."+m.Name()+" looks up the mount for"+ife(asItCame, " the path it was given", " a path it has edited first ("+what+"): the lookup cleans paths itself, and an edited path can mean another place to it (\"/\" trimmed to \"\" is the working directory)"))
			}
		}
	}
	if n < 10 {
		core.Undecidedf("only %d mount lookups found in the methods of VirtualOS", n)
	}
	c.Stat("mount_lookups_in_methods", n)
}

// ---------------------------------------------------------------------------
// whereTheVMKeepsScriptValuesIsEnumerated: the VM holds script values in its
// operand stack, the frames, the scratch array for arguments, the globals and
// the table of modules - and nowhere else.  A new field that keeps objects
// between instructions (a memo of what a from-imported name resolved to) is a
// second copy of state that the script can change in the first place: the next
// from-import of the name is handed the value of the first one, and importers
// of one module no longer see the same module.
var vmFieldsThatHoldScriptValues = map[string]string{
	"modules": "the modules that have been imported, by name (what every importer of a name gets)",
	"globals": "the host's globals as objects (the array of each loaded code is filled from it)",
	"tmp":     "scratch space for the arguments of the call that is being set up",
	"stack":   "the operand stack",
	"frames":  "the frames of the calls in progress (locals, defers)",
}

func whereTheVMKeepsScriptValuesIsEnumerated(c *core.Ctx) {
	p := c.P
	vmT := vmType(p)
	op := p.Pkg("object")
	objI := core.MustType(op, "Object").Underlying().(*types.Interface)
	frameT := core.LookupType(p.Pkg("vm"), "frame")
	var holds func(t types.Type, d int) bool
	holds = func(t types.Type, d int) bool {
		if d > 4 {
			return false
		}
		if nt := core.NamedOf(t); nt != nil {
			if nt == frameT {
				return true
			}
			if nt.Obj().Pkg() == op.Types {
				if types.Implements(t, objI) || types.Implements(types.NewPointer(nt), objI) || nt.Obj().Name() == "Object" {
					return true
				}
			}
		}
		switch x := t.Underlying().(type) {
		case *types.Pointer:
			if core.NamedOf(x.Elem()) != nil && core.NamedOf(x.Elem()).Obj().Pkg() != op.Types && core.NamedOf(x.Elem()) != frameT {
				return false
			}
			return holds(x.Elem(), d+1)
		case *types.Map:
			return holds(x.Elem(), d+1) || holds(x.Key(), d+1)
		case *types.Slice:
			return holds(x.Elem(), d+1)
		case *types.Array:
			return holds(x.Elem(), d+1)
		}
		return false
	}
	st := vmT.Underlying().(*types.Struct)
	n := 0
	for i := 0; i < st.NumFields(); i++ {
		f := st.Field(i)
		if !holds(f.Type(), 0) {
			continue
		}
		// (the frame the VM is in is a pointer into the frames)
		if f.Name() == "activeFrame" {
			continue
		}
		n++
		why, listed := vmFieldsThatHoldScriptValues[f.Name()]
		c.Check(listed, "vm.VirtualMachine."+f.Name()+"|enumerated-holder-of-script-values", p.Pos(f.Pos()),
			"VirtualMachine."+f.Name()+" holds script values"+ife(listed, ": "+why, " and is not one of the places where the VM is known to keep them: what it remembers there is a second copy of state that the script can change where it really lives, and goes stale"))
	}
	if n < 4 {
		core.Undecidedf("only %d fields of the VM hold script values", n)
	}
	c.Stat("vm_value_holders", n)
}

// ---------------------------------------------------------------------------
// containersSayThemselvesWhetherTheyAreEmpty: a container is truthy exactly
// when its length is not zero.  The answer that the shared base of the object
// types gives for everything (true) is wrong for an empty container, so every
// type that has a length answers IsTruthy itself.  A clean-up that removes a
// method "which only repeats the embedded base" removes the one method that
// did not.
func containersSayThemselvesWhetherTheyAreEmpty(c *core.Ctx) {
	p := c.P
	op := p.Pkg("object")
	objI := core.MustType(op, "Object").Underlying().(*types.Interface)
	sc := op.Types.Scope()
	n := 0
	for _, name := range sc.Names() {
		tn, ok := sc.Lookup(name).(*types.TypeName)
		if !ok {
			continue
		}
		nt, ok := tn.Type().(*types.Named)
		if !ok {
			continue
		}
		if _, isStruct := nt.Underlying().(*types.Struct); !isStruct || !types.Implements(types.NewPointer(nt), objI) {
			continue
		}
		ms := types.NewMethodSet(types.NewPointer(nt))
		lenSel := ms.Lookup(op.Types, "Len")
		if lenSel == nil {
			continue
		}
		// the length of a container, as the script's len() asks for it: Len() *Int
		// (a Go-side helper `Len() int`, say of a channel's buffer, is not that)
		if sig, ok := lenSel.Type().(*types.Signature); !ok || sig.Results().Len() != 1 || !core.IsNamed(sig.Results().At(0).Type(), pkgPath("object"), "Int") {
			continue
		}
		n++
		sel := ms.Lookup(op.Types, "IsTruthy")
		own := sel != nil && len(sel.Index()) == 1
		c.Check(own, "object."+name+"|IsTruthy|its-own", p.Pos(tn.Pos()),
			name+" has a length"+ife(own, " and answers IsTruthy itself", " and leaves IsTruthy to the type it embeds, which says true for everything: an empty "+name+" is truthy"))
	}
	if n < 5 {
		core.Undecidedf("only %d object types with a length found", n)
	}
	c.Stat("types_with_a_length", n)
}

// ---------------------------------------------------------------------------
// membershipDoesNotRoundTheProbe: x in c holds when c has an item that == x.
// A Contains method that turns a float probe into an integer to look it up
// tests first that the float is a whole number (by converting back and
// comparing, or with math.Trunc/Floor): otherwise 97.5 is found in a byte
// slice that holds 97, which iterating and comparing does not find.
func membershipDoesNotRoundTheProbe(c *core.Ctx) {
	p := c.P
	n := 0
	for _, fn := range repoFns(p, "object") {
		if fn.Signature.Recv() == nil || fn.Parent() != nil {
			continue
		}
		switch fn.Name() {
		case "Contains", "Index", "Count", "HasKey":
		default:
			continue
		}
		k := 0
		for _, b := range fn.Blocks {
			for _, in := range b.Instrs {
				cv, ok := in.(*ssa.Convert)
				if !ok {
					continue
				}
				sb, ok1 := cv.X.Type().Underlying().(*types.Basic)
				db, ok2 := cv.Type().Underlying().(*types.Basic)
				if !ok1 || !ok2 || sb.Info()&types.IsFloat == 0 || db.Info()&types.IsInteger == 0 {
					continue
				}
				if _, isK := cv.X.(*ssa.Const); isK {
					continue
				}
				n++
				k++
				whole := false
				for _, b2 := range fn.Blocks {
					for _, in2 := range b2.Instrs {
						switch x := in2.(type) {
						case *ssa.Call:
							if cal := x.Call.StaticCallee(); cal != nil && cal.Pkg != nil && cal.Pkg.Pkg.Path() == "math" {
								switch cal.Name() {
								case "Trunc", "Floor", "Ceil", "Round", "Mod", "Modf":
									if len(x.Call.Args) > 0 && (x.Call.Args[0] == cv.X || core.SameStorage(x.Call.Args[0], cv.X)) {
										whole = true
									}
								}
							}
						case *ssa.BinOp:
							if x.Op != token.EQL && x.Op != token.NEQ {
								continue
							}
							// float(int(v)) == v
							for _, pair := range [][2]ssa.Value{{x.X, x.Y}, {x.Y, x.X}} {
								back, ok := pair[0].(*ssa.Convert)
								if !ok {
									continue
								}
								if inner, ok := back.X.(*ssa.Convert); ok && (inner.X == cv.X || core.SameStorage(inner.X, cv.X)) && (pair[1] == cv.X || core.SameStorage(pair[1], cv.X)) {
									whole = true
								}
							}
						}
					}
				}
				c.Check(whole, core.SSAName(fn)+"|float-probe-tested-for-a-whole-number|"+sprintf("%d", k), p.Pos(cv.Pos()),
					core.SSAName(fn)+" turns a float into an integer to look it up"+ife(whole, " after testing that it is a whole number", " without testing that it is a whole number: a probe with a fraction is found where an item equals its integer part (97.5 in byte_slice(\"a\"))"))
			}
		}
	}
	if n == 0 {
		c.Pass("object|membership-converts-no-float-probe", "", "no membership method turns a float probe into an integer")
	}
	c.Stat("float_probes_converted", n)
}

// ---------------------------------------------------------------------------
// mutableValuesAreNotShared: a method that hands the script a list, a map, a
// set or another value that the script can change hands it one of its own.
// A package-level value of such a type (one empty list for every empty slice)
// is the same object for every caller in the process: what one script appends
// to its empty slice turns up in every other empty slice, also in other
// evaluations.
func mutableValuesAreNotShared(c *core.Ctx) {
	p := c.P
	op := p.Pkg("object")
	mutable := map[*types.Named]bool{}
	for _, name := range []string{"List", "Map", "Set", "ByteSlice", "FloatSlice", "Buffer"} {
		if t := core.LookupType(op, name); t != nil {
			mutable[t] = true
		}
	}
	n := 0
	for _, rel := range []string{"object", "builtins"} {
		for _, fn := range repoFns(p, rel) {
			k := 0
			for _, b := range fn.Blocks {
				for _, in := range b.Instrs {
					ret, ok := in.(*ssa.Return)
					if !ok {
						continue
					}
					for _, res := range ret.Results {
						for _, o := range originsThroughInterfaces(spilledResult(b, res)) {
							u, ok := o.(*ssa.UnOp)
							if !ok || u.Op != token.MUL {
								continue
							}
							g, ok := u.X.(*ssa.Global)
							if !ok || !core.InRepo(g.Pkg.Pkg) {
								continue
							}
							nt := core.NamedOf(u.Type())
							if nt == nil || !mutable[nt] {
								continue
							}
							n++
							k++
							c.Check(false, core.SSAName(fn)+"|"+g.Name()+"|not-a-shared-mutable-value|"+sprintf("%d", k), p.Pos(ret.Pos()),
								core.SSAName(fn)+" returns the package-level "+nt.Obj().Name()+" "+g.Name()+": every caller in the process gets the same object, and what one script does to it (append, assign) shows in what every other script gets")
						}
					}
				}
			}
		}
	}
	if n == 0 {
		c.Pass("object|no-package-level-mutable-value-returned", "", "no function of object or builtins returns a package-level list, map, set, byte slice, float slice or buffer")
	}
	c.Stat("shared_mutable_returns", n)
}

// ---------------------------------------------------------------------------
// anUpdateWritesTheArgumentLast: m.update(other) leaves m with other's value
// for every key they share.  Whatever the method builds on the way, no entry
// of the receiver is written into the result after an entry of the argument:
// a faster path that fills a new map with the argument's entries first and
// copies the receiver's over them keeps the old values for the shared keys.
func anUpdateWritesTheArgumentLast(c *core.Ctx) {
	p := c.P
	n := 0
	for _, fn := range repoFns(p, "object") {
		if fn.Name() != "Update" || fn.Signature.Recv() == nil || len(fn.Params) < 2 || fn.Parent() != nil {
			continue
		}
		recv, arg := ssa.Value(fn.Params[0]), ssa.Value(fn.Params[1])
		// the map updates, by whose entries they write
		source := func(mu *ssa.MapUpdate) ssa.Value {
			var from ssa.Value
			core.DependsOn(mu.Value, func(w ssa.Value) bool {
				if nx, ok := w.(*ssa.Next); ok {
					if rg, ok := nx.Iter.(*ssa.Range); ok {
						if u, ok := rg.X.(*ssa.UnOp); ok {
							if fa, ok := u.X.(*ssa.FieldAddr); ok {
								from = fa.X
							}
						}
					}
				}
				return false
			})
			return from
		}
		var fromRecv, fromArg []*ssa.MapUpdate
		for _, b := range fn.Blocks {
			for _, in := range b.Instrs {
				if mu, ok := in.(*ssa.MapUpdate); ok {
					switch source(mu) {
					case recv:
						fromRecv = append(fromRecv, mu)
					case arg:
						fromArg = append(fromArg, mu)
					}
				}
			}
		}
		if len(fromArg) == 0 {
			continue
		}
		n++
		bad := ""
		for _, r := range fromRecv {
			for _, a := range fromArg {
				same := false
				for _, o := range core.Origins(r.Map) {
					for _, o2 := range core.Origins(a.Map) {
						if o == o2 {
							same = true
						}
					}
				}
				if same && instrReaches(a, r) && !instrReaches(r, a) {
					bad = p.Pos(r.Pos())
				}
			}
		}
		c.Check(bad == "", core.SSAName(fn)+"|argument-written-last", p.Pos(fn.Pos()),
			core.SSAName(fn)+" writes the entries of its argument"+ife(bad == "", " and no entry of the receiver after them", " and then, at "+bad+", the entries of the receiver over them: for a key that both have, the old value stays"))
	}
	if n == 0 {
		core.Undecidedf("no Update method writes the entries of its argument into a map")
	}
	c.Stat("update_methods", n)
}

// ---------------------------------------------------------------------------
// theLoaderTakesSymbolsAsTheyWereStored: the stored form of a symbol table
// says for every free variable which symbol it is (name, index, constness).
// The loader builds exactly that.  It does not look a name up in the tables
// that enclose the one it is building: at load time every declaration of the
// program is present, also one that came after the closure was compiled, so a
// lookup by name can find another variable than the compiler did, and the
// reloaded code marshals to other bytes than the original.
func theLoaderTakesSymbolsAsTheyWereStored(c *core.Ctx) {
	p := c.P
	cp := p.Pkg("compiler")
	stT := core.MustType(cp, "SymbolTable")
	nIdx := fieldIdxByName(stT, "symbolsByName")
	unm := core.LookupFunc(cp, "UnmarshalCode")
	if nIdx < 0 || unm == nil {
		core.Undecidedf("compiler.SymbolTable.symbolsByName / UnmarshalCode not found")
	}
	storeFile := p.Fset.Position(unm.Pos()).Filename
	// functions of the loader, and the methods of the symbol table that only it calls
	var scope []*ssa.Function
	for _, fn := range repoFns(p, "compiler") {
		if p.Fset.Position(fn.Pos()).Filename == storeFile {
			scope = append(scope, fn)
		}
	}
	inScope := map[*ssa.Function]bool{}
	for _, f := range scope {
		inScope[f] = true
	}
	for _, f := range append([]*ssa.Function{}, scope...) {
		for _, b := range f.Blocks {
			for _, in := range b.Instrs {
				if ci, ok := in.(ssa.CallInstruction); ok {
					if cal := ci.Common().StaticCallee(); cal != nil && cal.Blocks != nil && cal.Signature.Recv() != nil && core.NamedOf(cal.Signature.Recv().Type()) == stT && !inScope[cal] {
						// only if nothing outside the loader calls it
						onlyLoader := true
						for _, g := range repoFns(p, "compiler") {
							if inScope[g] {
								continue
							}
							for _, b2 := range g.Blocks {
								for _, in2 := range b2.Instrs {
									if c2, ok := in2.(ssa.CallInstruction); ok && c2.Common().StaticCallee() == cal {
										onlyLoader = false
									}
								}
							}
						}
						if onlyLoader {
							inScope[cal] = true
							scope = append(scope, cal)
						}
					}
				}
			}
		}
	}
	n := 0
	for _, fn := range scope {
		looks := ""
		for _, b := range fn.Blocks {
			for _, in := range b.Instrs {
				lk, ok := in.(*ssa.Lookup)
				if !ok {
					continue
				}
				if _, ok := loadOfField(lk.X, stT, nIdx); ok {
					looks = p.Pos(lk.Pos())
				}
			}
		}
		n++
		c.Check(looks == "", core.SSAName(fn)+"|no-lookup-by-name", p.Pos(fn.Pos()),
			core.SSAName(fn)+ife(looks == "", " builds symbol tables from the stored form without looking a name up in a table", " looks a name up in a symbol table (at "+looks+") while loading: the symbol it finds is the one that the whole program declares under that name, which need not be the one the stored form names"))
	}
	if n < 5 {
		core.Undecidedf("only %d loader functions found", n)
	}
	c.Stat("loader_functions", n)
}

// ---------------------------------------------------------------------------
// regexpMethodsAnswerWithTheRegexp: the methods of a compiled regular
// expression wrap the methods of Go's regexp.Regexp, and what they hand back is
// what that method returned.  A result computed by package strings instead (a
// fast path for a pattern without metacharacters) agrees with the regexp only
// where the two happen to: strings.ReplaceAll does not expand $1 and $$ in the
// replacement, Regexp.ReplaceAllString does.
func regexpMethodsAnswerWithTheRegexp(c *core.Ctx) {
	p := c.P
	if !p.HasPkg("modules/regexp") {
		core.Undecidedf("modules/regexp not loaded")
	}
	isRegexpCall := func(w ssa.Value) bool {
		call, ok := w.(*ssa.Call)
		if !ok {
			return false
		}
		cal := call.Call.StaticCallee()
		if cal == nil || cal.Pkg == nil || cal.Pkg.Pkg.Path() != "regexp" {
			return false
		}
		// (the methods that compute an answer, not the ones that describe the pattern)
		for _, pre := range []string{"Find", "Replace", "Match", "Split", "Expand"} {
			if strings.HasPrefix(cal.Name(), pre) {
				return true
			}
		}
		return false
	}
	isStringsCall := func(w ssa.Value) bool {
		call, ok := w.(*ssa.Call)
		if !ok {
			return false
		}
		cal := call.Call.StaticCallee()
		return cal != nil && cal.Pkg != nil && (cal.Pkg.Pkg.Path() == "strings" || cal.Pkg.Pkg.Path() == "bytes")
	}
	n := 0
	for _, fn := range repoFns(p, "modules/regexp") {
		uses := false
		for _, b := range fn.Blocks {
			for _, in := range b.Instrs {
				if v, ok := in.(ssa.Value); ok && isRegexpCall(v) {
					uses = true
				}
			}
		}
		if !uses {
			continue
		}
		k := 0
		for _, b := range fn.Blocks {
			for _, in := range b.Instrs {
				ret, ok := in.(*ssa.Return)
				if !ok || len(ret.Results) != 1 {
					continue
				}
				res := spilledResult(b, ret.Results[0])
				viaStrings := core.DependsOnAvoiding(res, isStringsCall, isRegexpCall)
				if !viaStrings {
					continue
				}
				viaRegexp := core.DependsOn(res, isRegexpCall)
				n++
				k++
				// (strings functions applied to what the regexp returned are fine)
				c.Check(viaRegexp && !core.DependsOnAvoiding(res, func(w ssa.Value) bool {
					// a strings call none of whose arguments comes from the regexp
					if !isStringsCall(w) {
						return false
					}
					for _, a := range w.(*ssa.Call).Call.Args {
						if core.DependsOn(a, isRegexpCall) {
							return false
						}
					}
					return true
				}, isRegexpCall), core.SSAName(fn)+"|result-from-the-regexp|"+sprintf("%d", k), p.Pos(ret.Pos()),
					core.SSAName(fn)+" wraps a method of regexp.Regexp and returns a result that package strings computed from the arguments, without the regexp: the two agree only where the pattern and the replacement have nothing in them that the regexp treats specially ($1, $$)")
			}
		}
	}
	if n == 0 {
		c.Pass("modules/regexp|results-come-from-the-regexp", "", "no method of the regexp object returns a result computed by package strings")
	}
	c.Stat("regexp_results_via_strings", n)
}

// callsACallback: the function calls a script callable (Callable.Call, or a
// function value that takes the context first) outside any loop of its own.
func callsACallback(fn *ssa.Function) bool {
	if fn.Blocks == nil || fn.Signature.Recv() != nil && fn.Name() == "Call" {
		return false
	}
	takesCallable := false
	for _, prm := range fn.Params {
		if nt := core.NamedOf(prm.Type()); nt != nil && (nt.Obj().Name() == "Object" || nt.Obj().Name() == "Callable" || nt.Obj().Name() == "Builtin" || nt.Obj().Name() == "Function") {
			takesCallable = true
		}
		if sig, ok := prm.Type().Underlying().(*types.Signature); ok && sig.Params().Len() >= 2 {
			takesCallable = true
		}
	}
	if !takesCallable {
		return false
	}
	for _, b := range fn.Blocks {
		for _, in := range b.Instrs {
			ci, ok := in.(ssa.CallInstruction)
			if !ok {
				continue
			}
			cm := ci.Common()
			if cm.IsInvoke() && cm.Method.Name() == "Call" {
				return true
			}
			if cm.StaticCallee() == nil && !cm.IsInvoke() {
				if _, isB := cm.Value.(*ssa.Builtin); !isB {
					if sig, ok := cm.Value.Type().Underlying().(*types.Signature); ok && sig.Params().Len() >= 2 && core.IsNamed(sig.Params().At(0).Type(), "context", "Context") {
						return true
					}
				}
			}
			if cal := cm.StaticCallee(); cal != nil && cal.Name() == "callBuiltinCallback" {
				return true
			}
		}
	}
	return false
}
