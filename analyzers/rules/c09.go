package rules

import (
	"go/ast"
	"go/token"
	"go/types"
	"sort"
	"strings"

	"golang.org/x/tools/go/ssa"

	"risorcheck/core"
)

func init() {
	core.Register(&core.Property{
		ID: "C09",
		Decided: "The static formulation of race freedom on interpreter-level shared state: (R1) every package-level variable of the interpreter packages that is written outside package initialisation is accessed, on every path of every function, " +
			"with one common lock held (lock-set analysis with call-graph propagation of entry lock-sets; exported functions, escaping function values and goroutine entries start with no lock); variables written only by host-configuration setters that no " +
			"script-reachable function calls are reported as information; (R2) lookup tables that are only written during initialisation stay that way (a new runtime write makes them R1 obligations); " +
			"(R3) the compiled-code types (compiler.Code, Function, SymbolTable, Symbol) are read-only for their users: no method of theirs that packages other than compiler call writes a receiver field; " +
			"(R4) objects handed out of a process-wide registry or cache (package-level map / sync.Map, importer caches) are not mutated after publication — no field store and no receiver-mutating method call on a value that originates from such a lookup, " +
			"and VM-owned wrappers (vm.code) are never stored in package-level state.",
		NotCovered:  "Races on script-visible objects deliberately shared between clones, the dynamic result equality of concurrent evaluations, lock ordering/deadlock.",
		Assumptions: []string{"Go memory model; sync.Mutex/RWMutex semantics", "static callees only for entry lock-set propagation (interface and closure calls start with no lock held — conservative)"},
		Rules: []*core.Rule{
			{ID: "C09-R1", Title: "runtime-written package state is accessed under one lock", Floor: 4, Run: c09r1},
			{ID: "C09-R2", Title: "map fields of mutex-carrying shared objects are accessed under that mutex", Floor: 1, Run: c09r2},
			{ID: "C09-R3", Title: "compiled code is read-only for its users", Floor: 10, Run: c09r3},
			{ID: "C09-R4", Title: "objects from shared registries/caches are not mutated after publication", Floor: 1, Run: c09r4},
			{ID: "C09-R5", Title: "mutex-guarded VM maps are copied, not aliased, into another VM", Floor: 2, Run: c09r5},
			{ID: "C09-R6", Title: "callbacks from other goroutines run on a clone made for that call", Floor: 2, Run: freshClonePerCall},
			{ID: "C09-R7", Title: "registry-cached descriptors and converters are written only while they are built", Floor: 5, Run: cachedObjectsImmutable},
			{ID: "C09-R8", Title: "VMs are not shared through process-wide containers", Floor: 1, Run: vmNotPooled},
			{ID: "C09-R9", Title: "shared maps are not written under a read lock", Floor: 1, Run: noWritesUnderReadLock},
			{ID: "C09-R10", Title: "no package-level standard-library object that is unsafe for concurrent use", Floor: 1, Run: noSharedUnsafeStdlibObjects},
			{ID: "C09-R11", Title: "references shared with clones are not written through (shared with C07)", Floor: 1, Run: cloneAliasesNotWrittenThrough},
			{ID: "C09-R12", Title: "a deferred Unlock finds its mutex locked on every path (shared with C03)", Floor: 5, Run: deferredUnlockFindsLockHeld},
			{ID: "C09-R13", Title: "thread result published before done (shared with C10-R3)", Floor: 1, Run: c10r3},
			{ID: "C09-R14", Title: "the state of an iteration is per consumer (shared with C10)", Floor: 5, Run: iterationStateIsPerConsumer},
			{ID: "C09-R15", Title: "channel objects have no plainly written fields", Floor: 1, Run: sharedObjectFieldsAreNotPlainWritten},
			{ID: "C09-R16", Title: "an evaluation closes only the files it opened", Floor: 1, Run: evaluationsCloseOnlyWhatTheyOpened},
			{ID: "C09-R17", Title: "state of a shared OS that scripts change is accessed under one lock", Floor: 1, Run: sharedOSStateIsLocked},
			{ID: "C09-R18", Title: "shared state is enumerated", Floor: 1, Run: sharedStateIsEnumerated},
			{ID: "C09-R19", Title: "tables that Clone snapshots are written under the clone lock", Floor: 3, Run: cloneTablesAreWrittenUnderTheCloneLock},
			{ID: "C09-R20", Title: "slices the host hands in are copied before they are written in", Floor: 2, Run: hostSlicesAreCopiedBeforeTheyAreWrittenIn},
			{ID: "C09-R21", Title: "the compiler does not write into the syntax tree (shared with C05-R13)", Floor: 1, Run: theCompilerDoesNotWriteIntoTheSyntaxTree},
			{ID: "C09-R22", Title: "immutable values are not written by their methods (shared with C16-R22)", Floor: 50, Run: immutableValuesAreNotWrittenByTheirMethods},
			{ID: "C09-R23", Title: "process-wide objects of the standard library are not configured", Floor: 1, Run: processWideObjectsAreNotConfigured},
			{ID: "C09-R24", Title: "read-only operations do not write the container (shared with C16-R30)", Floor: 20, Run: readOnlyOperationsDoNotWriteTheContainer},
			{ID: "C09-R25", Title: "an importer's failure is not taken for absence, also by those who waited for it (shared with C14-R24)", Floor: 2, Run: importerFailuresAreNotTakenForAbsence},
			{ID: "C09-R26", Title: "importers remember only successes (shared with C18-R21)", Floor: 1, Run: importersRememberOnlySuccesses},
			{ID: "C09-R27", Title: "signal registrations are undone when the evaluation is over", Floor: 1, Run: signalRegistrationsAreUndone},
			{ID: "C09-R28", Title: "callbacks that run on another goroutine run on a clone", Floor: 2, Run: callbacksThatRunElsewhereRunOnAClone},
			{ID: "C09-R29", Title: "iterables are asked for a fresh iterator (shared with C10-R16)", Floor: 1, Run: iterablesAreAskedForAFreshIterator},
			{ID: "C09-R30", Title: "fields accessed through sync/atomic are always accessed that way", Floor: 1, Run: atomicFieldsAreAlwaysAccessedAtomically},
			{ID: "C09-R31", Title: "the virtual OS keeps no map of the host", Floor: 1, Run: theVirtualOSKeepsNoMapOfTheHost},
			{ID: "C09-R32", Title: "the front end keeps no package-level state written after initialisation (shared with C05-R4)", Floor: 3, Run: c05r4},
			{ID: "C09-R33", Title: "what a table may not hold is not dereferenced (shared with C03-R42)", Floor: 1, Run: whatATableMayNotHoldIsNotDereferenced},
		},
	})
}

// interpreterPkgs: packages whose package-level state is interpreter state.
func interpreterPkg(rel string) bool {
	if strings.HasPrefix(rel, "cmd/") || strings.HasPrefix(rel, "internal/") {
		return false
	}
	return true
}

type globalAccess struct {
	fn    *ssa.Function
	instr ssa.Instruction
	write bool
	what  string
}

// globalAccesses collects every access to package-level variable g's
// contents: stores to g, and (for maps/slices/pointers) every use of a value
// loaded from g.
func globalAccesses(g *ssa.Global, fns []*ssa.Function) []globalAccess {
	var out []globalAccess
	for _, f := range fns {
		for _, b := range f.Blocks {
			for _, instr := range b.Instrs {
				switch x := instr.(type) {
				case *ssa.Store:
					if x.Addr == ssa.Value(g) {
						out = append(out, globalAccess{f, instr, true, "assign"})
					}
				case *ssa.IndexAddr, *ssa.FieldAddr:
					// element / field of an array- or struct-typed variable
					if addrRoot(x.(ssa.Value)) == ssa.Value(g) {
						w := false
						if ir := x.(ssa.Value).Referrers(); ir != nil {
							for _, rr := range *ir {
								if st, ok := rr.(*ssa.Store); ok && st.Addr == x.(ssa.Value) {
									w = true
								}
							}
						}
						out = append(out, globalAccess{f, instr, w, "element"})
					}
				case *ssa.UnOp:
					if x.Op == token.MUL && x.X == ssa.Value(g) {
						// uses of the loaded value
						refs := x.Referrers()
						used := false
						if refs != nil {
							for _, r := range *refs {
								switch u := r.(type) {
								case *ssa.MapUpdate:
									if u.Map == ssa.Value(x) {
										out = append(out, globalAccess{f, r, true, "map update"})
										used = true
									}
								case *ssa.Lookup:
									out = append(out, globalAccess{f, r, false, "map lookup"})
									used = true
								case *ssa.Range:
									out = append(out, globalAccess{f, r, false, "range"})
									used = true
								case *ssa.Call:
									if bi, ok := u.Call.Value.(*ssa.Builtin); ok {
										w := bi.Name() == "delete" || bi.Name() == "append" || bi.Name() == "clear"
										out = append(out, globalAccess{f, r, w, "builtin " + bi.Name()})
										used = true
									}
								case *ssa.IndexAddr:
									// slice element: store through it = write
									w := false
									if ir := u.Referrers(); ir != nil {
										for _, rr := range *ir {
											if st, ok := rr.(*ssa.Store); ok && st.Addr == ssa.Value(u) {
												w = true
											}
										}
									}
									out = append(out, globalAccess{f, r, w, "element"})
									used = true
								}
							}
						}
						if !used {
							out = append(out, globalAccess{f, instr, false, "read"})
						}
					}
				}
			}
		}
	}
	return out
}

// addrRoot: the variable an element / field address is computed from.
func addrRoot(v ssa.Value) ssa.Value {
	for {
		switch x := v.(type) {
		case *ssa.IndexAddr:
			v = x.X
		case *ssa.FieldAddr:
			v = x.X
		default:
			return v
		}
	}
}

func isInitFunc(f *ssa.Function) bool {
	for p := f; p != nil; p = p.Parent() {
		if p.Name() == "init" || strings.HasPrefix(p.Name(), "init#") {
			return true
		}
	}
	return false
}

func repoFunctions(p *core.Program) []*ssa.Function {
	var fns []*ssa.Function
	for f := range p.AllFunctions() {
		if core.RepoFunc(f) && f.Blocks != nil {
			fns = append(fns, f)
		}
	}
	sort.Slice(fns, func(i, j int) bool { return fns[i].String() < fns[j].String() })
	return fns
}

func exportedEntry(f *ssa.Function) bool {
	if f.Parent() != nil {
		return false // closures: handled by escape analysis
	}
	o := f.Object()
	if o == nil {
		return true // synthetic wrappers, bound methods
	}
	if !o.Exported() {
		// unexported methods satisfying exported interfaces can be called dynamically
		if fn, ok := o.(*types.Func); ok && core.RecvNamed(fn) != nil {
			return false
		}
		return false
	}
	return true
}

func c09r1(c *core.Ctx) {
	p := c.P
	fns := repoFunctions(p)
	la := core.AnalyzeLocks(fns, exportedEntry)
	nvars, nruntime := 0, 0
	for _, pk := range p.Pkgs {
		rel := core.RelPkg(pk.Types)
		if !interpreterPkg(rel) {
			continue
		}
		sp := p.SSAPkg(pk)
		if sp == nil {
			continue
		}
		var names []string
		for n, m := range sp.Members {
			if _, ok := m.(*ssa.Global); ok {
				names = append(names, n)
			}
		}
		sort.Strings(names)
		for _, n := range names {
			g := sp.Members[n].(*ssa.Global)
			if strings.HasPrefix(n, "init$") || n == "_" {
				continue
			}
			nvars++
			acc := globalAccesses(g, fns)
			var runtimeWrites []globalAccess
			for _, a := range acc {
				if a.write && !isInitFunc(a.fn) {
					runtimeWrites = append(runtimeWrites, a)
				}
			}
			if len(runtimeWrites) == 0 {
				continue
			}
			// the mutexes themselves and sync/atomic-typed variables guard themselves
			if selfSynchronised(g.Type()) {
				c.Pass(rel+"."+n+"|self-synchronised", p.Pos(g.Pos()), "package variable "+n+" is a synchronisation primitive / concurrent container")
				continue
			}
			nruntime++
			// host-configuration setters: every runtime write is in an exported
			// package-level function that no repository function calls
			hostOnly := true
			for _, w := range runtimeWrites {
				if !isHostSetter(w.fn, fns) {
					hostOnly = false
				}
			}
			if hostOnly {
				c.Info("%s.%s is written only by host-configuration setters (%s) that no repository function calls: out of scope by reachability", rel, n, core.SSAName(runtimeWrites[0].fn))
				continue
			}
			// common guard
			var guard core.LockSet
			for _, a := range acc {
				if isInitFunc(a.fn) {
					continue
				}
				ls := la.At(a.fn, a.instr)
				if guard == nil {
					guard = ls
				} else {
					ng := core.LockSet{}
					for k := range guard {
						if ls[k] {
							ng[k] = true
						}
					}
					guard = ng
				}
			}
			// majority guard for diagnostics: the lock most accesses hold
			count := map[string]int{}
			total := 0
			for _, a := range acc {
				if isInitFunc(a.fn) {
					continue
				}
				total++
				for k := range la.At(a.fn, a.instr) {
					count[k]++
				}
			}
			best := ""
			for k, v := range count {
				if best == "" || v > count[best] || (v == count[best] && k < best) {
					best = k
				}
			}
			byFn := map[string][]globalAccess{}
			for _, a := range acc {
				if isInitFunc(a.fn) {
					continue
				}
				byFn[core.SSAName(a.fn)] = append(byFn[core.SSAName(a.fn)], a)
			}
			for _, fnName := range sortedKeys(byFn) {
				as := byFn[fnName]
				ok := true
				var detail []string
				for _, a := range as {
					ls := la.At(a.fn, a.instr)
					if best == "" || !ls[best] {
						ok = false
						detail = append(detail, p.Pos(a.instr.Pos())+": "+a.what+" with locks held: {"+strings.Join(ls.Names(), ", ")+"}")
					}
				}
				msg := "accesses to " + rel + "." + n + " (written at run time) hold its guard " + ifs(best != "", best) + ifs(best == "", "<none: no access holds any lock>")
				c.Check(ok, fnName+"|var:"+rel+"."+n, p.Pos(as[0].instr.Pos()), msg, detail...)
			}
			_ = guard
		}
	}
	c.Stat("package_variables", nvars)
	c.Stat("runtime_written_variables", nruntime)
}

func selfSynchronised(t types.Type) bool {
	if pt, ok := t.(*types.Pointer); ok {
		t = pt.Elem()
	}
	if pt, ok := t.(*types.Pointer); ok {
		t = pt.Elem()
	}
	n := core.NamedOf(t)
	if n == nil || n.Obj().Pkg() == nil {
		return false
	}
	switch n.Obj().Pkg().Path() {
	case "sync":
		return true
	case "sync/atomic":
		return true
	}
	return false
}

// isHostSetter: exported package-level function that no repository function calls.
func isHostSetter(f *ssa.Function, fns []*ssa.Function) bool {
	o, _ := f.Object().(*types.Func)
	if o == nil || !o.Exported() || core.RecvNamed(o) != nil || f.Parent() != nil {
		return false
	}
	for _, g := range fns {
		for _, b := range g.Blocks {
			for _, instr := range b.Instrs {
				if ci, ok := instr.(ssa.CallInstruction); ok && ci.Common().StaticCallee() == f {
					return false
				}
				for _, op := range instr.Operands(nil) {
					if *op == ssa.Value(f) {
						if ci, ok := instr.(ssa.CallInstruction); ok && ci.Common().Value == ssa.Value(f) {
							continue
						}
						return false
					}
				}
			}
		}
	}
	return true
}

// ---------------------------------------------------------------- R2

// Struct types that carry exactly one sync mutex field and are shared between
// evaluations (importers, limits): every access to one of their map fields in
// a method holds recv.<mutex>.
func c09r2(c *core.Ctx) {
	p := c.P
	fns := repoFunctions(p)
	la := core.AnalyzeLocks(fns, exportedEntry)
	ntypes := 0
	for _, rel := range []string{"importer", "limits", "builtins", "object"} {
		if !p.HasPkg(rel) {
			continue
		}
		pk := p.Pkg(rel)
		for _, name := range pk.Types.Scope().Names() {
			tn, ok := pk.Types.Scope().Lookup(name).(*types.TypeName)
			if !ok {
				continue
			}
			nt, ok := tn.Type().(*types.Named)
			if !ok {
				continue
			}
			st, ok := nt.Underlying().(*types.Struct)
			if !ok {
				continue
			}
			mutexField := ""
			nm := 0
			var mapFields []int
			for i := 0; i < st.NumFields(); i++ {
				f := st.Field(i)
				if selfSynchronised(f.Type()) && (strings.Contains(f.Type().String(), "Mutex")) {
					mutexField = f.Name()
					nm++
				}
				if _, isMap := f.Type().Underlying().(*types.Map); isMap {
					mapFields = append(mapFields, i)
				}
			}
			if nm != 1 || len(mapFields) == 0 {
				continue
			}
			ntypes++
			for _, m := range core.Methods(nt) {
				sf := p.SSAFunc(m)
				if sf == nil || len(sf.Params) == 0 {
					continue
				}
				all := append([]*ssa.Function{sf}, sf.AnonFuncs...)
				for _, f := range all {
					for _, b := range f.Blocks {
						for _, instr := range b.Instrs {
							fa, ok := instr.(*ssa.FieldAddr)
							if !ok || core.NamedOf(fa.X.Type()) != nt {
								continue
							}
							isMapField := false
							for _, i := range mapFields {
								if fa.Field == i {
									isMapField = true
								}
							}
							if !isMapField {
								continue
							}
							held := la.At(f, instr)
							ok2 := held["recv."+mutexField]
							c.Check(ok2, core.SSAName(sf)+"|field:"+st.Field(fa.Field).Name(), p.Pos(instr.Pos()),
								"access to map field "+name+"."+st.Field(fa.Field).Name()+" of a shared object must hold "+name+"."+mutexField+"; held: {"+strings.Join(held.Names(), ", ")+"}")
						}
					}
				}
			}
		}
	}
	c.Stat("mutex_carrying_types", ntypes)
}

// ---------------------------------------------------------------- R3

// mutatingMethods: methods (of the given named types) that store to a field
// of their receiver, directly or through a same-package callee on the receiver.
func receiverMutators(p *core.Program, typs []*types.Named) map[*types.Func]string {
	out := map[*types.Func]string{}
	isT := func(n *types.Named) bool {
		for _, t := range typs {
			if t == n {
				return true
			}
		}
		return false
	}
	var methods []*types.Func
	for _, t := range typs {
		methods = append(methods, core.Methods(t)...)
	}
	// direct
	for _, m := range methods {
		sf := p.SSAFunc(m)
		if sf == nil || len(sf.Params) == 0 {
			continue
		}
		recv := sf.Params[0]
		for _, b := range sf.Blocks {
			for _, instr := range b.Instrs {
				var addr ssa.Value
				switch x := instr.(type) {
				case *ssa.Store:
					addr = x.Addr
				case *ssa.MapUpdate:
					addr = x.Map
				}
				if addr == nil {
					continue
				}
				if rootedAt(addr, recv) {
					out[m] = "stores to a receiver field at " + p.Pos(instr.Pos())
				}
			}
		}
	}
	// transitive through calls on the receiver
	for changed := true; changed; {
		changed = false
		for _, m := range methods {
			if _, ok := out[m]; ok {
				continue
			}
			sf := p.SSAFunc(m)
			if sf == nil || len(sf.Params) == 0 {
				continue
			}
			recv := sf.Params[0]
			for _, b := range sf.Blocks {
				for _, instr := range b.Instrs {
					ci, ok := instr.(ssa.CallInstruction)
					if !ok {
						continue
					}
					callee := ci.Common().StaticCallee()
					if callee == nil {
						continue
					}
					co, _ := callee.Object().(*types.Func)
					if co == nil || !isT(core.RecvNamed(co)) {
						continue
					}
					if why, mut := out[co]; mut && len(ci.Common().Args) > 0 && rootedAt(ci.Common().Args[0], recv) {
						out[m] = "calls " + co.Name() + " which " + why
						changed = true
					}
				}
			}
		}
	}
	return out
}

// rootedAt: addr is derived from root through field/index address chains and loads.
func rootedAt(v ssa.Value, root ssa.Value) bool {
	for i := 0; i < 12 && v != nil; i++ {
		if v == root {
			return true
		}
		switch x := v.(type) {
		case *ssa.FieldAddr:
			v = x.X
		case *ssa.IndexAddr:
			v = x.X
		case *ssa.UnOp:
			if x.Op != token.MUL {
				return false
			}
			v = x.X
		case *ssa.Field:
			v = x.X
		case *ssa.Slice:
			v = x.X
		case *ssa.ChangeType:
			v = x.X
		default:
			return false
		}
	}
	return false
}

func c09r3(c *core.Ctx) {
	p := c.P
	cp := p.Pkg("compiler")
	var typs []*types.Named
	for _, n := range []string{"Code", "Function", "SymbolTable", "Symbol"} {
		typs = append(typs, core.MustType(cp, n))
	}
	mut := receiverMutators(p, typs)
	isT := func(n *types.Named) bool {
		for _, t := range typs {
			if t == n {
				return true
			}
		}
		return false
	}
	seen := map[string]bool{}
	for _, pk := range p.Pkgs {
		rel := core.RelPkg(pk.Types)
		if rel == "compiler" || strings.HasPrefix(rel, "cmd/") {
			continue
		}
		funcBodies(pk, func(fn *types.Func, fd *ast.FuncDecl) {
			ast.Inspect(fd.Body, func(n ast.Node) bool {
				ce, ok := n.(*ast.CallExpr)
				if !ok {
					return true
				}
				cal := calleeOf(pk.TypesInfo, ce)
				if cal == nil || !isT(core.RecvNamed(cal)) {
					return true
				}
				key := "compiler." + core.RecvNamed(cal).Obj().Name() + "." + cal.Name() + "|called-from:" + rel
				if seen[key] {
					return true
				}
				seen[key] = true
				why, bad := mut[cal]
				c.Check(!bad, key, posOf(p, ce), "method "+core.FuncName(cal)+" is used by package "+rel+" on (possibly shared) compiled code and must not mutate it"+ifs(bad, ": "+why))
				return true
			})
		})
	}
	c.Stat("mutating_methods_in_compiler", len(mut))
}

// ---------------------------------------------------------------- R4

// sharedSource: v is obtained from process-wide state: lookup in a
// package-level map, Load* on a package-level sync.Map, or a lookup in a map
// field of an object that is itself shared between evaluations (importer caches).
func sharedSourceDesc(p *core.Program, v ssa.Value) string {
	switch x := v.(type) {
	case *ssa.Lookup:
		if g := globalOf(x.X); g != nil {
			return "lookup in package-level map " + core.RelPkg(g.Pkg.Pkg) + "." + g.Name()
		}
		if fa := fieldLoad(x.X); fa != nil {
			if isCacheHolder(fa) {
				return "lookup in cache field " + fieldName(fa)
			}
		}
	case *ssa.Extract:
		if lk, ok := x.Tuple.(*ssa.Lookup); ok && x.Index == 0 {
			return sharedSourceDesc(p, lk)
		}
		if call, ok := x.Tuple.(*ssa.Call); ok && x.Index == 0 {
			return sharedSourceDesc(p, call)
		}
	case *ssa.Call:
		callee := x.Call.StaticCallee()
		if callee != nil && callee.Pkg != nil && callee.Pkg.Pkg.Path() == "sync" && len(x.Call.Args) > 0 {
			switch callee.Name() {
			case "Load", "LoadOrStore", "LoadAndDelete", "Swap":
				if g := globalOf(x.Call.Args[0]); g != nil {
					return "sync.Map." + callee.Name() + " on package-level " + core.RelPkg(g.Pkg.Pkg) + "." + g.Name()
				}
				if fa, ok := x.Call.Args[0].(*ssa.FieldAddr); ok && isCacheHolder(fa) {
					return "sync.Map." + callee.Name() + " on cache field " + fieldName(fa)
				}
			}
		}
	case *ssa.TypeAssert:
		return sharedSourceDesc(p, x.X)
	case *ssa.ChangeInterface:
		return sharedSourceDesc(p, x.X)
	case *ssa.MakeInterface:
		return sharedSourceDesc(p, x.X)
	}
	return ""
}

func globalOf(v ssa.Value) *ssa.Global {
	switch x := v.(type) {
	case *ssa.Global:
		return x
	case *ssa.UnOp:
		if x.Op == token.MUL {
			return globalOf(x.X)
		}
	}
	return nil
}

func fieldLoad(v ssa.Value) *ssa.FieldAddr {
	if u, ok := v.(*ssa.UnOp); ok && u.Op == token.MUL {
		if fa, ok := u.X.(*ssa.FieldAddr); ok {
			return fa
		}
	}
	return nil
}

func fieldName(fa *ssa.FieldAddr) string {
	pt, ok := fa.X.Type().Underlying().(*types.Pointer)
	if !ok {
		return "?"
	}
	st, ok := pt.Elem().Underlying().(*types.Struct)
	if !ok {
		return "?"
	}
	n := core.NamedOf(fa.X.Type())
	tn := "?"
	if n != nil {
		tn = n.Obj().Name()
	}
	return tn + "." + st.Field(fa.Field).Name()
}

// isCacheHolder: the struct owning the field is an importer (objects that
// hosts share between evaluations; DESIGN C09 guard table).
func isCacheHolder(fa *ssa.FieldAddr) bool {
	n := core.NamedOf(fa.X.Type())
	if n == nil || n.Obj().Pkg() == nil {
		return false
	}
	return n.Obj().Pkg().Path() == pkgPath("importer")
}

func c09r4(c *core.Ctx) {
	p := c.P
	fns := repoFunctions(p)
	// functions returning a shared object (fixpoint)
	returnsShared := map[*ssa.Function]string{}
	valShared := func(v ssa.Value) string {
		for _, o := range core.Origins(v) {
			if d := sharedSourceDesc(p, o); d != "" {
				return d
			}
			oo := o
			if e, ok := o.(*ssa.Extract); ok {
				oo = e.Tuple
			}
			if ta, ok := oo.(*ssa.TypeAssert); ok {
				oo = ta.X
				if e, ok := oo.(*ssa.Extract); ok {
					oo = e.Tuple
				}
			}
			if call, ok := oo.(*ssa.Call); ok {
				if callee := call.Call.StaticCallee(); callee != nil {
					if d, ok := returnsShared[callee]; ok {
						return d + " via " + core.SSAName(callee)
					}
				} else if call.Call.IsInvoke() {
					// interface call: any implementation in the repository returning shared
					for f, d := range returnsShared {
						if f.Object() != nil && f.Object().Name() == call.Call.Method.Name() && f.Signature.Recv() != nil {
							if types.Implements(f.Signature.Recv().Type(), call.Call.Value.Type().Underlying().(*types.Interface)) {
								return d + " via " + core.SSAName(f)
							}
						}
					}
				}
			}
		}
		return ""
	}
	for changed := true; changed; {
		changed = false
		for _, f := range fns {
			if _, ok := returnsShared[f]; ok {
				continue
			}
			for _, b := range f.Blocks {
				for _, instr := range b.Instrs {
					ret, ok := instr.(*ssa.Return)
					if !ok {
						continue
					}
					for _, r := range ret.Results {
						if _, isPtr := r.Type().Underlying().(*types.Pointer); !isPtr {
							if _, isI := r.Type().Underlying().(*types.Interface); !isI {
								continue
							}
						}
						if d := valShared(r); d != "" {
							returnsShared[f] = d
							changed = true
						}
					}
				}
			}
		}
	}
	// receiver-mutating methods over all repo types (cheap approximation: stores rooted at param 0)
	mutates := func(callee *ssa.Function) bool {
		if callee == nil || len(callee.Params) == 0 || callee.Signature.Recv() == nil {
			return false
		}
		recv := callee.Params[0]
		for _, b := range callee.Blocks {
			for _, instr := range b.Instrs {
				switch x := instr.(type) {
				case *ssa.Store:
					if rootedAt(x.Addr, recv) {
						return true
					}
				case *ssa.MapUpdate:
					if rootedAt(x.Map, recv) {
						return true
					}
				}
			}
		}
		return false
	}
	la := core.AnalyzeLocks(fns, exportedEntry)
	nshared := 0
	for _, f := range fns {
		if isInitFunc(f) {
			continue
		}
		for _, b := range f.Blocks {
			for _, instr := range b.Instrs {
				var target ssa.Value
				what := ""
				switch x := instr.(type) {
				case *ssa.Store:
					if fa, ok := x.Addr.(*ssa.FieldAddr); ok {
						target, what = fa.X, "field store "+fieldName(fa)
					}
				case *ssa.Call:
					callee := x.Call.StaticCallee()
					if mutates(callee) && len(x.Call.Args) > 0 {
						target, what = x.Call.Args[0], "call of receiver-mutating method "+callee.Name()
					}
				}
				if target == nil {
					continue
				}
				d := valShared(target)
				if d == "" {
					continue
				}
				nshared++
				held := la.At(f, instr)
				// a registry guarded by a lock may update its entries under that lock
				ok := len(held) > 0 && !strings.Contains(d, "sync.Map")
				c.Check(ok, core.SSAName(f)+"|mutates-shared|"+what, p.Pos(instr.Pos()),
					what+" on an object obtained from shared state ("+d+"); locks held: {"+strings.Join(held.Names(), ", ")+"} — an object published to other evaluations must not be mutated without the registry's lock")
			}
		}
	}
	// VM-owned wrappers never stored in package-level state
	vmp := p.Pkg("vm")
	perVM := map[*types.Named]bool{}
	for _, n := range []string{"code", "frame", "VirtualMachine"} {
		if t := core.LookupType(vmp, n); t != nil {
			perVM[t] = true
		}
	}
	sp := p.SSAPkg(vmp)
	bad := 0
	for name, m := range sp.Members {
		g, ok := m.(*ssa.Global)
		if !ok {
			continue
		}
		if holdsType(g.Type(), perVM, 0) {
			bad++
			c.Fail("vm."+name+"|per-vm-state-in-package-variable", p.Pos(g.Pos()), "package-level variable "+name+" can hold per-VM objects (code/frame/VirtualMachine): they would be shared by every VM in the process")
		}
	}
	// stores of per-VM objects into sync.Map / maps at package level
	for _, f := range fns {
		if f.Pkg == nil || f.Pkg.Pkg != vmp.Types {
			continue
		}
		for _, b := range f.Blocks {
			for _, instr := range b.Instrs {
				call, ok := instr.(*ssa.Call)
				if !ok {
					continue
				}
				callee := call.Call.StaticCallee()
				if callee == nil || callee.Pkg == nil || callee.Pkg.Pkg.Path() != "sync" || len(call.Call.Args) < 2 {
					continue
				}
				if callee.Name() != "Store" && callee.Name() != "LoadOrStore" && callee.Name() != "Swap" {
					continue
				}
				if globalOf(call.Call.Args[0]) == nil {
					continue
				}
				for _, a := range call.Call.Args[1:] {
					for _, o := range core.Origins(a) {
						if mi, ok := o.(*ssa.MakeInterface); ok && perVM[core.NamedOf(mi.X.Type())] {
							bad++
							c.Fail(core.SSAName(f)+"|per-vm-object-published", p.Pos(instr.Pos()), "a per-VM object ("+mi.X.Type().String()+") is stored in a package-level concurrent map: every VM would share it")
						}
					}
				}
			}
		}
	}
	if bad == 0 {
		c.Pass("vm|no-per-vm-state-in-package-variables", "vm", "no package-level variable of package vm can hold code/frame/VirtualMachine objects")
	}
	c.Pass("registry|returns-shared-functions", "-", sprintf("%d functions return objects that originate from shared registries/caches", len(returnsShared)))
	for f, d := range returnsShared {
		c.Info("%s returns an object from shared state (%s)", core.SSAName(f), d)
	}
	c.Stat("mutations_of_shared_objects", nshared)
	c.Stat("functions_returning_shared", len(returnsShared))
}

func holdsType(t types.Type, set map[*types.Named]bool, depth int) bool {
	if depth > 4 {
		return false
	}
	if n := core.NamedOf(t); n != nil && set[n] {
		return true
	}
	switch u := t.Underlying().(type) {
	case *types.Pointer:
		return holdsType(u.Elem(), set, depth+1)
	case *types.Map:
		return holdsType(u.Key(), set, depth+1) || holdsType(u.Elem(), set, depth+1)
	case *types.Slice:
		return holdsType(u.Elem(), set, depth+1)
	case *types.Array:
		return holdsType(u.Elem(), set, depth+1)
	}
	return false
}
