package rules

import (
	"go/ast"
	"go/token"
	"go/types"
	"regexp/syntax"
	"strings"

	"golang.org/x/tools/go/ssa"

	"risorcheck/core"
)

func init() {
	core.Register(&core.Property{
		ID: "C14",
		Decided: "Chain of custody of the import name and the discipline of the module cache (identity of module state across importers at run time is NOT decided): " +
			"(R1) parser link: every path text that reaches ast.NewImport / ast.NewFromImport is checked by the import-path validator with its error tested, or is the literal of a token tested to be an identifier; the validator accepts only through a regular expression that is anchored at both ends and whose alphabet is identifier characters and '/'; " +
			"(R2) compiler/VM link: op.Import / op.FromImport are emitted only by the import compile functions, and the VM's importModule is called only from the handlers of those opcodes with a name built from popped strings; Importer.Import is invoked only from importModule; " +
			"(R3) importer link: the file name handed to the file system is filepath.Join(source dir, name + extension) of the Import parameter; " +
			"(R4) cache discipline in importModule: the importer is consulted only after a miss on the VM's module table under the same key, every success return is preceded by a registration under that key, and the registration extends the table as it is after the module body ran (modules imported by the body are not dropped), under the clone mutex.",
		NotCovered:  "That every importer sees the same module state across clones; distinctness of module globals from the importer's (run-time aliasing); symlinks under the import root.",
		Assumptions: []string{"regexp/syntax parses the validator's pattern as the regexp package does", "filepath.Join of a validated name cannot leave the source directory"},
		Rules: []*core.Rule{
			{ID: "C14-R1", Title: "import paths are validated by an anchored identifier pattern", Floor: 4, Run: c14r1},
			{ID: "C14-R2", Title: "import opcodes and importModule have a single producer chain", Floor: 2, Run: c14r2},
			{ID: "C14-R3", Title: "importer joins the validated name under its root", Floor: 1, Run: c14r3},
			{ID: "C14-R4", Title: "module cache: miss-then-import, register after the body ran", Floor: 3, Run: c14r4},
			{ID: "C14-R5", Title: "a code object's globals array is installed at creation and never replaced", Floor: 2, Run: c14r5},
			{ID: "C14-R6", Title: "every module has a code object of its own", Floor: 2, Run: importerCodePerName},
			{ID: "C14-R7", Title: "reload re-points only the functions of the reloaded main code (shared with C18-R3)", Floor: 2, Run: c18r3},
			{ID: "C14-R8", Title: "the validated import path is the path the node keeps", Floor: 1, Run: validatedPathIsStoredPath},
			{ID: "C14-R9", Title: "a failed import is not remembered", Floor: 1, Run: errorsAreNotCached},
			{ID: "C14-R10", Title: "Import returns a module object built in that call", Floor: 1, Run: importersReturnFreshModules},
			{ID: "C14-R11", Title: "a module reads its attributes from the live globals of its code", Floor: 1, Run: moduleGlobalsAliasLive},
			{ID: "C14-R12", Title: "the module table is rebuilt for new code: an import is resolved by this evaluation's importer (shared with C11-R5)", Floor: 1, Run: c11r5},
			{ID: "C14-R13", Title: "the import root is fixed (absolute) when the importer is built", Floor: 1, Run: importRootFixedAtConstruction},
			{ID: "C14-R14", Title: "imports bind the module's own objects", Floor: 1, Run: importsBindTheModulesOwnObjects},
			{ID: "C14-R15", Title: "names are resolved to slots through the name index", Floor: 1, Run: namesAreResolvedThroughTheNameIndex},
			{ID: "C14-R16", Title: "import errors reach the script", Floor: 2, Run: importErrorsReachTheScript},
			{ID: "C14-R17", Title: "modules in progress are not imported again", Floor: 1, Run: modulesInProgressAreNotImportedAgain},
			{ID: "C14-R18", Title: "import statements always import", Floor: 1, Run: importStatementsAlwaysImport},
			{ID: "C14-R19", Title: "shared state is enumerated (shared with C09-R18)", Floor: 1, Run: sharedStateIsEnumerated},
			{ID: "C14-R20", Title: "a root is loaded only when it is asked for", Floor: 3, Run: rootsAreLoadedOnlyWhenAskedFor},
			{ID: "C14-R21", Title: "a Config is applied to the VM as a whole (shared with C11-R24)", Floor: 3, Run: theConfigurationIsAppliedAsAWhole},
			{ID: "C14-R22", Title: "walks of one list are paired by position", Floor: 1, Run: walksOfOneListArePairedByPosition},
			{ID: "C14-R23", Title: "a verdict about a module names the module", Floor: 1, Run: verdictsAboutAModuleNameTheModule},
			{ID: "C14-R24", Title: "an importer's failure is not taken for absence", Floor: 2, Run: importerFailuresAreNotTakenForAbsence},
			{ID: "C14-R25", Title: "the import root is absolute whenever it can be", Floor: 1, Run: theImportRootIsAbsoluteWheneverItCanBe},
			{ID: "C14-R26", Title: "an option of the VM sets its field whatever the value is", Floor: 1, Run: vmOptionsSetWhatTheyAreGiven},
			{ID: "C14-R27", Title: "strings in import statements are validated by the function that accepts them", Floor: 1, Run: stringsInImportStatementsAreValidated},
			{ID: "C14-R28", Title: "what holds loaded code is forgotten with it", Floor: 1, Run: whatHoldsLoadedCodeIsForgottenWithIt},
			{ID: "C14-R29", Title: "where the VM keeps script values is enumerated", Floor: 4, Run: whereTheVMKeepsScriptValuesIsEnumerated},
			{ID: "C14-R30", Title: "frames pushed for a module are restored by defer (shared with C04-R4)", Floor: 2, Run: c04r4},
			{ID: "C14-R31", Title: "a validator judges the string it was given", Floor: 1, Run: aValidatorJudgesTheStringItWasGiven},
		},
	})
}

func c14r1(c *core.Ctx) {
	p := c.P
	pp := p.Pkg("parser")
	info := pp.TypesInfo
	validator := core.LookupFunc(pp, "validateImportPath")
	if validator == nil {
		// by role: package function (string) error that uses a regexp
		funcBodies(pp, func(fn *types.Func, fd *ast.FuncDecl) {
			sig := fn.Type().(*types.Signature)
			if fd.Recv == nil && sig.Params().Len() == 1 && sig.Results().Len() == 1 && isErrorType(sig.Results().At(0).Type()) && strings.Contains(strings.ToLower(fn.Name()), "import") {
				validator = fn
			}
		})
	}
	if validator == nil {
		core.Undecidedf("import path validator not found in package parser")
	}
	vd := p.Decl(validator)
	// (a) the accepting regular expression(s): patterns whose MatchString result guards `return nil`
	// Collect every regexp pattern constant reachable from the validator (literals in the function and package-level regexps it uses).
	patterns := map[string]token.Pos{}
	collect := func(n ast.Node) {
		ast.Inspect(n, func(k ast.Node) bool {
			ce, ok := k.(*ast.CallExpr)
			if !ok {
				return true
			}
			cal := calleeOf(info, ce)
			if cal != nil && cal.Pkg() != nil && cal.Pkg().Path() == "regexp" && (cal.Name() == "MustCompile" || cal.Name() == "Compile" || cal.Name() == "MatchString") && len(ce.Args) >= 1 {
				if s, ok := constString(info, ce.Args[0]); ok {
					patterns[s] = ce.Pos()
				}
			}
			return true
		})
	}
	collect(vd.Body)
	// package-level regexps referenced by the validator
	ast.Inspect(vd.Body, func(k ast.Node) bool {
		if id, ok := k.(*ast.Ident); ok {
			if v, ok := info.Uses[id].(*types.Var); ok && v.Parent() == pp.Types.Scope() {
				for _, f := range pp.Syntax {
					for _, d := range f.Decls {
						if gd, ok := d.(*ast.GenDecl); ok {
							for _, sp := range gd.Specs {
								if vs, ok := sp.(*ast.ValueSpec); ok {
									for i, nm := range vs.Names {
										if info.Defs[nm] == v && i < len(vs.Values) {
											collect(vs.Values[i])
										}
									}
								}
							}
						}
					}
				}
			}
		}
		return true
	})
	// the whole-path pattern = the one that admits '/'
	nwhole := 0
	for pat, pos := range patterns {
		re, err := syntax.Parse(pat, syntax.Perl)
		if err != nil {
			c.Fail("parser."+validator.Name()+"|pattern-parses", p.Pos(pos), "validator pattern does not parse: "+err.Error())
			continue
		}
		admitsSlash := regexAdmits(re, '/')
		if !admitsSlash {
			// component pattern (used for error messages): must still be an identifier pattern
			continue
		}
		nwhole++
		begin, end := anchoredBothEnds(re)
		alphabetOK, badRune := regexAlphabet(re, func(r rune) bool {
			return r == '/' || r == '_' || (r >= 'a' && r <= 'z') || (r >= 'A' && r <= 'Z') || (r >= '0' && r <= '9')
		})
		c.Check(begin && end, "parser."+validator.Name()+"|pattern-anchored", p.Pos(pos),
			"the whole-path pattern of the import validator is anchored with ^ and $ (MatchString otherwise accepts any string that merely contains/starts with a valid path, e.g. \"pkg/../../outside\")"+ifs(!begin, " — missing ^")+ifs(!end, " — missing $"))
		c.Check(alphabetOK, "parser."+validator.Name()+"|pattern-alphabet", p.Pos(pos),
			"the whole-path pattern admits only identifier characters and '/'"+ifs(!alphabetOK, sprintf(" — it admits %q", badRune)))
	}
	c.Check(nwhole >= 1, "parser."+validator.Name()+"|has-whole-path-pattern", posOf(p, vd), "the validator decides acceptance with a whole-path regular expression")
	// acceptance only via the pattern: `return nil` must be dominated by a MatchString test
	// (AST: every `return nil` in the validator is inside/after an if whose condition involves MatchString)
	okAccept := true
	walkStack(vd.Body, func(n ast.Node, stack []ast.Node) bool {
		ret, ok := n.(*ast.ReturnStmt)
		if !ok || len(ret.Results) != 1 || !isNilIdent(info, ret.Results[0]) {
			return true
		}
		guarded := false
		// some earlier top-level if in the function tests MatchString and returns an error otherwise
		for _, s := range vd.Body.List {
			if s.Pos() >= ret.Pos() {
				break
			}
			if ifs, ok := s.(*ast.IfStmt); ok {
				ast.Inspect(ifs.Cond, func(k ast.Node) bool {
					if ce, ok := k.(*ast.CallExpr); ok {
						if cal := calleeOf(info, ce); cal != nil && cal.Name() == "MatchString" {
							guarded = true
						}
					}
					return true
				})
			}
		}
		for i := len(stack) - 1; i >= 0; i-- {
			if ifs, ok := stack[i].(*ast.IfStmt); ok {
				ast.Inspect(ifs.Cond, func(k ast.Node) bool {
					if ce, ok := k.(*ast.CallExpr); ok {
						if cal := calleeOf(info, ce); cal != nil && cal.Name() == "MatchString" {
							guarded = true
						}
					}
					return true
				})
			}
		}
		if !guarded {
			okAccept = false
		}
		return true
	})
	c.Check(okAccept, "parser."+validator.Name()+"|accepts-only-by-pattern", posOf(p, vd), "the validator returns nil only after the whole-path pattern was tested")

	// (b) every constructor call of Import/FromImport nodes: path arguments validated
	n := 0
	funcBodies(pp, func(fn *types.Func, fd *ast.FuncDecl) {
		// does this function call the validator and test its error?
		validates := false
		ast.Inspect(fd.Body, func(k ast.Node) bool {
			if ifs, ok := k.(*ast.IfStmt); ok {
				var call *ast.CallExpr
				ast.Inspect(ifs, func(m ast.Node) bool {
					if ce, ok := m.(*ast.CallExpr); ok && calleeOf(info, ce) == validator {
						call = ce
					}
					return true
				})
				if call != nil && call.Pos() <= ifs.Cond.End() {
					validates = true
				}
			}
			return true
		})
		idx := 0
		ast.Inspect(fd.Body, func(k ast.Node) bool {
			ce, ok := k.(*ast.CallExpr)
			if !ok {
				return true
			}
			cal := calleeOf(info, ce)
			if cal == nil || cal.Pkg() == nil || cal.Pkg().Path() != pkgPath("ast") || (cal.Name() != "NewImport" && cal.Name() != "NewFromImport") {
				return true
			}
			n++
			idx++
			// quoted paths come from STRING tokens: the function must validate; identifier forms test token.IDENT
			testsIdent := false
			ast.Inspect(fd.Body, func(m ast.Node) bool {
				if id, ok := m.(*ast.Ident); ok {
					if o := info.Uses[id]; o != nil && o.Pkg() != nil && o.Pkg().Path() == pkgPath("token") && o.Name() == "IDENT" {
						testsIdent = true
					}
				}
				return true
			})
			usesString := false
			ast.Inspect(fd.Body, func(m ast.Node) bool {
				if id, ok := m.(*ast.Ident); ok {
					if o := info.Uses[id]; o != nil && o.Pkg() != nil && o.Pkg().Path() == pkgPath("token") && o.Name() == "STRING" {
						usesString = true
					}
				}
				return true
			})
			okv := validates || (testsIdent && !usesString)
			c.Check(okv, "parser."+declName(fd)+"|"+cal.Name()+"#"+itoa(idx), posOf(p, ce), declName(fd)+" builds an import node only from identifier tokens or from path text checked by "+validator.Name()+" (error tested)")
			return true
		})
	})
	c.Stat("import_node_constructions", n)
}

func regexAdmits(re *syntax.Regexp, r rune) bool {
	switch re.Op {
	case syntax.OpLiteral:
		for _, x := range re.Rune {
			if x == r {
				return true
			}
		}
	case syntax.OpCharClass:
		for i := 0; i+1 < len(re.Rune); i += 2 {
			if re.Rune[i] <= r && r <= re.Rune[i+1] {
				return true
			}
		}
	case syntax.OpAnyChar, syntax.OpAnyCharNotNL:
		return true
	}
	for _, s := range re.Sub {
		if regexAdmits(s, r) {
			return true
		}
	}
	return false
}

func regexAlphabet(re *syntax.Regexp, ok func(rune) bool) (bool, rune) {
	switch re.Op {
	case syntax.OpLiteral:
		for _, x := range re.Rune {
			if !ok(x) {
				return false, x
			}
		}
	case syntax.OpCharClass:
		for i := 0; i+1 < len(re.Rune); i += 2 {
			for r := re.Rune[i]; r <= re.Rune[i+1] && r < re.Rune[i]+300; r++ {
				if !ok(r) {
					return false, r
				}
			}
			if re.Rune[i+1]-re.Rune[i] >= 300 {
				return false, re.Rune[i+1]
			}
		}
	case syntax.OpAnyChar, syntax.OpAnyCharNotNL:
		return false, '.'
	}
	for _, s := range re.Sub {
		if o, r := regexAlphabet(s, ok); !o {
			return false, r
		}
	}
	return true, 0
}

// anchoredBothEnds: the expression is a concatenation that starts with ^ and ends with $.
func anchoredBothEnds(re *syntax.Regexp) (bool, bool) {
	for re.Op == syntax.OpCapture && len(re.Sub) == 1 {
		re = re.Sub[0]
	}
	if re.Op != syntax.OpConcat || len(re.Sub) == 0 {
		return re.Op == syntax.OpBeginText, re.Op == syntax.OpEndText
	}
	first, last := re.Sub[0], re.Sub[len(re.Sub)-1]
	return first.Op == syntax.OpBeginText || first.Op == syntax.OpBeginLine && false, last.Op == syntax.OpEndText
}

func c14r2(c *core.Ctx) {
	p := c.P
	cp := p.Pkg("compiler")
	emit := emitMethod(p)
	consts := opConsts(p)
	imp, from := consts["Import"], consts["FromImport"]
	if imp == nil || from == nil {
		core.Undecidedf("op.Import / op.FromImport not found")
	}
	n := 0
	funcBodies(cp, func(fn *types.Func, fd *ast.FuncDecl) {
		ast.Inspect(fd.Body, func(k ast.Node) bool {
			ce, ok := k.(*ast.CallExpr)
			if !ok || calleeOf(cp.TypesInfo, ce) != emit || len(ce.Args) == 0 {
				return true
			}
			o, _ := objOf(cp.TypesInfo, ce.Args[0]).(*types.Const)
			if o != imp && o != from {
				return true
			}
			n++
			// the emitting function takes the corresponding ast node
			okf := false
			sig := fn.Type().(*types.Signature)
			for i := 0; i < sig.Params().Len(); i++ {
				if nt := core.NamedOf(sig.Params().At(i).Type()); nt != nil && nt.Obj().Pkg() != nil && nt.Obj().Pkg().Path() == pkgPath("ast") && (nt.Obj().Name() == "Import" || nt.Obj().Name() == "FromImport") {
					okf = true
				}
			}
			c.Check(okf, "compiler."+declName(fd)+"|emits:"+o.Name(), posOf(p, ce), "op."+o.Name()+" is emitted only by the compile function of the import statement node (whose path the parser validated)")
			return true
		})
	})
	// importModule callers: only the dispatch function, inside the Import/FromImport clauses
	vmp := p.Pkg("vm")
	info := vmp.TypesInfo
	vmT := core.MustType(vmp, "VirtualMachine")
	im := core.MustMethod(vmT, "importModule")
	dispatch := dispatchFunc(p)
	funcBodies(vmp, func(fn *types.Func, fd *ast.FuncDecl) {
		walkStack(fd.Body, func(k ast.Node, stack []ast.Node) bool {
			ce, ok := k.(*ast.CallExpr)
			if !ok || calleeOf(info, ce) != im {
				return true
			}
			n++
			okc := fn == dispatch
			for _, h := range VMTable(p).HelpersOf("Import", "FromImport") {
				if h == fn && callersAreAll(p, fn, dispatch) {
					// the body of the Import / FromImport clause, moved into a method of its own
					c.Pass("vm."+declName(fd)+"|calls-importModule", posOf(p, ce), "importModule is called by a method that only the handlers of op.Import / op.FromImport hand their work to")
					return true
				}
			}
			if okc {
				okc = false
				for i := len(stack) - 1; i >= 0; i-- {
					if cc, ok := stack[i].(*ast.CaseClause); ok {
						for _, e := range cc.List {
							if o, _ := objOf(info, e).(*types.Const); o == imp || o == from {
								okc = true
							}
						}
					}
				}
			}
			c.Check(okc, "vm."+declName(fd)+"|calls-importModule", posOf(p, ce), "importModule is called only by the handlers of op.Import / op.FromImport")
			return true
		})
	})
	// Importer.Import invoked only from importModule
	for _, pk := range p.Pkgs {
		rel := core.RelPkg(pk.Types)
		if strings.HasPrefix(rel, "cmd/") {
			continue
		}
		funcBodies(pk, func(fn *types.Func, fd *ast.FuncDecl) {
			ast.Inspect(fd.Body, func(k ast.Node) bool {
				ce, ok := k.(*ast.CallExpr)
				if !ok {
					return true
				}
				cal := calleeOf(pk.TypesInfo, ce)
				if cal == nil || cal.Name() != "Import" || cal.Pkg() == nil || cal.Pkg().Path() != pkgPath("importer") {
					return true
				}
				n++
				c.Check(fn == im, rel+"."+declName(fd)+"|calls-Importer.Import", posOf(p, ce), "Importer.Import is invoked only by the VM's importModule (so every import passes the module cache and the validated-name chain)")
				return true
			})
		})
	}
	c.Stat("import_chain_sites", n)
}

func c14r3(c *core.Ctx) {
	p := c.P
	ip := p.Pkg("importer")
	sp := p.SSAPkg(ip)
	n := 0
	for f := range p.AllFunctions() {
		if f.Pkg != sp || f.Blocks == nil {
			continue
		}
		for _, b := range f.Blocks {
			for _, in := range b.Instrs {
				call, ok := in.(ssa.CallInstruction)
				if !ok {
					continue
				}
				cm := call.Common()
				var pathArg ssa.Value
				name := ""
				if callee := cm.StaticCallee(); callee != nil && callee.Pkg != nil && callee.Pkg.Pkg.Path() == "os" && callee.Signature.Recv() == nil && len(cm.Args) > 0 && core.IsStringType(cm.Args[0].Type()) {
					pathArg, name = cm.Args[0], "os."+callee.Name()
				}
				if callee := cm.StaticCallee(); callee != nil && callee.Pkg != nil && callee.Pkg.Pkg.Path() == "io/fs" && len(cm.Args) > 1 && core.IsStringType(cm.Args[1].Type()) {
					pathArg, name = cm.Args[1], "fs."+callee.Name()
				}
				if cm.IsInvoke() && (cm.Method.Name() == "Open" || cm.Method.Name() == "ReadFile") && len(cm.Args) > 0 && core.IsStringType(cm.Args[0].Type()) {
					pathArg, name = cm.Args[0], "FS."+cm.Method.Name()
				}
				if pathArg == nil {
					continue
				}
				n++
				// must be filepath.Join(...)/path.Join or name+ext concatenation of parameters
				var joined func(v ssa.Value, in *ssa.Function, depth int) bool
				joined = func(v ssa.Value, in *ssa.Function, depth int) bool {
					okj := false
					for _, o := range core.Origins(v) {
						if callee := core.CalleeOfValue(o); callee != nil && callee.Pkg != nil && (callee.Pkg.Pkg.Path() == "path/filepath" || callee.Pkg.Pkg.Path() == "path") && callee.Name() == "Join" {
							okj = true
						} else if bo, ok := o.(*ssa.BinOp); ok && bo.Op == token.ADD && !strings.HasPrefix(name, "os.") {
							okj = true // name + extension: fs.FS paths are rooted by the FS itself; a host path is never glued together (an empty root would turn into "/")
						} else if prm, ok := o.(*ssa.Parameter); ok && depth < 2 && in.Signature.Recv() == nil {
							// a helper that is handed the file name: every caller in the package hands it a joined one
							idx, sites := -1, 0
							for i, q := range in.Params {
								if q == prm {
									idx = i
								}
							}
							all := idx >= 0
							for g := range p.AllFunctions() {
								if g.Pkg != sp || g.Blocks == nil {
									continue
								}
								for _, gb := range g.Blocks {
									for _, gin := range gb.Instrs {
										if gc, ok := gin.(ssa.CallInstruction); ok && gc.Common().StaticCallee() == in && idx < len(gc.Common().Args) {
											sites++
											if !joined(gc.Common().Args[idx], g, depth+1) {
												all = false
											}
										}
									}
								}
							}
							if !all || sites == 0 {
								return false
							}
							okj = true
						} else {
							return false
						}
					}
					return okj
				}
				okj := joined(pathArg, f, 0)
				// and no Abs / EvalSymlinks / Clean tricks: the joined parts are parameters or fields
				c.Check(okj, core.SSAName(f)+"|"+name, p.Pos(in.Pos()), "the file name given to "+name+" is the join of the importer's source directory and the module name plus extension")
			}
		}
	}
	c.Stat("file_accesses", n)
}

func c14r4(c *core.Ctx) {
	p := c.P
	vmp := p.Pkg("vm")
	vmT := core.MustType(vmp, "VirtualMachine")
	im := core.MustMethod(vmT, "importModule")
	sf := p.SSAFunc(im)
	dispatch := p.SSAFunc(dispatchFunc(p))
	st := vmT.Underlying().(*types.Struct)
	modulesIdx := -1
	for i := 0; i < st.NumFields(); i++ {
		if st.Field(i).Name() == "modules" {
			modulesIdx = i
		}
	}
	if modulesIdx < 0 || len(sf.Params) < 3 {
		core.Undecidedf("importModule / modules field not resolved")
	}
	nameP := sf.Params[len(sf.Params)-1]
	isModulesLoad := func(v ssa.Value) (*ssa.UnOp, bool) {
		u, ok := v.(*ssa.UnOp)
		if !ok || u.Op != token.MUL {
			return nil, false
		}
		fa, ok := u.X.(*ssa.FieldAddr)
		return u, ok && fa.Field == modulesIdx && core.NamedOf(fa.X.Type()) == vmT
	}
	var importCall, evalCall ssa.Instruction
	var lookup *ssa.Lookup
	var regs []ssa.Instruction
	order := map[ssa.Instruction]int{}
	k := 0
	for _, b := range sf.Blocks {
		for _, in := range b.Instrs {
			k++
			order[in] = k
			switch x := in.(type) {
			case *ssa.Call:
				if x.Call.IsInvoke() && x.Call.Method.Name() == "Import" {
					importCall = in
				}
				if x.Call.StaticCallee() == dispatch {
					evalCall = in
				}
			case *ssa.Lookup:
				if lookup == nil {
					if _, ok := isModulesLoad(x.X); ok && x.Index == ssa.Value(nameP) {
						lookup = x
					} else if core.DependsOn(x.X, func(v ssa.Value) bool { _, ok := isModulesLoad(v); return ok }) && x.Index == ssa.Value(nameP) {
						lookup = x
					}
				}
			case *ssa.MapUpdate:
				if core.DependsOn(x.Map, func(v ssa.Value) bool { _, ok := isModulesLoad(v); return ok }) || mapStoredToModules(sf, x.Map, modulesIdx, vmT) {
					if x.Key == ssa.Value(nameP) {
						regs = append(regs, in)
					}
				}
			}
		}
	}
	pos := p.Pos(sf.Pos())
	c.Check(lookup != nil && importCall != nil && lookup.Block().Dominates(importCall.Block()) && order[lookup] < order[importCall], "vm.VirtualMachine.importModule|miss-before-import", pos,
		"the importer is consulted only after a lookup of the module table under the requested name (a hit returns the cached module, so a module body runs at most once)")
	c.Check(len(regs) > 0, "vm.VirtualMachine.importModule|registers-under-name", pos, "a successfully imported module is registered in the module table under the requested name")
	// registration extends the table as it is *after* the module body ran
	okFresh := evalCall != nil && len(regs) > 0
	why := ""
	for _, r := range regs {
		mu := r.(*ssa.MapUpdate)
		// the map being updated: either a load of vm.modules after eval, or a new map built from such a load
		fresh := false
		var check func(v ssa.Value, depth int)
		seen := map[ssa.Value]bool{}
		check = func(v ssa.Value, depth int) {
			if v == nil || seen[v] || depth > 10 {
				return
			}
			seen[v] = true
			if u, ok := isModulesLoad(v); ok {
				if order[u] > order[evalCall] {
					fresh = true
				} else {
					why = "the table is extended from a snapshot of vm.modules taken before the module body ran (" + p.Pos(u.Pos()) + "): modules imported by that body are dropped and their bodies run again on the next import"
				}
				return
			}
			switch x := v.(type) {
			case *ssa.MakeMap:
				// new map: what is copied into it? ranges over ... modules load
				if refs := x.Referrers(); refs != nil {
					for _, rr := range *refs {
						if m2, ok := rr.(*ssa.MapUpdate); ok && m2 != mu {
							// value/keys come from a range over some map
							check(rangeSource(m2.Key), depth+1)
						}
					}
				}
			case *ssa.Phi:
				for _, e := range x.Edges {
					check(e, depth+1)
				}
			case *ssa.UnOp:
				if al, ok := x.X.(*ssa.Alloc); ok {
					if refs := al.Referrers(); refs != nil {
						for _, rr := range *refs {
							if s, ok := rr.(*ssa.Store); ok && s.Addr == ssa.Value(al) {
								check(s.Val, depth+1)
							}
						}
					}
				}
			}
		}
		check(mu.Map, 0)
		if !fresh {
			okFresh = false
			if why == "" {
				why = "cannot relate the registration to the current module table"
			}
		}
	}
	c.Check(okFresh, "vm.VirtualMachine.importModule|registers-into-current-table", pos, "the registration extends the module table as it is after the module body was evaluated"+ifs(!okFresh, ": "+why))
	// under the clone mutex
	la := core.AnalyzeLocks([]*ssa.Function{sf}, func(*ssa.Function) bool { return true })
	okLock := len(regs) > 0
	for _, r := range regs {
		held := la.At(sf, r)
		has := false
		for kk := range held {
			if strings.Contains(kk, "cloneMutex") || strings.HasPrefix(kk, "recv.") {
				has = true
			}
		}
		if !has {
			okLock = false
		}
	}
	c.Check(okLock, "vm.VirtualMachine.importModule|registers-under-lock", pos, "the registration holds the VM's clone mutex (Clone copies the table concurrently)")
}

// rangeSource: if v is the key/value of a range over a map, return the ranged map value.
func rangeSource(v ssa.Value) ssa.Value {
	e, ok := v.(*ssa.Extract)
	if !ok {
		return nil
	}
	nx, ok := e.Tuple.(*ssa.Next)
	if !ok {
		return nil
	}
	rg, ok := nx.Iter.(*ssa.Range)
	if !ok {
		return nil
	}
	return rg.X
}

// mapStoredToModules: the map value m is later stored into the modules field.
func mapStoredToModules(sf *ssa.Function, m ssa.Value, idx int, vmT *types.Named) bool {
	for _, b := range sf.Blocks {
		for _, in := range b.Instrs {
			if s, ok := in.(*ssa.Store); ok {
				if fa, ok := s.Addr.(*ssa.FieldAddr); ok && fa.Field == idx && core.NamedOf(fa.X.Type()) == vmT {
					for _, o := range core.Origins(s.Val) {
						if o == m {
							return true
						}
					}
				}
			}
		}
	}
	return false
}

// freshObject: v is an object allocated in this activation (new/composite
// literal, or the result of a repository function all of whose results are).
func freshObject(p *core.Program, v ssa.Value, depth int) bool {
	if depth > 3 {
		return false
	}
	ok := true
	n := 0
	for _, o := range core.Origins(v) {
		n++
		switch x := o.(type) {
		case *ssa.Alloc:
			if !x.Heap {
				ok = false
			}
		case *ssa.Call:
			cal := x.Call.StaticCallee()
			if cal == nil || !core.RepoFunc(cal) || cal.Blocks == nil {
				ok = false
				break
			}
			for _, b := range cal.Blocks {
				for _, in := range b.Instrs {
					if r, isR := in.(*ssa.Return); isR && len(r.Results) >= 1 {
						if !freshObject(p, spilledResult(b, r.Results[0]), depth+1) {
							ok = false
						}
					}
				}
			}
		default:
			ok = false
		}
	}
	return ok && n > 0
}

// c14r5: the globals array of a loaded code object is installed when the object
// is created and never replaced.  Functions of a module are bound to the array
// of the code object they were loaded under; giving that object a new array
// later (for a "clean" re-import) splits the module's state between the
// functions loaded before and everything loaded after.
func c14r5(c *core.Ctx) {
	p := c.P
	vmp := p.Pkg("vm")
	codeT := core.MustType(vmp, "code")
	gf := fieldByName(codeT, "Globals")
	if gf == nil {
		core.Undecidedf("vm.code.Globals not found")
	}
	cg := p.CallGraph()
	n := 0
	for fn := range p.AllFunctions() {
		if fn.Blocks == nil || fn.Pkg == nil || fn.Pkg.Pkg != vmp.Types {
			continue
		}
		for _, b := range fn.Blocks {
			for _, in := range b.Instrs {
				st, ok := in.(*ssa.Store)
				if !ok {
					continue
				}
				fa, ok := st.Addr.(*ssa.FieldAddr)
				if !ok || fieldVar(fa) != gf {
					continue
				}
				n++
				why := ""
				var judge func(base ssa.Value, f *ssa.Function, depth int) bool
				judge = func(base ssa.Value, f *ssa.Function, depth int) bool {
					if freshObject(p, base, 0) {
						return true
					}
					prm, isP := base.(*ssa.Parameter)
					if !isP || depth > 2 {
						why = "the object is not created in " + f.Name()
						return false
					}
					idx := -1
					for i, q := range f.Params {
						if q == prm {
							idx = i
						}
					}
					nd := cg.Nodes[f]
					if idx < 0 || nd == nil || len(nd.In) == 0 {
						why = "no caller passes a fresh object"
						return false
					}
					for _, e := range nd.In {
						args := e.Site.Common().Args
						if e.Site.Common().IsInvoke() || idx >= len(args) {
							why = "dynamic call"
							return false
						}
						if !judge(args[idx], e.Caller.Func, depth+1) {
							if why == "" || why[:3] != "cal" {
								why = "caller " + e.Caller.Func.Name() + " passes an existing code object (" + p.Pos(e.Site.Pos()) + ")"
							}
							return false
						}
					}
					return true
				}
				ok2 := judge(fa.X, fn, 0)
				// sharing: the value is the globals array of another code object (a child
				// takes its root's array; after a reload every child is re-pointed to the
				// new root's array)
				shares := true
				for _, o := range core.Origins(st.Val) {
					u, isLoad := o.(*ssa.UnOp)
					if !isLoad || u.Op != token.MUL {
						shares = false
						continue
					}
					fa2, isFA := u.X.(*ssa.FieldAddr)
					if !isFA || fieldVar(fa2) != gf {
						shares = false
					}
				}
				ok2 = ok2 || shares
				c.Check(ok2, core.SSAName(fn)+"|Globals-installed-at-creation", p.Pos(st.Pos()),
					"the globals array of a code object is assigned while the object is being created, or is the array of another code object (sharing its root's array); it is never replaced by a new array of its own"+ifs(!ok2, ": "+why))
			}
		}
	}
	c.Stat("globals_stores", n)
}

// callersAreAll: every static call of fn in its package is made by caller.
func callersAreAll(p *core.Program, fn, caller *types.Func) bool {
	sf := p.SSAFunc(fn)
	if sf == nil {
		return false
	}
	n := 0
	for _, g := range repoFns(p, core.RelPkg(fn.Pkg())) {
		for _, b := range g.Blocks {
			for _, in := range b.Instrs {
				for _, op := range in.Operands(nil) {
					if *op == ssa.Value(sf) {
						top := g
						for top.Parent() != nil {
							top = top.Parent()
						}
						if top.Object() != types.Object(caller) {
							return false
						}
						n++
					}
				}
			}
		}
	}
	return n > 0
}
