package rules

import (
	"go/token"
	"go/types"
	"sort"

	"golang.org/x/tools/go/ssa"

	"risorcheck/core"
)

// c09r5: a map of the VM whose entries are written under a VM mutex is never
// handed to another VM by reference.  Each VM locks its own mutex, so two VMs
// that hold the same map write it with no common lock: Clone must copy such
// maps (under the parent's mutex), not alias them.
func c09r5(c *core.Ctx) {
	p := c.P
	vmp := p.Pkg("vm")
	vmT := core.MustType(vmp, "VirtualMachine")
	st := vmT.Underlying().(*types.Struct)
	fns := repoFunctions(p)
	la := core.AnalyzeLocks(fns, exportedEntry)
	guarded := map[int]string{} // field index -> lock name
	for _, fn := range fns {
		if fn.Pkg == nil || fn.Pkg.Pkg != vmp.Types {
			continue
		}
		for _, b := range fn.Blocks {
			for _, in := range b.Instrs {
				mu, ok := in.(*ssa.MapUpdate)
				if !ok {
					continue
				}
				for _, o := range core.Origins(mu.Map) {
					u, ok := o.(*ssa.UnOp)
					if !ok || u.Op != token.MUL {
						continue
					}
					fa, ok := u.X.(*ssa.FieldAddr)
					if !ok || core.NamedOf(fa.X.Type()) != vmT {
						continue
					}
					held := la.At(fn, in)
					for _, name := range held.Names() {
						guarded[fa.Field] = name
					}
				}
			}
		}
	}
	if len(guarded) == 0 {
		core.Undecidedf("no VM map is written under a VM mutex")
	}
	var idxs []int
	for i := range guarded {
		idxs = append(idxs, i)
	}
	sort.Ints(idxs)
	n := 0
	for _, fn := range fns {
		if fn.Pkg == nil || fn.Pkg.Pkg != vmp.Types {
			continue
		}
		for _, b := range fn.Blocks {
			for _, in := range b.Instrs {
				s, ok := in.(*ssa.Store)
				if !ok {
					continue
				}
				fa, ok := s.Addr.(*ssa.FieldAddr)
				if !ok || core.NamedOf(fa.X.Type()) != vmT {
					continue
				}
				lock, isG := guarded[fa.Field]
				if !isG {
					continue
				}
				n++
				// the stored map must not be (a load of) the same field of a VM object
				alias := ""
				for _, o := range core.Origins(s.Val) {
					if u, ok := o.(*ssa.UnOp); ok && u.Op == token.MUL {
						if fa2, ok := u.X.(*ssa.FieldAddr); ok && core.NamedOf(fa2.X.Type()) == vmT {
							if !core.SameStorage(fa2.X, fa.X) && fa2.X != fa.X {
								alias = "the " + st.Field(fa2.Field).Name() + " map of another VM"
							}
						}
					}
				}
				c.Check(alias == "", core.SSAName(fn)+"|"+st.Field(fa.Field).Name()+"|not-aliased-across-VMs", p.Pos(s.Pos()),
					"vm."+st.Field(fa.Field).Name()+" (entries written under "+lock+") is given to a VM as a fresh or copied map"+ifs(alias != "", "; here it receives "+alias+": both VMs then write one map, each under its own mutex"))
			}
		}
	}
	c.Stat("guarded_vm_maps", len(guarded))
}
