package rules

import (
	"go/types"

	"golang.org/x/tools/go/ssa"

	"risorcheck/core"
)

// c19r4: a string method that is implemented by its Go namesake returns that
// function's result on every path.  A fast path that answers a special case
// (empty separator, empty string, ...) by other means stops agreeing with Go on
// exactly the inputs nobody tries: invalid UTF-8, overlapping matches, empty
// operands.
func c19r4(c *core.Ctx) {
	p := c.P
	op := p.Pkg("object")
	strT := core.MustType(op, "String")
	var goStrings *types.Package
	for _, im := range op.Types.Imports() {
		if im.Path() == "strings" {
			goStrings = im
		}
	}
	if goStrings == nil {
		core.Undecidedf("package object does not import strings")
	}
	n := 0
	for _, m := range core.Methods(strT) {
		target, _ := goStrings.Scope().Lookup(m.Name()).(*types.Func)
		if target == nil {
			continue
		}
		sf := p.SSAFunc(m)
		if sf == nil || sf.Blocks == nil {
			continue
		}
		isTarget := func(w ssa.Value) bool {
			call, ok := w.(*ssa.Call)
			if !ok {
				return false
			}
			cal := call.Call.StaticCallee()
			return cal != nil && cal.Object() == types.Object(target)
		}
		uses := false
		for _, b := range sf.Blocks {
			for _, in := range b.Instrs {
				if v, ok := in.(ssa.Value); ok && isTarget(v) {
					uses = true
				}
			}
		}
		if !uses {
			continue // implemented independently: nothing to agree with here
		}
		// a method of the object model (Compare of Comparable: (int, error)) is
		// not the script's wrapper of the Go function of that name, whatever it
		// uses: the wrappers return script objects
		if res := sf.Signature.Results(); res.Len() > 0 {
			if _, basic := res.At(0).Type().Underlying().(*types.Basic); basic {
				continue
			}
		}
		n++
		bad := ""
		for _, b := range sf.Blocks {
			for _, in := range b.Instrs {
				r, ok := in.(*ssa.Return)
				if !ok || len(r.Results) == 0 {
					continue
				}
				// a (value, error) function on the path on which it reports an error
				if k := len(r.Results); k > 1 && isErrorType(r.Results[k-1].Type()) {
					if cst, isConst := r.Results[k-1].(*ssa.Const); !isConst || !cst.IsNil() {
						continue
					}
				}
				rv := spilledResult(b, r.Results[0])
				if isErrorType(rv.Type()) || core.IsNamed(rv.Type(), pkgPath("object"), "Error") {
					continue
				}
				// an error object returned through the Object interface
				allErr := true
				for _, o := range core.Origins(rv) {
					t := o.Type()
					if mi, ok := o.(*ssa.MakeInterface); ok {
						t = mi.X.Type()
					}
					if !core.IsNamed(t, pkgPath("object"), "Error") {
						allErr = false
					}
				}
				if allErr {
					continue
				}
				if onErrorBranch(b) {
					continue // argument conversion failed: nothing to compute
				}
				if !isTarget(rv) && !core.DependsOn(rv, isTarget) {
					bad = p.Pos(r.Pos())
				}
			}
		}
		c.Check(bad == "", "object.String."+m.Name()+"|returns-strings."+m.Name(), p.Pos(sf.Pos()),
			"String."+m.Name()+" is implemented by strings."+m.Name()+" and returns its result on every path"+ifs(bad != "", "; the return at "+bad+" does not come from strings."+m.Name()))
	}
	c.Stat("string_methods_with_namesake", n)
}

// onErrorBranch: b is reached only when some error value tested non-nil.
func onErrorBranch(b *ssa.BasicBlock) bool {
	for d := b.Idom(); d != nil; d = d.Idom() {
		if len(d.Instrs) == 0 {
			continue
		}
		iff, ok := d.Instrs[len(d.Instrs)-1].(*ssa.If)
		if !ok {
			continue
		}
		bo, ok := iff.Cond.(*ssa.BinOp)
		if !ok || bo.Op.String() != "!=" {
			continue
		}
		k, isC := bo.Y.(*ssa.Const)
		if !isC || !k.IsNil() {
			continue
		}
		if !isErrorType(bo.X.Type()) && !core.IsNamed(bo.X.Type(), pkgPath("object"), "Error") {
			continue
		}
		t := d.Succs[0]
		if t == b || t.Dominates(b) {
			return true
		}
	}
	return false
}
