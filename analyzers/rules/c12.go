package rules

import (
	"go/ast"
	"go/token"
	"go/types"
	"sort"
	"strings"

	"golang.org/x/tools/go/packages"

	"risorcheck/core"
)

func init() {
	core.Register(&core.Property{
		ID: "C12",
		Decided: "Who-may-call / layering clauses that make a host-supplied OS the only route to the operating system: " +
			"(R1) no function of the mediated packages (modules/os, modules/filepath, modules/fmt, builtins, object and every repository package they import, " +
			"except risor's own os implementation tree) references a host-touching object of Go's os, os/user, os/exec, syscall, io/ioutil, path/filepath (Abs, Glob, Walk, WalkDir, EvalSymlinks), " +
			"fmt.Print*, log.* or the print/println builtins; (R2) every call of an OS getter (os.GetOS, os.GetDefaultOS and the thin wrappers around them) in the root module passes the context parameter of the " +
			"enclosing function (or a context derived from it), never Background/TODO or a stored context; (R3) in package vm every context that reaches the dispatch function, callFunction or object.NewThread " +
			"from an entry point is the result of initContext on the same VM, initContext installs the OS on every path, the OS fallback chain never overrides a context-supplied OS and never caches the default, " +
			"and every VirtualMachine field an Option writes is copied by Clone; (R4) os.GetDefaultOS falls back to the real OS only when the context holds none.",
		NotCovered: "Host-supplied os.OS implementations themselves (VirtualOS / SimpleOS semantics), reads of module files by import, behaviour of separately versioned modules (analysed only in the thorough tier when they load offline). The rules decide the layering, not the run-time call log.",
		Assumptions: []string{
			"go/types resolution of identifiers; the table of host-touching standard-library objects in rules/c12.go",
			"methods called on values of risor's os.OS / os.FS / os.File interfaces are the mediation points",
		},
		Rules: []*core.Rule{
			{ID: "C12-R1", Title: "no direct host-OS access in mediated packages", Floor: 5, Run: c12r1},
			{ID: "C12-R2", Title: "OS getters receive the caller's context", Floor: 25, Run: c12r2},
			{ID: "C12-R3", Title: "VM propagates the OS (initContext, getOS, Clone)", Floor: 8, Run: c12r3},
			{ID: "C12-R4", Title: "GetDefaultOS prefers the context OS", Floor: 1, Run: c12r4},
			{ID: "C12-R5", Title: "the run context (and the OS in it) is derived from this invocation's context", Floor: 1, Run: runCtxFromArgument},
			{ID: "C12-R6", Title: "VirtualOS methods stay virtual", Floor: 20, Run: virtualOSStaysVirtual},
			{ID: "C12-R7", Title: "option lists handed to the VM come from Config.VMOpts", Floor: 2, Run: vmOptionsFromConfig},
			{ID: "C12-R8", Title: "context installers return a derived context carrying the value", Floor: 3, Run: ctxInstallersReturnDerived},
			{ID: "C12-R9", Title: "contexts made from nothing are an explicit table (shared with C06)", Floor: 6, Run: detachedContextsAreEnumerated},
			{ID: "C12-R10", Title: "the mediated modules keep no run-time state", Floor: 1, Run: mediatedModulesKeepNoState},
			{ID: "C12-R11", Title: "http request handlers run under the evaluation's context (shared with C06)", Floor: 2, Run: httpServersFollowTheEvaluation},
			{ID: "C12-R12", Title: "OS implementations agree on the constants they answer with", Floor: 1, Run: osImplementationsAgreeOnConstants},
			{ID: "C12-R13", Title: "attribute resolvers keep nothing across contexts", Floor: 1, Run: resolversKeepNothing},
			{ID: "C12-R14", Title: "the virtual OS does not reach the process", Floor: 1, Run: virtualOSDoesNotReachTheProcess},
			{ID: "C12-R15", Title: "the OS given to the VM comes before the context's", Floor: 1, Run: theOSGivenToTheVMComesFirst},
			{ID: "C12-R16", Title: "a Config is applied to the VM as a whole (shared with C11-R24)", Floor: 3, Run: theConfigurationIsAppliedAsAWhole},
			{ID: "C12-R17", Title: "the VM installs its own context values on every path", Floor: 3, Run: theVMInstallsItsOwnContextValuesOnEveryPath},
			{ID: "C12-R18", Title: "options keep what they are given", Floor: 1, Run: optionsKeepWhatTheyAreGiven},
			{ID: "C12-R19", Title: "options that are refused are rolled back, the OS among them (shared with C11-R23)", Floor: 3, Run: refusedOptionsAreRolledBack},
			{ID: "C12-R20", Title: "the virtual OS asks itself, not the package", Floor: 20, Run: theVirtualOSAsksItselfNotThePackage},
			{ID: "C12-R21", Title: "an option of the VM sets its field whatever the value is (shared with C14-R26)", Floor: 3, Run: vmOptionsSetWhatTheyAreGiven},
		},
	})
}

// mediatedPackages: the five named packages plus their repository imports,
// minus risor's os implementation tree.
func mediatedPackages(p *core.Program) []*packages.Package {
	seeds := []string{"modules/os", "modules/filepath", "modules/fmt", "builtins", "object"}
	seen := map[string]bool{}
	var out []*packages.Package
	var visit func(pk *packages.Package)
	visit = func(pk *packages.Package) {
		rel := core.RelPkg(pk.Types)
		if seen[rel] || !core.InRepo(pk.Types) {
			return
		}
		seen[rel] = true
		if rel == "os" || strings.HasPrefix(rel, "os/") {
			return
		}
		if p.ByRel[strings.TrimPrefix(rel, "./")] == nil && rel != "." {
			return
		}
		out = append(out, pk)
		for _, im := range pk.Imports {
			visit(im)
		}
	}
	for _, s := range seeds {
		visit(p.Pkg(s))
	}
	sort.Slice(out, func(i, j int) bool { return out[i].PkgPath < out[j].PkgPath })
	return out
}

// hostTouching classifies a used object as direct host-OS access.
func hostTouching(o types.Object) (bool, string) {
	if o == nil || o.Pkg() == nil {
		if b, ok := o.(*types.Builtin); ok && (b.Name() == "print" || b.Name() == "println") {
			return true, "builtin " + b.Name() + " writes to the real stderr"
		}
		return false, ""
	}
	path, name := o.Pkg().Path(), o.Name()
	// only package-level objects (methods on os types need a value that had
	// to be obtained through a package-level object first)
	if o.Parent() != o.Pkg().Scope() {
		return false, ""
	}
	switch path {
	case "os":
		switch o.(type) {
		case *types.TypeName, *types.Const:
			return false, ""
		}
		if strings.HasPrefix(name, "Err") {
			return false, ""
		}
		switch name {
		case "IsExist", "IsNotExist", "IsPermission", "IsTimeout", "IsPathSeparator", "NewSyscallError", "SameFile":
			return false, ""
		}
		return true, "os." + name
	case "os/user", "os/exec", "os/signal":
		if _, ok := o.(*types.TypeName); ok {
			return false, ""
		}
		if strings.HasPrefix(name, "Err") {
			return false, ""
		}
		return true, path + "." + name
	case "syscall":
		switch o.(type) {
		case *types.TypeName, *types.Const:
			return false, ""
		}
		if _, ok := o.(*types.Var); ok {
			return true, "syscall." + name
		}
		return true, "syscall." + name
	case "io/ioutil":
		switch name {
		case "ReadFile", "WriteFile", "ReadDir", "TempDir", "TempFile":
			return true, "ioutil." + name
		}
	case "path/filepath":
		switch name {
		case "Abs", "Glob", "Walk", "WalkDir", "EvalSymlinks":
			return true, "filepath." + name + " consults the real working directory / filesystem"
		}
	case "fmt":
		switch name {
		case "Print", "Printf", "Println":
			return true, "fmt." + name + " writes to the real stdout"
		}
	case "log":
		if _, ok := o.(*types.Func); ok && name != "New" {
			return true, "log." + name + " writes to the real stderr"
		}
	}
	return false, ""
}

func c12r1(c *core.Ctx) {
	p := c.P
	pkgs := mediatedPackages(p)
	helpers := hostHelpers(p, pkgs)
	nuses := 0
	for _, pk := range pkgs {
		rel := core.RelPkg(pk.Types)
		viol := 0
		funcBodies(pk, func(fn *types.Func, fd *ast.FuncDecl) {
			ast.Inspect(fd, func(n ast.Node) bool {
				id, ok := n.(*ast.Ident)
				if !ok {
					return true
				}
				o := pk.TypesInfo.Uses[id]
				if o == nil {
					return true
				}
				if o.Pkg() != nil && !core.InRepo(o.Pkg()) {
					nuses++
				}
				if bad, why := hostTouching(o); bad {
					viol++
					c.Fail(rel+"."+declName(fd)+"|"+why, posOf(p, id), "mediated code references "+why+" directly instead of going through the OS taken from the context")
				}
				if f, ok := o.(*types.Func); ok && helpers[f] != "" {
					viol++
					c.Fail(rel+"."+declName(fd)+"|via:"+core.FuncName(f), posOf(p, id), "mediated code references "+core.FuncName(f)+", a package-level helper that goes straight to the host ("+helpers[f]+") instead of through the OS taken from the context")
				}
				return true
			})
		})
		// package-level initialisers
		for _, file := range pk.Syntax {
			for _, d := range file.Decls {
				gd, ok := d.(*ast.GenDecl)
				if !ok {
					continue
				}
				ast.Inspect(gd, func(n ast.Node) bool {
					if id, ok := n.(*ast.Ident); ok {
						if bad, why := hostTouching(pk.TypesInfo.Uses[id]); bad {
							viol++
							c.Fail(rel+".<pkg-init>|"+why, posOf(p, id), "package-level initialiser of mediated package references "+why)
						}
					}
					return true
				})
			}
		}
		if viol == 0 {
			c.Pass(rel+"|no-direct-os", rel, "no host-touching reference in package "+rel)
		}
	}
	c.Stat("mediated_packages", len(pkgs))
	c.Stat("foreign_identifier_uses_scanned", nuses)
}

// osGetters: os.GetOS, os.GetDefaultOS and repository functions of shape
// func(ctx) os.OS that return a getter applied to their parameter.
func osGetters(p *core.Program) map[*types.Func]bool {
	ros := p.Pkg("os")
	out := map[*types.Func]bool{}
	for _, n := range []string{"GetOS", "GetDefaultOS"} {
		f := core.LookupFunc(ros, n)
		if f == nil {
			core.Undecidedf("anchor os.%s not found", n)
		}
		out[f] = true
	}
	changed := true
	for changed {
		changed = false
		for _, pk := range p.Pkgs {
			funcBodies(pk, func(fn *types.Func, fd *ast.FuncDecl) {
				if out[fn] || fd.Recv != nil {
					return
				}
				sig := fn.Type().(*types.Signature)
				if sig.Params().Len() != 1 || !isContext(sig.Params().At(0).Type()) || sig.Results().Len() != 1 {
					return
				}
				if len(fd.Body.List) != 1 {
					return
				}
				ret, ok := fd.Body.List[0].(*ast.ReturnStmt)
				if !ok || len(ret.Results) != 1 {
					return
				}
				call, ok := ret.Results[0].(*ast.CallExpr)
				if !ok || len(call.Args) != 1 {
					return
				}
				if cal := calleeOf(pk.TypesInfo, call); cal != nil && out[cal] {
					if id, ok := call.Args[0].(*ast.Ident); ok && pk.TypesInfo.Uses[id] == sig.Params().At(0) {
						out[fn] = true
						changed = true
					}
				}
			})
		}
	}
	return out
}

// ctxDerivedFromParam: e is a context parameter of an enclosing function, or
// a local whose every assignment is context.With*(derived, ...) / a repo
// function taking a derived context and returning a context.
func ctxDerivedFromParam(info *types.Info, e ast.Expr, params map[types.Object]bool, assigns map[types.Object][]ast.Expr, depth int) bool {
	if depth > 6 {
		return false
	}
	switch x := ast.Unparen(e).(type) {
	case *ast.Ident:
		o := info.Uses[x]
		if o == nil {
			return false
		}
		if params[o] && isContext(o.Type()) {
			// a parameter that is re-assigned inside the function must only
			// be re-assigned derived contexts
			for _, rhs := range assigns[o] {
				if !ctxDerivedFromParam(info, rhs, params, withoutKey(assigns, o), depth+1) {
					return false
				}
			}
			return true
		}
		rhss := assigns[o]
		if len(rhss) == 0 {
			return false
		}
		for _, rhs := range rhss {
			if !ctxDerivedFromParam(info, rhs, params, withoutKey(assigns, o), depth+1) {
				return false
			}
		}
		return true
	case *ast.CallExpr:
		cal := calleeOf(info, x)
		if cal == nil || len(x.Args) == 0 {
			return false
		}
		sig := cal.Type().(*types.Signature)
		if sig.Params().Len() == 0 || !isContext(sig.Params().At(0).Type()) {
			// method with ctx argument somewhere, e.g. vm.initContext(ctx)
			for i := 0; i < sig.Params().Len() && i < len(x.Args); i++ {
				if isContext(sig.Params().At(i).Type()) {
					return ctxDerivedFromParam(info, x.Args[i], params, assigns, depth+1)
				}
			}
			return false
		}
		return ctxDerivedFromParam(info, x.Args[0], params, assigns, depth+1)
	}
	return false
}

func withoutKey(m map[types.Object][]ast.Expr, k types.Object) map[types.Object][]ast.Expr {
	out := make(map[types.Object][]ast.Expr, len(m))
	for kk, v := range m {
		if kk != k {
			out[kk] = v
		}
	}
	return out
}

func c12r2(c *core.Ctx) {
	p := c.P
	getters := osGetters(p)
	c.Stat("os_getters", len(getters))
	for _, pk := range p.Pkgs {
		rel := core.RelPkg(pk.Types)
		funcBodies(pk, func(fn *types.Func, fd *ast.FuncDecl) {
			if getters[fn] && rel != "os" {
				return // the wrapper itself was validated structurally
			}
			assigns := localAssignments(pk.TypesInfo, fd.Body)
			idx := map[string]int{}
			walkStack(fd, func(n ast.Node, stack []ast.Node) bool {
				call, ok := n.(*ast.CallExpr)
				if !ok {
					return true
				}
				cal := calleeOf(pk.TypesInfo, call)
				if cal == nil || !getters[cal] || len(call.Args) != 1 {
					return true
				}
				if rel == "os" && getters[fn] {
					return true // GetDefaultOS -> GetOS(ctx): see C12-R4
				}
				params := enclosingParams(pk.TypesInfo, append(stack, n))
				k := rel + "." + declName(fd) + "|" + cal.Name()
				idx[k]++
				key := k + "#" + itoa(idx[k])
				ok2 := ctxDerivedFromParam(pk.TypesInfo, call.Args[0], params, assigns, 0)
				c.Check(ok2, key, posOf(p, call),
					"OS getter "+core.FuncName(cal)+" receives "+exprStr(call.Args[0])+", which must be (derived from) the enclosing function's context parameter",
				)
				return true
			})
		})
	}
}

func itoa(i int) string { return sprintf("%d", i) }

func c12r3(c *core.Ctx) {
	p := c.P
	vmp := p.Pkg("vm")
	info := vmp.TypesInfo
	vmT := core.MustType(vmp, "VirtualMachine")
	initCtx := core.MustMethod(vmT, "initContext")
	getOS := core.MustMethod(vmT, "getOS")
	evalFn := dispatchFunc(p)
	callFn := core.MustMethod(vmT, "callFunction")
	ros := p.Pkg("os")
	withOS := core.LookupFunc(ros, "WithOS")
	rosGetOS := core.LookupFunc(ros, "GetOS")
	newSimple := core.LookupFunc(ros, "NewSimpleOS")
	newThread := core.LookupFunc(p.Pkg("object"), "NewThread")
	if withOS == nil || rosGetOS == nil || newSimple == nil || newThread == nil {
		core.Undecidedf("anchors os.WithOS/os.GetOS/os.NewSimpleOS/object.NewThread not all found")
	}

	// (a) context arguments of eval / callFunction / NewThread.
	// A context is "initialised" if it is initContext(x) on the receiver VM of
	// the call, or the enclosing method's own context parameter when that
	// method is unexported and all of its callers pass initialised contexts
	// (fixpoint over the methods of VirtualMachine and closures stored by
	// initContext).
	type site struct {
		fd    *ast.FuncDecl
		call  *ast.CallExpr
		cal   *types.Func
		arg   ast.Expr
		recv  ast.Expr
		stack []ast.Node
	}
	var sites []site
	funcBodies(vmp, func(fn *types.Func, fd *ast.FuncDecl) {
		walkStack(fd, func(n ast.Node, stack []ast.Node) bool {
			call, ok := n.(*ast.CallExpr)
			if !ok {
				return true
			}
			cal := calleeOf(info, call)
			if cal == nil {
				return true
			}
			sig := cal.Type().(*types.Signature)
			if cal != evalFn && cal != callFn && cal != newThread {
				// any other vm method taking a context and reaching eval is
				// covered through the fixpoint below
				if core.RecvNamed(cal) != vmT {
					return true
				}
			}
			for i := 0; i < sig.Params().Len() && i < len(call.Args); i++ {
				if isContext(sig.Params().At(i).Type()) {
					var recv ast.Expr
					if se, ok := ast.Unparen(call.Fun).(*ast.SelectorExpr); ok {
						if _, isSel := info.Selections[se]; isSel {
							recv = se.X
						}
					}
					st := append([]ast.Node{}, stack...)
					sites = append(sites, site{fd, call, cal, call.Args[i], recv, append(st, n)})
					break
				}
			}
			return true
		})
	})
	// trusted[fn] = the context parameter of method fn is initialised at every call
	exported := func(f *types.Func) bool { return f.Exported() }
	trusted := map[*types.Func]bool{}
	for _, m := range core.Methods(vmT) {
		if !exported(m) && m != initCtx && m != getOS {
			trusted[m] = true // optimistic; greatest fixpoint
		}
	}
	isInit := func(s site) (bool, string) {
		arg := ast.Unparen(s.arg)
		if call, ok := arg.(*ast.CallExpr); ok {
			if calleeOf(info, call) == initCtx {
				// same VM: receiver of initContext must be the receiver of the call
				if se, ok := ast.Unparen(call.Fun).(*ast.SelectorExpr); ok && s.recv != nil {
					a, b := objOf(info, se.X), objOf(info, s.recv)
					if a != nil && a == b {
						return true, ""
					}
					return false, "initContext is called on " + exprStr(se.X) + " but the context is used on " + exprStr(s.recv)
				}
				if s.recv == nil { // object.NewThread(clone.initContext(ctx), ...)
					return true, ""
				}
			}
		}
		if id, ok := arg.(*ast.Ident); ok {
			o := info.Uses[id]
			encl := info.Defs[s.fd.Name].(*types.Func)
			params := enclosingParams(info, s.stack)
			if params[o] && isContext(o.Type()) {
				// parameter of the enclosing method (or of a closure in it)
				if trusted[encl] {
					return true, ""
				}
				return false, "context parameter of " + declName(s.fd) + " is not known to be initialised"
			}
		}
		return false, exprStr(s.arg) + " is not the result of initContext"
	}
	// Methods whose value escapes through initContext (callFunction,
	// cloneCallAsync, cloneCallSync) are invoked by builtins with the context
	// the builtin received, which is the initialised one (it was handed out by
	// eval). They stay trusted only if eval itself only passes its own context
	// parameter to builtins — checked by the sites inside eval below.
	for changed := true; changed; {
		changed = false
		for _, s := range sites {
			if core.RecvNamed(s.cal) != vmT || !trusted[s.cal] {
				continue
			}
			if ok, _ := isInit(s); !ok {
				trusted[s.cal] = false
				changed = true
			}
		}
	}
	n := 0
	for _, s := range sites {
		if s.cal != evalFn && s.cal != callFn && s.cal != newThread {
			continue
		}
		n++
		ok, why := isInit(s)
		// clones: the receiver must be the VM that produced the context
		c.Check(ok, "vm."+declName(s.fd)+"|ctx->"+s.cal.Name(), posOf(p, s.call),
			"context handed to "+s.cal.Name()+" must come from initContext of the same VM"+ifs(why != "", ": "+why))
	}
	c.Stat("vm_context_sites", n)

	// (a') builtins called from the dispatch function receive eval's ctx:
	// every call inside eval that passes a context passes eval's parameter.
	evalDecl := p.Decl(evalFn)
	evalCtx := ctxParam(info, evalDecl)
	walkStack(evalDecl.Body, func(n ast.Node, stack []ast.Node) bool {
		call, ok := n.(*ast.CallExpr)
		if !ok {
			return true
		}
		t := info.TypeOf(call.Fun)
		sig, _ := t.(*types.Signature)
		if sig == nil {
			if t != nil {
				sig, _ = t.Underlying().(*types.Signature)
			}
		}
		if sig == nil {
			return true
		}
		for i := 0; i < sig.Params().Len() && i < len(call.Args); i++ {
			if isContext(sig.Params().At(i).Type()) {
				id, _ := ast.Unparen(call.Args[i]).(*ast.Ident)
				ok := id != nil && info.Uses[id] == evalCtx
				c.Check(ok, "vm."+declName(evalDecl)+"|ctx-arg|"+calleeLabel(info, call), posOf(p, call),
					"calls made by the dispatch function pass its own (initialised) context; got "+exprStr(call.Args[i]))
			}
		}
		return true
	})

	// (b) initContext installs the OS on all paths: first statement sequence
	// contains ctx = os.WithOS(ctx, vm.getOS(ctx)) unconditionally.
	icd := p.Decl(initCtx)
	if icd == nil {
		core.Undecidedf("initContext has no body")
	}
	installed := false
	for _, st := range icd.Body.List { // top-level statements only = unconditional
		as, ok := st.(*ast.AssignStmt)
		if !ok || len(as.Rhs) != 1 {
			continue
		}
		call, ok := as.Rhs[0].(*ast.CallExpr)
		if ok && calleeOf(info, call) == withOS && len(call.Args) == 2 {
			// second argument must come from getOS on the receiver
			src := call.Args[1]
			if id, ok := src.(*ast.Ident); ok {
				for _, rhs := range localAssignments(info, icd.Body)[info.Uses[id]] {
					src = rhs
				}
			}
			if c2, ok := ast.Unparen(src).(*ast.CallExpr); ok && calleeOf(info, c2) == getOS {
				installed = true
			}
		}
	}
	// the returned context must be the one assigned
	c.Check(installed, "vm.VirtualMachine.initContext|WithOS(getOS)", posOf(p, icd),
		"initContext unconditionally installs os.WithOS(ctx, vm.getOS(ctx)) into the context it returns")
	retOK := true
	ctxP := ctxParam(info, icd)
	ast.Inspect(icd.Body, func(n ast.Node) bool {
		if r, ok := n.(*ast.ReturnStmt); ok && len(r.Results) == 1 {
			id, _ := r.Results[0].(*ast.Ident)
			if id == nil || info.Uses[id] != ctxP {
				retOK = false
			}
		}
		if _, ok := n.(*ast.FuncLit); ok {
			return false
		}
		return true
	})
	c.Check(retOK, "vm.VirtualMachine.initContext|returns-ctx", posOf(p, icd), "initContext returns the context it decorated")

	// (c) getOS: context OS wins; vm.os second; NewSimpleOS last; no store to vm.os.
	god := p.Decl(getOS)
	osField := fieldByName(vmT, "os")
	if god == nil || osField == nil {
		core.Undecidedf("getOS body or VirtualMachine.os field not found")
	}
	// order of return statements at top level: classify each return source
	var order []string
	for _, st := range god.Body.List {
		ast.Inspect(st, func(n ast.Node) bool {
			r, ok := n.(*ast.ReturnStmt)
			if !ok || len(r.Results) != 1 {
				return true
			}
			e := ast.Unparen(r.Results[0])
			switch {
			case fieldOf(info, e) == osField:
				order = append(order, "vm.os")
			case isCallTo(info, e, newSimple):
				order = append(order, "default")
			default:
				// a local assigned from os.GetOS(ctx)
				if id, ok := e.(*ast.Ident); ok {
					src := "?"
					for _, rhs := range localAssignments(info, god.Body)[info.Uses[id]] {
						if isCallTo(info, rhs, rosGetOS) {
							src = "ctx"
						} else if fieldOf(info, rhs) == osField {
							src = "vm.os"
						} else if isCallTo(info, rhs, newSimple) {
							src = "default"
						}
					}
					order = append(order, src)
				} else {
					order = append(order, "?")
				}
			}
			return true
		})
	}
	// both host-supplied sources are consulted before the default, which comes
	// last (which of the two comes first is C12-R15's obligation)
	hasCtx, hasOwn := false, false
	for _, o := range order[:maxInt(len(order)-1, 0)] {
		if o == "ctx" {
			hasCtx = true
		}
		if o == "vm.os" {
			hasOwn = true
		}
	}
	good := len(order) >= 3 && hasCtx && hasOwn && order[len(order)-1] == "default"
	for _, o := range order {
		if o == "?" {
			good = false
		}
	}
	c.Check(good, "vm.VirtualMachine.getOS|precedence", posOf(p, god),
		"getOS consults the OS given with WithOS and the OS carried by the context, and falls back to the default last (found order: "+strings.Join(order, " > ")+")")

	// who-may-write VirtualMachine.os: Option closures and composite literals only
	nw := 0
	funcBodies(vmp, func(fn *types.Func, fd *ast.FuncDecl) {
		isOpt := returnsOption(fn)
		ast.Inspect(fd.Body, func(n ast.Node) bool {
			as, ok := n.(*ast.AssignStmt)
			if !ok {
				return true
			}
			for li, l := range as.Lhs {
				if fieldOf(info, l) == osField {
					// putting back what the same function read from the field (options that are
					// refused are rolled back) brings in no new source
					if len(as.Rhs) == len(as.Lhs) {
						if id, ok := ast.Unparen(as.Rhs[li]).(*ast.Ident); ok && savedFromField(info, fd, id, osField) {
							continue
						}
					}
					nw++
					c.Check(isOpt, "vm."+declName(fd)+"|write:VirtualMachine.os", posOf(p, as),
						"VirtualMachine.os is written only by Option constructors (a cached default would shadow a context-supplied OS on reuse and in clones)")
				}
			}
			return true
		})
	})
	c.Stat("vm_os_field_writes", nw)

	// (d) Option-written fields are copied by Clone.
	optFields := map[*types.Var]string{}
	funcBodies(vmp, func(fn *types.Func, fd *ast.FuncDecl) {
		if !returnsOption(fn) {
			return
		}
		ast.Inspect(fd.Body, func(n ast.Node) bool {
			switch s := n.(type) {
			case *ast.AssignStmt:
				for _, l := range s.Lhs {
					if f := rootField(info, l, vmT); f != nil {
						optFields[f] = fn.Name()
					}
				}
			case *ast.IncDecStmt:
				if f := rootField(info, s.X, vmT); f != nil {
					optFields[f] = fn.Name()
				}
			}
			return true
		})
	})
	cloneM := core.MustMethod(vmT, "Clone")
	cd := p.Decl(cloneM)
	// how Clone (and the helpers it hands the work to) fills the new VM
	cm := cloneModelOf(p)
	vmStruct := vmT.Underlying().(*types.Struct)
	fieldIndex := func(f *types.Var) int {
		for i := 0; i < vmStruct.NumFields(); i++ {
			if vmStruct.Field(i) == f {
				return i
			}
		}
		return -1
	}
	perRun := map[string]bool{
		"ip":           true, // the instruction offset is per-run state, reset to 0 in a clone by design
		"globalsGiven": true, // set and cleared while one set of options is applied (applyOptions resets it before its loop); never read afterwards
	}
	var names []string
	byName := map[string]*types.Var{}
	for f := range optFields {
		names = append(names, f.Name())
		byName[f.Name()] = f
	}
	sort.Strings(names)
	for _, n := range names {
		f := byName[n]
		if perRun[n] {
			c.Pass("vm.VirtualMachine.Clone|field:"+n, posOf(p, cd), "per-run field "+n+" (set by "+optFields[f]+") is reset in clones by design")
			continue
		}
		// the field is the original's value itself, or a table filled entry by
		// entry from the original's table of the same name (in a loop or by a copier)
		inits := cm.InitOf(fieldIndex(f))
		ok := len(inits) > 0
		okv := ok
		var v ast.Expr
		for _, in := range inits {
			if (in.Kind != "alias" && in.Kind != "copy") || in.Source != in.Field {
				okv = false
			}
		}
		_ = v
		where := ""
		if ok && !okv {
			where = " (Clone sets it to something else at " + p.Pos(inits[0].Store.Pos()) + ")"
		}
		c.Check(okv, "vm.VirtualMachine.Clone|field:"+n, posOf(p, cd),
			"field "+n+" written by option "+optFields[f]+" must be copied from the original by Clone()"+where)
	}
}

func ifs(b bool, s string) string {
	if b {
		return s
	}
	return ""
}

func isCallTo(info *types.Info, e ast.Expr, fn *types.Func) bool {
	call, ok := ast.Unparen(e).(*ast.CallExpr)
	return ok && calleeOf(info, call) == fn
}

func calleeLabel(info *types.Info, call *ast.CallExpr) string {
	if cal := calleeOf(info, call); cal != nil {
		return core.FuncName(cal)
	}
	return exprStr(call.Fun)
}

func ctxParam(info *types.Info, fd *ast.FuncDecl) types.Object {
	for _, f := range fd.Type.Params.List {
		for _, n := range f.Names {
			if o := info.Defs[n]; o != nil && isContext(o.Type()) {
				return o
			}
		}
	}
	return nil
}

func fieldByName(t *types.Named, name string) *types.Var {
	st, ok := t.Underlying().(*types.Struct)
	if !ok {
		return nil
	}
	for i := 0; i < st.NumFields(); i++ {
		if st.Field(i).Name() == name {
			return st.Field(i)
		}
	}
	if i := fieldByHint(t, name); i >= 0 {
		return st.Field(i) // renamed: the field that has the type this one had (fieldhints.go)
	}
	return nil
}

// rootField: the field of struct type t at the root of an lvalue such as
// vm.f, vm.f[k], vm.f.g
func rootField(info *types.Info, e ast.Expr, t *types.Named) *types.Var {
	for {
		switch x := ast.Unparen(e).(type) {
		case *ast.IndexExpr:
			e = x.X
			continue
		case *ast.StarExpr:
			e = x.X
			continue
		case *ast.SelectorExpr:
			if f := fieldOf(info, x); f != nil {
				if core.NamedOf(info.TypeOf(x.X)) == t {
					return f
				}
				e = x.X
				continue
			}
			return nil
		default:
			return nil
		}
	}
}

// returnsOption: fn returns the named func type vm.Option.
func returnsOption(fn *types.Func) bool {
	sig := fn.Type().(*types.Signature)
	if sig.Results().Len() != 1 {
		return false
	}
	n := core.NamedOf(sig.Results().At(0).Type())
	return n != nil && n.Obj().Name() == "Option"
}

// dispatchFunc resolves "the dispatch function" by role: the method of
// vm.VirtualMachine containing a switch over a value of type op.Code with at
// least 20 clauses.
func dispatchFunc(p *core.Program) *types.Func {
	vmp := p.Pkg("vm")
	var found *types.Func
	funcBodies(vmp, func(fn *types.Func, fd *ast.FuncDecl) {
		if dispatchSwitch(vmp, fd) != nil {
			found = fn
		}
	})
	if found == nil {
		core.Undecidedf("dispatch function (switch over op.Code with >= 20 clauses in package vm) not found")
	}
	return found
}

func dispatchSwitch(pk *packages.Package, fd *ast.FuncDecl) *ast.SwitchStmt {
	var sw *ast.SwitchStmt
	ast.Inspect(fd.Body, func(n ast.Node) bool {
		s, ok := n.(*ast.SwitchStmt)
		if !ok || s.Tag == nil || sw != nil {
			return true
		}
		if core.IsNamed(pk.TypesInfo.TypeOf(s.Tag), pkgPath("op"), "Code") && len(s.Body.List) >= 20 {
			sw = s
		}
		return true
	})
	return sw
}

func c12r4(c *core.Ctx) {
	p := c.P
	ros := p.Pkg("os")
	info := ros.TypesInfo
	gd := core.LookupFunc(ros, "GetDefaultOS")
	get := core.LookupFunc(ros, "GetOS")
	newSimple := core.LookupFunc(ros, "NewSimpleOS")
	if gd == nil || get == nil || newSimple == nil {
		core.Undecidedf("os.GetDefaultOS / GetOS / NewSimpleOS not found")
	}
	fd := p.Decl(gd)
	// shape: if v, found := GetOS(ctx); found { return v } ... return NewSimpleOS(ctx)
	// decided as: (1) some return statement returns the first result of
	// GetOS(ctx-param) guarded by its second result; (2) every other return is
	// NewSimpleOS and is not inside that guard; (3) no package-level variable
	// is read or written (no caching of a default across contexts).
	ctxP := ctxParam(info, fd)
	okGuard := false
	ast.Inspect(fd.Body, func(n ast.Node) bool {
		ifs, ok := n.(*ast.IfStmt)
		if !ok {
			return true
		}
		var v, found types.Object
		if as, ok := ifs.Init.(*ast.AssignStmt); ok && len(as.Lhs) == 2 && len(as.Rhs) == 1 && isCallTo(info, as.Rhs[0], get) {
			call := as.Rhs[0].(*ast.CallExpr)
			if id, ok := call.Args[0].(*ast.Ident); ok && info.Uses[id] == ctxP {
				v = objOfIdent(info, as.Lhs[0].(*ast.Ident))
				found = objOfIdent(info, as.Lhs[1].(*ast.Ident))
			}
		}
		if v == nil {
			return true
		}
		if id, ok := ast.Unparen(ifs.Cond).(*ast.Ident); ok && info.Uses[id] == found {
			for _, st := range ifs.Body.List {
				if r, ok := st.(*ast.ReturnStmt); ok && len(r.Results) == 1 {
					if rid, ok := r.Results[0].(*ast.Ident); ok && info.Uses[rid] == v {
						okGuard = true
					}
				}
			}
		}
		return true
	})
	// alternative shape: v, found := GetOS(ctx); if found { return v }
	if !okGuard {
		assigns := localAssignments(info, fd.Body)
		ast.Inspect(fd.Body, func(n ast.Node) bool {
			ifs, ok := n.(*ast.IfStmt)
			if !ok {
				return true
			}
			id, ok := ast.Unparen(ifs.Cond).(*ast.Ident)
			if !ok {
				return true
			}
			fromGet := false
			for _, rhs := range assigns[info.Uses[id]] {
				if isCallTo(info, rhs, get) {
					fromGet = true
				}
			}
			if !fromGet {
				return true
			}
			for _, st := range ifs.Body.List {
				if r, ok := st.(*ast.ReturnStmt); ok && len(r.Results) == 1 {
					if rid, ok := r.Results[0].(*ast.Ident); ok {
						for _, rhs := range assigns[info.Uses[rid]] {
							if isCallTo(info, rhs, get) {
								okGuard = true
							}
						}
					}
				}
			}
			return true
		})
	}
	c.Check(okGuard, "os.GetDefaultOS|ctx-first", posOf(p, fd), "GetDefaultOS returns the OS found in the context whenever there is one")
	global := ""
	ast.Inspect(fd.Body, func(n ast.Node) bool {
		if id, ok := n.(*ast.Ident); ok {
			if v, ok := info.Uses[id].(*types.Var); ok && v.Parent() == ros.Types.Scope() && v.Name() != "osKey" {
				global = v.Name()
			}
		}
		return true
	})
	c.Check(global == "", "os.GetDefaultOS|no-global", posOf(p, fd), "GetDefaultOS consults no package-level variable (a cached default OS would leak across contexts)"+ifs(global != "", ": uses "+global))
	// GetOS reads ctx.Value(osKey) only
	gfd := p.Decl(get)
	gl := ""
	ast.Inspect(gfd.Body, func(n ast.Node) bool {
		if id, ok := n.(*ast.Ident); ok {
			if v, ok := info.Uses[id].(*types.Var); ok && v.Parent() == ros.Types.Scope() {
				gl = v.Name()
			}
		}
		return true
	})
	c.Check(gl == "", "os.GetOS|no-global", posOf(p, gfd), "GetOS consults only the context"+ifs(gl != "", ": uses package variable "+gl))
}

// hostHelpers: package-level functions (not methods: the OS implementations are
// reached through the interface) of repository packages outside the mediated set
// whose body references a host-touching standard-library object, directly or
// through another such helper.  risor/os exports several (os.LookupUid,
// os.Current, ...) with the same signatures as the OS interface's methods.
func hostHelpers(p *core.Program, mediated []*packages.Package) map[*types.Func]string {
	isMediated := map[*types.Package]bool{}
	for _, pk := range mediated {
		isMediated[pk.Types] = true
	}
	out := map[*types.Func]string{}
	for changed := true; changed; {
		changed = false
		for _, pk := range p.Pkgs {
			if isMediated[pk.Types] {
				continue
			}
			funcBodies(pk, func(fn *types.Func, fd *ast.FuncDecl) {
				if fd.Recv != nil || out[fn] != "" {
					return
				}
				ast.Inspect(fd.Body, func(n ast.Node) bool {
					id, ok := n.(*ast.Ident)
					if !ok || out[fn] != "" {
						return true
					}
					o := pk.TypesInfo.Uses[id]
					if bad, why := hostTouching(o); bad {
						out[fn] = why
						changed = true
					} else if f, ok := o.(*types.Func); ok && out[f] != "" {
						out[fn] = out[f]
						changed = true
					}
					return true
				})
			})
		}
	}
	return out
}

func maxInt(a, b int) int {
	if a > b {
		return a
	}
	return b
}

// savedFromField: the identifier is a local variable whose only assignment in
// the function is its definition from the given field (prev := vm.os).
func savedFromField(info *types.Info, fd *ast.FuncDecl, id *ast.Ident, field *types.Var) bool {
	obj := info.Uses[id]
	if obj == nil {
		return false
	}
	defs, others := 0, 0
	ast.Inspect(fd.Body, func(n ast.Node) bool {
		as, ok := n.(*ast.AssignStmt)
		if !ok {
			return true
		}
		for i, l := range as.Lhs {
			lid, ok := l.(*ast.Ident)
			if !ok || (info.Defs[lid] != obj && info.Uses[lid] != obj) {
				continue
			}
			if as.Tok == token.DEFINE && len(as.Rhs) == len(as.Lhs) && fieldOf(info, as.Rhs[i]) == field {
				defs++
			} else {
				others++
			}
		}
		return true
	})
	return defs == 1 && others == 0
}
