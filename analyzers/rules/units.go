package rules

import (
	"go/token"
	"go/types"
	"sort"

	"golang.org/x/tools/go/ssa"

	"risorcheck/core"
)

// Code-point / byte-offset unit analysis (C16-R4, C01-R6, C20-R7).
//
// A Go string is indexed by byte; the language indexes strings by code point
// and the lexer numbers characters of a []rune.  Every integer that is a count
// of, or index into, one representation must not be used as an index into the
// other, nor be compared or added to such a value.
//
// Definite RUNE sources: len/cap of a []rune; utf8.RuneCount*; an integer read
// from the script-level key/slice argument of an object.String container method
// (the property: strings are indexed by code point); a struct field that is used
// as an index into a []rune or is stored from a RUNE value.
// Definite BYTE sources: len of a string or []byte; the key of a range over a
// string; strings.Index*/LastIndex*/bytes.Index*; a field used as an index into
// a string or []byte or stored from a BYTE value.
// Propagation: + - with constants, conversions, phi, calls to repository
// functions whose integer result depends on integer arguments (join of their
// units: ResolveIndex(idx, runeCount) is RUNE).
// Violations: indexing/slicing a string or []byte with a RUNE value, a []rune
// with a BYTE value, comparing or adding a RUNE value and a BYTE value.

const (
	uNone = 0
	uRune = 1
	uByte = 2
)

func unitName(u int) string {
	switch u {
	case uRune:
		return "code-point index"
	case uByte:
		return "byte offset"
	}
	return "?"
}

func isRuneSlice(t types.Type) bool {
	if s, ok := t.Underlying().(*types.Slice); ok {
		if b, ok := s.Elem().Underlying().(*types.Basic); ok {
			return b.Kind() == types.Int32
		}
	}
	return false
}

func isByteSlice(t types.Type) bool {
	if s, ok := t.Underlying().(*types.Slice); ok {
		if b, ok := s.Elem().Underlying().(*types.Basic); ok {
			return b.Kind() == types.Uint8
		}
	}
	return false
}

func isIntegerType(t types.Type) bool {
	b, ok := t.Underlying().(*types.Basic)
	return ok && b.Info()&types.IsInteger != 0
}

type unitAn struct {
	p        *core.Program
	fns      []*ssa.Function
	field    map[*types.Var]int
	val      map[ssa.Value]int
	stringT  *types.Named // object.String
	intT     *types.Named // object.Int
	seedFns  map[*ssa.Function]bool
	retUnit  map[*ssa.Function][]int
	changed  bool
}

func fieldVar(fa *ssa.FieldAddr) *types.Var {
	t := fa.X.Type()
	if p, ok := t.Underlying().(*types.Pointer); ok {
		t = p.Elem()
	}
	st, ok := t.Underlying().(*types.Struct)
	if !ok || fa.Field >= st.NumFields() {
		return nil
	}
	return st.Field(fa.Field)
}

func fieldVarOfField(f *ssa.Field) *types.Var {
	st, ok := f.X.Type().Underlying().(*types.Struct)
	if !ok || f.Field >= st.NumFields() {
		return nil
	}
	return st.Field(f.Field)
}

func (a *unitAn) set(v ssa.Value, u int) {
	if u == uNone || v == nil {
		return
	}
	if a.val[v] == uNone {
		a.val[v] = u
		a.changed = true
	}
}

func (a *unitAn) setField(f *types.Var, u int) {
	if f == nil || u == uNone || !isIntegerType(f.Type()) {
		return
	}
	if a.field[f] == uNone {
		a.field[f] = u
		a.changed = true
	}
}

func (a *unitAn) unitOf(v ssa.Value) int {
	if v == nil {
		return uNone
	}
	return a.val[v]
}

func (a *unitAn) step(fn *ssa.Function) {
	for _, b := range fn.Blocks {
		for _, in := range b.Instrs {
			switch x := in.(type) {
			case *ssa.Call:
				com := x.Call
				if bi, ok := com.Value.(*ssa.Builtin); ok {
					if (bi.Name() == "len" || bi.Name() == "cap") && len(com.Args) == 1 {
						t := com.Args[0].Type()
						switch {
						case isRuneSlice(t):
							a.set(x, uRune)
						case core.IsStringType(t) || isByteSlice(t):
							a.set(x, uByte)
						}
					}
					if (bi.Name() == "min" || bi.Name() == "max") && isIntegerType(x.Type()) {
						for _, ar := range com.Args {
							a.set(x, a.unitOf(ar))
						}
					}
					continue
				}
				cal := com.StaticCallee()
				if cal == nil {
					continue
				}
				if cal.Pkg != nil && cal.Pkg.Pkg != nil {
					switch cal.Pkg.Pkg.Path() {
					case "unicode/utf8":
						switch cal.Name() {
						case "RuneCountInString", "RuneCount":
							a.set(x, uRune)
						case "RuneLen":
							a.set(x, uByte)
						}
					case "strings", "bytes":
						switch cal.Name() {
						case "Index", "IndexByte", "IndexRune", "IndexAny", "IndexFunc", "LastIndex", "LastIndexByte", "LastIndexAny", "LastIndexFunc":
							a.set(x, uByte)
						}
					}
				}
				if core.RepoFunc(cal) && cal.Blocks != nil {
					// integer results inherit the unit of the integer arguments they are computed from
					ru := a.resultUnits(cal, com.Args)
					if len(ru) == 1 {
						a.set(x, ru[0])
					}
				}
			case *ssa.Extract:
				if call, ok := x.Tuple.(*ssa.Call); ok {
					if cal := call.Call.StaticCallee(); cal != nil && core.RepoFunc(cal) && cal.Blocks != nil {
						ru := a.resultUnits(cal, call.Call.Args)
						if x.Index < len(ru) {
							a.set(x, ru[x.Index])
						}
					}
					if cal := call.Call.StaticCallee(); cal != nil && cal.Pkg != nil && cal.Pkg.Pkg != nil && cal.Pkg.Pkg.Path() == "unicode/utf8" {
						// DecodeRune*, DecodeLastRune*: (rune, size)
						if x.Index == 1 {
							a.set(x, uByte)
						}
					}
				}
				if nx, ok := x.Tuple.(*ssa.Next); ok && nx.IsString && x.Index == 1 {
					a.set(x, uByte)
				}
			case *ssa.BinOp:
				if !isIntegerType(x.Type()) {
					continue
				}
				switch x.Op {
				case token.ADD, token.SUB:
					ux, uy := a.unitOf(x.X), a.unitOf(x.Y)
					if ux != uNone && (uy == uNone || uy == ux) {
						a.set(x, ux)
					} else if uy != uNone && ux == uNone {
						a.set(x, uy)
					}
				}
			case *ssa.Convert:
				if isIntegerType(x.Type()) && isIntegerType(x.X.Type()) {
					a.set(x, a.unitOf(x.X))
				}
			case *ssa.ChangeType:
				a.set(x, a.unitOf(x.X))
			case *ssa.Phi:
				u := uNone
				for _, e := range x.Edges {
					if ue := a.unitOf(e); ue != uNone {
						if u == uNone {
							u = ue
						} else if u != ue {
							u = -1
						}
					}
				}
				if u > 0 {
					a.set(x, u)
				}
			case *ssa.UnOp:
				if x.Op != token.MUL {
					continue
				}
				switch ad := x.X.(type) {
				case *ssa.FieldAddr:
					f := fieldVar(ad)
					if f != nil {
						a.set(x, a.field[f])
						// script-level index of a String container method
						if a.seedFns[fn] && a.intT != nil && core.NamedOf(ad.X.Type()) == a.intT && f.Name() == "value" {
							a.set(x, uRune)
						}
					}
				case *ssa.Alloc:
					// local spilled to memory: join of stores
					if refs := ad.Referrers(); refs != nil {
						for _, r := range *refs {
							if st, ok := r.(*ssa.Store); ok && st.Addr == ssa.Value(ad) {
								a.set(x, a.unitOf(st.Val))
							}
						}
					}
				}
			case *ssa.Field:
				if f := fieldVarOfField(x); f != nil {
					a.set(x, a.field[f])
				}
			case *ssa.Store:
				if fa, ok := x.Addr.(*ssa.FieldAddr); ok {
					a.setField(fieldVar(fa), a.unitOf(x.Val))
				}
			case *ssa.IndexAddr:
				a.useAsIndex(x.X.Type(), x.Index)
			case *ssa.Index:
				a.useAsIndex(x.X.Type(), x.Index)
			case *ssa.Lookup:
				if core.IsStringType(x.X.Type()) {
					a.useAsIndex(x.X.Type(), x.Index)
				}
			case *ssa.Slice:
				for _, bnd := range []ssa.Value{x.Low, x.High} {
					if bnd != nil {
						a.useAsIndex(x.X.Type(), bnd)
					}
				}
			}
		}
	}
}

// useAsIndex: a struct field read and used directly as an index fixes the
// field's unit (this is how the lexer's position fields become RUNE).  Local
// values are never given a unit by use, which would hide the misuse.
func (a *unitAn) useAsIndex(ct types.Type, idx ssa.Value) {
	u := uNone
	if p, ok := ct.Underlying().(*types.Pointer); ok {
		ct = p.Elem()
	}
	switch {
	case isRuneSlice(ct):
		u = uRune
	case core.IsStringType(ct) || isByteSlice(ct):
		u = uByte
	}
	if u == uNone {
		return
	}
	if ld, ok := idx.(*ssa.UnOp); ok && ld.Op == token.MUL {
		if fa, ok := ld.X.(*ssa.FieldAddr); ok {
			a.setField(fieldVar(fa), u)
		}
	}
}

// resultUnits: unit of each integer result of callee for these arguments: the
// single unit carried by the integer arguments the result is computed from.
func (a *unitAn) resultUnits(cal *ssa.Function, args []ssa.Value) []int {
	res := cal.Signature.Results()
	out := make([]int, res.Len())
	for _, b := range cal.Blocks {
		for _, in := range b.Instrs {
			r, ok := in.(*ssa.Return)
			if !ok {
				continue
			}
			for i, rv := range r.Results {
				if i >= len(out) || !isIntegerType(res.At(i).Type()) {
					continue
				}
				rv = spilledResult(b, rv)
				for pi, prm := range cal.Params {
					if pi >= len(args) || !isIntegerType(prm.Type()) {
						continue
					}
					prm := prm
					if rv == ssa.Value(prm) || core.DependsOn(rv, func(w ssa.Value) bool { return w == ssa.Value(prm) }) {
						if u := a.unitOf(args[pi]); u != uNone {
							if out[i] == uNone {
								out[i] = u
							} else if out[i] != u {
								out[i] = -1
							}
						}
					}
				}
			}
		}
	}
	for i := range out {
		if out[i] < 0 {
			out[i] = uNone
		}
	}
	return out
}

type unitViolation struct {
	fn   *ssa.Function
	pos  token.Pos
	what string
}

func runUnits(p *core.Program, pkgs []string) (*unitAn, []unitViolation) {
	a := &unitAn{p: p, field: map[*types.Var]int{}, val: map[ssa.Value]int{}, seedFns: map[*ssa.Function]bool{}}
	if p.HasPkg("object") {
		a.stringT = core.LookupType(p.Pkg("object"), "String")
		a.intT = core.LookupType(p.Pkg("object"), "Int")
	}
	inScope := map[string]bool{}
	for _, r := range pkgs {
		inScope[r] = true
	}
	for fn := range p.AllFunctions() {
		if fn.Blocks == nil || fn.Pkg == nil || !core.RepoFunc(fn) {
			continue
		}
		if !inScope[core.RelPkg(fn.Pkg.Pkg)] {
			continue
		}
		if pos := p.Fset.Position(fn.Pos()); len(pos.Filename) > 8 && pos.Filename[len(pos.Filename)-8:] == "_test.go" {
			continue
		}
		a.fns = append(a.fns, fn)
		if a.stringT != nil && fn.Signature.Recv() != nil && core.NamedOf(fn.Signature.Recv().Type()) == a.stringT {
			switch fn.Name() {
			case "GetItem", "GetSlice", "SetItem", "DelItem":
				a.seedFns[fn] = true
			}
		}
	}
	sort.Slice(a.fns, func(i, j int) bool { return core.SSAName(a.fns[i]) < core.SSAName(a.fns[j]) })
	for iter := 0; iter < 12; iter++ {
		a.changed = false
		for _, fn := range a.fns {
			a.step(fn)
		}
		if !a.changed {
			break
		}
	}
	var out []unitViolation
	for _, fn := range a.fns {
		for _, b := range fn.Blocks {
			for _, in := range b.Instrs {
				check := func(ct types.Type, idx ssa.Value, pos token.Pos) {
					if idx == nil {
						return
					}
					if pt, ok := ct.Underlying().(*types.Pointer); ok {
						ct = pt.Elem()
					}
					u := a.unitOf(idx)
					switch {
					case (core.IsStringType(ct) || isByteSlice(ct)) && u == uRune:
						out = append(out, unitViolation{fn, pos, "a code-point index is used as a byte offset into a " + ct.String()})
					case isRuneSlice(ct) && u == uByte:
						out = append(out, unitViolation{fn, pos, "a byte offset is used as an index into a []rune"})
					}
				}
				switch x := in.(type) {
				case *ssa.IndexAddr:
					check(x.X.Type(), x.Index, x.Pos())
				case *ssa.Index:
					check(x.X.Type(), x.Index, x.Pos())
				case *ssa.Lookup:
					if core.IsStringType(x.X.Type()) {
						check(x.X.Type(), x.Index, x.Pos())
					}
				case *ssa.Slice:
					check(x.X.Type(), x.Low, x.Pos())
					check(x.X.Type(), x.High, x.Pos())
				case *ssa.BinOp:
					switch x.Op {
					case token.EQL, token.NEQ, token.LSS, token.LEQ, token.GTR, token.GEQ, token.ADD, token.SUB:
						ux, uy := a.unitOf(x.X), a.unitOf(x.Y)
						if ux != uNone && uy != uNone && ux != uy {
							out = append(out, unitViolation{fn, x.Pos(), "a " + unitName(ux) + " is combined (" + x.Op.String() + ") with a " + unitName(uy)})
						}
					}
				}
			}
		}
	}
	return a, out
}

var unitsCache = map[*core.Program]struct {
	a *unitAn
	v []unitViolation
}{}

// unitsRule reports, per function of the scoped packages that handles both
// strings and integers derived from them, whether code-point indices and byte
// offsets are kept apart.
func unitsRule(c *core.Ctx) {
	p := c.P
	pkgs := []string{"object", "lexer", "token", "parser", "builtins", "modules/strings"}
	var scope []string
	for _, r := range pkgs {
		if p.HasPkg(r) {
			scope = append(scope, r)
		}
	}
	ent, ok := unitsCache[p]
	if !ok {
		a, v := runUnits(p, scope)
		ent.a, ent.v = a, v
		unitsCache[p] = ent
	}
	byFn := map[*ssa.Function][]unitViolation{}
	for _, v := range ent.v {
		byFn[v.fn] = append(byFn[v.fn], v)
	}
	n := 0
	for _, fn := range ent.a.fns {
		// functions with at least one value that has a unit
		has := false
		for _, b := range fn.Blocks {
			for _, in := range b.Instrs {
				if v, ok := in.(ssa.Value); ok && ent.a.val[v] != uNone {
					has = true
				}
			}
		}
		if !has {
			continue
		}
		n++
		msg := ""
		for _, v := range byFn[fn] {
			msg += "; " + v.what + " at " + p.Pos(v.pos)
		}
		c.Check(len(byFn[fn]) == 0, core.SSAName(fn)+"|code-point-vs-byte", p.Pos(fn.Pos()),
			fn.Name()+" keeps code-point indices and byte offsets apart"+msg)
	}
	nf := 0
	for range ent.a.field {
		nf++
	}
	c.Stat("functions_with_units", n)
	c.Stat("fields_with_units", nf)
}
