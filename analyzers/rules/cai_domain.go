package rules

import (
	"go/ast"
	"go/types"
	"strings"

	"risorcheck/core"
)

// Constructor-domain facts.  For AST node type T, every construction site
// (call of a constructor function of package ast, i.e. a function containing a
// keyed composite literal of T whose field values are parameters) is recorded
// as a tuple: per field, whether the argument is the nil literal, whether it is
// certainly an expression, and the concrete node type it has when that is
// evident from its static type.  Flow-insensitive over all call sites in the
// repository; a field written outside such constructors is "any".
type argClass struct {
	Nil   bool
	Expr  bool
	Types []*types.Named // non-nil: the value has one of these concrete types
}

type ctorSite struct {
	Pos  string
	Args map[string]argClass // by field name; missing = zero value of the field
	Any  map[string]bool     // fields with unknown content at this site
}

func (a *caiAn) sitesOf(T *types.Named) []ctorSite {
	if a.sites == nil {
		a.sites = map[*types.Named][]ctorSite{}
	}
	if s, ok := a.sites[T]; ok {
		return s
	}
	a.sites[T] = nil
	ainfo := a.astP.TypesInfo
	st, _ := T.Underlying().(*types.Struct)
	if st == nil {
		return nil
	}
	type ctor struct {
		fn      *types.Func
		byField map[string]int
		other   map[string]ast.Expr
	}
	var ctors []ctor
	wild := false
	funcBodies(a.astP, func(fn *types.Func, fd *ast.FuncDecl) {
		sig := fn.Type().(*types.Signature)
		paramIdx := func(e ast.Expr) int {
			id, isId := ast.Unparen(e).(*ast.Ident)
			if !isId {
				return -1
			}
			for i := 0; i < sig.Params().Len(); i++ {
				if ainfo.Uses[id] == sig.Params().At(i) {
					return i
				}
			}
			return -1
		}
		ast.Inspect(fd.Body, func(n ast.Node) bool {
			switch x := n.(type) {
			case *ast.CompositeLit:
				if core.NamedOf(ainfo.TypeOf(x)) != T {
					return true
				}
				c := ctor{fn: fn, byField: map[string]int{}, other: map[string]ast.Expr{}}
				for _, el := range x.Elts {
					kv, isKV := el.(*ast.KeyValueExpr)
					if !isKV {
						wild = true
						continue
					}
					id, _ := kv.Key.(*ast.Ident)
					if id == nil {
						wild = true
						continue
					}
					if i := paramIdx(kv.Value); i >= 0 {
						c.byField[id.Name] = i
					} else {
						c.other[id.Name] = kv.Value
					}
				}
				ctors = append(ctors, c)
			case *ast.AssignStmt:
				for _, l := range x.Lhs {
					if f := fieldOf(ainfo, l); f != nil && core.RecvNamedOfField(T, f) && (a.isASTType(f.Type()) || isNodeSlice(a, f.Type())) {
						wild = true
					}
					if ix, ok := l.(*ast.IndexExpr); ok {
						if f := fieldOf(ainfo, ix.X); f != nil && core.RecvNamedOfField(T, f) {
							wild = true
						}
					}
				}
			}
			return true
		})
	})
	var sites []ctorSite
	if wild {
		any := map[string]bool{}
		for i := 0; i < st.NumFields(); i++ {
			any[st.Field(i).Name()] = true
		}
		sites = append(sites, ctorSite{Pos: "field written outside a constructor", Args: map[string]argClass{}, Any: any})
	}
	for _, c := range ctors {
		for _, pk := range a.p.Pkgs {
			info := pk.TypesInfo
			funcBodies(pk, func(fn *types.Func, fd *ast.FuncDecl) {
				assigns := localAssignments(info, fd.Body)
				ast.Inspect(fd.Body, func(n ast.Node) bool {
					ce, isCall := n.(*ast.CallExpr)
					if !isCall || calleeOf(info, ce) != c.fn {
						return true
					}
					site := ctorSite{Pos: a.p.Pos(ce.Pos()), Args: map[string]argClass{}, Any: map[string]bool{}}
					sig := c.fn.Type().(*types.Signature)
					for field, pi := range c.byField {
						if sig.Variadic() && pi >= sig.Params().Len()-1 {
							cl := argClass{Expr: !ce.Ellipsis.IsValid()}
							if pi < len(ce.Args) {
								for _, arg := range ce.Args[pi:] {
									ac := a.classifyArg(info, arg, assigns, fn, 0)
									cl.Expr = cl.Expr && ac.Expr
								}
							}
							site.Args[field] = cl
							continue
						}
						if pi < len(ce.Args) {
							site.Args[field] = a.classifyArg(info, ce.Args[pi], assigns, fn, 0)
						}
					}
					for field, e := range c.other {
						if isNilIdent(ainfo, e) {
							site.Args[field] = argClass{Nil: true, Expr: true}
						} else if a.exprTyped(ainfo.TypeOf(e)) {
							site.Args[field] = argClass{Expr: true}
						} else {
							site.Any[field] = true
						}
					}
					sites = append(sites, site)
					return true
				})
			})
		}
	}
	a.sites[T] = sites
	return sites
}

func isNodeSlice(a *caiAn, t types.Type) bool {
	sl, ok := t.Underlying().(*types.Slice)
	return ok && a.isASTType(sl.Elem())
}

// exprTyped: every value of static type t is an expression node.
func (a *caiAn) exprTyped(t types.Type) bool {
	if t == nil {
		return false
	}
	if sl, ok := t.Underlying().(*types.Slice); ok {
		return a.exprTyped(sl.Elem())
	}
	v, known := a.isExprOfType(t)
	return known && v
}

// classifyArg classifies an argument expression at a construction site.
func (a *caiAn) classifyArg(info *types.Info, e ast.Expr, assigns map[types.Object][]ast.Expr, encl *types.Func, depth int) argClass {
	e = ast.Unparen(e)
	if isNilIdent(info, e) {
		return argClass{Nil: true, Expr: true}
	}
	t := info.TypeOf(e)
	cl := argClass{Expr: a.exprTyped(t)}
	if nt := core.NamedOf(t); nt != nil && a.isASTType(t) {
		if _, isI := nt.Underlying().(*types.Interface); !isI {
			cl.Types = []*types.Named{nt}
		}
	}
	if cl.Expr || depth > 5 {
		return cl
	}
	switch x := e.(type) {
	case *ast.Ident:
		o := info.Uses[x]
		if o == nil {
			return cl
		}
		sig := encl.Type().(*types.Signature)
		for i := 0; i < sig.Params().Len(); i++ {
			if sig.Params().At(i) == o {
				return cl
			}
		}
		rhss := assigns[o]
		if len(rhss) == 0 {
			return argClass{Nil: true, Expr: true}
		}
		out := argClass{Expr: true, Nil: true}
		for _, r := range rhss {
			rc := a.classifyArg(info, r, withoutKey(assigns, o), encl, depth+1)
			out.Expr = out.Expr && rc.Expr
			out.Nil = out.Nil && rc.Nil
		}
		return out
	case *ast.TypeAssertExpr:
		if x.Type != nil && a.exprTyped(info.TypeOf(x.Type)) {
			cl.Expr = true
		}
	case *ast.CallExpr:
		if tup, ok := t.(*types.Tuple); ok && tup.Len() > 0 {
			cl.Expr = a.exprTyped(tup.At(0).Type())
		}
	}
	return cl
}

// feasibleSites filters construction sites by the nil-facts of the path.
func (a *caiAn) feasibleSites(T *types.Named, recvSym string, st *cState) []ctorSite {
	var out []ctorSite
	for _, s := range a.sitesOf(T) {
		ok := true
		for f, ac := range s.Args {
			if fact, known := st.Facts["nil("+recvSym+"."+f+")"]; known {
				if ac.Nil && !fact {
					ok = false
				}
			}
		}
		if ok {
			out = append(out, s)
		}
	}
	return out
}

func (a *caiAn) noteDomain(T *types.Named, field, what string) {
	if a.domain == nil {
		a.domain = map[string]string{}
	}
	k := T.Obj().Name() + "." + field
	if old, ok := a.domain[k]; ok && old != what {
		what = "expr on some paths, any on others"
	}
	a.domain[k] = what
}

// fieldIsExpr: on this path, the field can only hold an expression.
func (a *caiAn) fieldIsExpr(T *types.Named, field, recvSym string, st *cState) bool {
	sites := a.feasibleSites(T, recvSym, st)
	if len(sites) == 0 {
		return false
	}
	for _, s := range sites {
		if s.Any[field] {
			return false
		}
		if ac, ok := s.Args[field]; ok && !ac.Expr {
			return false
		}
	}
	return true
}

// fieldTypes: concrete node types the field can hold on this path (nil = unknown).
func (a *caiAn) fieldTypes(T *types.Named, field, recvSym string, st *cState) []*types.Named {
	sites := a.feasibleSites(T, recvSym, st)
	if len(sites) == 0 {
		return nil
	}
	seen := map[*types.Named]bool{}
	var out []*types.Named
	for _, s := range sites {
		ac, ok := s.Args[field]
		if ok && ac.Nil {
			continue
		}
		if s.Any[field] || !ok || ac.Types == nil {
			return nil
		}
		for _, t := range ac.Types {
			if !seen[t] {
				seen[t] = true
				out = append(out, t)
			}
		}
	}
	return out
}

// splitFieldSym: "recv.field" or "recv.field[idx]" -> receiver symbol, field.
func splitFieldSym(sym string) (string, string, bool) {
	base := sym
	if i := strings.LastIndex(base, "["); i > 0 && strings.HasSuffix(base, "]") {
		base = base[:i]
	}
	base = strings.TrimSuffix(base, "[:]")
	dot := strings.LastIndex(base, ".")
	if dot < 0 {
		return "", "", false
	}
	recv, field := base[:dot], base[dot+1:]
	if strings.ContainsAny(field, "#@") {
		return "", "", false
	}
	return recv, field, true
}

// recvTypeOf finds the concrete node type of the node with symbol recvSym.
func (a *caiAn) recvTypeOf(recvSym string, st *cState) *types.Named {
	for _, v := range st.Env {
		if n, ok := v.(vNode); ok && n.Sym == recvSym {
			if nt := core.NamedOf(n.Typ); nt != nil {
				if _, isI := nt.Underlying().(*types.Interface); !isI {
					return nt
				}
			}
		}
	}
	return nil
}

// domainOf: "expr" when the child symbol can only hold an expression on this path.
func (a *caiAn) domainOf(sym string, st *cState) string {
	recvSym, field, ok := splitFieldSym(sym)
	if !ok {
		return "any"
	}
	T := a.recvTypeOf(recvSym, st)
	if T == nil || fieldByName(T, field) == nil {
		return "any"
	}
	if a.fieldIsExpr(T, field, recvSym, st) {
		a.noteDomain(T, field, "expr")
		return "expr"
	}
	a.noteDomain(T, field, "any")
	return "any"
}

// typesOf: concrete node types a child symbol can hold on this path (nil = unknown).
func (a *caiAn) typesOf(sym string, st *cState) []*types.Named {
	recvSym, field, ok := splitFieldSym(sym)
	if !ok {
		return nil
	}
	T := a.recvTypeOf(recvSym, st)
	if T == nil || fieldByName(T, field) == nil {
		return nil
	}
	return a.fieldTypes(T, field, recvSym, st)
}
