package rules

import (
	"go/ast"
	"go/token"
	"go/types"
	"sort"
	"strings"

	"golang.org/x/tools/go/ssa"

	"risorcheck/core"
)

func init() {
	core.Register(&core.Property{
		ID: "C13",
		Decided: "The sanitise-then-use shape of the rooted filesystem and of the mount table: (R1) in every method of localfs.Filesystem each path argument of a host-touching Go os/filepath call is the first result of " +
			"resolvePath/os.ResolvePath whose error was checked on the way to the call (both arguments of two-path operations are separate obligations); (R2) every path-taking method of VirtualOS obtains (mount, rel, found) " +
			"from a mount-lookup call on its own path parameter, tests found, passes to mount.Source only rel values of a lookup on that mount (two-path operations compare the two mounts first), and a lookup function that delegates " +
			"to another lookup passes a value derived from its own path parameter; (R3) prefix tests between path strings in os, os/localfs and importer respect component boundaries; (R4) ResolvePath cleans, rejects every cleaned " +
			"path that is '..' or starts with '../' before joining under the base, and joins only that cleaned path.",
		NotCovered:  "Symlinks inside the base, the S3 filesystem, semantic correctness of filepath.Clean/Join (trusted), the value-level behaviour on concrete path strings.",
		Assumptions: []string{"filepath.Clean returns the shortest lexical path; a cleaned relative path escapes iff it is '..' or starts with '../'", "names of path parameters in Go's os/filepath signatures identify the path arguments"},
		Rules: []*core.Rule{
			{ID: "C13-R1", Title: "localfs: path arguments sanitised before every host call", Floor: 10, Run: c13r1},
			{ID: "C13-R2", Title: "VirtualOS: mount/rel pairing via lookup on the method's own path", Floor: 10, Run: c13r2},
			{ID: "C13-R3", Title: "path prefix tests respect component boundaries", Floor: 1, Run: c13r3},
			{ID: "C13-R4", Title: "ResolvePath: clean, reject '..', join", Floor: 3, Run: c13r4},
			{ID: "C13-R6", Title: "VirtualOS methods stay virtual (shared with C12-R6)", Floor: 20, Run: virtualOSStaysVirtual},
			{ID: "C13-R7", Title: "the longest matching mount wins", Floor: 1, Run: longestMountWins},
			{ID: "C13-R8", Title: "a configured base is never dropped", Floor: 1, Run: baseNeverDropped},
			{ID: "C13-R9", Title: "mount lookup compares cleaned paths", Floor: 1, Run: mountPathCleaned},
			{ID: "C13-R10", Title: "a VirtualOS owns its mount table", Floor: 1, Run: virtualOSOwnsItsMaps},
			{ID: "C13-R11", Title: "no direct host file access in the mediated modules (shared with C12-R1)", Floor: 5, Run: c12r1},
			{ID: "C13-R12", Title: "the virtual working directory stays absolute and clean", Floor: 1, Run: virtualCwdStaysAbsolute},
			{ID: "C13-R13", Title: "parent tests are component-wise", Floor: 1, Run: parentTestsAreComponentWise},
			{ID: "C13-R14", Title: "mounts hand their source a rooted path", Floor: 1, Run: mountsHandTheirSourceARootedPath},
			{ID: "C13-R15", Title: "mount points are normalised when they are registered", Floor: 1, Run: mountPointsAreNormalisedWhenTheyAreRegistered},
			{ID: "C13-R16", Title: "mount-relative paths go to the mount only", Floor: 5, Run: mountRelativePathsGoToTheMountOnly},
			{ID: "C13-R17", Title: "the base of a rooted filesystem is made absolute", Floor: 1, Run: theBaseDoesNotMoveWithTheWorkingDirectory},
			{ID: "C13-R18", Title: "a path under no mount point is refused there and then", Floor: 10, Run: pathsUnderNoMountAreRefused},
			{ID: "C13-R19", Title: "the mount lookup is given the path as it came", Floor: 10, Run: theMountLookupIsGivenThePathAsItCame},
			{ID: "C13-R20", Title: "paths reach the OS as the script gave them", Floor: 10, Run: pathsReachTheOSAsTheScriptGaveThem},
		},
	})
}

var goPathParamNames = map[string]bool{"name": true, "path": true, "oldpath": true, "newpath": true, "oldname": true, "newname": true, "dir": true, "root": true, "filename": true, "pattern_dir": true}

// hostFSFunc: a Go standard-library function that touches the host filesystem
// by path.
func hostFSFunc(f *ssa.Function) bool {
	if f == nil || f.Pkg == nil {
		return false
	}
	switch f.Pkg.Pkg.Path() {
	case "os":
		if f.Signature.Recv() != nil {
			return false
		}
		return true
	case "path/filepath":
		switch f.Name() {
		case "Walk", "WalkDir", "Glob", "Abs", "EvalSymlinks":
			return true
		}
	case "io/ioutil":
		switch f.Name() {
		case "ReadFile", "WriteFile", "ReadDir", "TempDir", "TempFile":
			return true
		}
	}
	return false
}

func c13r1(c *core.Ctx) {
	p := c.P
	lfs := p.Pkg("os/localfs")
	fsT := core.MustType(lfs, "Filesystem")
	resolveM := core.MustMethod(fsT, "resolvePath")
	rosResolve := core.LookupFunc(p.Pkg("os"), "ResolvePath")
	if rosResolve == nil {
		core.Undecidedf("os.ResolvePath not found")
	}
	isResolve := func(f *ssa.Function) bool {
		if f == nil {
			return false
		}
		o, _ := f.Object().(*types.Func)
		return o != nil && (o == resolveM || o == rosResolve)
	}
	nm, nsites := 0, 0
	var fns []*ssa.Function
	for _, m := range core.Methods(fsT) {
		if sf := p.SSAFunc(m); sf != nil && sf.Blocks != nil {
			fns = append(fns, sf)
			fns = append(fns, sf.AnonFuncs...)
		}
	}
	// package-level helpers of localfs are in scope too
	for _, mem := range p.SSAPkg(lfs).Members {
		if sf, ok := mem.(*ssa.Function); ok && sf.Blocks != nil && sf.Name() != "init" {
			fns = append(fns, sf)
			fns = append(fns, sf.AnonFuncs...)
		}
	}
	for _, sf := range fns {
		if o, _ := sf.Object().(*types.Func); o == resolveM {
			continue
		}
		nm++
		perCallee := map[string]int{}
		for _, b := range sf.Blocks {
			for _, in := range b.Instrs {
				call, ok := in.(ssa.CallInstruction)
				if !ok {
					continue
				}
				callee := call.Common().StaticCallee()
				if !hostFSFunc(callee) {
					continue
				}
				params := callee.Signature.Params()
				for i := 0; i < params.Len(); i++ {
					pv := params.At(i)
					if !core.IsStringType(pv.Type()) || !goPathParamNames[pv.Name()] {
						continue
					}
					arg := call.Common().Args[i]
					// the base itself is the host's, not a script's: making it
					// absolute (C13-R17 asks for that) reads the working
					// directory and touches nothing under a path of a script
					if callee.Pkg.Pkg.Path() == "path/filepath" && callee.Name() == "Abs" && sf.Signature.Recv() == nil && sf.Parent() == nil {
						bIdx := fieldIdxByName(fsT, "base")
						onlyBase := bIdx >= 0
						for _, o := range core.Origins(arg) {
							cl, isCall := o.(*ssa.Call)
							if isCall && cl.Call.StaticCallee() != nil && cl.Call.StaticCallee().Pkg != nil && cl.Call.StaticCallee().Pkg.Pkg.Path() == "path/filepath" && cl.Call.StaticCallee().Name() == "Clean" && len(cl.Call.Args) == 1 {
								o = cl.Call.Args[0]
							}
							if _, ok := loadOfField(o, fsT, bIdx); !ok {
								onlyBase = false
							}
						}
						if onlyBase {
							continue
						}
					}
					nsites++
					cname := callee.Pkg.Pkg.Name() + "." + callee.Name()
					perCallee[cname+"|"+pv.Name()]++
					key := fnKey(sf) + "|" + cname + "|" + pv.Name()
					if perCallee[cname+"|"+pv.Name()] > 1 {
						key += "#" + itoa(perCallee[cname+"|"+pv.Name()])
					}
					var bad []string
					for _, o := range core.Origins(arg) {
						// the empty string ("the host's default") is acceptable only on the branch
						// where the filesystem was found to be unrooted (base == "")
						if k, isC := o.(*ssa.Const); isC && k.Value != nil && k.Value.ExactString() == `""` && unrootedBranchDominates(b) {
							continue
						}
						rc, idx := core.CallOfExtract(o)
						if rc == nil || idx != 0 || !isResolve(rc.Call.StaticCallee()) {
							bad = append(bad, "may be "+o.String()+" ("+o.Name()+"), which is not a result of resolvePath")
							continue
						}
						// error result checked
						var errv ssa.Value
						for _, r := range *rc.Referrers() {
							if e, ok := r.(*ssa.Extract); ok && e.Index == 1 {
								errv = e
							}
						}
						if errv == nil || !core.NilCheckedErrDominates(errv, b) {
							bad = append(bad, "error of "+rc.String()+" is not checked before the host call")
						}
					}
					c.Check(len(bad) == 0, key, p.Pos(in.Pos()),
						"argument '"+pv.Name()+"' of "+cname+" must be a sanitised path (first result of resolvePath, error checked)", bad...)
				}
			}
		}
	}
	c.Stat("localfs_functions", nm)
	c.Stat("host_path_arguments", nsites)
}

func fnKey(f *ssa.Function) string {
	return core.SSAName(f)
}

// ---------------------------------------------------------------- R2

func c13r2(c *core.Ctx) {
	p := c.P
	ros := p.Pkg("os")
	vT := core.MustType(ros, "VirtualOS")
	mountT := core.MustType(ros, "Mount")
	fsI := core.MustType(ros, "FS")
	// lookup functions: methods of VirtualOS returning (*Mount, string, bool)
	isLookup := func(f *ssa.Function) bool {
		if f == nil || f.Signature.Recv() == nil || core.NamedOf(f.Signature.Recv().Type()) != vT {
			return false
		}
		r := f.Signature.Results()
		return r.Len() == 3 && core.NamedOf(r.At(0).Type()) == mountT && core.IsStringType(r.At(1).Type())
	}
	var lookups []*ssa.Function
	for _, m := range core.Methods(vT) {
		if sf := p.SSAFunc(m); isLookup(sf) {
			lookups = append(lookups, sf)
		}
	}
	if len(lookups) == 0 {
		core.Undecidedf("no mount lookup function (method of VirtualOS returning (*Mount, string, bool)) found")
	}
	fsMethods := map[string]bool{}
	fsIface := fsI.Underlying().(*types.Interface)
	for i := 0; i < fsIface.NumMethods(); i++ {
		fsMethods[fsIface.Method(i).Name()] = true
	}
	nsites := 0
	for _, m := range core.Methods(vT) {
		sf := p.SSAFunc(m)
		if sf == nil || sf.Blocks == nil {
			continue
		}
		// string parameters that are paths: for API methods those whose FS
		// interface counterpart exists; for lookup functions the string param.
		apiMethod := fsMethods[m.Name()] || m.Name() == "MkdirTemp"
		if !apiMethod && !isLookup(sf) {
			continue
		}
		var pathParams []*ssa.Parameter
		for _, pa := range sf.Params[1:] {
			if core.IsStringType(pa.Type()) && (goPathParamNames[pa.Name()] || isLookup(sf)) {
				pathParams = append(pathParams, pa)
			}
		}
		// lookup calls in this function
		type lk struct {
			call *ssa.Call
			arg  ssa.Value
		}
		var lks []lk
		for _, b := range sf.Blocks {
			for _, in := range b.Instrs {
				if call, ok := in.(*ssa.Call); ok && isLookup(call.Call.StaticCallee()) {
					lks = append(lks, lk{call, call.Call.Args[1]})
				}
			}
		}
		fk := fnKey(sf)
		if isLookup(sf) {
			// delegation: argument must derive from own path parameter
			for i, l := range lks {
				nsites++
				dep := core.DependsOn(l.arg, func(v ssa.Value) bool { return v == ssa.Value(pathParams[0]) })
				c.Check(dep, fk+"|delegates#"+itoa(i+1), p.Pos(l.call.Pos()),
					"a mount lookup that delegates to another lookup must pass a path derived from its own path parameter (the mount must be selected by the resolved path, not by some other path)")
			}
			// the matched subject: every strings.HasPrefix / == against a mounts key uses a value depending on the parameter
			c13lookupBody(c, sf, pathParams)
			continue
		}
		// API method: each path parameter flows into a lookup, or is rejected unless empty
		for _, pa := range pathParams {
			nsites++
			flows := false
			for _, l := range lks {
				if core.DependsOn(l.arg, func(v ssa.Value) bool { return v == ssa.Value(pa) }) {
					flows = true
				}
			}
			if !flows && rejectedUnlessEmpty(sf, pa) {
				c.Pass(fk+"|param:"+pa.Name(), p.Pos(sf.Pos()), "path parameter "+pa.Name()+" is rejected unless empty")
				continue
			}
			c.Check(flows, fk+"|param:"+pa.Name(), p.Pos(sf.Pos()), "path parameter "+pa.Name()+" must be resolved through the mount lookup")
		}
		// Source calls: receiver mount and path args
		for _, b := range sf.Blocks {
			for _, in := range b.Instrs {
				call, ok := in.(ssa.CallInstruction)
				if !ok || !call.Common().IsInvoke() {
					continue
				}
				cm := call.Common()
				if !types.Identical(cm.Value.Type(), fsI) && core.NamedOf(cm.Value.Type()) != fsI {
					continue
				}
				// receiver: load of field Source of a *Mount
				mnt := mountOfSource(cm.Value)
				if mnt == nil {
					continue
				}
				sig := cm.Method.Type().(*types.Signature)
				for i := 0; i < sig.Params().Len(); i++ {
					pv := sig.Params().At(i)
					if !core.IsStringType(pv.Type()) || !goPathParamNames[pv.Name()] {
						continue
					}
					nsites++
					arg := cm.Args[i]
					key := fk + "|Source." + cm.Method.Name() + "|" + pv.Name()
					var bad []string
					for _, o := range core.Origins(arg) {
						lc, idx := core.CallOfExtract(o)
						if lc == nil || idx != 1 || !isLookup(lc.Call.StaticCallee()) {
							bad = append(bad, "may be "+o.String()+", not the relative path returned by a mount lookup")
							continue
						}
						// found checked
						var found ssa.Value
						var mres ssa.Value
						for _, r := range *lc.Referrers() {
							if e, ok := r.(*ssa.Extract); ok {
								if e.Index == 2 {
									found = e
								} else if e.Index == 0 {
									mres = e
								}
							}
						}
						if found == nil || !core.BoolGuardDominates(found, true, b) {
							bad = append(bad, "'found' result of "+lc.String()+" is not tested before use")
						}
						// the mount receiving the path is the mount of that lookup, or was compared equal to it
						same := false
						for _, mo := range core.Origins(mnt) {
							if mo == mres {
								same = true
							} else if mres != nil && comparedEqual(sf, mo, mres, b) {
								same = true
							}
						}
						if !same {
							bad = append(bad, "relative path of "+lc.String()+" is handed to a different mount without an equality test of the two mounts")
						}
					}
					c.Check(len(bad) == 0, key, p.Pos(in.Pos()), "path passed to mount.Source."+cm.Method.Name()+" must be the relative path of a found lookup on that same mount", bad...)
				}
			}
		}
	}
	c.Stat("virtualos_sites", nsites)
	c.Stat("lookup_functions", len(lookups))
}

// c13lookupBody: in a lookup function that ranges over the mount table, the
// string matched against the keys depends on the path parameter and has passed
// filepath.Clean; the returned relative path is derived from that same string
// (or constant).
func c13lookupBody(c *core.Ctx, sf *ssa.Function, params []*ssa.Parameter) {
	p := c.P
	fk := fnKey(sf)
	isParam := func(v ssa.Value) bool { return len(params) > 0 && v == ssa.Value(params[0]) }
	isClean := func(v ssa.Value) bool {
		f := core.CalleeOfValue(v)
		return f != nil && f.Pkg != nil && f.Pkg.Pkg.Path() == "path/filepath" && (f.Name() == "Clean" || f.Name() == "Join")
	}
	n := 0
	for _, b := range sf.Blocks {
		for _, in := range b.Instrs {
			var subj ssa.Value
			switch x := in.(type) {
			case *ssa.Call:
				f := x.Call.StaticCallee()
				if f != nil && f.Pkg != nil && f.Pkg.Pkg.Path() == "strings" && f.Name() == "HasPrefix" && rangesKey(x.Call.Args[1]) {
					subj = x.Call.Args[0]
				}
			case *ssa.BinOp:
				if x.Op == token.EQL && core.IsStringType(x.X.Type()) {
					if rangesKey(x.X) {
						subj = x.Y
					} else if rangesKey(x.Y) {
						subj = x.X
					}
				}
			}
			if subj == nil {
				continue
			}
			n++
			okP := core.DependsOn(subj, isParam)
			okC := core.DependsOn(subj, isClean) || core.DependsOn(subj, func(w ssa.Value) bool {
				// made by a helper of the package whose every result has passed Clean/Join
				call, ok := w.(*ssa.Call)
				if !ok {
					return false
				}
				cal := call.Call.StaticCallee()
				if cal == nil || cal.Blocks == nil || cal.Pkg != sf.Pkg || cal == sf || cal.Signature.Results().Len() != 1 {
					return false
				}
				any := false
				for _, cb := range cal.Blocks {
					for _, cin := range cb.Instrs {
						if cr, ok := cin.(*ssa.Return); ok && len(cr.Results) == 1 {
							any = true
							if !core.DependsOn(cr.Results[0], isClean) {
								return false
							}
						}
					}
				}
				return any
			})
			c.Check(okP && okC, fk+"|match-subject#"+itoa(n), p.Pos(in.Pos()),
				"the string matched against mount points must be the cleaned absolute form of the path parameter"+ifs(!okP, " (does not depend on the parameter)")+ifs(!okC, " (did not pass filepath.Clean/Join)"))
		}
	}
	if n == 0 && len(sf.Blocks) > 0 {
		// a pure delegating lookup has no matching of its own: fine
		return
	}
}

// rangesKey: v is the key produced by ranging over a map (Extract #1 of Next).
func rangesKey(v ssa.Value) bool {
	e, ok := v.(*ssa.Extract)
	if !ok || e.Index != 1 {
		return false
	}
	_, ok = e.Tuple.(*ssa.Next)
	return ok
}

func mountOfSource(v ssa.Value) ssa.Value {
	// v = *(&m.Source)
	u, ok := v.(*ssa.UnOp)
	if !ok || u.Op != token.MUL {
		return nil
	}
	fa, ok := u.X.(*ssa.FieldAddr)
	if !ok {
		return nil
	}
	st, ok := fa.X.Type().Underlying().(*types.Pointer)
	if !ok {
		return nil
	}
	s, ok := st.Elem().Underlying().(*types.Struct)
	if !ok || s.Field(fa.Field).Name() != "Source" {
		return nil
	}
	return fa.X
}

// comparedEqual: block b is dominated by the equal-successor of a comparison a==b / a!=b.
func comparedEqual(sf *ssa.Function, a, b2 ssa.Value, blk *ssa.BasicBlock) bool {
	for _, b := range sf.Blocks {
		for _, in := range b.Instrs {
			bo, ok := in.(*ssa.BinOp)
			if !ok || (bo.Op != token.EQL && bo.Op != token.NEQ) {
				continue
			}
			if !((bo.X == a && bo.Y == b2) || (bo.X == b2 && bo.Y == a)) {
				continue
			}
			if core.BoolGuardDominates(bo, bo.Op == token.EQL, blk) {
				return true
			}
		}
	}
	return false
}

// rejectedUnlessEmpty: param != "" leads to an error return.
func rejectedUnlessEmpty(sf *ssa.Function, pa *ssa.Parameter) bool {
	for _, r := range *pa.Referrers() {
		bo, ok := r.(*ssa.BinOp)
		if !ok || (bo.Op != token.NEQ && bo.Op != token.EQL) {
			continue
		}
		other := bo.Y
		if other == ssa.Value(pa) {
			other = bo.X
		}
		cst, ok := other.(*ssa.Const)
		if !ok || cst.Value == nil || cst.Value.ExactString() != `""` {
			continue
		}
		for _, rr := range *bo.Referrers() {
			iff, ok := rr.(*ssa.If)
			if !ok {
				continue
			}
			s := iff.Block().Succs[0]
			if bo.Op == token.EQL {
				s = iff.Block().Succs[1]
			}
			// s must end in a return of a non-nil error
			if len(s.Instrs) > 0 {
				if ret, ok := s.Instrs[len(s.Instrs)-1].(*ssa.Return); ok && len(ret.Results) > 0 {
					last := ret.Results[len(ret.Results)-1]
					if cst, ok := last.(*ssa.Const); !ok || !cst.IsNil() {
						return true
					}
				}
			}
		}
	}
	return false
}

// ---------------------------------------------------------------- R3 (AST)

// Prefix tests between two non-constant path-like strings.
func c13r3(c *core.Ctx) {
	p := c.P
	n := 0
	for _, rel := range []string{"os", "os/localfs", "importer"} {
		if !p.HasPkg(rel) {
			continue
		}
		pk := p.Pkg(rel)
		info := pk.TypesInfo
		funcBodies(pk, func(fn *types.Func, fd *ast.FuncDecl) {
			perFn := 0
			ast.Inspect(fd.Body, func(nd ast.Node) bool {
				call, ok := nd.(*ast.CallExpr)
				if !ok {
					return true
				}
				cal := calleeOf(info, call)
				if !core.IsPkgFunc(cal, "strings", "HasPrefix") || len(call.Args) != 2 {
					return true
				}
				if _, isConst := constString(info, call.Args[1]); isConst {
					return true // tests against a literal are judged by R4
				}
				if _, isConst := constString(info, call.Args[0]); isConst {
					return true
				}
				n++
				perFn++
				key := rel + "." + declName(fd) + "|HasPrefix#" + itoa(perFn)
				ok2 := hasBoundaryCondition(info, fd, call)
				c.Check(ok2, key, posOf(p, call),
					"strings.HasPrefix("+exprStr(call.Args[0])+", "+exprStr(call.Args[1])+") between two paths needs a component-boundary condition (prefix ends in a separator, or the next byte of the path is a separator, or equality)")
				return true
			})
		})
	}
	c.Stat("path_prefix_tests", n)
}

// hasBoundaryCondition looks, in the same function, for an accompanying
// separator test on the same operands: p[len(q)] == sep, HasSuffix(q, sep),
// HasPrefix(p, q + sep) or HasPrefix(p[len(q):], sep).
func hasBoundaryCondition(info *types.Info, fd *ast.FuncDecl, call *ast.CallExpr) bool {
	pathObj := objOf(info, call.Args[0])
	preObj := objOf(info, call.Args[1])
	if be, ok := ast.Unparen(call.Args[1]).(*ast.BinaryExpr); ok && be.Op == token.ADD {
		// HasPrefix(p, q + "/")
		if s, ok := constString(info, be.Y); ok && isSepString(s) {
			return true
		}
		if isSepExpr(info, be.Y) {
			return true
		}
	}
	found := false
	ast.Inspect(fd.Body, func(n ast.Node) bool {
		switch x := n.(type) {
		case *ast.CallExpr:
			cal := calleeOf(info, x)
			if core.IsPkgFunc(cal, "strings", "HasSuffix") && len(x.Args) == 2 && objOf(info, x.Args[0]) == preObj && preObj != nil {
				if s, ok := constString(info, x.Args[1]); ok && isSepString(s) {
					found = true
				}
			}
			if core.IsPkgFunc(cal, "strings", "HasPrefix") && len(x.Args) == 2 {
				// HasPrefix(p[len(q):], "/")
				if se, ok := ast.Unparen(x.Args[0]).(*ast.SliceExpr); ok && objOf(info, se.X) == pathObj && pathObj != nil {
					if s, ok := constString(info, x.Args[1]); ok && isSepString(s) {
						found = true
					}
				}
			}
		case *ast.BinaryExpr:
			if x.Op == token.EQL || x.Op == token.NEQ {
				// p[len(q)] == '/'
				for _, side := range [][2]ast.Expr{{x.X, x.Y}, {x.Y, x.X}} {
					if ie, ok := ast.Unparen(side[0]).(*ast.IndexExpr); ok && objOf(info, ie.X) == pathObj && pathObj != nil {
						if lc, ok := ast.Unparen(ie.Index).(*ast.CallExpr); ok && isBuiltinCall(info, lc, "len") {
							if isSepExpr(info, side[1]) {
								found = true
							}
						}
					}
				}
			}
		}
		return true
	})
	return found
}

func isSepString(s string) bool { return s == "/" || s == "\\" }

func isSepExpr(info *types.Info, e ast.Expr) bool {
	if v, ok := constInt(info, e); ok && (v == '/' || v == '\\') {
		return true
	}
	if s, ok := constString(info, e); ok && isSepString(s) {
		return true
	}
	if o := objOf(info, e); o != nil && o.Pkg() != nil && (o.Pkg().Path() == "path/filepath" || o.Pkg().Path() == "os") && (o.Name() == "Separator" || o.Name() == "PathSeparator") {
		return true
	}
	if call, ok := ast.Unparen(e).(*ast.CallExpr); ok && len(call.Args) == 1 { // string(filepath.Separator)
		return isSepExpr(info, call.Args[0])
	}
	return false
}

// ---------------------------------------------------------------- R4

func c13r4(c *core.Ctx) {
	p := c.P
	ros := p.Pkg("os")
	fnObj := core.LookupFunc(ros, "ResolvePath")
	if fnObj == nil {
		core.Undecidedf("os.ResolvePath not found")
	}
	sf := p.SSAFunc(fnObj)
	if sf == nil || len(sf.Params) < 2 {
		core.Undecidedf("os.ResolvePath has no SSA body")
	}
	pathP := sf.Params[1]
	pos := p.Pos(sf.Pos())
	isClean := func(v ssa.Value) bool {
		f := core.CalleeOfValue(v)
		return f != nil && f.Pkg != nil && f.Pkg.Pkg.Path() == "path/filepath" && f.Name() == "Clean"
	}
	// the cleaned value(s): Clean(x) with x depending on the path parameter
	var cleaned []ssa.Value
	for _, b := range sf.Blocks {
		for _, in := range b.Instrs {
			if v, ok := in.(ssa.Value); ok && isClean(v) {
				if core.DependsOn(v.(*ssa.Call).Call.Args[0], func(x ssa.Value) bool { return x == ssa.Value(pathP) }) {
					cleaned = append(cleaned, v)
				}
			}
		}
	}
	c.Check(len(cleaned) > 0, "os.ResolvePath|cleans", pos, "ResolvePath applies filepath.Clean to the path parameter")
	isCleaned := func(v ssa.Value) bool {
		for _, cv := range cleaned {
			if v == cv {
				return true
			}
		}
		return false
	}
	// rejecting tests on the cleaned value: HasPrefix(cleaned, L) / cleaned == L
	type test struct {
		kind string
		lit  string
		val  ssa.Value
	}
	var tests []test
	for _, b := range sf.Blocks {
		for _, in := range b.Instrs {
			switch x := in.(type) {
			case *ssa.Call:
				f := x.Call.StaticCallee()
				if f != nil && f.Pkg != nil && f.Pkg.Pkg.Path() == "strings" && f.Name() == "HasPrefix" && isCleaned(x.Call.Args[0]) {
					if cst, ok := x.Call.Args[1].(*ssa.Const); ok && cst.Value != nil {
						tests = append(tests, test{"prefix", constStr(cst), x})
					}
				}
			case *ssa.BinOp:
				if x.Op == token.EQL || x.Op == token.NEQ {
					var o ssa.Value
					if isCleaned(x.X) {
						o = x.Y
					} else if isCleaned(x.Y) {
						o = x.X
					}
					if cst, ok := o.(*ssa.Const); ok && cst.Value != nil && core.IsStringType(cst.Type()) {
						tests = append(tests, test{ifs(x.Op == token.EQL, "eq") + ifs(x.Op == token.NEQ, "neq"), constStr(cst), x})
					}
				}
			}
		}
	}
	// every return with nil error whose result depends on the path must be
	// dominated by the non-rejecting outcome of tests that together cover
	// {".."} ∪ {"../"+anything}
	nret := 0
	for _, b := range sf.Blocks {
		if len(b.Instrs) == 0 {
			continue
		}
		ret, ok := b.Instrs[len(b.Instrs)-1].(*ssa.Return)
		if !ok || len(ret.Results) != 2 {
			continue
		}
		if cst, ok := ret.Results[1].(*ssa.Const); !ok || !cst.IsNil() {
			continue // error return
		}
		nret++
		coversBare, coversSlash := false, false
		for _, t := range tests {
			var passTruth bool // truth value of the test on the accepted path
			switch t.kind {
			case "prefix", "eq":
				passTruth = false
			case "neq":
				passTruth = true
			}
			if !core.BoolGuardDominates(t.val, passTruth, b) {
				continue
			}
			switch t.kind {
			case "prefix":
				if strings.HasPrefix("..", t.lit) {
					coversBare = true
				}
				if strings.HasPrefix("../", t.lit) || strings.HasPrefix("..\\", t.lit) {
					coversSlash = true
				}
			case "eq", "neq":
				if t.lit == ".." {
					coversBare = true
				}
			}
		}
		key := "os.ResolvePath|return#" + itoa(nret)
		c.Check(coversBare && coversSlash, key, p.Pos(ret.Pos()),
			"a success return of ResolvePath must be dominated by rejection of the cleaned path '..' and of every cleaned path starting with '../'"+
				ifs(!coversBare, " — bare '..' is not rejected")+ifs(!coversSlash, " — '../x' is not rejected"))
		// what is returned: the cleaned path, or Join(base, cleaned)
		var bad []string
		for _, o := range core.Origins(ret.Results[0]) {
			if isCleaned(o) {
				continue
			}
			if f := core.CalleeOfValue(o); f != nil && f.Pkg != nil && f.Pkg.Pkg.Path() == "path/filepath" && f.Name() == "Join" {
				args := o.(*ssa.Call).Call.Args
				okj := false
				// variadic: slice literal; accept when every path-derived element is the cleaned value
				if core.DependsOn(o, isCleaned) && !dependsRaw(o, pathP, isCleaned) {
					okj = true
				}
				_ = args
				if okj {
					continue
				}
			}
			bad = append(bad, "returns "+o.String()+" which is not the cleaned path or Join(base, cleaned path)")
		}
		c.Check(len(bad) == 0, key+"|value", p.Pos(ret.Pos()), "ResolvePath returns only the cleaned path or its join under the base", bad...)
	}
	c.Stat("resolvepath_success_returns", nret)
	sort.Slice(tests, func(i, j int) bool { return tests[i].lit < tests[j].lit })
	for _, t := range tests {
		c.Info("ResolvePath test %s %q", t.kind, t.lit)
	}
}

func constStr(c *ssa.Const) string {
	s := c.Value.ExactString()
	if len(s) >= 2 && s[0] == '"' {
		if u, err := unquote(s); err == nil {
			return u
		}
	}
	return s
}

// dependsRaw: v depends on the raw parameter along a path that does not go
// through a cleaned value.
func dependsRaw(v ssa.Value, raw *ssa.Parameter, isCleaned func(ssa.Value) bool) bool {
	return core.DependsOnAvoiding(v, func(x ssa.Value) bool { return x == ssa.Value(raw) }, isCleaned)
}

// unrootedBranchDominates: b is reached only through the branch of a test
// `x.base == ""` (or the else branch of `x.base != ""`) on a field named base.
func unrootedBranchDominates(b *ssa.BasicBlock) bool {
	for d := b.Idom(); d != nil; d = d.Idom() {
		if len(d.Instrs) == 0 {
			continue
		}
		iff, ok := d.Instrs[len(d.Instrs)-1].(*ssa.If)
		if !ok {
			continue
		}
		bo, ok := iff.Cond.(*ssa.BinOp)
		if !ok || (bo.Op != token.EQL && bo.Op != token.NEQ) {
			continue
		}
		k, isC := bo.Y.(*ssa.Const)
		if !isC || k.Value == nil || k.Value.ExactString() != `""` {
			continue
		}
		ld, ok := bo.X.(*ssa.UnOp)
		if !ok {
			continue
		}
		fa, ok := ld.X.(*ssa.FieldAddr)
		if !ok {
			continue
		}
		if f := fieldVar(fa); f == nil || f.Name() != "base" {
			continue
		}
		side := d.Succs[0]
		if bo.Op == token.NEQ {
			side = d.Succs[1]
		}
		if len(side.Preds) == 1 && (side == b || side.Dominates(b)) {
			return true
		}
	}
	return false
}
