package rules

import (
	"go/token"
	"go/types"
	"sort"
	"strings"

	"golang.org/x/tools/go/ssa"

	"risorcheck/core"
)

// Rules about the VM's entry points, written after the ninth wave (D82 ff.).

func vmType(p *core.Program) *types.Named {
	return core.MustType(p.Pkg("vm"), "VirtualMachine")
}

// storesToField returns the stores in fn to field idx of a value of type nt.
func storesToField(fn *ssa.Function, nt *types.Named, idx int) []*ssa.Store {
	var out []*ssa.Store
	for _, b := range fn.Blocks {
		for _, in := range b.Instrs {
			if st, ok := in.(*ssa.Store); ok {
				if fa, ok := st.Addr.(*ssa.FieldAddr); ok && fa.Field == idx && core.NamedOf(fa.X.Type()) == nt {
					out = append(out, st)
				}
			}
		}
	}
	return out
}

// updatesMapField: fn contains a MapUpdate on a load of field idx of nt.
func updatesMapField(fn *ssa.Function, nt *types.Named, idx int) ssa.Instruction {
	for _, b := range fn.Blocks {
		for _, in := range b.Instrs {
			if mu, ok := in.(*ssa.MapUpdate); ok {
				if _, ok := loadOfField(mu.Map, nt, idx); ok {
					return in
				}
			}
		}
	}
	return nil
}

// ---------------------------------------------------------------------------
// evaluationsEndWithTheContextError: a function of package vm that arms the
// VM for a context (calls start) and then evaluates asks the context for its
// error once the evaluation has returned.  A blocked primitive gives up when
// the context ends (a range over a channel ends as if the channel were closed,
// try catches the error of its callback), and what follows can run to the end
// of the code before the watcher has set the halt flag: without the test the
// cancelled evaluation returns (value, nil).
func evaluationsEndWithTheContextError(c *core.Ctx) {
	p := c.P
	t := VMTable(p)
	eval := p.SSAFunc(t.Eval)
	if eval == nil {
		core.Undecidedf("dispatch function not resolved")
	}
	evaluates := map[*ssa.Function]bool{eval: true}
	for _, fn := range repoFns(p, "vm") {
		for _, b := range fn.Blocks {
			for _, in := range b.Instrs {
				if call, ok := in.(*ssa.Call); ok && call.Call.StaticCallee() == eval && fn.Name() == "callFunction" {
					evaluates[fn] = true
				}
			}
		}
	}
	n := 0
	for _, fn := range repoFns(p, "vm") {
		if fn.Parent() != nil {
			continue
		}
		var start, ev ssa.Instruction
		for _, b := range fn.Blocks {
			for _, in := range b.Instrs {
				if call, ok := in.(*ssa.Call); ok {
					if cal := call.Call.StaticCallee(); cal != nil {
						if cal.Name() == "start" && cal.Signature.Recv() != nil {
							start = in
						}
						if evaluates[cal] {
							ev = in
						}
					}
				}
			}
		}
		if start == nil || ev == nil || !hostFacing(p, fn) {
			continue
		}
		n++
		asked := false
		for _, b := range fn.Blocks {
			for _, in := range b.Instrs {
				if call, ok := in.(*ssa.Call); ok && call.Call.IsInvoke() && call.Call.Method.Name() == "Err" &&
					core.IsNamed(call.Call.Value.Type(), "context", "Context") && instrReaches(ev, in) && in != ev {
					asked = true
				}
			}
		}
		c.Check(asked, core.SSAName(fn)+"|context-error-asked-after-evaluating", p.Pos(ev.Pos()),
			core.SSAName(fn)+" arms the VM for a context and evaluates"+ife(asked, "; once the evaluation has returned it asks the context for its error", ", but never asks the context for its error afterwards: try(func() { for {} }) or `for x := range c {}; 42` under a cancelled context return (value, nil) when the code ends before the watcher sets the halt flag"))
	}
	if n < 2 {
		core.Undecidedf("only %d functions of package vm arm the VM and evaluate", n)
	}
	c.Stat("arming_entry_points", n)
}

// evaluationsThatFailAskTheContextToo: the same functions ask the context for
// its error on every path from the evaluation to a return, also where the
// evaluation came back with an error of its own.  What a cancelled evaluation
// fails with is often the consequence of the cancellation (a child process
// that was killed: "signal: killed"; a server that was shut down: "http:
// Server closed"), and the caller is owed the context's error.
func evaluationsThatFailAskTheContextToo(c *core.Ctx) {
	p := c.P
	t := VMTable(p)
	eval := p.SSAFunc(t.Eval)
	evaluates := map[*ssa.Function]bool{eval: true}
	for _, fn := range repoFns(p, "vm") {
		for _, b := range fn.Blocks {
			for _, in := range b.Instrs {
				if call, ok := in.(*ssa.Call); ok && call.Call.StaticCallee() == eval && fn.Name() == "callFunction" {
					evaluates[fn] = true
				}
			}
		}
	}
	n := 0
	for _, fn := range repoFns(p, "vm") {
		if fn.Parent() != nil {
			continue
		}
		var start, ev ssa.Instruction
		for _, b := range fn.Blocks {
			for _, in := range b.Instrs {
				if call, ok := in.(*ssa.Call); ok {
					if cal := call.Call.StaticCallee(); cal != nil {
						if cal.Name() == "start" && cal.Signature.Recv() != nil {
							start = in
						}
						if evaluates[cal] {
							ev = in
						}
					}
				}
			}
		}
		if start == nil || ev == nil || !hostFacing(p, fn) {
			continue
		}
		n++
		asks := map[*ssa.BasicBlock]bool{}
		sameBlock := false
		for _, b := range fn.Blocks {
			after := b != ev.Block()
			for _, in := range b.Instrs {
				if in == ev {
					after = true
					continue
				}
				if call, ok := in.(*ssa.Call); ok && after && call.Call.IsInvoke() && call.Call.Method.Name() == "Err" && core.IsNamed(call.Call.Value.Type(), "context", "Context") {
					if b == ev.Block() {
						sameBlock = true
					} else {
						asks[b] = true
					}
				}
			}
		}
		escapes := false
		if !sameBlock {
			seen := map[*ssa.BasicBlock]bool{}
			var walk func(b *ssa.BasicBlock)
			walk = func(b *ssa.BasicBlock) {
				if seen[b] || asks[b] {
					return
				}
				seen[b] = true
				for _, in := range b.Instrs {
					if _, ok := in.(*ssa.Return); ok {
						escapes = true
					}
				}
				for _, s := range b.Succs {
					walk(s)
				}
			}
			for _, s := range ev.Block().Succs {
				walk(s)
			}
		}
		c.Check(!escapes, core.SSAName(fn)+"|context-error-asked-on-every-path-after-evaluating", p.Pos(ev.Pos()),
			core.SSAName(fn)+" arms the VM for a context and evaluates"+ife(!escapes, "; every path from there to a return asks the context for its error", "; where the evaluation comes back with an error the function returns it without asking the context: exec(\"sleep\", [\"3\"]) under a deadline returns \"signal: killed\", not the context's error"))
	}
	if n < 2 {
		core.Undecidedf("only %d functions of package vm arm the VM and evaluate", n)
	}
}

// hostFacing: fn is an exported method, or every static caller of it is one.
func hostFacing(p *core.Program, fn *ssa.Function) bool {
	if fn.Object() != nil && fn.Object().Exported() {
		return true
	}
	callers := 0
	for _, g := range repoFns(p, "vm") {
		for _, b := range g.Blocks {
			for _, in := range b.Instrs {
				if ci, ok := in.(ssa.CallInstruction); ok && ci.Common().StaticCallee() == fn {
					callers++
					if g.Object() == nil || !g.Object().Exported() {
						return false
					}
				}
			}
		}
	}
	return callers > 0
}

// ---------------------------------------------------------------------------
// resetKeepsTheHostModules: the module table holds two kinds of entries, the
// modules the running code imported and the modules the host supplies as
// globals (registered when the options are applied).  The function that empties
// the table for new code registers the host's again: the options of this run
// were applied before the reset, and `import math` fails with "imports are
// disabled" from the second RunCode on otherwise.
func resetKeepsTheHostModules(c *core.Ctx) {
	p := c.P
	vmT := vmType(p)
	mi := fieldIdxByName(vmT, "modules")
	gi := fieldIdxByName(vmT, "globals")
	if mi < 0 || gi < 0 {
		core.Undecidedf("VirtualMachine.modules/globals not found")
	}
	// registering functions: a MapUpdate into modules fed from a range over globals
	registers := map[*ssa.Function]bool{}
	for _, fn := range repoFns(p, "vm") {
		if updatesMapField(fn, vmT, mi) == nil {
			continue
		}
		for _, b := range fn.Blocks {
			for _, in := range b.Instrs {
				if rg, ok := in.(*ssa.Range); ok {
					if _, ok := loadOfField(rg.X, vmT, gi); ok {
						registers[fn] = true
					}
				}
			}
		}
	}
	if len(registers) == 0 {
		core.Undecidedf("no function of package vm registers the module globals")
	}
	n := 0
	for _, fn := range repoFns(p, "vm") {
		for _, st := range storesToField(fn, vmT, mi) {
			if _, fresh := st.Val.(*ssa.MakeMap); !fresh {
				continue
			}
			// constructors write the field of a VM they have just allocated
			if fa := st.Addr.(*ssa.FieldAddr); isFreshAlloc(fa.X) {
				continue
			}
			n++
			again := false
			for _, b := range fn.Blocks {
				for _, in := range b.Instrs {
					if call, ok := in.(*ssa.Call); ok {
						if cal := call.Call.StaticCallee(); cal != nil && registers[cal] && instrReaches(st, in) {
							again = true
						}
					}
				}
			}
			if registers[fn] {
				again = true
			}
			c.Check(again, core.SSAName(fn)+"|host-modules-registered-after-emptying", p.Pos(st.Pos()),
				core.SSAName(fn)+" empties the module table of a VM in use"+ife(again, " and registers the host's module globals again", " and does not register the host's module globals again: they were registered when the options of this run were applied, before the reset, so `import math` fails with \"imports are disabled\" from the second RunCode on"))
		}
	}
	c.Stat("module_table_resets", n)
	if n == 0 {
		c.Pass("vm|module-table-never-emptied", "", "no function empties the module table of a VM in use")
	}
}

func isFreshAlloc(v ssa.Value) bool {
	for _, o := range core.Origins(v) {
		if al, ok := o.(*ssa.Alloc); ok && al.Heap {
			continue
		}
		return false
	}
	return true
}

// ---------------------------------------------------------------------------
// resetLooksAtWhatIsLoaded: whether RunCode has to forget the code a VM has
// loaded is decided by looking at the tables that would be forgotten (or not
// decided at all), never by the VM's own start counter alone: a clone starts
// for the first time with the code its original had loaded, bound to the
// original's globals, and a RunCode on it with other options (WithoutGlobal)
// would otherwise run that code as it is.
func resetLooksAtWhatIsLoaded(c *core.Ctx) {
	p := c.P
	vmT := vmType(p)
	li := fieldIdxByName(vmT, "loadedCode")
	if li < 0 {
		core.Undecidedf("VirtualMachine.loadedCode not found")
	}
	// the reset function: stores a fresh map into loadedCode of a VM in use
	var reset *ssa.Function
	for _, fn := range repoFns(p, "vm") {
		for _, st := range storesToField(fn, vmT, li) {
			if _, fresh := st.Val.(*ssa.MakeMap); fresh && !isFreshAlloc(st.Addr.(*ssa.FieldAddr).X) {
				reset = fn
			}
		}
	}
	if reset == nil {
		core.Undecidedf("no function empties VirtualMachine.loadedCode")
	}
	n := 0
	for _, fn := range repoFns(p, "vm") {
		for _, b := range fn.Blocks {
			for _, in := range b.Instrs {
				call, ok := in.(*ssa.Call)
				if !ok || call.Call.StaticCallee() != reset {
					continue
				}
				n++
				// fields of the VM read by the conditions that decide whether b runs
				fields := map[string]bool{}
				conds := 0
				for _, b2 := range fn.Blocks {
					if len(b2.Instrs) == 0 || b2 == b {
						continue
					}
					iff, ok := b2.Instrs[len(b2.Instrs)-1].(*ssa.If)
					if !ok {
						continue
					}
					// b2 decides about b when it jumps to b directly (one arm of
					// an || chain), or dominates b with only one successor
					// leading there
					direct := b2.Succs[0] == b || b2.Succs[1] == b
					r0 := b2.Succs[0] == b || instrReaches(b2.Succs[0].Instrs[0], in)
					r1 := b2.Succs[1] == b || instrReaches(b2.Succs[1].Instrs[0], in)
					if !direct && (r0 == r1 || !b2.Dominates(b)) {
						continue
					}
					conds++
					var walk func(v ssa.Value, d int)
					walk = func(v ssa.Value, d int) {
						if d > 6 {
							return
						}
						switch x := v.(type) {
						case *ssa.BinOp:
							walk(x.X, d+1)
							walk(x.Y, d+1)
						case *ssa.UnOp:
							if fa, ok := x.X.(*ssa.FieldAddr); ok && core.NamedOf(fa.X.Type()) == vmT {
								fields[anchorName(vmT, fa.Field)] = true
								return
							}
							walk(x.X, d+1)
						case *ssa.Call:
							for _, a := range x.Call.Args {
								walk(a, d+1)
							}
						case *ssa.Phi:
							for _, e := range x.Edges {
								walk(e, d+1)
							}
						case *ssa.Convert:
							walk(x.X, d+1)
						}
					}
					walk(iff.Cond, 0)
				}
				var names []string
				for f := range fields {
					names = append(names, f)
				}
				sort.Strings(names)
				ok2 := len(fields) == 0 || fields["loadedCode"]
				c.Check(ok2, core.SSAName(fn)+"|reset-decided-by-what-is-loaded", p.Pos(call.Pos()),
					core.SSAName(fn)+sprintf(" decides whether to call %s under %d condition(s) reading the VM fields %v", reset.Name(), conds, names)+ife(ok2, "", ": none of them looks at the loaded code, so a VM that starts for the first time with code already loaded (a clone) keeps it, bound to the globals of the configuration it was loaded under"))
			}
		}
	}
	if n == 0 {
		core.Undecidedf("%s is never called", reset.Name())
	}
	c.Stat("reset_call_sites", n)
}

// ---------------------------------------------------------------------------
// globalSlotsAreNeverGoNil: the function that allocates the array of global
// variables fills every slot (with the host's value or the script's nil) on
// every turn of its loop.  A slot left as a Go nil is what a variable holds
// whose declaring statement failed; in a REPL the next piece can name it, and
// [a, b] then builds a list of Go nils whose Inspect() panics in the host,
// outside the VM's recover.
func globalSlotsAreNeverGoNil(c *core.Ctx) {
	p := c.P
	codeT := core.MustType(p.Pkg("vm"), "code")
	gi := fieldIdxByName(codeT, "Globals")
	if gi < 0 {
		core.Undecidedf("vm.code.Globals not found")
	}
	n := 0
	for _, fn := range repoFns(p, "vm") {
		for _, st := range storesToField(fn, codeT, gi) {
			ms, ok := st.Val.(*ssa.MakeSlice)
			if !ok {
				continue
			}
			n++
			// stores into the slice (through the field or the value itself)
			storeBlocks := map[*ssa.BasicBlock]bool{}
			for _, b := range fn.Blocks {
				for _, in := range b.Instrs {
					s2, ok := in.(*ssa.Store)
					if !ok {
						continue
					}
					ia, ok := s2.Addr.(*ssa.IndexAddr)
					if !ok {
						continue
					}
					if ia.X == ms {
						storeBlocks[b] = true
					} else if _, ok := loadOfField(ia.X, codeT, gi); ok {
						storeBlocks[b] = true
					}
				}
			}
			// the loop: a header with a back edge; every cycle through it passes a store
			bad := ""
			for _, h := range fn.Blocks {
				if !inLoop(h) || storeBlocks[h] {
					continue
				}
				// can h reach itself avoiding the store blocks?
				seen := map[*ssa.BasicBlock]bool{}
				var walk func(x *ssa.BasicBlock) bool
				walk = func(x *ssa.BasicBlock) bool {
					for _, s := range x.Succs {
						if s == h {
							return true
						}
						if seen[s] || storeBlocks[s] {
							continue
						}
						seen[s] = true
						if walk(s) {
							return true
						}
					}
					return false
				}
				if walk(h) {
					bad = p.Pos(h.Instrs[0].Pos())
				}
			}
			if len(storeBlocks) == 0 {
				bad = "no store into the slice at all"
			}
			c.Check(bad == "", core.SSAName(fn)+"|every-global-slot-filled", p.Pos(st.Pos()),
				core.SSAName(fn)+" allocates the globals array and fills a slot on every turn of its loop"+ifs(bad != "", ": a turn of the loop ("+bad+") can complete without storing into the array, leaving a Go nil where a variable's value is expected"))
		}
	}
	if n == 0 {
		core.Undecidedf("no function allocates vm.code.Globals")
	}
	c.Stat("globals_allocations", n)
}

// ---------------------------------------------------------------------------
// snapshotIteratorsSkipRemovedKeys: an iterator that walks a snapshot of a
// container's keys (a keys slice taken at construction) while the values stay
// in the live map decides in Next, in a loop, whether the key under the cursor
// is still present: a key removed since the snapshot is skipped, the ones after
// it are still produced.  Reporting the end of the iteration (or a key without
// an entry) at the first removed key loses the rest of the container.
func snapshotIteratorsSkipRemovedKeys(c *core.Ctx) {
	p := c.P
	n := 0
	for _, fn := range repoFns(p, "object") {
		if fn.Name() != "Next" || fn.Signature.Recv() == nil || fn.Parent() != nil {
			continue
		}
		nt := core.NamedOf(fn.Signature.Recv().Type())
		if nt == nil {
			continue
		}
		st, ok := nt.Underlying().(*types.Struct)
		if !ok {
			continue
		}
		ki := fieldIdxByName(nt, "keys")
		if ki < 0 {
			continue
		}
		if _, isSlice := st.Field(ki).Type().Underlying().(*types.Slice); !isSlice {
			continue
		}
		// a live container: a pointer field to a type with a map field
		live := false
		for i := 0; i < st.NumFields(); i++ {
			if ptr, ok := st.Field(i).Type().(*types.Pointer); ok {
				if cst, ok := ptr.Elem().Underlying().(*types.Struct); ok {
					for j := 0; j < cst.NumFields(); j++ {
						if _, isMap := cst.Field(j).Type().Underlying().(*types.Map); isMap {
							live = true
						}
					}
				}
			}
		}
		if !live {
			continue
		}
		n++
		inLoopLookup := false
		for _, b := range fn.Blocks {
			for _, in := range b.Instrs {
				if lk, ok := in.(*ssa.Lookup); ok && lk.CommaOk && inLoop(b) {
					if _, isMap := lk.X.Type().Underlying().(*types.Map); isMap {
						inLoopLookup = true
					}
				}
			}
		}
		c.Check(inLoopLookup, core.SSAName(fn)+"|removed-keys-skipped", p.Pos(fn.Pos()),
			core.SSAName(fn)+" walks a snapshot of the keys of a live container"+ife(inLoopLookup, " and tests, in a loop, whether the key under the cursor is still present", " without a loop that tests whether the key under the cursor is still present: at the first key removed since the snapshot the iteration ends early or yields a key that has no entry"))
	}
	if n < 2 {
		core.Undecidedf("only %d snapshot iterators over live containers found", n)
	}
	c.Stat("snapshot_iterators", n)
}

var _ = token.ADD

// ---------------------------------------------------------------------------
// cloneTablesAreWrittenUnderTheCloneLock: Clone snapshots the VM's tables (the
// maps it ranges over) under one mutex, because a clone is made while the VM
// runs (spawn, go, callbacks from module goroutines, and hosts that call Clone
// from another goroutine).  Every write of such a table in a VM that is in use
// (an entry, a delete, or a new map stored into the field) therefore holds
// that mutex, unconditionally: a lock that is only taken under some condition
// is not held as far as the clone is concerned.
func cloneTablesAreWrittenUnderTheCloneLock(c *core.Ctx) {
	p := c.P
	vmT := vmType(p)
	st := vmT.Underlying().(*types.Struct)
	var clone *ssa.Function
	for _, fn := range repoFns(p, "vm") {
		if fn.Name() == "Clone" && fn.Signature.Recv() != nil && core.NamedOf(fn.Signature.Recv().Type()) == vmT && fn.Parent() == nil {
			clone = fn
		}
	}
	if clone == nil {
		core.Undecidedf("VirtualMachine.Clone not found")
	}
	fns := repoFunctions(p)
	la := core.AnalyzeLocks(fns, exportedEntry)
	cm := cloneModelOf(p)
	tables := map[int]string{}
	for _, in := range cm.Inits {
		if in.Kind != "copy" || in.Source < 0 {
			continue
		}
		for _, l := range la.At(in.Fn, in.Read).Names() {
			tables[in.Source] = l
		}
	}
	if len(tables) < 2 {
		core.Undecidedf("Clone ranges over %d tables of the VM under a lock", len(tables))
	}
	n := 0
	for _, fn := range repoFns(p, "vm") {
		if fn == clone || cm.IsBuilder(fn) {
			continue
		}
		perField := map[int]int{}
		for _, b := range fn.Blocks {
			for _, in := range b.Instrs {
				field := -1
				what := ""
				switch x := in.(type) {
				case *ssa.MapUpdate:
					if fa, ok := loadOfField(x.Map, vmT, -2); ok {
						_ = fa
					}
					for fi := range tables {
						if fa, ok := loadOfField(x.Map, vmT, fi); ok && !isFreshAlloc(fa.X) {
							field, what = fi, "stores an entry into"
						}
					}
				case *ssa.Call:
					if bi, ok := x.Call.Value.(*ssa.Builtin); ok && bi.Name() == "delete" && len(x.Call.Args) > 0 {
						for fi := range tables {
							if fa, ok := loadOfField(x.Call.Args[0], vmT, fi); ok && !isFreshAlloc(fa.X) {
								field, what = fi, "deletes from"
							}
						}
					}
				case *ssa.Store:
					if fa, ok := x.Addr.(*ssa.FieldAddr); ok && core.NamedOf(fa.X.Type()) == vmT && !isFreshAlloc(fa.X) {
						if _, isT := tables[fa.Field]; isT {
							field, what = fa.Field, "replaces"
						}
					}
				}
				if field < 0 {
					continue
				}
				n++
				perField[field]++
				lock := tables[field]
				ok := la.At(fn, in)[lock]
				if !ok && fn.Parent() != nil {
					// an option closure: it runs where the options are applied
					// (a dynamic call of a value of the option type)
					ok = optionSitesHold(p, la, fn, lock)
				}
				c.Check(ok, core.SSAName(fn)+"|"+st.Field(field).Name()+"|written-under-the-clone-lock|"+sprintf("%d", perField[field]), p.Pos(in.Pos()),
					core.SSAName(fn)+" "+what+" vm."+st.Field(field).Name()+", which Clone ranges over under "+lock+ife(ok, "; it holds that lock", "; it does not hold that lock on every path: a clone made at that moment (spawn, a callback on another goroutine, a host that clones a running VM) iterates the map while it is written, which is a fatal error in Go"))
			}
		}
	}
	if n == 0 {
		core.Undecidedf("nothing writes the tables that Clone snapshots")
	}
	c.Stat("clone_table_writes", n)
}

// optionSitesHold: fn is a closure of a named function type; every dynamic
// call of a value of that type in its package happens with lock held.
func optionSitesHold(p *core.Program, la *core.LockAnalysis, fn *ssa.Function, lock string) bool {
	sites := 0
	for _, g := range repoFns(p, core.RelPkg(fn.Pkg.Pkg)) {
		for _, b := range g.Blocks {
			for _, in := range b.Instrs {
				call, ok := in.(*ssa.Call)
				if !ok || call.Call.IsInvoke() || call.Call.StaticCallee() != nil {
					continue
				}
				if _, isBuiltin := call.Call.Value.(*ssa.Builtin); isBuiltin {
					continue
				}
				if !types.Identical(call.Call.Value.Type().Underlying(), fn.Signature) {
					continue
				}
				if _, named := call.Call.Value.Type().(*types.Named); !named {
					continue
				}
				sites++
				if !la.At(g, in)[lock] {
					return false
				}
			}
		}
	}
	return sites > 0
}

// ---------------------------------------------------------------------------
// evaluationsRunUnderTheCallersContext: the context a Run, RunCode or Call
// evaluates under (the one it hands to initContext) is the context the caller
// gave it.  A context derived for the duration of the call and cancelled on
// return ends everything the piece started that is meant to outlive it: a
// thread spawned by one REPL piece and waited for by the next is halted, and
// its channel operations fail with "context canceled".
func evaluationsRunUnderTheCallersContext(c *core.Ctx) {
	p := c.P
	n := 0
	for _, fn := range repoFns(p, "vm") {
		if fn.Parent() != nil || !hostFacing(p, fn) {
			continue
		}
		var ctxParam ssa.Value
		for _, prm := range fn.Params {
			if core.IsNamed(prm.Type(), "context", "Context") {
				ctxParam = prm
			}
		}
		if ctxParam == nil {
			continue
		}
		for _, b := range fn.Blocks {
			for _, in := range b.Instrs {
				call, ok := in.(*ssa.Call)
				if !ok {
					continue
				}
				cal := call.Call.StaticCallee()
				if cal == nil || cal.Name() != "initContext" || len(call.Call.Args) < 2 {
					continue
				}
				n++
				arg := call.Call.Args[1]
				same := arg == ctxParam
				if !same {
					same = true
					for _, o := range core.Origins(arg) {
						if o != ctxParam {
							same = false
						}
					}
				}
				c.Check(same, core.SSAName(fn)+"|evaluates-under-the-callers-context", p.Pos(call.Pos()),
					core.SSAName(fn)+" evaluates under "+ife(same, "the context its caller gave it", "a context of its own making: what the evaluation starts for later (a thread that the next REPL piece waits for, a server) is cancelled when this call returns"))
			}
		}
	}
	if n < 2 {
		core.Undecidedf("only %d host-facing functions of package vm call initContext", n)
	}
	c.Stat("init_context_sites", n)
}

// ---------------------------------------------------------------------------
// suppliedGlobalsReplaceTheOldOnes: the option that supplies globals to a VM
// starts the table of input globals afresh for each set of options it is part
// of.  A table that only ever grows keeps, on a reused VM, every global an
// earlier invocation supplied: a later invocation configured without it
// (WithoutGlobal("os")) still finds the module, by import or through a
// hoisted name.
func suppliedGlobalsReplaceTheOldOnes(c *core.Ctx) {
	p := c.P
	vmT := vmType(p)
	gi := fieldIdxByName(vmT, "inputGlobals")
	if gi < 0 {
		core.Undecidedf("VirtualMachine.inputGlobals not found")
	}
	n := 0
	for _, fn := range repoFns(p, "vm") {
		if fn.Parent() == nil {
			continue // option closures only
		}
		if updatesMapField(fn, vmT, gi) == nil {
			continue
		}
		n++
		fresh := false
		for _, st := range storesToField(fn, vmT, gi) {
			if _, ok := st.Val.(*ssa.MakeMap); ok {
				fresh = true
			}
		}
		c.Check(fresh, core.SSAName(fn)+"|input-globals-started-afresh", p.Pos(fn.Pos()),
			core.SSAName(fn)+" adds to the VM's table of input globals"+ife(fresh, " and starts the table afresh (for the first such option of a set)", " and never starts it afresh: on a reused VM the globals of every earlier invocation stay, whatever the configuration of the current one leaves out"))
	}
	if n == 0 {
		core.Undecidedf("no option closure writes VirtualMachine.inputGlobals")
	}
	c.Stat("global_supplying_options", n)
}

// ---------------------------------------------------------------------------
// importErrorsReachTheScript: every error that importing a module can end with
// has a way out of the dispatch loop: the error result of each importModule
// call there is returned on some path.  An error that is only compared with
// nil is swallowed together with whatever the module's code did before it
// failed: `from pkg import name` with a failing pkg/name fell back, silently,
// to an attribute called name of pkg.
func importErrorsReachTheScript(c *core.Ctx) {
	p := c.P
	t := VMTable(p)
	eval := p.SSAFunc(t.Eval)
	n := 0
	// the dispatch function, and the methods that the import clauses hand their work to
	var blocks []*ssa.BasicBlock
	blocks = append(blocks, eval.Blocks...)
	for _, h := range t.HelpersOf("Import", "FromImport") {
		if hf := p.SSAFunc(h); hf != nil {
			blocks = append(blocks, hf.Blocks...)
		}
	}
	for _, b := range blocks {
		for _, in := range b.Instrs {
			call, ok := in.(*ssa.Call)
			if !ok {
				continue
			}
			cal := call.Call.StaticCallee()
			if cal == nil || cal.Name() != "importModule" {
				continue
			}
			n++
			returned := false
			if refs := call.Referrers(); refs != nil {
				for _, r := range *refs {
					ex, ok := r.(*ssa.Extract)
					if !ok || ex.Index != 1 {
						continue
					}
					seen := map[ssa.Value]bool{}
					var walk func(v ssa.Value, d int)
					walk = func(v ssa.Value, d int) {
						if d > 6 || seen[v] || v.Referrers() == nil {
							return
						}
						seen[v] = true
						for _, r2 := range *v.Referrers() {
							switch x := r2.(type) {
							case *ssa.Return:
								returned = true
							case *ssa.Phi:
								walk(x, d+1)
							case *ssa.MakeInterface:
								walk(x, d+1)
							case *ssa.Store:
								// spilled result of a function with defers
								if al, ok := x.Addr.(*ssa.Alloc); ok && x.Val == v {
									if ar := al.Referrers(); ar != nil {
										for _, r3 := range *ar {
											if u, ok := r3.(*ssa.UnOp); ok {
												walk(u, d+1)
											}
										}
									}
								}
							}
						}
					}
					walk(ex, 0)
				}
			}
			c.Check(returned, "vm.eval|import-error-returned|"+sprintf("%d", n), p.Pos(call.Pos()),
				"the error of the importModule call at "+p.Pos(call.Pos())+ife(returned, " is returned on some path", " is never returned: it is only compared with nil, so a module that exists and fails while it runs is treated like a module that does not exist, and the statement goes on with something else"))
		}
	}
	if n < 2 {
		core.Undecidedf("only %d importModule calls in the dispatch loop", n)
	}
	c.Stat("import_calls_in_dispatch", n)
}

// ---------------------------------------------------------------------------
// modulesInProgressAreNotImportedAgain: the function that runs a module's code
// for an import marks the module as in progress before it does, and refuses to
// run a module that is: the completed-modules table is only written when the
// code has finished, so two modules that import each other would otherwise run
// each other's code until the frames are used up.
func modulesInProgressAreNotImportedAgain(c *core.Ctx) {
	p := c.P
	t := VMTable(p)
	eval := p.SSAFunc(t.Eval)
	vmT := vmType(p)
	n := 0
	for _, fn := range repoFns(p, "vm") {
		if fn.Parent() != nil {
			continue
		}
		var run ssa.Instruction
		imports := false
		for _, b := range fn.Blocks {
			for _, in := range b.Instrs {
				call, ok := in.(*ssa.Call)
				if !ok {
					continue
				}
				if call.Call.StaticCallee() == eval {
					run = in
				}
				if call.Call.IsInvoke() && call.Call.Method.Name() == "Import" {
					imports = true
				}
			}
		}
		if run == nil || !imports {
			continue
		}
		n++
		// a map field of the VM that is looked up (leading to a return) and updated before the run
		guarded := ""
		st := vmT.Underlying().(*types.Struct)
		for fi := 0; fi < st.NumFields(); fi++ {
			if _, isMap := st.Field(fi).Type().Underlying().(*types.Map); !isMap {
				continue
			}
			looked, marked := false, false
			for _, b := range fn.Blocks {
				for _, in := range b.Instrs {
					switch x := in.(type) {
					case *ssa.Lookup:
						if _, ok := loadOfField(x.X, vmT, fi); ok && instrReaches(in, run) {
							// the hit leaves the function with an error: some successor of the test cannot reach the run
							if refs := x.Referrers(); refs != nil {
								for _, r := range *refs {
									var iff *ssa.If
									switch y := r.(type) {
									case *ssa.If:
										iff = y
									case *ssa.Extract:
										if y.Referrers() != nil {
											for _, r2 := range *y.Referrers() {
												if i2, ok := r2.(*ssa.If); ok {
													iff = i2
												}
											}
										}
									}
									if iff != nil {
										for _, s := range iff.Block().Succs {
											if len(s.Instrs) > 0 && !instrReaches(s.Instrs[0], run) && returnsError(s) {
												looked = true
											}
										}
									}
								}
							}
						}
					case *ssa.MapUpdate:
						if _, ok := loadOfField(x.Map, vmT, fi); ok && instrReaches(in, run) {
							marked = true
						}
					}
				}
			}
			if looked && marked {
				guarded = st.Field(fi).Name()
			}
		}
		c.Check(guarded != "", core.SSAName(fn)+"|module-in-progress-refused", p.Pos(run.Pos()),
			core.SSAName(fn)+" runs the code of an imported module"+ife(guarded != "", " after marking it in vm."+guarded+" and refusing a module that is marked there", " without marking it as in progress: a module that is imported again while its code is running (two modules that import each other) runs again, until the frames are used up"))
	}
	if n == 0 {
		core.Undecidedf("no function of package vm both asks an importer and runs the dispatch loop")
	}
	c.Stat("module_runners", n)
}

// returnsError: the block ends in a return whose last result is not the nil constant.
func returnsError(b *ssa.BasicBlock) bool {
	if len(b.Instrs) == 0 {
		return false
	}
	r, ok := b.Instrs[len(b.Instrs)-1].(*ssa.Return)
	if !ok || len(r.Results) == 0 {
		return false
	}
	for _, o := range core.Origins(spilledResult(b, r.Results[len(r.Results)-1])) {
		if k, isK := o.(*ssa.Const); !isK || !k.IsNil() {
			return true
		}
	}
	return false
}

// ---------------------------------------------------------------------------
// failedCallbacksAreNotCalledAgain: a comparison function handed to the sort
// package cannot stop the sort.  Where such a function calls back into the
// script and records the error in a captured variable, it tests that variable
// first and does not call again once it is set: after the context has been
// cancelled every further call fails at once, but there are O(n log n) of them
// left, each through the VM.
func failedCallbacksAreNotCalledAgain(c *core.Ctx) {
	p := c.P
	n := 0
	for _, fn := range repoFns(p, "builtins", "object") {
		if fn.Parent() == nil {
			continue
		}
		// handed to sort.Slice / SliceStable / Sort?
		toSort := false
		if refs := fn.Referrers(); refs != nil {
			_ = refs
		}
		for _, b := range fn.Parent().Blocks {
			for _, in := range b.Instrs {
				call, ok := in.(*ssa.Call)
				if !ok {
					continue
				}
				cal := call.Call.StaticCallee()
				if cal == nil || cal.Pkg == nil || cal.Pkg.Pkg.Path() != "sort" {
					continue
				}
				for _, a := range call.Call.Args {
					for _, o := range core.Origins(a) {
						if mc, ok := o.(*ssa.MakeClosure); ok && mc.Fn == ssa.Value(fn) {
							toSort = true
						}
					}
				}
			}
		}
		if !toSort {
			continue
		}
		// a dynamic call that returns (Object, error), and a store of an error into a captured variable
		var cb *ssa.Call
		var errVar *ssa.FreeVar
		for _, b := range fn.Blocks {
			for _, in := range b.Instrs {
				switch x := in.(type) {
				case *ssa.Call:
					if x.Call.StaticCallee() == nil && !x.Call.IsInvoke() {
						if tup, ok := x.Type().(*types.Tuple); ok && tup.Len() == 2 && isErrorType(tup.At(1).Type()) {
							cb = x
						}
					}
				case *ssa.Store:
					if fv, ok := x.Addr.(*ssa.FreeVar); ok && isErrorType(x.Val.Type()) {
						errVar = fv
					}
				}
			}
		}
		if cb == nil {
			continue
		}
		n++
		if errVar == nil {
			c.Check(false, core.SSAName(fn)+"|no-call-after-a-failure", p.Pos(cb.Pos()),
				core.SSAName(fn.Parent())+" sorts with a comparison that calls back into the script and records a failure of the call in no variable that outlives the comparison (an error declared with := inside the comparison shadows the one outside): the sort goes on calling after a failure, and the failure is not reported")
			continue
		}
		tested := false
		for _, b := range fn.Blocks {
			if len(b.Instrs) == 0 || b == cb.Block() || !b.Dominates(cb.Block()) {
				continue
			}
			iff, ok := b.Instrs[len(b.Instrs)-1].(*ssa.If)
			if !ok {
				continue
			}
			if bo, ok := iff.Cond.(*ssa.BinOp); ok && (bo.Op == token.NEQ || bo.Op == token.EQL) {
				for _, s := range []ssa.Value{bo.X, bo.Y} {
					if u, ok := s.(*ssa.UnOp); ok && u.X == ssa.Value(errVar) {
						tested = true
					}
				}
			}
		}
		c.Check(tested, core.SSAName(fn)+"|no-call-after-a-failure", p.Pos(cb.Pos()),
			core.SSAName(fn.Parent())+" sorts with a comparison that calls back into the script and records a failure in "+errVar.Name()+ife(tested, "; the comparison tests that variable before it calls", "; the comparison does not test that variable before it calls: after a cancellation the sort goes on to make all its remaining comparisons, each a failing call through the VM"))
	}
	if n == 0 {
		core.Undecidedf("no sort comparison calls back into the script")
	}
	c.Stat("sort_comparisons_with_callbacks", n)
}

// ---------------------------------------------------------------------------
// contextErrorsKeepTheirIdentity: where a blocking operation gives up because
// the context ended, it reports the context's own error (ctx.Err(), possibly
// boxed or wrapped with %w).  Printed into the text of a new error with %s or
// %v it is no longer context.Canceled for errors.Is, and the host that
// compares the evaluation's error with the context's gets a mismatch.
func contextErrorsKeepTheirIdentity(c *core.Ctx) {
	p := c.P
	n := 0
	ncb := map[*ssa.Function]int{}
	for _, fn := range repoFns(p) {
		for _, b := range fn.Blocks {
			for _, in := range b.Instrs {
				call, ok := in.(*ssa.Call)
				if !ok {
					continue
				}
				// a script callback's error may be the context's error too: the callback was running when the context ended
				viaCallback := false
				if !call.Call.IsInvoke() && call.Call.StaticCallee() == nil {
					if nt := core.NamedOf(call.Call.Value.Type()); nt != nil && nt.Obj().Name() == "CallFunc" && nt.Obj().Pkg() != nil && core.RelPkg(nt.Obj().Pkg()) == "object" {
						viaCallback = true
					}
				}
				if !viaCallback && (!call.Call.IsInvoke() || call.Call.Method.Name() != "Err" || !core.IsNamed(call.Call.Value.Type(), "context", "Context")) {
					continue
				}
				if !viaCallback {
					n++
				} else {
					ncb[fn]++
				}
				// does the result end up among the variadic arguments of a printf-like function?
				flattened := ""
				seen := map[ssa.Value]bool{}
				var walk func(v ssa.Value, d int)
				walk = func(v ssa.Value, d int) {
					if d > 5 || seen[v] || v.Referrers() == nil {
						return
					}
					seen[v] = true
					for _, r := range *v.Referrers() {
						switch x := r.(type) {
						case *ssa.MakeInterface:
							walk(x, d+1)
						case *ssa.ChangeInterface:
							walk(x, d+1)
						case *ssa.Extract:
							if x.Type().String() == "error" {
								walk(x, d+1)
							}
						case *ssa.Phi:
							walk(x, d+1)
						case *ssa.Store:
							// into the slot of a variadic argument slice
							if ia, ok := x.Addr.(*ssa.IndexAddr); ok && x.Val == v {
								if al, ok := ia.X.(*ssa.Alloc); ok && al.Referrers() != nil {
									for _, r2 := range *al.Referrers() {
										if sl, ok := r2.(*ssa.Slice); ok && sl.Referrers() != nil {
											for _, r3 := range *sl.Referrers() {
												if ci, ok := r3.(ssa.CallInstruction); ok {
													cal := ci.Common().StaticCallee()
													if cal == nil {
														continue
													}
													isFmt := cal.Pkg != nil && cal.Pkg.Pkg.Path() == "fmt" && strings.HasSuffix(cal.Name(), "f")
													if !isFmt && !printfLike(cal, 0) {
														continue
													}
													// the format: wrapping with %w keeps the identity
													wraps := false
													for _, a := range ci.Common().Args {
														if k, ok := a.(*ssa.Const); ok && k.Value != nil && strings.Contains(k.Value.ExactString(), "%w") {
															wraps = true
														}
													}
													if !wraps {
														flattened = core.SSAName(cal)
													}
												}
											}
										}
									}
								}
							}
						}
					}
				}
				walk(call, 0)
				if viaCallback {
					c.Check(flattened == "", core.SSAName(fn)+"|callback-error-keeps-its-identity|"+sprintf("%d", ncb[fn]), p.Pos(call.Pos()),
						core.SSAName(fn)+" calls a script function through the VM's call function"+ife(flattened == "", " and hands its error on as it is", " and prints its error into the text of a new error with "+flattened+": when the context ended while the callback ran, what the evaluation returns is no longer the context's error (errors.Is(err, context.DeadlineExceeded) is false)"))
					continue
				}
				c.Check(flattened == "", core.SSAName(fn)+"|context-error-keeps-its-identity|"+sprintf("%d", countErrCalls(fn, in)), p.Pos(call.Pos()),
					core.SSAName(fn)+" asks the context for its error"+ife(flattened == "", " and hands it on as it is", " and prints it into the text of a new error with "+flattened+": the result is not the context's error any more (errors.Is(err, context.Canceled) is false), although cancellation is what ended the evaluation"))
			}
		}
	}
	if n < 5 {
		core.Undecidedf("only %d calls of context.Context.Err found", n)
	}
	c.Stat("context_err_calls", n)
}

func countErrCalls(fn *ssa.Function, at ssa.Instruction) int {
	k := 0
	for _, b := range fn.Blocks {
		for _, in := range b.Instrs {
			if call, ok := in.(*ssa.Call); ok && call.Call.IsInvoke() && call.Call.Method.Name() == "Err" {
				k++
			}
			if in == at {
				return k
			}
		}
	}
	return k
}

// ---------------------------------------------------------------------------
// theRunCounterOnlyCounts: the watcher goroutine of a run halts the VM only if
// the VM's start counter still has the value it had when the run was armed.
// That works because the counter does nothing but count: the only store to it
// in a VM that is in use adds one to its previous value.  Set back anywhere
// else (a reset that makes the VM "like new"), the run in progress no longer
// matches its own watcher and cancellation does not stop it.
func theRunCounterOnlyCounts(c *core.Ctx) {
	p := c.P
	vmT := vmType(p)
	ci := fieldIdxByName(vmT, "startCount")
	if ci < 0 {
		core.Undecidedf("VirtualMachine.startCount not found")
	}
	n := 0
	for _, fn := range repoFns(p, "vm") {
		k := 0
		for _, st := range storesToField(fn, vmT, ci) {
			if isFreshAlloc(st.Addr.(*ssa.FieldAddr).X) {
				continue
			}
			n++
			k++
			counts := false
			if bo, ok := st.Val.(*ssa.BinOp); ok && bo.Op == token.ADD {
				if k1, ok := bo.Y.(*ssa.Const); ok && k1.Value != nil && k1.Value.ExactString() == "1" {
					if _, ok := loadOfField(bo.X, vmT, ci); ok {
						counts = true
					}
				}
			}
			c.Check(counts, core.SSAName(fn)+"|run-counter-only-counts|"+sprintf("%d", k), p.Pos(st.Pos()),
				core.SSAName(fn)+" writes the VM's start counter"+ife(counts, " by adding one to it", " with something other than its previous value plus one: the run that is armed at that moment carries the old count as its identity, so its watcher no longer recognises it and a cancelled context does not halt it"))
		}
	}
	if n == 0 {
		core.Undecidedf("nothing writes VirtualMachine.startCount")
	}
	c.Stat("run_counter_stores", n)
}

// ---------------------------------------------------------------------------
// configurationIsWrittenByOptionsOnly: the fields of the VM that its options
// set (the OS, the importer, the input globals, ...) are the host's
// configuration.  In a VM that is in use they are written by option closures
// and by the function that applies them, nothing else: a field that an
// invocation fills in from its own context (the OS found there) configures
// every later invocation on the VM with it.
func configurationIsWrittenByOptionsOnly(c *core.Ctx) {
	p := c.P
	vmT := vmType(p)
	st := vmT.Underlying().(*types.Struct)
	isOptionClosure := func(fn *ssa.Function) bool {
		if fn.Parent() == nil || len(fn.Params) != 1 {
			return false
		}
		pt, ok := fn.Params[0].Type().(*types.Pointer)
		return ok && core.NamedOf(pt) == vmT
	}
	// who applies the options: calls a value of the option type dynamically
	applies := map[*ssa.Function]bool{}
	optFields := map[int]string{}
	for _, fn := range repoFns(p, "vm") {
		if isOptionClosure(fn) {
			for fi := 0; fi < st.NumFields(); fi++ {
				if len(storesToField(fn, vmT, fi)) > 0 || updatesMapField(fn, vmT, fi) != nil {
					optFields[fi] = fn.Parent().Name()
				}
			}
		}
		for _, b := range fn.Blocks {
			for _, in := range b.Instrs {
				if call, ok := in.(*ssa.Call); ok && !call.Call.IsInvoke() && call.Call.StaticCallee() == nil {
					if nt, ok := call.Call.Value.Type().(*types.Named); ok && nt.Obj().Name() == "Option" {
						applies[fn] = true
					}
				}
			}
		}
	}
	// a field the dispatch loop writes is run state that an option merely
	// initialises (the instruction pointer), not configuration
	if ev := p.SSAFunc(VMTable(p).Eval); ev != nil {
		for fi := range optFields {
			if len(storesToField(ev, vmT, fi)) > 0 {
				delete(optFields, fi)
			}
		}
	}
	if len(optFields) < 3 {
		core.Undecidedf("only %d fields are written by option closures", len(optFields))
	}
	n := 0
	for _, fn := range repoFns(p, "vm") {
		if isOptionClosure(fn) || applies[fn] {
			continue
		}
		for fi, opt := range optFields {
			k := 0
			for _, s := range storesToField(fn, vmT, fi) {
				if isFreshAlloc(s.Addr.(*ssa.FieldAddr).X) {
					continue
				}
				n++
				k++
				c.Check(false, core.SSAName(fn)+"|"+st.Field(fi).Name()+"|configuration-written-by-options-only|"+sprintf("%d", k), p.Pos(s.Pos()),
					core.SSAName(fn)+" writes vm."+st.Field(fi).Name()+", which the option "+opt+" sets: what one invocation stores there is the configuration of every later invocation on the VM")
			}
		}
	}
	c.Pass("vm|configuration-fields", "", sprintf("%d fields of the VM are set by options; %d stores to them outside options, their application and constructors", len(optFields), n))
	c.Stat("option_fields", len(optFields))
}

// ---------------------------------------------------------------------------
// tablesFilledWhileRunningAreForgottenWithTheCode: a map of the VM that its
// methods fill while code runs (loaded code, imported modules, or a memo of
// where a name was found) describes the code that is loaded.  The function
// that forgets the loaded code for a new RunCode replaces every such map.  A
// map it leaves alone answers the next program with facts about the previous
// one: Get("handler") returns the global that sat at handler's old index.
func tablesFilledWhileRunningAreForgottenWithTheCode(c *core.Ctx) {
	p := c.P
	vmT := vmType(p)
	st := vmT.Underlying().(*types.Struct)
	li := fieldIdxByName(vmT, "loadedCode")
	var reset *ssa.Function
	for _, fn := range repoFns(p, "vm") {
		for _, s := range storesToField(fn, vmT, li) {
			if _, fresh := s.Val.(*ssa.MakeMap); fresh && !isFreshAlloc(s.Addr.(*ssa.FieldAddr).X) {
				reset = fn
			}
		}
	}
	if reset == nil {
		core.Undecidedf("no function empties VirtualMachine.loadedCode")
	}
	isOptionClosure := func(fn *ssa.Function) bool {
		if fn.Parent() == nil || len(fn.Params) != 1 {
			return false
		}
		pt, ok := fn.Params[0].Type().(*types.Pointer)
		return ok && core.NamedOf(pt) == vmT
	}
	n := 0
	for fi := 0; fi < st.NumFields(); fi++ {
		if _, isMap := st.Field(fi).Type().Underlying().(*types.Map); !isMap {
			continue
		}
		filled := ""
		byOption := false
		for _, fn := range repoFns(p, "vm") {
			for _, b := range fn.Blocks {
				for _, in := range b.Instrs {
					mu, ok := in.(*ssa.MapUpdate)
					if !ok {
						continue
					}
					fa, ok := loadOfField(mu.Map, vmT, fi)
					if !ok || isFreshAlloc(fa.X) {
						continue
					}
					if isOptionClosure(fn) {
						byOption = true
						continue
					}
					if removedByDefer(fn, mu) {
						continue
					}
					filled = core.SSAName(fn)
				}
			}
		}
		if filled == "" || byOption {
			continue
		}
		n++
		forgotten := false
		for _, s := range storesToField(reset, vmT, fi) {
			if _, fresh := s.Val.(*ssa.MakeMap); fresh {
				forgotten = true
			}
		}
		c.Check(forgotten, "vm.VirtualMachine."+st.Field(fi).Name()+"|forgotten-with-the-code", p.Pos(st.Field(fi).Pos()),
			"vm."+st.Field(fi).Name()+" is filled while code runs (by "+filled+")"+ife(forgotten, " and "+reset.Name()+" replaces it with an empty map", " and "+reset.Name()+", which forgets the loaded code before a RunCode, leaves it alone: the next program is answered with what was recorded about the previous one"))
	}
	if n < 2 {
		core.Undecidedf("only %d maps of the VM are filled while code runs", n)
	}
	c.Stat("run_filled_tables", n)
}

// ---------------------------------------------------------------------------
// clonesAliasOnlyWhatIsMeantToBeShared: Clone gives the clone storage of its
// own for everything the VM writes while it runs.  The reference-typed fields
// it hands over as they are (the same map, slice, channel or pointer as the
// original's) are the ones in this table, each with the reason it is safe or
// intended.  Another one is shared between threads that run at the same time:
// a scratch buffer shared with a clone mixes up the arguments of concurrent
// calls, and a semaphore shared with the clones ties their progress together.
var cloneMayAlias = map[string]string{
	"importer": "the importer is an interface value configured by the host; LocalImporter guards its cache with a mutex",
	"os":       "the host's OS, meant to be the same for every thread of an evaluation",
	"main":     "compiled code is immutable",
	"globals":  "documented: clones share the global variables of the original (the map is replaced, never written, by applyOptions)",
}

func clonesAliasOnlyWhatIsMeantToBeShared(c *core.Ctx) {
	p := c.P
	vmT := vmType(p)
	st := vmT.Underlying().(*types.Struct)
	cm := cloneModelOf(p)
	n := 0
	for _, in := range cm.Inits {
		if in.Kind != "alias" || in.Source != in.Field {
			continue
		}
		switch st.Field(in.Field).Type().Underlying().(type) {
		case *types.Map, *types.Slice, *types.Chan, *types.Pointer, *types.Interface:
		default:
			continue
		}
		n++
		name := st.Field(in.Field).Name()
		why, ok := cloneMayAlias[name]
		c.Check(ok, "vm.VirtualMachine.Clone|aliases|"+name, p.Pos(in.Store.Pos()),
			"Clone hands the clone the original's "+name+" as it is"+ife(ok, ": "+why, ", and "+name+" is not in the table of state that is meant to be shared: the original and every clone, each on a goroutine of its own, use one "+st.Field(in.Field).Type().String()))
	}
	if n < 3 {
		core.Undecidedf("Clone aliases only %d reference-typed fields", n)
	}
	c.Stat("clone_aliased_fields", n)
}
