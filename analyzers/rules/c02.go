package rules

import (
	"go/ast"
	"go/token"
	"go/types"
	"strings"

	"golang.org/x/tools/go/ssa"

	"risorcheck/core"
)

func init() {
	core.Register(&core.Property{
		ID: "C02",
		Decided: "Structural conditions of lexical capture (the behaviour over all nestings, escape routes and call orders is NOT decided): " +
			"(R1) capture does not select a frame by its position on the call stack: the MakeCell handler consults no frame other than the active one (frames[fp]) — a variable of a function further out reaches a new closure through the enclosing closure's own cell — or the compiler only ever emits distance 0; " +
			"(R2) a cell points into the captured frame's own storage: the MakeCell handler takes the address of a slot of CaptureLocals() (heap storage of that activation), LoadFree/StoreFree go through the cell's Value/Set, and no frame method re-uses the captured/extended locals slice of an earlier activation (no re-slice of the field assigned back to it); " +
			"(R3) name resolution is nearest-scope-first: before walking outward, SymbolTable.Resolve consults only its own tables — never a cache that belongs to an enclosing function — so an inner declaration shadows a name the function already captured.",
		NotCovered:  "Sharing of one binding between sibling closures across all call orders, the named-function self slot, capture across spawn / Call from Go.",
		Assumptions: []string{"a frame found at fp-k is the lexical ancestor only when the call path equals the definition path"},
		Rules: []*core.Rule{
			{ID: "C02-R1", Title: "no operand-driven frame selection for capture", Floor: 1, Run: c02r1},
			{ID: "C02-R2", Title: "cells point into per-activation storage and are used through Value/Set", Floor: 4, Run: c02r2},
			{ID: "C02-R3", Title: "name resolution is nearest-scope-first", Floor: 1, Run: c02r3},
			{ID: "C02-R4", Title: "variable instructions carry an operand of their own namespace", Floor: 6, Run: c02r4},
			{ID: "C02-R5", Title: "initializer compiled before the declared name is inserted", Floor: 2, Run: c02r5},
			{ID: "C02-R6", Title: "frame slots are unique per function", Floor: 2, Run: c02r6},
			{ID: "C02-R7", Title: "the dispatch loop keeps no stale copy of the frame's locals", Floor: 1, Run: dispatchUsesLiveFrameState},
			{ID: "C02-R8", Title: "sibling sites agree on the inline/heap boundary of frame locals", Floor: 1, Run: func(c *core.Ctx) { boundaryAgreement(c, "vm") }},
			{ID: "C02-R9", Title: "declared names bind in the current scope", Floor: 3, Run: bindingDoesNotFallBackOutward},
			{ID: "C02-R10", Title: "frame locals are written only by the frame and the dispatch function", Floor: 1, Run: localsWrittenOnlyByOwners},
			{ID: "C02-R11", Title: "derived constructors copy every field", Floor: 1, Run: derivedConstructorsCopyEveryField},
			{ID: "C02-R12", Title: "cells are made by the VM only", Floor: 1, Run: cellsAreMadeByTheVM},
			{ID: "C02-R13", Title: "cells point into the activation's captured locals", Floor: 1, Run: cellsPointIntoFrameStorage},
			{ID: "C02-R14", Title: "block scopes are opened on every path that compiles the block (shared with C01)", Floor: 3, Run: blockScopesOpenedUnconditionally},
			{ID: "C02-R15", Title: "reload re-points every function of the reloaded code, whatever its nesting depth (shared with C18-R3)", Floor: 2, Run: c18r3},
			{ID: "C02-R16", Title: "stores to resolved names test constness first (shared with C01)", Floor: 2, Run: storesToResolvedNamesCheckConstness},
			{ID: "C02-R17", Title: "frame storage is per activation and re-pointed by its owners only", Floor: 3, Run: frameStorageIsPerActivation},
			{ID: "C02-R18", Title: "the kind of a captured cell follows the resolution", Floor: 1, Run: cellKindFollowsTheResolution},
			{ID: "C02-R19", Title: "a memo is read where it is written", Floor: 1, Run: memoIsReadWhereItIsWritten},
			{ID: "C02-R20", Title: "loads follow the scope walk", Floor: 3, Run: loadsFollowTheScopeWalk},
			{ID: "C02-R21", Title: "closures are built where they are loaded and go to the stack only", Floor: 1, Run: closuresAreBuiltWhereTheyAreLoaded},
			{ID: "C02-R22", Title: "every function literal gets its own code", Floor: 1, Run: everyFunctionLiteralGetsItsOwnCode},
			{ID: "C02-R23", Title: "the slot of a named function is filled whenever it was reserved", Floor: 1, Run: theSelfSlotIsFilledWheneverItWasReserved},
			{ID: "C02-R24", Title: "every symbol has a slot of its own (shared with C01-R36)", Floor: 1, Run: everySymbolHasASlotOfItsOwn},
			{ID: "C02-R25", Title: "handed-down cells are indexed by the enclosing function", Floor: 1, Run: handedDownCellsAreIndexedByTheEnclosingFunction},
			{ID: "C02-R26", Title: "names are read from their storage (shared with C18-R25)", Floor: 3, Run: namesAreReadFromTheirStorage},
			{ID: "C02-R27", Title: "what a table may not hold is not dereferenced (shared with C03-R42)", Floor: 1, Run: whatATableMayNotHoldIsNotDereferenced},
		},
	})
}

func c02r1(c *core.Ctx) {
	p := c.P
	t := VMTable(p)
	vmp := p.Pkg("vm")
	info := vmp.TypesInfo
	vmT := core.MustType(vmp, "VirtualMachine")
	frames := fieldByName(vmT, "frames")
	fpF := fieldByName(vmT, "fp")
	if frames == nil || fpF == nil {
		core.Undecidedf("VirtualMachine.frames / fp not found")
	}

	var clause *ast.CaseClause
	for _, cc := range t.Switch.Body.List {
		cl := cc.(*ast.CaseClause)
		for _, e := range cl.List {
			if k, _ := objOf(info, e).(*types.Const); k != nil && k.Name() == "MakeCell" {
				clause = cl
			}
		}
	}
	if clause == nil {
		core.Undecidedf("no MakeCell clause in the dispatch switch")
	}
	vmSide := false
	var at token.Pos
	for _, s := range clause.Body {
		ast.Inspect(s, func(n ast.Node) bool {
			ix, ok := n.(*ast.IndexExpr)
			if !ok || fieldOf(info, ix.X) != frames {
				return true
			}
			// only the active frame (frames[fp]) may be consulted: any other index is a
			// frame selected by call-stack position
			if f := fieldOf(info, ix.Index); f == nil || f != fpF {
				vmSide = true
				at = ix.Pos()
			}
			return true
		})
	}
	// compiler side: MakeCell emitted with a non-zero-constant distance operand
	cp := p.Pkg("compiler")
	emit := emitMethod(p)
	compilerSide := false
	funcBodies(cp, func(fn *types.Func, fd *ast.FuncDecl) {
		ast.Inspect(fd.Body, func(n ast.Node) bool {
			ce, ok := n.(*ast.CallExpr)
			if !ok || calleeOf(cp.TypesInfo, ce) != emit || len(ce.Args) < 3 {
				return true
			}
			if k, _ := objOf(cp.TypesInfo, ce.Args[0]).(*types.Const); k == nil || k.Name() != "MakeCell" {
				return true
			}
			if v, isC := constInt(cp.TypesInfo, ce.Args[len(ce.Args)-1]); !isC || v != 0 {
				compilerSide = true
			}
			return true
		})
	})
	pos := p.Pos(clause.Pos())
	if at != token.NoPos {
		pos = p.Pos(at)
	}
	c.Check(!(vmSide && compilerSide), "vm.eval|MakeCell|operand-driven-frame-selection", pos,
		"the MakeCell handler reads a frame other than the active one (selected by call-stack position) while the compiler emits a non-zero lexical distance: the frame k below the top is the defining function's activation only when the closure is created on the same call path it was defined on — f(1)(2)(3) with three nested functions reads a foreign frame")
}

func c02r2(c *core.Ctx) {
	p := c.P
	vmp := p.Pkg("vm")
	info := vmp.TypesInfo
	t := VMTable(p)
	frameT := core.MustType(vmp, "frame")
	capture := core.Method(frameT, "CaptureLocals")
	if capture == nil {
		// by role: frame method returning []object.Object that assigns a field from make+copy
		for _, m := range core.Methods(frameT) {
			if strings.Contains(strings.ToLower(m.Name()), "capture") {
				capture = m
			}
		}
	}
	if capture == nil {
		core.Undecidedf("frame capture method not found")
	}
	clauseOf := func(name string) *ast.CaseClause {
		for _, cc := range t.Switch.Body.List {
			cl := cc.(*ast.CaseClause)
			for _, e := range cl.List {
				if k, _ := objOf(info, e).(*types.Const); k != nil && k.Name() == name {
					return cl
				}
			}
		}
		return nil
	}
	// MakeCell: NewCell(&X[idx]) with X assigned from CaptureLocals()
	mk := clauseOf("MakeCell")
	okCell := false
	if mk != nil {
		assigns := map[types.Object][]ast.Expr{}
		for _, s := range mk.Body {
			for o, rs := range localAssignments(info, s) {
				assigns[o] = append(assigns[o], rs...)
			}
		}
		for _, s := range mk.Body {
			ast.Inspect(s, func(n ast.Node) bool {
				ce, ok := n.(*ast.CallExpr)
				if !ok {
					return true
				}
				cal := calleeOf(info, ce)
				if cal == nil || cal.Name() != "NewCell" || len(ce.Args) != 1 {
					return true
				}
				if u, ok := ast.Unparen(ce.Args[0]).(*ast.UnaryExpr); ok && u.Op == token.AND {
					if ix, ok := ast.Unparen(u.X).(*ast.IndexExpr); ok {
						if id, ok := ast.Unparen(ix.X).(*ast.Ident); ok {
							for _, rhs := range assigns[info.Uses[id]] {
								if c2, ok := ast.Unparen(rhs).(*ast.CallExpr); ok && calleeOf(info, c2) == capture {
									okCell = true
								}
							}
						}
						if c2, ok := ast.Unparen(ix.X).(*ast.CallExpr); ok && calleeOf(info, c2) == capture {
							okCell = true
						}
					}
				}
				return true
			})
		}
	}
	c.Check(okCell, "vm.eval|MakeCell|cell-points-into-captured-storage", posOf(p, mk), "MakeCell builds the cell from the address of a slot of the frame's captured (heap) storage, obtained from "+capture.Name()+"()")
	// LoadFree / StoreFree through Value / Set
	for _, pair := range [][2]string{{"LoadFree", "Value"}, {"StoreFree", "Set"}} {
		cl := clauseOf(pair[0])
		okv := false
		if cl != nil {
			for _, s := range cl.Body {
				ast.Inspect(s, func(n ast.Node) bool {
					if ce, ok := n.(*ast.CallExpr); ok {
						if cal := calleeOf(info, ce); cal != nil && cal.Name() == pair[1] && core.IsNamed(core.RecvNamed(cal), pkgPath("object"), "Cell") {
							okv = true
						}
					}
					return true
				})
			}
		}
		c.Check(okv, "vm.eval|"+pair[0]+"|through-cell", posOf(p, cl), pair[0]+" accesses the variable through the cell's "+pair[1]+" (every closure sharing the binding sees the same storage)")
	}
	// frame methods never re-use the storage of an earlier activation
	st := frameT.Underlying().(*types.Struct)
	sliceFields := map[int]string{}
	for i := 0; i < st.NumFields(); i++ {
		if sl, ok := st.Field(i).Type().Underlying().(*types.Slice); ok && core.IsNamed(sl.Elem(), pkgPath("object"), "Object") {
			sliceFields[i] = st.Field(i).Name()
		}
	}
	for _, m := range core.Methods(frameT) {
		sf := p.SSAFunc(m)
		if sf == nil || sf.Blocks == nil {
			continue
		}
		bad := ""
		for _, b := range sf.Blocks {
			for _, in := range b.Instrs {
				s, ok := in.(*ssa.Store)
				if !ok {
					continue
				}
				fa, ok := s.Addr.(*ssa.FieldAddr)
				if !ok || core.NamedOf(fa.X.Type()) != frameT {
					continue
				}
				if _, isSl := sliceFields[fa.Field]; !isSl {
					continue
				}
				// value stored: a Slice of a load of a heap slice field of the frame = reuse
				for _, o := range core.Origins(s.Val) {
					if sl, ok := o.(*ssa.Slice); ok {
						if u, ok := sl.X.(*ssa.UnOp); ok && u.Op == token.MUL {
							if fa2, ok := u.X.(*ssa.FieldAddr); ok && core.NamedOf(fa2.X.Type()) == frameT {
								if name, isSl := sliceFields[fa2.Field]; isSl {
									bad = "field " + sliceFields[fa.Field] + " is assigned a re-slice of " + name + " at " + p.Pos(in.Pos())
								}
							}
						}
					}
				}
			}
		}
		c.Check(bad == "", "vm.frame."+m.Name()+"|fresh-storage-per-activation", p.Pos(sf.Pos()), "frame."+m.Name()+" never hands a new activation the heap slice of an earlier one (cells of escaped closures point into that slice; reusing it makes an old closure share bindings with the next call)"+ifs(bad != "", ": "+bad))
	}
}

func c02r3(c *core.Ctx) {
	p := c.P
	cp := p.Pkg("compiler")
	info := cp.TypesInfo
	stT := core.MustType(cp, "SymbolTable")
	resolve := core.MustMethod(stT, "Resolve")
	fd := p.Decl(resolve)
	if fd.Recv == nil || len(fd.Recv.List[0].Names) == 0 {
		core.Undecidedf("Resolve has no named receiver")
	}
	recv := info.Defs[fd.Recv.List[0].Names[0]]
	// position of the outward walk: the first loop or first read of the parent link
	walk := token.NoPos
	for _, s := range fd.Body.List {
		if _, ok := s.(*ast.ForStmt); ok && walk == token.NoPos {
			walk = s.Pos()
		}
	}
	if walk == token.NoPos {
		core.Undecidedf("Resolve contains no outward walk (loop)")
	}
	bad := ""
	n := 0
	ast.Inspect(fd.Body, func(nd ast.Node) bool {
		ix, ok := nd.(*ast.IndexExpr)
		if !ok || ix.Pos() > walk {
			return true
		}
		f := fieldOf(info, ix.X)
		if f == nil || !core.RecvNamedOfField(stT, f) {
			return true
		}
		if _, isMap := f.Type().Underlying().(*types.Map); !isMap {
			return true
		}
		n++
		se := ast.Unparen(ix.X).(*ast.SelectorExpr)
		if objOf(info, se.X) != recv {
			bad = exprStr(ix) + " at " + posOf(p, ix)
		}
		return true
	})
	c.Check(bad == "" && n > 0, "compiler.SymbolTable.Resolve|nearest-scope-first", posOf(p, fd),
		"before walking outward Resolve looks a name up only in its own maps; a hit in a table of the enclosing function (e.g. its free-variable cache) would take precedence over a declaration in a nearer block, so a shadowing inner variable would resolve to the captured outer one"+ifs(bad != "", ": "+bad))
	c.Stat("lookups_before_walk", n)
}

// c02r4: variable instructions carry an operand of their own namespace.
// LoadFree/StoreFree index the closure's free-variable list (Resolution.freeIndex);
// LoadFast/StoreFast/LoadGlobal/StoreGlobal index the frame / globals array
// (Symbol.Index()).  Inside a switch over the resolution's scope the opcode
// family agrees with the case.
func c02r4(c *core.Ctx) {
	p := c.P
	cp := p.Pkg("compiler")
	info := cp.TypesInfo
	emit := emitMethod(p)
	resT := core.MustType(cp, "Resolution")
	symT := core.MustType(cp, "Symbol")
	freeIdx := fieldByName(resT, "freeIndex")
	symIndex := core.Method(symT, "Index")
	if freeIdx == nil || symIndex == nil {
		core.Undecidedf("Resolution.freeIndex / Symbol.Index not found")
	}
	want := map[string]string{"LoadFree": "free", "StoreFree": "free", "LoadFast": "sym", "StoreFast": "sym", "LoadGlobal": "sym", "StoreGlobal": "sym"}
	scopeOf := map[string]string{"LoadFree": "Free", "StoreFree": "Free", "LoadFast": "Local", "StoreFast": "Local", "LoadGlobal": "Global", "StoreGlobal": "Global"}
	n := 0
	perOp := map[string]int{}
	funcBodies(cp, func(fn *types.Func, fd *ast.FuncDecl) {
		assigns := localAssignments(info, fd.Body)
		var kind func(e ast.Expr, depth int) (free, sym bool)
		kind = func(e ast.Expr, depth int) (free, sym bool) {
			if depth > 4 {
				return
			}
			ast.Inspect(e, func(k ast.Node) bool {
				switch x := k.(type) {
				case *ast.SelectorExpr:
					if fieldOf(info, x) == freeIdx {
						free = true
					}
				case *ast.CallExpr:
					if calleeOf(info, x) == symIndex {
						sym = true
					}
				case *ast.Ident:
					if o := info.Uses[x]; o != nil {
						for _, r := range assigns[o] {
							f2, s2 := kind(r, depth+1)
							free, sym = free || f2, sym || s2
						}
					}
				}
				return true
			})
			return
		}
		idx := map[string]int{}
		walkStack(fd.Body, func(nd ast.Node, stack []ast.Node) bool {
			ce, ok := nd.(*ast.CallExpr)
			if !ok || calleeOf(info, ce) != emit || len(ce.Args) < 2 {
				return true
			}
			k, _ := objOf(info, ce.Args[0]).(*types.Const)
			if k == nil {
				return true
			}
			wantK := want[k.Name()]
			if k.Name() == "MakeCell" && len(ce.Args) == 3 {
				// second operand 0: a slot of the active frame; otherwise: a position in the active closure's free list
				if v, isC := constInt(info, ce.Args[2]); isC && v == 0 {
					wantK = "sym"
				} else {
					wantK = "free"
				}
			}
			if wantK == "" {
				return true
			}
			n++
			idx[k.Name()]++
			perOp[k.Name()]++
			free, sym := kind(ce.Args[1], 0)
			ok2 := (wantK == "free" && free && !sym) || (wantK == "sym" && sym && !free)
			// scope switch agreement
			scopeBad := ""
			for i := len(stack) - 1; i >= 0; i-- {
				cc, isCC := stack[i].(*ast.CaseClause)
				if !isCC || i < 2 {
					continue
				}
				sw, isSw := stack[i-2].(*ast.SwitchStmt)
				if !isSw || sw.Tag == nil {
					continue
				}
				if f := fieldOf(info, sw.Tag); f == nil || f.Name() != "scope" {
					continue
				}
				for _, e := range cc.List {
					if kc, _ := objOf(info, e).(*types.Const); kc != nil && kc.Name() != scopeOf[k.Name()] {
						scopeBad = "emitted under case " + kc.Name()
					}
				}
				break
			}
			c.Check(ok2 && scopeBad == "", "compiler."+declName(fd)+"|"+k.Name()+"#"+itoa(idx[k.Name()])+"|operand-namespace", posOf(p, ce),
				k.Name()+" takes "+map[string]string{"free": "the position in the closure's free-variable list (Resolution.freeIndex, nothing else)", "sym": "the slot of the symbol (Symbol.Index())"}[wantK]+
					"; operand is "+exprStr(ce.Args[1])+ifs(scopeBad != "", "; "+scopeBad))
			return true
		})
	})
	// vacuity: every variable instruction is emitted somewhere (the number of
	// sites is not fixed: seven copies of one scope switch may become one helper)
	for name := range want {
		if perOp[name] == 0 {
			core.Undecidedf("no site emits %s", name)
		}
	}
	c.Stat("variable_instruction_sites", n)
}

// c02r5: a declaration's initializer is compiled before its name enters the
// symbol table, so `x := x + 1` in an inner block reads the outer x.
func c02r5(c *core.Ctx) {
	p := c.P
	cp := p.Pkg("compiler")
	info := cp.TypesInfo
	stT := core.MustType(cp, "SymbolTable")
	ct := core.MustType(cp, "Compiler")
	compile := core.MustMethod(ct, "compile")
	n := 0
	funcBodies(cp, func(fn *types.Func, fd *ast.FuncDecl) {
		if core.RecvNamed(fn) != ct {
			return
		}
		// name(s), expr := node.Value()  on a declaration node
		var nameObjs []types.Object
		var exprObj types.Object
		ast.Inspect(fd.Body, func(k ast.Node) bool {
			as, ok := k.(*ast.AssignStmt)
			if !ok || len(as.Lhs) != 2 || len(as.Rhs) != 1 {
				return true
			}
			ce, ok := as.Rhs[0].(*ast.CallExpr)
			if !ok {
				return true
			}
			cal := calleeOf(info, ce)
			if cal == nil || cal.Name() != "Value" || cal.Pkg() == nil || cal.Pkg().Path() != pkgPath("ast") {
				return true
			}
			if id, ok := as.Lhs[0].(*ast.Ident); ok {
				nameObjs = append(nameObjs, objOfIdent(info, id))
			}
			if id, ok := as.Lhs[1].(*ast.Ident); ok {
				exprObj = objOfIdent(info, id)
			}
			return true
		})
		if exprObj == nil || len(nameObjs) == 0 {
			return
		}
		assigns := localAssignments(info, fd.Body)
		var fromName func(e ast.Expr, d int) bool
		fromName = func(e ast.Expr, d int) bool {
			found := false
			ast.Inspect(e, func(k ast.Node) bool {
				if id, ok := k.(*ast.Ident); ok {
					o := info.Uses[id]
					for _, nobj := range nameObjs {
						if o == nobj {
							found = true
						}
					}
					if o != nil && d < 3 {
						for _, r := range assigns[o] {
							if fromName(r, d+1) {
								found = true
							}
						}
					}
				}
				return true
			})
			return found
		}
		compilePos, insertPos := token.NoPos, token.NoPos
		ast.Inspect(fd.Body, func(k ast.Node) bool {
			ce, ok := k.(*ast.CallExpr)
			if !ok {
				return true
			}
			cal := calleeOf(info, ce)
			if cal == compile && len(ce.Args) == 1 && objOf(info, ce.Args[0]) == exprObj && compilePos == token.NoPos {
				compilePos = ce.Pos()
			}
			if cal != nil && core.RecvNamed(cal) == stT && strings.HasPrefix(cal.Name(), "Insert") && len(ce.Args) >= 1 {
				// range variable of a loop over names counts as derived from names
				if fromName(ce.Args[0], 0) || rangesOver(info, fd, ce.Args[0], nameObjs) {
					if insertPos == token.NoPos || ce.Pos() < insertPos {
						insertPos = ce.Pos()
					}
				}
			}
			return true
		})
		if compilePos == token.NoPos || insertPos == token.NoPos {
			return
		}
		n++
		c.Check(compilePos < insertPos, "compiler."+declName(fd)+"|initializer-before-declaration", posOf(p, fd),
			declName(fd)+" compiles the initializer before inserting the declared name: otherwise a shadowing declaration whose initializer mentions the outer variable of the same name (x := x + 1) reads its own unset slot")
	})
	c.Stat("declaration_functions", n)
}

// rangesOver: e is (derived from) the value variable of a range loop over one of objs.
func rangesOver(info *types.Info, fd *ast.FuncDecl, e ast.Expr, objs []types.Object) bool {
	id, ok := ast.Unparen(e).(*ast.Ident)
	if !ok {
		return false
	}
	target := info.Uses[id]
	found := false
	ast.Inspect(fd.Body, func(k ast.Node) bool {
		switch x := k.(type) {
		case *ast.RangeStmt:
			if v, ok := x.Value.(*ast.Ident); ok && info.Defs[v] == target {
				for _, o := range objs {
					if objOf(info, x.X) == o {
						found = true
					}
				}
			}
		case *ast.AssignStmt:
			// name := names[i]
			for i, l := range x.Lhs {
				if lid, ok := l.(*ast.Ident); ok && objOfIdent(info, lid) == target && i < len(x.Rhs) {
					if ix, ok := ast.Unparen(x.Rhs[i]).(*ast.IndexExpr); ok {
						for _, o := range objs {
							if objOf(info, ix.X) == o {
								found = true
							}
						}
					}
				}
			}
		}
		return true
	})
	return found
}

// c02r6: frame slots are unique per function.  claimIndex numbers a new symbol
// with the length of the function table's symbol list and appends to it; no
// SymbolTable method shortens that list, so two variables of one function never
// share a slot (a closure that captured a block variable would otherwise share
// storage with a later sibling block's variable).
func c02r6(c *core.Ctx) {
	p := c.P
	cp := p.Pkg("compiler")
	stT := core.MustType(cp, "SymbolTable")
	symT := core.MustType(cp, "Symbol")
	symbolsF := fieldByName(stT, "symbols")
	indexF := fieldByName(symT, "index")
	if symbolsF == nil || indexF == nil {
		core.Undecidedf("SymbolTable.symbols / Symbol.index not found")
	}
	fieldIdx := func(nt *types.Named, f *types.Var) int {
		st := nt.Underlying().(*types.Struct)
		for i := 0; i < st.NumFields(); i++ {
			if st.Field(i) == f {
				return i
			}
		}
		return -1
	}
	symbolsI, indexI := fieldIdx(stT, symbolsF), fieldIdx(symT, indexF)
	isSymbolsLoad := func(v ssa.Value) bool {
		u, ok := v.(*ssa.UnOp)
		if !ok || u.Op != token.MUL {
			return false
		}
		fa, ok := u.X.(*ssa.FieldAddr)
		return ok && fa.Field == symbolsI && core.NamedOf(fa.X.Type()) == stT
	}
	n := 0
	for _, m := range core.Methods(stT) {
		sf := p.SSAFunc(m)
		if sf == nil || sf.Blocks == nil {
			continue
		}
		for _, b := range sf.Blocks {
			for _, in := range b.Instrs {
				st, ok := in.(*ssa.Store)
				if !ok {
					continue
				}
				fa, ok := st.Addr.(*ssa.FieldAddr)
				if !ok {
					continue
				}
				switch {
				case fa.Field == indexI && core.NamedOf(fa.X.Type()) == symT:
					n++
					fromLen := core.DependsOn(st.Val, func(w ssa.Value) bool {
						if call, ok := w.(*ssa.Call); ok {
							if bi, ok := call.Call.Value.(*ssa.Builtin); ok && bi.Name() == "len" && len(call.Call.Args) == 1 {
								return isSymbolsLoad(call.Call.Args[0])
							}
						}
						return false
					})
					other := core.DependsOn(st.Val, func(w ssa.Value) bool {
						if call, ok := w.(*ssa.Call); ok {
							if cal := call.Call.StaticCallee(); cal != nil && core.RepoFunc(cal) {
								return true
							}
						}
						return false
					})
					c.Check(fromLen && !other, "compiler.SymbolTable."+m.Name()+"|slot=len(symbols)", p.Pos(st.Pos()),
						"the slot given to a new symbol is the current length of the function's symbol list (monotonic, never reused)")
				case fa.Field == symbolsI && core.NamedOf(fa.X.Type()) == stT:
					n++
					okv := true
					for _, o := range core.Origins(st.Val) {
						switch x := o.(type) {
						case *ssa.Call:
							if bi, ok := x.Call.Value.(*ssa.Builtin); !ok || bi.Name() != "append" || !isSymbolsLoad(x.Call.Args[0]) {
								okv = false
							}
						case *ssa.MakeSlice, *ssa.Slice:
							if sl, ok := x.(*ssa.Slice); ok {
								if _, isAlloc := sl.X.(*ssa.Alloc); !isAlloc {
									okv = false // re-slice of an existing list
								}
							}
						case *ssa.Const:
						default:
							okv = false
						}
					}
					if !okv && onlyFromCompileRollback(p, sf) {
						c.Pass("compiler.SymbolTable."+m.Name()+"|symbols-append-only", p.Pos(st.Pos()), "the list is cut back only while Compile rejects its input (deferred, on the error path): the dropped symbols belong to code that never runs")
						continue
					}
					c.Check(okv, "compiler.SymbolTable."+m.Name()+"|symbols-append-only", p.Pos(st.Pos()),
						"the per-function symbol list only grows (append to itself, or a fresh empty list)")
				}
			}
		}
	}
	c.Stat("slot_sites", n)
}

// onlyFromCompileRollback: every static call chain into f starts in a function
// literal deferred by (*Compiler).Compile — the rollback of a rejected input.
func onlyFromCompileRollback(p *core.Program, f *ssa.Function) bool {
	cg := p.CallGraph()
	seen := map[*ssa.Function]bool{}
	var up func(g *ssa.Function, depth int) bool
	up = func(g *ssa.Function, depth int) bool {
		if depth > 5 || seen[g] {
			return depth <= 5
		}
		seen[g] = true
		if g.Parent() != nil && g.Parent().Name() == "Compile" && g.Parent().Signature.Recv() != nil {
			return true
		}
		nd := cg.Nodes[g]
		if nd == nil || len(nd.In) == 0 {
			return false
		}
		real := 0
		for _, e := range nd.In {
			// promoted-method wrappers of embedding types that nobody calls are not callers
			if cf := e.Caller.Func; cf.Synthetic != "" {
				if cn := cg.Nodes[cf]; cn == nil || len(cn.In) == 0 {
					continue
				}
			}
			real++
			if !up(e.Caller.Func, depth+1) {
				return false
			}
		}
		return real > 0
	}
	return up(f, 0)
}
