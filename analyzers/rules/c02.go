package rules

import (
	"go/ast"
	"go/token"
	"go/types"
	"strings"

	"golang.org/x/tools/go/ssa"

	"risorcheck/core"
)

func init() {
	core.Register(&core.Property{
		ID: "C02",
		Decided: "Structural conditions of lexical capture (the behaviour over all nestings, escape routes and call orders is NOT decided): " +
			"(R1) capture does not select a frame by its position on the call stack: the MakeCell handler consults no frame other than the active one (frames[fp]) — a variable of a function further out reaches a new closure through the enclosing closure's own cell — or the compiler only ever emits distance 0; " +
			"(R2) a cell points into the captured frame's own storage: the MakeCell handler takes the address of a slot of CaptureLocals() (heap storage of that activation), LoadFree/StoreFree go through the cell's Value/Set, and no frame method re-uses the captured/extended locals slice of an earlier activation (no re-slice of the field assigned back to it); " +
			"(R3) name resolution is nearest-scope-first: before walking outward, SymbolTable.Resolve consults only its own tables — never a cache that belongs to an enclosing function — so an inner declaration shadows a name the function already captured.",
		NotCovered:  "Sharing of one binding between sibling closures across all call orders, the named-function self slot, capture across spawn / Call from Go.",
		Assumptions: []string{"a frame found at fp-k is the lexical ancestor only when the call path equals the definition path"},
		Rules: []*core.Rule{
			{ID: "C02-R1", Title: "no operand-driven frame selection for capture", Floor: 1, Run: c02r1},
			{ID: "C02-R2", Title: "cells point into per-activation storage and are used through Value/Set", Floor: 4, Run: c02r2},
			{ID: "C02-R3", Title: "name resolution is nearest-scope-first", Floor: 1, Run: c02r3},
		},
	})
}

func c02r1(c *core.Ctx) {
	p := c.P
	t := VMTable(p)
	vmp := p.Pkg("vm")
	info := vmp.TypesInfo
	vmT := core.MustType(vmp, "VirtualMachine")
	frames := fieldByName(vmT, "frames")
	fpF := fieldByName(vmT, "fp")
	if frames == nil || fpF == nil {
		core.Undecidedf("VirtualMachine.frames / fp not found")
	}

	var clause *ast.CaseClause
	for _, cc := range t.Switch.Body.List {
		cl := cc.(*ast.CaseClause)
		for _, e := range cl.List {
			if k, _ := objOf(info, e).(*types.Const); k != nil && k.Name() == "MakeCell" {
				clause = cl
			}
		}
	}
	if clause == nil {
		core.Undecidedf("no MakeCell clause in the dispatch switch")
	}
	vmSide := false
	var at token.Pos
	for _, s := range clause.Body {
		ast.Inspect(s, func(n ast.Node) bool {
			ix, ok := n.(*ast.IndexExpr)
			if !ok || fieldOf(info, ix.X) != frames {
				return true
			}
			// only the active frame (frames[fp]) may be consulted: any other index is a
			// frame selected by call-stack position
			if f := fieldOf(info, ix.Index); f == nil || f != fpF {
				vmSide = true
				at = ix.Pos()
			}
			return true
		})
	}
	// compiler side: MakeCell emitted with a non-zero-constant distance operand
	cp := p.Pkg("compiler")
	emit := emitMethod(p)
	compilerSide := false
	funcBodies(cp, func(fn *types.Func, fd *ast.FuncDecl) {
		ast.Inspect(fd.Body, func(n ast.Node) bool {
			ce, ok := n.(*ast.CallExpr)
			if !ok || calleeOf(cp.TypesInfo, ce) != emit || len(ce.Args) < 3 {
				return true
			}
			if k, _ := objOf(cp.TypesInfo, ce.Args[0]).(*types.Const); k == nil || k.Name() != "MakeCell" {
				return true
			}
			if v, isC := constInt(cp.TypesInfo, ce.Args[len(ce.Args)-1]); !isC || v != 0 {
				compilerSide = true
			}
			return true
		})
	})
	pos := p.Pos(clause.Pos())
	if at != token.NoPos {
		pos = p.Pos(at)
	}
	c.Check(!(vmSide && compilerSide), "vm.eval|MakeCell|operand-driven-frame-selection", pos,
		"the MakeCell handler reads a frame other than the active one (selected by call-stack position) while the compiler emits a non-zero lexical distance: the frame k below the top is the defining function's activation only when the closure is created on the same call path it was defined on — f(1)(2)(3) with three nested functions reads a foreign frame")
}

func c02r2(c *core.Ctx) {
	p := c.P
	vmp := p.Pkg("vm")
	info := vmp.TypesInfo
	t := VMTable(p)
	frameT := core.MustType(vmp, "frame")
	capture := core.Method(frameT, "CaptureLocals")
	if capture == nil {
		// by role: frame method returning []object.Object that assigns a field from make+copy
		for _, m := range core.Methods(frameT) {
			if strings.Contains(strings.ToLower(m.Name()), "capture") {
				capture = m
			}
		}
	}
	if capture == nil {
		core.Undecidedf("frame capture method not found")
	}
	clauseOf := func(name string) *ast.CaseClause {
		for _, cc := range t.Switch.Body.List {
			cl := cc.(*ast.CaseClause)
			for _, e := range cl.List {
				if k, _ := objOf(info, e).(*types.Const); k != nil && k.Name() == name {
					return cl
				}
			}
		}
		return nil
	}
	// MakeCell: NewCell(&X[idx]) with X assigned from CaptureLocals()
	mk := clauseOf("MakeCell")
	okCell := false
	if mk != nil {
		assigns := map[types.Object][]ast.Expr{}
		for _, s := range mk.Body {
			for o, rs := range localAssignments(info, s) {
				assigns[o] = append(assigns[o], rs...)
			}
		}
		for _, s := range mk.Body {
			ast.Inspect(s, func(n ast.Node) bool {
				ce, ok := n.(*ast.CallExpr)
				if !ok {
					return true
				}
				cal := calleeOf(info, ce)
				if cal == nil || cal.Name() != "NewCell" || len(ce.Args) != 1 {
					return true
				}
				if u, ok := ast.Unparen(ce.Args[0]).(*ast.UnaryExpr); ok && u.Op == token.AND {
					if ix, ok := ast.Unparen(u.X).(*ast.IndexExpr); ok {
						if id, ok := ast.Unparen(ix.X).(*ast.Ident); ok {
							for _, rhs := range assigns[info.Uses[id]] {
								if c2, ok := ast.Unparen(rhs).(*ast.CallExpr); ok && calleeOf(info, c2) == capture {
									okCell = true
								}
							}
						}
						if c2, ok := ast.Unparen(ix.X).(*ast.CallExpr); ok && calleeOf(info, c2) == capture {
							okCell = true
						}
					}
				}
				return true
			})
		}
	}
	c.Check(okCell, "vm.eval|MakeCell|cell-points-into-captured-storage", posOf(p, mk), "MakeCell builds the cell from the address of a slot of the frame's captured (heap) storage, obtained from "+capture.Name()+"()")
	// LoadFree / StoreFree through Value / Set
	for _, pair := range [][2]string{{"LoadFree", "Value"}, {"StoreFree", "Set"}} {
		cl := clauseOf(pair[0])
		okv := false
		if cl != nil {
			for _, s := range cl.Body {
				ast.Inspect(s, func(n ast.Node) bool {
					if ce, ok := n.(*ast.CallExpr); ok {
						if cal := calleeOf(info, ce); cal != nil && cal.Name() == pair[1] && core.IsNamed(core.RecvNamed(cal), pkgPath("object"), "Cell") {
							okv = true
						}
					}
					return true
				})
			}
		}
		c.Check(okv, "vm.eval|"+pair[0]+"|through-cell", posOf(p, cl), pair[0]+" accesses the variable through the cell's "+pair[1]+" (every closure sharing the binding sees the same storage)")
	}
	// frame methods never re-use the storage of an earlier activation
	st := frameT.Underlying().(*types.Struct)
	sliceFields := map[int]string{}
	for i := 0; i < st.NumFields(); i++ {
		if sl, ok := st.Field(i).Type().Underlying().(*types.Slice); ok && core.IsNamed(sl.Elem(), pkgPath("object"), "Object") {
			sliceFields[i] = st.Field(i).Name()
		}
	}
	for _, m := range core.Methods(frameT) {
		sf := p.SSAFunc(m)
		if sf == nil || sf.Blocks == nil {
			continue
		}
		bad := ""
		for _, b := range sf.Blocks {
			for _, in := range b.Instrs {
				s, ok := in.(*ssa.Store)
				if !ok {
					continue
				}
				fa, ok := s.Addr.(*ssa.FieldAddr)
				if !ok || core.NamedOf(fa.X.Type()) != frameT {
					continue
				}
				if _, isSl := sliceFields[fa.Field]; !isSl {
					continue
				}
				// value stored: a Slice of a load of a heap slice field of the frame = reuse
				for _, o := range core.Origins(s.Val) {
					if sl, ok := o.(*ssa.Slice); ok {
						if u, ok := sl.X.(*ssa.UnOp); ok && u.Op == token.MUL {
							if fa2, ok := u.X.(*ssa.FieldAddr); ok && core.NamedOf(fa2.X.Type()) == frameT {
								if name, isSl := sliceFields[fa2.Field]; isSl {
									bad = "field " + sliceFields[fa.Field] + " is assigned a re-slice of " + name + " at " + p.Pos(in.Pos())
								}
							}
						}
					}
				}
			}
		}
		c.Check(bad == "", "vm.frame."+m.Name()+"|fresh-storage-per-activation", p.Pos(sf.Pos()), "frame."+m.Name()+" never hands a new activation the heap slice of an earlier one (cells of escaped closures point into that slice; reusing it makes an old closure share bindings with the next call)"+ifs(bad != "", ": "+bad))
	}
}

func c02r3(c *core.Ctx) {
	p := c.P
	cp := p.Pkg("compiler")
	info := cp.TypesInfo
	stT := core.MustType(cp, "SymbolTable")
	resolve := core.MustMethod(stT, "Resolve")
	fd := p.Decl(resolve)
	if fd.Recv == nil || len(fd.Recv.List[0].Names) == 0 {
		core.Undecidedf("Resolve has no named receiver")
	}
	recv := info.Defs[fd.Recv.List[0].Names[0]]
	// position of the outward walk: the first loop or first read of the parent link
	walk := token.NoPos
	for _, s := range fd.Body.List {
		if _, ok := s.(*ast.ForStmt); ok && walk == token.NoPos {
			walk = s.Pos()
		}
	}
	if walk == token.NoPos {
		core.Undecidedf("Resolve contains no outward walk (loop)")
	}
	bad := ""
	n := 0
	ast.Inspect(fd.Body, func(nd ast.Node) bool {
		ix, ok := nd.(*ast.IndexExpr)
		if !ok || ix.Pos() > walk {
			return true
		}
		f := fieldOf(info, ix.X)
		if f == nil || !core.RecvNamedOfField(stT, f) {
			return true
		}
		if _, isMap := f.Type().Underlying().(*types.Map); !isMap {
			return true
		}
		n++
		se := ast.Unparen(ix.X).(*ast.SelectorExpr)
		if objOf(info, se.X) != recv {
			bad = exprStr(ix) + " at " + posOf(p, ix)
		}
		return true
	})
	c.Check(bad == "" && n > 0, "compiler.SymbolTable.Resolve|nearest-scope-first", posOf(p, fd),
		"before walking outward Resolve looks a name up only in its own maps; a hit in a table of the enclosing function (e.g. its free-variable cache) would take precedence over a declaration in a nearer block, so a shadowing inner variable would resolve to the captured outer one"+ifs(bad != "", ": "+bad))
	c.Stat("lookups_before_walk", n)
}
