package rules

import (
	"go/ast"
	"go/token"
	"go/types"
	"sort"
	"strings"

	"golang.org/x/tools/go/ssa"

	"risorcheck/core"
)

// ---------------------------------------------------------------------------
// deferredUnlockFindsLockHeld: a function that defers m.Unlock() returns with m
// held on every path.  Unlocking in the middle ("not while we compile") and
// taking the lock again only on the success path lets the deferred Unlock run
// on an unlocked mutex: "fatal error: sync: unlock of unlocked mutex", which
// no recover can stop.
func deferredUnlockFindsLockHeld(c *core.Ctx) {
	p := c.P
	n := 0
	lockOp := func(in ssa.Instruction) (string, string, bool) { // op, mutex key, deferred
		ci, ok := in.(ssa.CallInstruction)
		if !ok {
			return "", "", false
		}
		cal := ci.Common().StaticCallee()
		if cal == nil || cal.Pkg == nil || cal.Pkg.Pkg == nil || cal.Pkg.Pkg.Path() != "sync" || len(ci.Common().Args) == 0 {
			return "", "", false
		}
		switch cal.Name() {
		case "Lock", "Unlock", "RLock", "RUnlock":
		default:
			return "", "", false
		}
		key := ""
		switch a := ci.Common().Args[0].(type) {
		case *ssa.FieldAddr:
			key = a.X.Name() + "." + itoa(a.Field)
		case *ssa.Global:
			key = a.Name()
		default:
			key = a.Name()
		}
		_, isDefer := in.(*ssa.Defer)
		if isDefer {
			return "defer-" + cal.Name(), key, true
		}
		return cal.Name(), key, false
	}
	for _, fn := range repoFns(p) {
		deferred := map[string]string{} // mutex key -> Unlock | RUnlock
		for _, b := range fn.Blocks {
			for _, in := range b.Instrs {
				if op, key, d := lockOp(in); d && strings.HasSuffix(op, "nlock") {
					deferred[key] = strings.TrimPrefix(op, "defer-")
				}
			}
		}
		if len(deferred) == 0 {
			continue
		}
		var keys []string
		for k := range deferred {
			keys = append(keys, k)
		}
		sort.Strings(keys)
		for _, key := range keys {
			// does the function unlock this mutex explicitly at all?
			explicit := false
			for _, b := range fn.Blocks {
				for _, in := range b.Instrs {
					if op, k, d := lockOp(in); !d && k == key && (op == "Unlock" || op == "RUnlock") {
						explicit = true
					}
				}
			}
			n++
			if !explicit {
				c.Pass(core.SSAName(fn)+"|deferred-unlock-finds-lock-held|"+key, p.Pos(fn.Pos()), "the mutex is released only by the deferred call")
				continue
			}
			// must-analysis: held on every path at every exit that runs the defers
			type st struct{ held, seen bool }
			in := map[*ssa.BasicBlock]st{fn.Blocks[0]: {false, true}}
			work := []*ssa.BasicBlock{fn.Blocks[0]}
			bad := ""
			for len(work) > 0 {
				b := work[0]
				work = work[1:]
				cur := in[b].held
				armed := false
				for _, ins := range b.Instrs {
					if op, k, d := lockOp(ins); k == key {
						switch {
						case d:
							armed = true
						case op == "Lock" || op == "RLock":
							cur = true
						case op == "Unlock" || op == "RUnlock":
							cur = false
						}
					}
					_ = armed
					if _, isRun := ins.(*ssa.RunDefers); isRun && !cur && deferArmedBefore(fn, key, b, lockOp) {
						bad = p.Pos(ins.Pos())
						if bad == "" {
							bad = "an exit of " + fn.Name()
						}
					}
				}
				for _, s := range b.Succs {
					ns := st{cur, true}
					if in[s].seen {
						ns.held = in[s].held && cur
					}
					if !in[s].seen || ns != in[s] {
						in[s] = ns
						work = append(work, s)
					}
				}
			}
			c.Check(bad == "", core.SSAName(fn)+"|deferred-unlock-finds-lock-held|"+key, p.Pos(fn.Pos()),
				fn.Name()+" holds the mutex on every path on which its deferred "+deferred[key]+" runs"+ifs(bad != "", ": a path that unlocked it explicitly reaches the exit at "+bad+" without locking it again (unlock of an unlocked mutex is a fatal error)"))
		}
	}
	c.Stat("deferred_unlocks", n)
}

// deferArmedBefore: the deferred unlock of key is registered on some path to b
// (approximated: its defer instruction dominates b or is in b).
func deferArmedBefore(fn *ssa.Function, key string, b *ssa.BasicBlock, lockOp func(ssa.Instruction) (string, string, bool)) bool {
	for _, b2 := range fn.Blocks {
		for _, in := range b2.Instrs {
			if _, k, d := lockOp(in); d && k == key && (b2 == b || b2.Dominates(b)) {
				return true
			}
		}
	}
	return false
}

// ---------------------------------------------------------------------------
// counterAdvancedBeforeContinue: a loop that walks one sequence while it keeps
// a hand-made index into a parallel one (exprs[i]; i++) advances the index on
// every path that has consumed the element: no `continue` lies between the use
// of the index and its increment.  Otherwise one skipped element shifts every
// later pairing.
func counterAdvancedBeforeContinue(c *core.Ctx) {
	p := c.P
	n := 0
	for _, rel := range []string{"compiler", "vm", "object", "builtins", "parser"} {
		pk := p.Pkg(rel)
		info := pk.TypesInfo
		funcBodies(pk, func(fn *types.Func, fd *ast.FuncDecl) {
			if strings.HasSuffix(p.Fset.Position(fd.Pos()).Filename, "_test.go") {
				return
			}
			ast.Inspect(fd.Body, func(nd ast.Node) bool {
				var body *ast.BlockStmt
				var loopVars map[types.Object]bool
				switch l := nd.(type) {
				case *ast.RangeStmt:
					body = l.Body
					loopVars = map[types.Object]bool{}
					for _, e := range []ast.Expr{l.Key, l.Value} {
						if id, ok := e.(*ast.Ident); ok {
							loopVars[objOfIdent(info, id)] = true
						}
					}
				case *ast.ForStmt:
					body = l.Body
					loopVars = map[types.Object]bool{}
					if inc, ok := l.Post.(*ast.IncDecStmt); ok {
						if id, ok := inc.X.(*ast.Ident); ok {
							loopVars[objOfIdent(info, id)] = true
						}
					}
				default:
					return true
				}
				// hand-made counters: incremented inside the body (not in nested loops / closures), declared outside
				type ev struct {
					pos  token.Pos
					kind string // use, inc, continue
					obj  types.Object
				}
				var evs []ev
				var walk func(n ast.Node, depth int)
				walk = func(n ast.Node, depth int) {
					ast.Inspect(n, func(k ast.Node) bool {
						switch x := k.(type) {
						case *ast.FuncLit:
							return false
						case *ast.ForStmt, *ast.RangeStmt:
							if k != nd {
								return false // continue inside belongs to the inner loop
							}
						case *ast.IncDecStmt:
							if id, ok := x.X.(*ast.Ident); ok && x.Tok == token.INC {
								evs = append(evs, ev{x.Pos(), "inc", objOfIdent(info, id)})
							}
						case *ast.IndexExpr:
							if id, ok := ast.Unparen(x.Index).(*ast.Ident); ok {
								evs = append(evs, ev{x.Pos(), "use", objOfIdent(info, id)})
							}
						case *ast.BranchStmt:
							if x.Tok == token.CONTINUE && x.Label == nil {
								evs = append(evs, ev{x.Pos(), "continue", nil})
							}
						}
						return true
					})
				}
				walk(body, 0)
				counters := map[types.Object]bool{}
				for _, e := range evs {
					if e.kind == "inc" && e.obj != nil && !loopVars[e.obj] && (e.obj.Pos() < nd.Pos() || e.obj.Pos() > nd.End()) {
						counters[e.obj] = true
					}
				}
				for obj := range counters {
					var firstUse, inc token.Pos
					incs := 0
					for _, e := range evs {
						if e.obj != obj {
							continue
						}
						if e.kind == "use" && (firstUse == token.NoPos || e.pos < firstUse) {
							firstUse = e.pos
						}
						if e.kind == "inc" {
							incs++
							inc = e.pos
						}
					}
					if incs != 1 || firstUse == token.NoPos {
						continue
					}
					n++
					bad := ""
					for _, e := range evs {
						if e.kind == "continue" && e.pos > firstUse && e.pos < inc {
							bad = p.Pos(e.pos)
						}
					}
					c.Check(bad == "", core.FuncName(fn)+"|counter-advanced-before-continue|"+obj.Name(), p.Pos(inc),
						"the hand-made index "+obj.Name()+" is advanced on every path that has used it"+ifs(bad != "", ": the continue at "+bad+" skips the increment, so every later element is paired with the wrong entry"))
				}
				return true
			})
		})
	}
	c.Stat("parallel_counters", n)
}

// ---------------------------------------------------------------------------
// unpackSizeCheckIsExact: the declared stack effect of Unpack (pops the
// container, pushes exactly operand-0 values) rests on the handler comparing
// the container's size with the operand for inequality before any loop that
// pushes the elements.  A weaker test (<) lets a longer container push more
// values than the compiler stores: the surplus stays on the stack.
func unpackSizeCheckIsExact(c *core.Ctx) {
	p := c.P
	t := VMTable(p)
	vmp := p.Pkg("vm")
	info := vmp.TypesInfo
	var clause *ast.CaseClause
	for _, cc := range t.Switch.Body.List {
		cl := cc.(*ast.CaseClause)
		for _, e := range cl.List {
			if k, _ := objOf(info, e).(*types.Const); k != nil && k.Name() == "Unpack" {
				clause = cl
			}
		}
	}
	if clause == nil {
		core.Undecidedf("no dispatch clause for op.Unpack")
	}
	// the operand: a variable assigned from (a conversion of) fetch()
	operand := map[types.Object]bool{}
	for _, s := range clause.Body {
		for o, rhs := range localAssignments(info, s) {
			for _, r := range rhs {
				ast.Inspect(r, func(k ast.Node) bool {
					if ce, ok := k.(*ast.CallExpr); ok && calleeOf(info, ce) == t.Prims["fetch"] {
						operand[o] = true
					}
					return true
				})
			}
		}
	}
	if len(operand) == 0 {
		core.Undecidedf("the Unpack handler reads no operand")
	}
	n := 0
	walkStack(&ast.BlockStmt{List: clause.Body}, func(nd ast.Node, stack []ast.Node) bool {
		var body *ast.BlockStmt
		switch l := nd.(type) {
		case *ast.ForStmt:
			body = l.Body
		case *ast.RangeStmt:
			body = l.Body
		default:
			return true
		}
		pushes := false
		ast.Inspect(body, func(k ast.Node) bool {
			if ce, ok := k.(*ast.CallExpr); ok && calleeOf(info, ce) == t.Prims["push"] {
				pushes = true
			}
			return true
		})
		if !pushes {
			return true
		}
		n++
		// an exact size check precedes the loop in one of the enclosing statement lists
		exact := false
		var lists [][]ast.Stmt
		lists = append(lists, clause.Body)
		for _, anc := range stack {
			if blk, ok := anc.(*ast.BlockStmt); ok {
				lists = append(lists, blk.List)
			}
		}
		for _, list := range lists {
			for _, s := range list {
				if s.Pos() >= nd.Pos() {
					break
				}
				ifs, ok := s.(*ast.IfStmt)
				if !ok || len(ifs.Body.List) == 0 {
					continue
				}
				if _, isRet := ifs.Body.List[len(ifs.Body.List)-1].(*ast.ReturnStmt); !isRet {
					continue
				}
				be, ok := ast.Unparen(ifs.Cond).(*ast.BinaryExpr)
				if !ok || be.Op != token.NEQ {
					continue
				}
				for _, side := range []ast.Expr{be.X, be.Y} {
					if id, ok := ast.Unparen(side).(*ast.Ident); ok && operand[objOfIdent(info, id)] {
						exact = true
					}
				}
			}
		}
		c.Check(exact, "vm.eval|Unpack|size-check-is-exact|loop#"+itoa(n), p.Pos(nd.Pos()),
			"every loop of the Unpack handler that pushes elements is preceded by a size != operand test that returns an error"+ifs(!exact, ": this loop pushes one value per element without one (a longer container leaves its surplus on the stack)"))
		return true
	})
	if n == 0 {
		core.Undecidedf("the Unpack handler has no loop that pushes")
	}
	c.Stat("unpack_push_loops", n)
}

// ---------------------------------------------------------------------------
// haltClearedOnlyWhenArming: the halt flag is sticky.  Once the watcher has set
// it, every eval on that VM (the outer one as well as the nested evals of
// callbacks) sees it until the VM is armed for a new invocation.  Only the
// arming function, the reset for new code and constructors store zero to it.
func haltClearedOnlyWhenArming(c *core.Ctx) {
	p := c.P
	r := resolveVMRoles(p)
	arm := p.SSAFunc(r.arm)
	hi := -1
	st := r.vmT.Underlying().(*types.Struct)
	for i := 0; i < st.NumFields(); i++ {
		if st.Field(i) == r.halt {
			hi = i
		}
	}
	if arm == nil || hi < 0 {
		core.Undecidedf("arming function / halt field not resolved")
	}
	isHalt := func(v ssa.Value) bool {
		for _, o := range core.Origins(v) {
			if fa, ok := o.(*ssa.FieldAddr); ok && fa.Field == hi && core.NamedOf(fa.X.Type()) == r.vmT {
				return true
			}
			if _, ok := loadOfField(o, r.vmT, hi); ok {
				return true
			}
		}
		return false
	}
	isZero := func(v ssa.Value) bool {
		k, ok := v.(*ssa.Const)
		return ok && k.Value != nil && k.Int64() == 0
	}
	n := 0
	for _, fn := range repoFns(p, "vm") {
		for _, b := range fn.Blocks {
			for _, in := range b.Instrs {
				clears := false
				switch x := in.(type) {
				case *ssa.Store:
					clears = isHalt(x.Addr) && isZero(x.Val)
				case *ssa.Call:
					if cal := x.Call.StaticCallee(); cal != nil && cal.Pkg != nil && cal.Pkg.Pkg.Path() == "sync/atomic" && strings.HasPrefix(cal.Name(), "Store") && len(x.Call.Args) == 2 {
						clears = isHalt(x.Call.Args[0]) && isZero(x.Call.Args[1])
					}
				}
				if !clears {
					continue
				}
				n++
				okf := fn == arm || isVMConstruction(fn, r.vmT)
				c.Check(okf, core.SSAName(fn)+"|halt-cleared-only-when-arming", p.Pos(in.Pos()),
					"the halt flag is cleared by "+fn.Name()+ifs(okf, " (the arming function)")+ifs(!okf, ": outside the arming function a cleared flag lets the code that called the halted eval (a try() around a callback, the enclosing loop) run on after cancellation"))
			}
		}
	}
	c.Stat("halt_clears", n)
}

// ---------------------------------------------------------------------------
// failedStartLeavesVMStopped: when the arming function reports an error the
// invocation does not happen and nobody calls the disarming function.  No
// error return of the arming function is reached after it has marked the VM
// as running, unless it takes the mark back.
func failedStartLeavesVMStopped(c *core.Ctx) {
	p := c.P
	r := resolveVMRoles(p)
	arm := p.SSAFunc(r.arm)
	if arm == nil {
		core.Undecidedf("arming function not resolved")
	}
	// the running mark: a bool field of the VM that the arming function stores true to
	var marks []ssa.Instruction
	field := -1
	for _, b := range arm.Blocks {
		for _, in := range b.Instrs {
			s, ok := in.(*ssa.Store)
			if !ok {
				continue
			}
			fa, ok := s.Addr.(*ssa.FieldAddr)
			if !ok || core.NamedOf(fa.X.Type()) != r.vmT {
				continue
			}
			if k, ok := s.Val.(*ssa.Const); ok && k.Value != nil && k.Value.String() == "true" {
				marks = append(marks, in)
				field = fa.Field
			}
		}
	}
	if len(marks) == 0 {
		core.Undecidedf("%s marks nothing as running", arm.Name())
	}
	bad := ""
	nret := 0
	for _, b := range arm.Blocks {
		for _, in := range b.Instrs {
			ret, ok := in.(*ssa.Return)
			if !ok || len(ret.Results) == 0 {
				continue
			}
			last := spilledResult(b, ret.Results[len(ret.Results)-1])
			if k, ok := last.(*ssa.Const); ok && k.IsNil() {
				continue
			}
			nret++
			for _, m := range marks {
				if !instrDominates(m, ret) {
					continue
				}
				// taken back?
				back := false
				for _, b2 := range arm.Blocks {
					for _, i2 := range b2.Instrs {
						if s, ok := i2.(*ssa.Store); ok {
							if fa, ok := s.Addr.(*ssa.FieldAddr); ok && fa.Field == field && core.NamedOf(fa.X.Type()) == r.vmT {
								if k, ok := s.Val.(*ssa.Const); ok && k.Value != nil && k.Value.String() == "false" && instrDominates(m, i2) && instrDominates(i2, ret) {
									back = true
								}
							}
						}
					}
				}
				if !back {
					bad = p.Pos(ret.Pos())
				}
			}
		}
	}
	c.Check(bad == "", "vm.VirtualMachine."+arm.Name()+"|error-return-leaves-vm-stopped", p.Pos(arm.Pos()),
		arm.Name()+" reports an error only before it marks the VM as running (its callers return without disarming)"+ifs(bad != "", ": the error return at "+bad+" comes after the mark, so every later invocation finds the VM 'already running'"))
	c.Stat("arm_error_returns", nret)
}

// ---------------------------------------------------------------------------
// deferredTablesOnlyGrow: Config.denylist and Config.overrides are filled by
// options and applied by init() after the defaults.  Nothing removes an entry:
// an option that takes a name out of the deny-list again ("last option wins")
// re-enables the default object of that name, because the defaults overwrite
// whatever the host supplied under it.
func deferredTablesOnlyGrow(c *core.Ctx) {
	p := c.P
	root := p.Pkg("")
	cfgT := core.MustType(root, "Config")
	idx := map[int]string{}
	for _, name := range []string{"overrides", "denylist"} {
		if i := fieldIdxByName(cfgT, name); i >= 0 {
			idx[i] = name
		}
	}
	if len(idx) == 0 {
		core.Undecidedf("Config.overrides / Config.denylist not found")
	}
	n := 0
	for _, fn := range repoFns(p, "") {
		for _, b := range fn.Blocks {
			for _, in := range b.Instrs {
				var target ssa.Value
				what := ""
				switch x := in.(type) {
				case *ssa.Call:
					if bi, ok := x.Call.Value.(*ssa.Builtin); ok && (bi.Name() == "delete" || bi.Name() == "clear") && len(x.Call.Args) > 0 {
						target, what = x.Call.Args[0], bi.Name()
					}
				case *ssa.MapUpdate:
					target, what = x.Map, "add"
				}
				if target == nil {
					continue
				}
				for _, o := range core.Origins(target) {
					u, ok := o.(*ssa.UnOp)
					if !ok {
						continue
					}
					fa, ok := u.X.(*ssa.FieldAddr)
					if !ok || core.NamedOf(fa.X.Type()) != cfgT || idx[fa.Field] == "" {
						continue
					}
					n++
					c.Check(what == "add", core.SSAName(fn)+"|Config."+idx[fa.Field]+"|"+what, p.Pos(in.Pos()),
						"Config."+idx[fa.Field]+" only grows"+ifs(what != "add", ": "+fn.Name()+" removes entries from it, which re-enables what was denied (the defaults are applied over the host's globals before the deny-list)"))
				}
			}
		}
	}
	c.Stat("deferred_table_writes", n)
}

// ---------------------------------------------------------------------------
// typeOwnsItsMaps: like Config (C11-R8), a VirtualOS owns its mount table: the
// map field is set to a map made by the package, never to one the caller
// supplied (the option would then edit, and be edited through, the caller's
// table: two OS objects built from one table see each other's mounts).
func virtualOSOwnsItsMaps(c *core.Ctx) {
	p := c.P
	ros := p.Pkg("os")
	vT := core.MustType(ros, "VirtualOS")
	n := 0
	for _, fn := range repoFns(p, "os") {
		for _, b := range fn.Blocks {
			for _, in := range b.Instrs {
				st, ok := in.(*ssa.Store)
				if !ok {
					continue
				}
				fa, ok := st.Addr.(*ssa.FieldAddr)
				if !ok || core.NamedOf(fa.X.Type()) != vT {
					continue
				}
				f := fieldVar(fa)
				if f == nil {
					continue
				}
				if _, isMap := f.Type().Underlying().(*types.Map); !isMap {
					continue
				}
				n++
				okv := true
				for _, o := range core.Origins(st.Val) {
					switch x := o.(type) {
					case *ssa.MakeMap, *ssa.Const:
					case *ssa.Call:
						if cal := x.Call.StaticCallee(); cal == nil || !core.RepoFunc(cal) {
							okv = false
						}
					default:
						okv = false
					}
				}
				c.Check(okv, core.SSAName(fn)+"|VirtualOS."+f.Name()+"|own-map", p.Pos(st.Pos()),
					"VirtualOS."+f.Name()+" is set to a map made here, never to one supplied by the caller")
			}
		}
	}
	c.Stat("virtualos_map_stores", n)
}

// ---------------------------------------------------------------------------
// moduleGlobalsAliasLive: a source module's attributes are its global
// variables; Module.UseGlobals hands the module the globals array of its code
// and the module reads attributes from it.  The field is set to that very
// slice: a copy is a snapshot, and the module's functions (which use the array)
// and its importers (which read the copy) then disagree about its state.
func moduleGlobalsAliasLive(c *core.Ctx) {
	p := c.P
	op := p.Pkg("object")
	modT := core.MustType(op, "Module")
	m := core.Method(modT, "UseGlobals")
	if m == nil {
		core.Undecidedf("Module.UseGlobals not found")
	}
	sf := p.SSAFunc(m)
	if len(sf.Params) < 2 {
		core.Undecidedf("Module.UseGlobals takes no slice")
	}
	prm := sf.Params[1]
	aliased := false
	for _, b := range sf.Blocks {
		for _, in := range b.Instrs {
			if st, ok := in.(*ssa.Store); ok {
				if fa, ok := st.Addr.(*ssa.FieldAddr); ok && core.NamedOf(fa.X.Type()) == modT && st.Val == ssa.Value(prm) {
					aliased = true
				}
			}
		}
	}
	c.Check(aliased, "object.Module.UseGlobals|stores-the-live-array", p.Pos(sf.Pos()),
		"UseGlobals stores the slice it is given (the module's attributes then are the live globals of its code, not a snapshot)")
}

// ---------------------------------------------------------------------------
// lossyConversionsInComparisons: besides float→int (C15-R10), Compare / Equals /
// HashKey do not push an operand through a conversion that loses information
// unless a range test guards it: a narrowing integer conversion (int64→byte,
// also inside a helper they call with the other operand) makes 261 equal to
// byte(5) from one side only; string→[]rune replaces every invalid byte with
// U+FFFD, so different strings compare as equal while == says they differ.
func lossyConversionsInComparisons(c *core.Ctx) {
	p := c.P
	n := 0
	lossy := func(cv *ssa.Convert) string {
		src, dst := cv.X.Type().Underlying(), cv.Type().Underlying()
		if sb, ok := src.(*types.Basic); ok {
			if sb.Info()&types.IsString != 0 {
				if sl, ok := dst.(*types.Slice); ok {
					if eb, ok := sl.Elem().Underlying().(*types.Basic); ok && eb.Kind() == types.Int32 {
						return "string→[]rune (invalid bytes become U+FFFD)"
					}
				}
			}
			if db, ok := dst.(*types.Basic); ok {
				size := func(b *types.Basic) int {
					switch b.Kind() {
					case types.Int8, types.Uint8:
						return 1
					case types.Int16, types.Uint16:
						return 2
					case types.Int32, types.Uint32:
						return 4
					case types.Int, types.Uint, types.Int64, types.Uint64, types.Uintptr:
						return 8
					}
					return 0
				}
				if sb.Info()&types.IsInteger != 0 && db.Info()&types.IsInteger != 0 && size(db) < size(sb) && size(db) > 0 {
					return sb.Name() + "→" + db.Name() + " (narrowing)"
				}
				if sb.Info()&types.IsFloat != 0 && db.Info()&types.IsInteger != 0 && size(db) < 8 {
					return sb.Name() + "→" + db.Name() + " (narrowing)"
				}
			}
		}
		return ""
	}
	guardedBy := func(fn *ssa.Function, cv *ssa.Convert) bool {
		b := cv.Block()
		for _, b2 := range fn.Blocks {
			if len(b2.Instrs) == 0 || (b2 != b && !b2.Dominates(b)) {
				continue
			}
			iff, ok := b2.Instrs[len(b2.Instrs)-1].(*ssa.If)
			if !ok {
				continue
			}
			if bo, ok := iff.Cond.(*ssa.BinOp); ok {
				switch bo.Op {
				case token.LSS, token.LEQ, token.GTR, token.GEQ:
					for _, s := range []ssa.Value{bo.X, bo.Y} {
						if s == cv.X || core.SameStorage(s, cv.X) {
							return true
						}
					}
				}
			}
		}
		return false
	}
	scan := func(fn *ssa.Function) string {
		for _, b := range fn.Blocks {
			for _, in := range b.Instrs {
				cv, ok := in.(*ssa.Convert)
				if !ok {
					continue
				}
				if _, isK := cv.X.(*ssa.Const); isK {
					continue
				}
				if w := lossy(cv); w != "" && !guardedBy(fn, cv) {
					return w + " at " + p.Pos(cv.Pos())
				}
			}
		}
		return ""
	}
	for _, fn := range repoFns(p, "object") {
		if fn.Signature.Recv() == nil || (fn.Name() != "Compare" && fn.Name() != "Equals" && fn.Name() != "HashKey") {
			continue
		}
		n++
		bad := scan(fn)
		if bad == "" && len(fn.Params) > 1 {
			// helpers that receive the other operand
			other := fn.Params[1]
			for _, b := range fn.Blocks {
				for _, in := range b.Instrs {
					call, ok := in.(*ssa.Call)
					if !ok {
						continue
					}
					cal := call.Call.StaticCallee()
					if cal == nil || cal.Blocks == nil || !core.RepoFunc(cal) || cal == fn {
						continue
					}
					takesOther := false
					for _, a := range call.Call.Args {
						if core.DependsOn(a, func(w ssa.Value) bool { return w == ssa.Value(other) }) {
							takesOther = true
						}
					}
					if !takesOther {
						continue
					}
					if w := scan(cal); w != "" && bad == "" {
						bad = w + " in " + cal.Name() + ", which is given the other operand"
					}
				}
			}
		}
		c.Check(bad == "", core.SSAName(fn)+"|no-lossy-conversion", p.Pos(fn.Pos()),
			core.SSAName(fn)+" pushes no operand through a lossy conversion"+ifs(bad != "", ": "+bad+" — values that differ become equal for this method while the mirrored case and == still tell them apart"))
	}
	c.Stat("comparison_methods", n)
}

// ---------------------------------------------------------------------------
// instructionWordsNotNarrowed: an instruction word (op.Code) carries opcodes and
// 16-bit operands alike; nothing in the compiler package converts one to a
// narrower integer (a byte holds an opcode, not a constant index above 255).
func instructionWordsNotNarrowed(c *core.Ctx) {
	p := c.P
	codeT := core.MustType(p.Pkg("op"), "Code")
	cb, ok := codeT.Underlying().(*types.Basic)
	if !ok {
		core.Undecidedf("op.Code is not a basic type")
	}
	width := func(b *types.Basic) int {
		switch b.Kind() {
		case types.Int8, types.Uint8:
			return 1
		case types.Int16, types.Uint16:
			return 2
		case types.Int32, types.Uint32:
			return 4
		case types.Int, types.Uint, types.Int64, types.Uint64:
			return 8
		}
		return 0
	}
	n, conv := 0, 0
	for _, fn := range repoFns(p, "vm", "dis", "op") {
		for _, b := range fn.Blocks {
			for _, in := range b.Instrs {
				if cv, ok := in.(*ssa.Convert); ok && core.NamedOf(cv.X.Type()) == codeT {
					conv++ // the finder is alive: the VM widens instruction words to int
				}
			}
		}
	}
	for _, fn := range repoFns(p, "compiler") {
		for _, b := range fn.Blocks {
			for _, in := range b.Instrs {
				cv, ok := in.(*ssa.Convert)
				if !ok || core.NamedOf(cv.X.Type()) != codeT {
					continue
				}
				conv++
				db, ok := cv.Type().Underlying().(*types.Basic)
				if !ok || db.Info()&types.IsInteger == 0 || width(db) >= width(cb) {
					continue
				}
				n++
				c.Check(false, core.SSAName(fn)+"|instruction-word-narrowed", p.Pos(cv.Pos()),
					fn.Name()+" converts an instruction word to "+db.Name()+": operands above "+itoa(1<<(8*uint(width(db)))-1)+" are truncated")
			}
		}
	}
	c.Check(conv > 0, "control|op.Code-conversions", "", sprintf("%d conversions of instruction words in compiler, vm, dis and op (positive control), %d narrowing ones in package compiler", conv, n))
	c.Stat("code_conversions", conv)
}

// ---------------------------------------------------------------------------
// containerStorageNeverNil: the map / slice that holds a container's elements is
// replaced by a fresh one, never by nil, after construction: every writer
// (Set, SetDefault, Update, …) indexes it without a nil test, and a nil map
// panics on assignment and marshals as null.
func containerStorageNeverNil(c *core.Ctx) {
	p := c.P
	op := p.Pkg("object")
	objI := core.MustType(op, "Object")
	n := 0
	for _, fn := range repoFns(p, "object") {
		if fn.Signature.Recv() == nil {
			continue
		}
		rt := core.NamedOf(fn.Signature.Recv().Type())
		if rt == nil {
			continue
		}
		for _, b := range fn.Blocks {
			for _, in := range b.Instrs {
				st, ok := in.(*ssa.Store)
				if !ok {
					continue
				}
				fa, ok := st.Addr.(*ssa.FieldAddr)
				if !ok || core.NamedOf(fa.X.Type()) != rt {
					continue
				}
				f := fieldVar(fa)
				if f == nil {
					continue
				}
				holds := false
				switch u := f.Type().Underlying().(type) {
				case *types.Map:
					holds = core.NamedOf(u.Elem()) == objI
				}
				if !holds {
					continue
				}
				n++
				k, isK := st.Val.(*ssa.Const)
				c.Check(!(isK && k.IsNil()), core.SSAName(fn)+"|"+f.Name()+"|never-nil", p.Pos(st.Pos()),
					rt.Obj().Name()+"."+f.Name()+" is replaced by a fresh map, never by nil (the other writers assign into it without a nil test)")
			}
		}
	}
	c.Stat("element_map_stores", n)
}

// ---------------------------------------------------------------------------
// stickyFailureClearedBeforeCompiling: a failure that Compile reports from a
// field of the compiler (set deep inside the pass, reported afterwards) is
// cleared before the pass starts.  Clearing it only where it is reported lets a
// failure recorded by a rejected input (which returned early with another
// error) reject the next, valid input.
func stickyFailureClearedBeforeCompiling(c *core.Ctx) {
	p := c.P
	cp := p.Pkg("compiler")
	compT := core.MustType(cp, "Compiler")
	compileM := core.MustMethod(compT, "Compile")
	main := core.Method(compT, "compile")
	sf := p.SSAFunc(compileM)
	if sf == nil || main == nil {
		core.Undecidedf("Compiler.Compile / compile not found")
	}
	mainF := p.SSAFunc(main)
	st := compT.Underlying().(*types.Struct)
	// sticky fields: error-typed fields of Compiler that Compile returns
	sticky := map[int]bool{}
	for _, b := range sf.Blocks {
		for _, in := range b.Instrs {
			ret, ok := in.(*ssa.Return)
			if !ok {
				continue
			}
			for _, rv := range ret.Results {
				rv = spilledResult(b, rv)
				for _, o := range core.Origins(rv) {
					if u, ok := o.(*ssa.UnOp); ok {
						if fa, ok := u.X.(*ssa.FieldAddr); ok && core.NamedOf(fa.X.Type()) == compT && isErrorType(st.Field(fa.Field).Type()) {
							sticky[fa.Field] = true
						}
					}
				}
			}
		}
	}
	if len(sticky) == 0 {
		core.Undecidedf("Compile returns no failure kept in a field of the compiler")
	}
	var passCalls []ssa.Instruction
	for _, b := range sf.Blocks {
		for _, in := range b.Instrs {
			if ci, ok := in.(ssa.CallInstruction); ok && ci.Common().StaticCallee() == mainF {
				passCalls = append(passCalls, in)
			}
		}
	}
	if len(passCalls) == 0 {
		core.Undecidedf("Compile does not call the main pass")
	}
	var idxs []int
	for i := range sticky {
		idxs = append(idxs, i)
	}
	sort.Ints(idxs)
	for _, i := range idxs {
		cleared := false
		for _, b := range sf.Blocks {
			for _, in := range b.Instrs {
				s, ok := in.(*ssa.Store)
				if !ok {
					continue
				}
				fa, ok := s.Addr.(*ssa.FieldAddr)
				if !ok || fa.Field != i || core.NamedOf(fa.X.Type()) != compT {
					continue
				}
				if k, ok := s.Val.(*ssa.Const); ok && k.IsNil() {
					all := true
					for _, pc := range passCalls {
						if !instrDominates(in, pc) {
							all = false
						}
					}
					if all {
						cleared = true
					}
				}
			}
		}
		c.Check(cleared, "compiler.Compiler.Compile|"+st.Field(i).Name()+"|cleared-before-the-pass", p.Pos(sf.Pos()),
			"Compile clears Compiler."+st.Field(i).Name()+" before it starts compiling"+ifs(!cleared, ": a failure recorded while an earlier input was being rejected is reported for the next input"))
	}
	c.Stat("sticky_failure_fields", len(idxs))
}

// ---------------------------------------------------------------------------
// errorBranchesDoNotFallThrough: in the library wrappers, the branch taken when
// a Go call returned an error ends the wrapper (returns the error, possibly in a
// more specific form).  A branch that handles some kinds of error and falls
// through for the rest goes on with the partial result as if the call had
// succeeded.
func errorBranchesDoNotFallThrough(c *core.Ctx) {
	p := c.P
	n := 0
	var fns []*ssa.Function
	for _, fn := range repoFns(p) {
		if fn.Pkg == nil {
			continue
		}
		rel := core.RelPkg(fn.Pkg.Pkg)
		if rel == "builtins" || strings.HasPrefix(rel, "modules/") {
			fns = append(fns, fn)
		}
	}
	for _, fn := range fns {
		for _, b := range fn.Blocks {
			if len(b.Instrs) == 0 {
				continue
			}
			iff, ok := b.Instrs[len(b.Instrs)-1].(*ssa.If)
			if !ok {
				continue
			}
			bo, ok := iff.Cond.(*ssa.BinOp)
			if !ok || (bo.Op != token.NEQ && bo.Op != token.EQL) {
				continue
			}
			var ev ssa.Value
			if isNilValue(bo.Y) {
				ev = bo.X
			} else if isNilValue(bo.X) {
				ev = bo.Y
			}
			if ev == nil || !isErrorType(ev.Type()) {
				continue
			}
			// the error comes from a call of a function outside the repository (the Go library being wrapped)
			fromGo := false
			for _, o := range core.Origins(ev) {
				var call *ssa.Call
				switch x := o.(type) {
				case *ssa.Call:
					call = x
				case *ssa.Extract:
					call, _ = x.Tuple.(*ssa.Call)
				}
				if call != nil {
					if cal := call.Call.StaticCallee(); cal != nil && !core.RepoFunc(cal) {
						fromGo = true
					}
				}
			}
			if !fromGo {
				continue
			}
			errSide, okSide := b.Succs[0], b.Succs[1]
			if bo.Op == token.EQL {
				errSide, okSide = okSide, errSide
			}
			if errSide == okSide {
				continue
			}
			// only the switch-on-kind shape: the error branch inspects the error's type
			inspects := false
			seen := map[*ssa.BasicBlock]bool{}
			reachesOK := false
			var walk func(x *ssa.BasicBlock)
			walk = func(x *ssa.BasicBlock) {
				if seen[x] {
					return
				}
				seen[x] = true
				if x == okSide {
					reachesOK = true
					return
				}
				for _, in := range x.Instrs {
					if ta, ok := in.(*ssa.TypeAssert); ok && ta.X == ev {
						inspects = true
					}
				}
				for _, s := range x.Succs {
					walk(s)
				}
			}
			walk(errSide)
			if !inspects {
				continue
			}
			n++
			c.Check(!reachesOK, core.SSAName(fn)+"|error-kinds-all-end-the-call", p.Pos(iff.Pos()),
				fn.Name()+" ends on every kind of error of the Go call it wraps"+ifs(reachesOK, ": the branch that sorts the error by type falls through for the kinds it does not name, and the wrapper goes on with the partial result"))
		}
	}
	if n == 0 {
		c.Pass("wrappers|no-error-sorted-by-type", "", sprintf("no wrapper in builtins / modules sorts a Go error by its type (%d functions examined)", len(fns)))
	}
	c.Stat("errors_sorted_by_type", n)
}

// ---------------------------------------------------------------------------
// newlineRunsSkippedByLoops: wherever the parser steps over a line break that
// is not significant, it steps over the whole run of them (a blank or
// comment-only line is a second NEWLINE token).  A single conditional step, or
// a call of a stepping helper whose result is dropped, accepts one line break
// and rejects two.
func newlineRunsSkippedByLoops(c *core.Ctx) {
	p := c.P
	pp := p.Pkg("parser")
	info := pp.TypesInfo
	parserT := core.MustType(pp, "Parser")
	next := core.Method(parserT, "nextToken")
	if next == nil {
		core.Undecidedf("Parser.nextToken not found")
	}
	mentionsNewline := func(e ast.Node) bool {
		found := false
		ast.Inspect(e, func(k ast.Node) bool {
			if se, ok := k.(*ast.SelectorExpr); ok && se.Sel.Name == "NEWLINE" {
				if k2, ok := info.Uses[se.Sel].(*types.Const); ok && k2.Pkg() != nil && strings.HasSuffix(k2.Pkg().Path(), "/token") {
					found = true
				}
			}
			return true
		})
		return found
	}
	// methods that advance (call nextToken) — one level
	advances := map[*types.Func]bool{next: true}
	for _, m := range core.Methods(parserT) {
		fd := p.Decl(m)
		if fd == nil || fd.Body == nil {
			continue
		}
		ast.Inspect(fd.Body, func(k ast.Node) bool {
			if ce, ok := k.(*ast.CallExpr); ok && calleeOf(info, ce) == next && len(fd.Body.List) <= 4 {
				advances[m] = true
			}
			return true
		})
	}
	loops, singles := 0, 0
	funcBodies(pp, func(fn *types.Func, fd *ast.FuncDecl) {
		if strings.HasSuffix(p.Fset.Position(fd.Pos()).Filename, "_test.go") {
			return
		}
		walkStack(fd.Body, func(nd ast.Node, stack []ast.Node) bool {
			switch x := nd.(type) {
			case *ast.ForStmt:
				if x.Cond != nil && mentionsNewline(x.Cond) {
					loops++
				}
			case *ast.IfStmt:
				// positive test of NEWLINE whose body advances
				if !mentionsNewline(x.Cond) || positiveNewlineTest(x.Cond) == false {
					return true
				}
				adv := false
				ast.Inspect(x.Body, func(k ast.Node) bool {
					if ce, ok := k.(*ast.CallExpr); ok && advances[calleeOf(info, ce)] {
						adv = true
					}
					return true
				})
				if !adv {
					return true
				}
				// hand-over: the body ends by leaving the enclosing loop / function
				if len(x.Body.List) > 0 {
					switch last := x.Body.List[len(x.Body.List)-1].(type) {
					case *ast.BranchStmt:
						if last.Tok == token.BREAK {
							return true
						}
					}
				}
				// inside a loop that itself tests NEWLINE: part of the run-skipping loop
				for _, anc := range stack {
					if f, ok := anc.(*ast.ForStmt); ok && f.Cond != nil && mentionsNewline(f.Cond) {
						return true
					}
				}
				singles++
				c.Check(false, core.FuncName(fn)+"|single-newline-step", p.Pos(x.Pos()),
					fn.Name()+" steps over one line break where a run of them may follow (a blank or comment-only line is a second NEWLINE token): the same program with an extra empty line is rejected")
			case *ast.ExprStmt:
				ce, ok := x.X.(*ast.CallExpr)
				if !ok || !advances[calleeOf(info, ce)] || calleeOf(info, ce) == next {
					return true
				}
				for _, a := range ce.Args {
					if mentionsNewline(a) {
						singles++
						c.Check(false, core.FuncName(fn)+"|single-newline-step", p.Pos(x.Pos()),
							fn.Name()+" steps over one line break (the result of "+calleeOf(info, ce).Name()+" is dropped) where a run of them may follow")
					}
				}
			}
			return true
		})
	})
	c.Check(loops > 0, "control|newline-skipping-loops", "", sprintf("%d loops step over runs of NEWLINE tokens (positive control); %d single steps", loops, singles))
	c.Stat("newline_loops", loops)
}

// positiveNewlineTest: the condition is (a disjunction containing) a call with
// token.NEWLINE that is not negated.
func positiveNewlineTest(e ast.Expr) bool {
	switch x := ast.Unparen(e).(type) {
	case *ast.UnaryExpr:
		return false
	case *ast.BinaryExpr:
		if x.Op == token.LOR {
			return positiveNewlineTest(x.X) || positiveNewlineTest(x.Y)
		}
		if x.Op == token.LAND {
			return positiveNewlineTest(x.X) || positiveNewlineTest(x.Y)
		}
		return false
	case *ast.CallExpr:
		for _, a := range x.Args {
			if se, ok := ast.Unparen(a).(*ast.SelectorExpr); ok && se.Sel.Name == "NEWLINE" {
				return true
			}
		}
	}
	return false
}

// ---------------------------------------------------------------------------
// wrapperResultsNotReinterpreted: a wrapper that is implemented by its Go
// namesake hands the namesake's result to the script as it is (through an
// object constructor or a numeric conversion).  Passing it through another
// function of the repository first (byte offset → "character position")
// makes strings.index disagree with strings.Index.
func wrapperResultsNotReinterpreted(c *core.Ctx) {
	p := c.P
	ws := registeredWrappers(p)
	n := 0
	for _, w := range ws {
		var goP *types.Package
		for _, im := range w.pk.Types.Imports() {
			if im.Path() == w.goPkg {
				goP = im
			}
		}
		if goP == nil {
			continue
		}
		want := camel(w.name)
		target, _ := goP.Scope().Lookup(want).(*types.Func)
		if target == nil {
			continue
		}
		if _, ok := c19Exceptions[w.module+"."+w.name]; ok {
			continue
		}
		info := w.pk.TypesInfo
		var hit *ast.CallExpr
		for _, ce := range goCallsIn(p, w.fn, w.goPkg, 0) {
			if calleeOf(info, ce) == target {
				hit = ce
			}
		}
		if hit == nil {
			continue
		}
		n++
		bad := ""
		for _, f := range w.pk.Syntax {
			if hit.Pos() < f.Pos() || hit.Pos() > f.End() {
				continue
			}
			walkStack(f, func(nd ast.Node, stack []ast.Node) bool {
				if nd != ast.Node(hit) {
					return true
				}
				for i := len(stack) - 1; i >= 0; i-- {
					ce, ok := stack[i].(*ast.CallExpr)
					if !ok {
						if _, isStmt := stack[i].(ast.Stmt); isStmt {
							break
						}
						continue
					}
					cal := calleeOf(info, ce)
					if cal == nil || cal.Pkg() == nil || !core.InRepo(cal.Pkg()) {
						continue
					}
					if core.RelPkg(cal.Pkg()) == "object" {
						continue
					}
					bad = cal.Name() + " at " + p.Pos(ce.Pos())
				}
				return false
			})
		}
		c.Check(bad == "", w.module+"."+w.name+"|result-of:"+w.goPkg+"."+want+"|not-reinterpreted", p.Pos(hit.Pos()),
			"builtin "+w.name+" of module "+w.module+" returns the result of "+w.goPkg+"."+want+" as it is"+ifs(bad != "", ": it is passed through "+bad+" first, so the script sees something other than what Go returns"))
	}
	c.Stat("wrappers_with_namesake", n)
}

// ---------------------------------------------------------------------------
// functionIDsFromTheCounter: the serialised form links functions and their
// code by id, so ids are unique within one main code for the whole life of a
// compiler (a REPL compiles many inputs into one code).  The id of a new
// function is derived from a counter of the compiler that is advanced for
// every function, not from anything that can repeat (a source position repeats
// in the next input).
func functionIDsFromTheCounter(c *core.Ctx) {
	p := c.P
	cp := p.Pkg("compiler")
	compT := core.MustType(cp, "Compiler")
	// counters: int fields of Compiler that some method increments
	counters := map[int]bool{}
	for _, fn := range repoFns(p, "compiler") {
		for _, b := range fn.Blocks {
			for _, in := range b.Instrs {
				st, ok := in.(*ssa.Store)
				if !ok {
					continue
				}
				fa, ok := st.Addr.(*ssa.FieldAddr)
				if !ok || core.NamedOf(fa.X.Type()) != compT {
					continue
				}
				if bo, ok := st.Val.(*ssa.BinOp); ok && bo.Op == token.ADD {
					if _, ok := loadOfField(bo.X, compT, fa.Field); ok {
						counters[fa.Field] = true
					}
				}
			}
		}
	}
	n := 0
	for _, fn := range repoFns(p, "compiler") {
		for _, b := range fn.Blocks {
			for _, in := range b.Instrs {
				call, ok := in.(*ssa.Call)
				if !ok {
					continue
				}
				cal := call.Call.StaticCallee()
				if cal == nil || cal.Name() != "newChild" || len(call.Call.Args) < 4 {
					continue
				}
				// the id: the last string argument
				id := call.Call.Args[len(call.Call.Args)-1]
				if !core.IsStringType(id.Type()) {
					continue
				}
				n++
				fromCounter := core.DependsOn(id, func(w ssa.Value) bool {
					u, ok := w.(*ssa.UnOp)
					if !ok {
						return false
					}
					fa, ok := u.X.(*ssa.FieldAddr)
					return ok && core.NamedOf(fa.X.Type()) == compT && counters[fa.Field]
				})
				c.Check(fromCounter, core.SSAName(fn)+"|function-id-from-counter", p.Pos(call.Pos()),
					fn.Name()+" derives the id of a new function's code from a counter of the compiler"+ifs(!fromCounter, ": an id that can repeat between two inputs of one compiler makes the loader link two functions to one code object"))
			}
		}
	}
	if n == 0 {
		core.Undecidedf("no call of Code.newChild with an id found")
	}
	c.Stat("function_id_sites", n)
}

// ---------------------------------------------------------------------------
// timesComparedAsInstants: == on time.Time compares the wall clock encoding,
// the monotonic reading and the location pointer.  Two values for the same
// instant in different zones are "unequal", and a Compare that tests == first
// and After second then answers -1 in both directions (a < b and b < a).  The
// interpreter compares times with Equal / Before / After.
func timesComparedAsInstants(c *core.Ctx) {
	p := c.P
	n, methods := 0, 0
	for _, fn := range repoFns(p) {
		if fn.Pkg == nil || !interpreterPkg(core.RelPkg(fn.Pkg.Pkg)) {
			continue
		}
		for _, b := range fn.Blocks {
			for _, in := range b.Instrs {
				if call, ok := in.(*ssa.Call); ok {
					if cal := call.Call.StaticCallee(); cal != nil && cal.Pkg != nil && cal.Pkg.Pkg.Path() == "time" && (cal.Name() == "Equal" || cal.Name() == "Before" || cal.Name() == "After") {
						methods++
					}
				}
				bo, ok := in.(*ssa.BinOp)
				if !ok || (bo.Op != token.EQL && bo.Op != token.NEQ) || !core.IsNamed(bo.X.Type(), "time", "Time") {
					continue
				}
				n++
				c.Check(false, core.SSAName(fn)+"|time-compared-with-==", p.Pos(bo.Pos()),
					fn.Name()+" compares two time.Time values with "+bo.Op.String()+": the same instant in two locations is unequal (use Equal)")
			}
		}
	}
	c.Check(methods > 0, "control|time-comparisons", "", sprintf("%d comparisons of times through Equal/Before/After (positive control), %d through ==", methods, n))
	c.Stat("time_struct_comparisons", n)
}

// ---------------------------------------------------------------------------
// storesToResolvedNamesCheckConstness: a compile function that resolves an
// existing name (SymbolTable.Resolve) and emits a store to it tests
// Symbol.IsConstant first, on the path to the store.  Assignment does; postfix
// (k++) and the plain form of multi-assignment (a, b = …) must too, or a
// `const` can be changed.
func storesToResolvedNamesCheckConstness(c *core.Ctx) {
	p := c.P
	cp := p.Pkg("compiler")
	stT := core.MustType(cp, "SymbolTable")
	symT := core.MustType(cp, "Symbol")
	resolve := core.Method(stT, "Resolve")
	isConst := core.Method(symT, "IsConstant")
	if resolve == nil || isConst == nil {
		core.Undecidedf("SymbolTable.Resolve / Symbol.IsConstant not found")
	}
	resolveF, isConstF := p.SSAFunc(resolve), p.SSAFunc(isConst)
	opc := VMTable(p).OpConsts
	storeOps := map[int64]string{}
	for _, name := range []string{"StoreGlobal", "StoreFast", "StoreFree"} {
		if k := opc[name]; k != nil {
			if v, ok := constantInt64(k.Val()); ok {
				storeOps[v] = name
			}
		}
	}
	if len(storeOps) == 0 {
		core.Undecidedf("store opcodes not found")
	}
	n := 0
	// store helpers: functions of the compiler that emit a store instruction for
	// a resolution they are handed (the scope switch, moved into a function of
	// its own); a call of one is a store to the name that the caller resolved
	isStoreEmit := func(call *ssa.Call) (string, bool) {
		cal := call.Call.StaticCallee()
		if cal != nil && cal.Name() == "emit" && len(call.Call.Args) >= 2 {
			if k, ok := call.Call.Args[1].(*ssa.Const); ok && k.Value != nil {
				if v, ok := constantInt64(k.Value); ok && storeOps[v] != "" {
					return storeOps[v], true
				}
			}
		}
		return "", false
	}
	storeHelpers := map[*ssa.Function]bool{}
	for _, fn := range repoFns(p, "compiler") {
		hasResolve, hasStore, takesResolution := false, false, false
		for _, prm := range fn.Params {
			if nt := core.NamedOf(prm.Type()); nt != nil && (nt.Obj().Name() == "Resolution" || nt == symT) {
				takesResolution = true
			}
		}
		for _, b := range fn.Blocks {
			for _, in := range b.Instrs {
				if call, ok := in.(*ssa.Call); ok {
					if call.Call.StaticCallee() == resolveF {
						hasResolve = true
					}
					if _, is := isStoreEmit(call); is {
						hasStore = true
					}
				}
			}
		}
		if hasStore && takesResolution && !hasResolve {
			storeHelpers[fn] = true
		}
	}
	for _, fn := range repoFns(p, "compiler") {
		var resolves, stores, tests []ssa.Instruction
		for _, b := range fn.Blocks {
			for _, in := range b.Instrs {
				call, ok := in.(*ssa.Call)
				if !ok {
					continue
				}
				cal := call.Call.StaticCallee()
				switch {
				case cal == resolveF:
					resolves = append(resolves, in)
				case cal == isConstF:
					tests = append(tests, in)
				case cal != nil && storeHelpers[cal]:
					stores = append(stores, in)
				case cal != nil && cal.Name() == "emit" && len(call.Call.Args) >= 2:
					if _, is := isStoreEmit(call); is {
						stores = append(stores, in)
					}
				}
			}
		}
		if len(resolves) == 0 || len(stores) == 0 {
			continue
		}
		perOp := map[string]int{}
		for _, st := range stores {
			// only stores that follow a Resolve (not the store of a fresh declaration in another branch)
			after := false
			for _, r := range resolves {
				if instrDominates(r, st) {
					after = true
				}
			}
			if !after {
				continue
			}
			n++
			checked := false
			for _, t := range tests {
				call := t.(*ssa.Call)
				if call.Referrers() == nil {
					continue
				}
				for _, r := range *call.Referrers() {
					iff, ok := r.(*ssa.If)
					if !ok {
						continue
					}
					notConst := iff.Block().Succs[1]
					if notConst == st.Block() || notConst.Dominates(st.Block()) {
						checked = true
					}
				}
			}
			opName, direct := isStoreEmit(st.(*ssa.Call))
			if !direct {
				opName = "Store(" + st.(*ssa.Call).Call.StaticCallee().Name() + ")"
			}
			perOp[opName]++
			c.Check(checked, core.SSAName(fn)+"|store-after-constness-test|"+opName+ifs(perOp[opName] > 1, "#"+itoa(perOp[opName])), p.Pos(st.Pos()),
				fn.Name()+" stores to a resolved name only after testing that it is not a constant"+ifs(!checked, ": a `const` can be changed through this statement form"))
		}
	}
	c.Stat("stores_to_resolved_names", n)
}

// ---------------------------------------------------------------------------
// finishedContextIsRefused: the arming function tests ctx.Err() and returns it
// before it marks the VM as running.  Without the test a context that is over
// already only stops the program if the watcher goroutine wins a race against
// the dispatch loop: a short program runs to completion and returns success.
func finishedContextIsRefused(c *core.Ctx) {
	p := c.P
	r := resolveVMRoles(p)
	arm := p.SSAFunc(r.arm)
	if arm == nil {
		core.Undecidedf("arming function not resolved")
	}
	var ctxP *ssa.Parameter
	for _, prm := range arm.Params {
		if isContext(prm.Type()) {
			ctxP = prm
		}
	}
	if ctxP == nil {
		core.Undecidedf("%s takes no context", arm.Name())
	}
	var firstMark ssa.Instruction
	for _, b := range arm.Blocks {
		for _, in := range b.Instrs {
			if s, ok := in.(*ssa.Store); ok && firstMark == nil {
				if fa, ok := s.Addr.(*ssa.FieldAddr); ok && core.NamedOf(fa.X.Type()) == r.vmT {
					if k, ok := s.Val.(*ssa.Const); ok && k.Value != nil && k.Value.String() == "true" {
						firstMark = in
					}
				}
			}
		}
	}
	refused := false
	for _, b := range arm.Blocks {
		for _, in := range b.Instrs {
			call, ok := in.(*ssa.Call)
			if !ok || !call.Call.IsInvoke() || call.Call.Method.Name() != "Err" || call.Call.Value != ssa.Value(ctxP) || call.Referrers() == nil {
				continue
			}
			for _, ref := range *call.Referrers() {
				bo, ok := ref.(*ssa.BinOp)
				if !ok || bo.Op != token.NEQ || bo.Referrers() == nil {
					continue
				}
				for _, r2 := range *bo.Referrers() {
					iff, ok := r2.(*ssa.If)
					if !ok {
						continue
					}
					// the error branch returns the error ...
					returns := false
					for _, i2 := range iff.Block().Succs[0].Instrs {
						if ret, ok := i2.(*ssa.Return); ok && len(ret.Results) > 0 {
							returns = true
						}
					}
					// ... and the test comes before the mark
					if returns && (firstMark == nil || instrDominates(in, firstMark)) {
						refused = true
					}
				}
			}
		}
	}
	c.Check(refused, "vm.VirtualMachine."+arm.Name()+"|finished-context-refused-before-running", p.Pos(arm.Pos()),
		arm.Name()+" returns ctx.Err() for a context that is over already, before it marks the VM as running"+ifs(!refused, ": otherwise stopping depends on the watcher goroutine winning a race, and a short program under a cancelled context returns success"))
}

// ---------------------------------------------------------------------------
// rejectedOptionsAreRolledBack: the VM method that applies a list of options
// (at construction and before every RunCode) can fail after the options ran -
// when the globals they supplied cannot be converted.  On that error path it
// puts the input-globals table back as it was: otherwise the rejected value
// stays in the table and every later invocation on the VM fails on it.
func rejectedOptionsAreRolledBack(c *core.Ctx) {
	p := c.P
	vmp := p.Pkg("vm")
	vmT := core.MustType(vmp, "VirtualMachine")
	igI := fieldIdxByName(vmT, "inputGlobals")
	if igI < 0 {
		core.Undecidedf("VirtualMachine.inputGlobals not found")
	}
	n := 0
	for _, fn := range repoFns(p, "vm") {
		if fn.Signature.Recv() == nil || core.NamedOf(fn.Signature.Recv().Type()) != vmT {
			continue
		}
		// applies options: a dynamic call of a func(*VirtualMachine) value with the receiver
		var optCalls []ssa.Instruction
		for _, b := range fn.Blocks {
			for _, in := range b.Instrs {
				call, ok := in.(*ssa.Call)
				if !ok || call.Call.IsInvoke() || call.Call.StaticCallee() != nil || len(call.Call.Args) != 1 {
					continue
				}
				if call.Call.Args[0] == ssa.Value(fn.Params[0]) {
					optCalls = append(optCalls, in)
				}
			}
		}
		if len(optCalls) == 0 {
			continue
		}
		reach := map[*ssa.BasicBlock]bool{}
		var walk func(b *ssa.BasicBlock)
		walk = func(b *ssa.BasicBlock) {
			for _, s := range b.Succs {
				if !reach[s] {
					reach[s] = true
					walk(s)
				}
			}
		}
		for _, oc := range optCalls {
			walk(oc.Block())
		}
		for _, b := range fn.Blocks {
			if !reach[b] {
				continue
			}
			for _, in := range b.Instrs {
				ret, ok := in.(*ssa.Return)
				if !ok || len(ret.Results) == 0 {
					continue
				}
				last := spilledResult(b, ret.Results[len(ret.Results)-1])
				if k, ok := last.(*ssa.Const); ok && k.IsNil() {
					continue
				}
				n++
				restored := false
				for _, b2 := range fn.Blocks {
					if !reach[b2] || (b2 != b && !b2.Dominates(b)) {
						continue
					}
					for _, i2 := range b2.Instrs {
						if st, ok := i2.(*ssa.Store); ok {
							if fa, ok := st.Addr.(*ssa.FieldAddr); ok && fa.Field == igI && core.NamedOf(fa.X.Type()) == vmT {
								restored = true
							}
						}
					}
				}
				c.Check(restored, core.SSAName(fn)+"|rejected-options-rolled-back", p.Pos(ret.Pos()),
					fn.Name()+" puts the input globals back when it fails after the options have run"+ifs(!restored, ": the rejected value stays in the table and every later invocation on this VM fails on it"))
			}
		}
	}
	c.Stat("option_appliers_error_returns", n)
}

// ---------------------------------------------------------------------------
// iterationStateIsPerConsumer: Iter() of a value hands out a new iterator object;
// it never returns the value itself.  A channel that is its own iterator keeps
// "the value received last" on the channel: two threads ranging over it
// overwrite each other's entry between Next and Entry, and values are lost and
// delivered twice.
func iterationStateIsPerConsumer(c *core.Ctx) {
	p := c.P
	n := 0
	for _, fn := range repoFns(p, "object") {
		if fn.Name() != "Iter" || fn.Signature.Recv() == nil || fn.Synthetic != "" || len(fn.Params) == 0 {
			continue
		}
		rt := core.NamedOf(fn.Signature.Recv().Type())
		if rt == nil {
			continue
		}
		if strings.HasSuffix(strings.ToLower(rt.Obj().Name()), "iter") {
			// an iterator is the per-consumer state - of a container that one
			// thread walks.  An iterator that takes its values from a channel
			// is handed to several threads on purpose (it := range jobs), and
			// each loop over it needs its own "value received last"
			receives := false
			if nm := core.Method(rt, "Next"); nm != nil {
				if nf := p.SSAFunc(nm); nf != nil {
					for _, b := range nf.Blocks {
						for _, in := range b.Instrs {
							switch x := in.(type) {
							case *ssa.Select:
								for _, st := range x.States {
									if st.Dir == types.RecvOnly {
										receives = true
									}
								}
							case *ssa.UnOp:
								if x.Op == token.ARROW {
									receives = true
								}
							}
						}
					}
				}
			}
			if !receives {
				continue
			}
		}
		n++
		self := false
		for _, b := range fn.Blocks {
			for _, in := range b.Instrs {
				ret, ok := in.(*ssa.Return)
				if !ok || len(ret.Results) != 1 {
					continue
				}
				for _, o := range core.Origins(ret.Results[0]) {
					if mi, ok := o.(*ssa.MakeInterface); ok {
						o = mi.X
					}
					if o == ssa.Value(fn.Params[0]) {
						self = true
					}
				}
			}
		}
		c.Check(!self, "object."+rt.Obj().Name()+".Iter|returns-a-new-iterator", p.Pos(fn.Pos()),
			rt.Obj().Name()+".Iter() returns a new iterator object"+ifs(self, ": it returns the "+rt.Obj().Name()+" itself, so the state of an iteration (the entry received last) is shared by every loop over it, in every thread"))
	}
	c.Stat("iter_methods", n)
}

// ---------------------------------------------------------------------------
// messagesAreNotFormats: a printf-style function of the repository
// (…Errorf(format, args...), setTokenError(tok, format, args...)) is not given a
// computed string - an error's text, a message built elsewhere - as its format
// with no arguments.  Every '%' in that text is then read as a verb ("50% done"
// becomes "50%!d(MISSING)one"), and an error re-rendered this way also loses its
// identity (errors.Is(err, context.DeadlineExceeded) is false afterwards).
func messagesAreNotFormats(c *core.Ctx) {
	p := c.P
	n, sites := 0, 0
	for _, fn := range repoFns(p) {
		if fn.Pkg == nil || p.ByRel[strings.TrimPrefix(core.RelPkg(fn.Pkg.Pkg), "./")] == nil && core.RelPkg(fn.Pkg.Pkg) != "." {
			continue
		}
		for _, b := range fn.Blocks {
			for _, in := range b.Instrs {
				ci, ok := in.(ssa.CallInstruction)
				if !ok {
					continue
				}
				cal := ci.Common().StaticCallee()
				if cal == nil || !core.RepoFunc(cal) {
					continue
				}
				sg := cal.Signature
				if !sg.Variadic() || sg.Params().Len() < 2 {
					continue
				}
				np := sg.Params().Len()
				last, ok := sg.Params().At(np - 1).Type().(*types.Slice)
				if !ok {
					continue
				}
				if _, isIface := last.Elem().Underlying().(*types.Interface); !isIface || !core.IsStringType(sg.Params().At(np-2).Type()) {
					continue
				}
				if !printfLike(cal, 0) {
					continue
				}
				args := ci.Common().Args
				if sg.Recv() != nil {
					// receiver is the first argument
				}
				if len(args) < 2 {
					continue
				}
				format, rest := args[len(args)-2], args[len(args)-1]
				sites++
				if _, isConst := format.(*ssa.Const); isConst {
					continue
				}
				// arguments given: the format may still be computed, but '%' in the arguments is safe; judge only the no-argument form
				if k, ok := rest.(*ssa.Const); !ok || !k.IsNil() {
					continue
				}
				// a format forwarded from the caller's own printf-style parameters is the caller's business
				if prm, ok := format.(*ssa.Parameter); ok && fn.Signature.Variadic() && prm.Parent() == fn {
					continue
				}
				n++
				c.Check(false, core.SSAName(fn)+"|message-used-as-format|"+cal.Name(), p.Pos(in.Pos()),
					fn.Name()+" passes a computed string to "+cal.Name()+" as the format, with no arguments: a '%' in it is read as a verb, and an error re-rendered through its text loses its identity (wrap it with NewError, or use \"%s\")")
			}
		}
	}
	c.Check(sites > 0, "control|printf-style-calls", "", sprintf("%d calls of printf-style functions of the repository examined (positive control), %d with a computed format and no arguments", sites, n))
	c.Stat("printf_style_calls", sites)
}

// printfLike: f hands its (string, ...interface{}) tail to fmt's formatting
// functions or to another such function of the repository.
func printfLike(f *ssa.Function, depth int) bool {
	if f == nil || f.Blocks == nil || depth > 2 {
		return false
	}
	np := len(f.Params)
	if np < 2 {
		return false
	}
	format := f.Params[np-2]
	for _, b := range f.Blocks {
		for _, in := range b.Instrs {
			ci, ok := in.(ssa.CallInstruction)
			if !ok {
				continue
			}
			uses := false
			for _, a := range ci.Common().Args {
				if a == ssa.Value(format) {
					uses = true
				}
			}
			if !uses {
				continue
			}
			cal := ci.Common().StaticCallee()
			if cal == nil {
				continue
			}
			if cal.Pkg != nil && cal.Pkg.Pkg.Path() == "fmt" && strings.HasSuffix(cal.Name(), "f") {
				return true
			}
			if core.RepoFunc(cal) && cal != f && printfLike(cal, depth+1) {
				return true
			}
		}
	}
	return false
}
