package rules

import (
	"go/ast"
	"go/token"
	"go/types"
	"sort"
	"strings"

	"risorcheck/core"
)

// ---------------------------------------------------------------------------
// lineEndingsTreatedAlike: the clauses of the lexer's character dispatch that
// produce a NEWLINE token ("\n", "\r", "\r\n") consult the same lexer state.
// A decision taken for one spelling of a line break only (skip it after a
// ".", say) makes the same program parse differently with CRLF line endings.
func lineEndingsTreatedAlike(c *core.Ctx) {
	p := c.P
	r := resolveLexer(p)
	lp := p.Pkg("lexer")
	info := lp.TypesInfo
	var sw *ast.SwitchStmt
	for _, s := range r.nextDecl.Body.List {
		if x, ok := s.(*ast.SwitchStmt); ok && len(x.Body.List) >= 15 {
			sw = x
		}
	}
	if sw == nil {
		core.Undecidedf("character dispatch is not a top-level statement of Next")
	}
	lexT := core.MustType(lp, "Lexer")
	type clause struct {
		label  string
		fields map[string]bool
		exits  int
		pos    token.Pos
	}
	var cls []clause
	for _, s := range sw.Body.List {
		cc := s.(*ast.CaseClause)
		makesNewline := false
		for _, st := range cc.Body {
			ast.Inspect(st, func(n ast.Node) bool {
				if se, ok := n.(*ast.SelectorExpr); ok && se.Sel.Name == "NEWLINE" {
					if k, ok := info.Uses[se.Sel].(*types.Const); ok && k.Pkg() != nil && strings.HasSuffix(k.Pkg().Path(), "/token") {
						makesNewline = true
					}
				}
				return true
			})
		}
		if !makesNewline {
			continue
		}
		cl := clause{fields: map[string]bool{}, pos: cc.Pos()}
		for _, e := range cc.List {
			cl.label += exprStr(e)
		}
		for _, st := range cc.Body {
			ast.Inspect(st, func(n ast.Node) bool {
				switch x := n.(type) {
				case *ast.SelectorExpr:
					if f := fieldOf(info, x); f != nil && core.RecvNamedOfField(lexT, f) && f.Name() != "ch" {
						cl.fields[f.Name()] = true
					}
				case *ast.ReturnStmt:
					cl.exits++
				}
				return true
			})
		}
		cls = append(cls, cl)
	}
	if len(cls) < 2 {
		core.Undecidedf("fewer than two clauses of the character dispatch produce a NEWLINE token")
	}
	set := func(m map[string]bool) string {
		var ks []string
		for k := range m {
			ks = append(ks, k)
		}
		sort.Strings(ks)
		return "{" + strings.Join(ks, ", ") + "}"
	}
	for _, cl := range cls[1:] {
		same := set(cl.fields) == set(cls[0].fields) && cl.exits == cls[0].exits
		c.Check(same, "lexer.Lexer.Next|line-endings-alike|"+cls[0].label+"~"+cl.label, p.Pos(cl.pos),
			"the clauses for "+cls[0].label+" and "+cl.label+" consult the same lexer state "+set(cls[0].fields)+ifs(!same, ": "+cl.label+" consults "+set(cl.fields)+sprintf(" (early exits %d vs %d)", cl.exits, cls[0].exits)+"; a program with the other line ending is lexed differently"))
	}
	c.Stat("newline_clauses", len(cls))
}

// ---------------------------------------------------------------------------
// removalInsideForwardLoop: x = append(x[:i], x[i+1:]...) inside a loop that
// goes on to i+1 skips the element that has just moved into position i (and
// keeps deleting when only the first match was meant).  After an in-place
// removal the loop ends (break / return) or steps the index back.
func removalInsideForwardLoop(c *core.Ctx) {
	p := c.P
	n, plain := 0, 0
	for _, rel := range []string{"object", "builtins", "vm", "compiler"} {
		pk := p.Pkg(rel)
		info := pk.TypesInfo
		funcBodies(pk, func(fn *types.Func, fd *ast.FuncDecl) {
			if strings.HasSuffix(p.Fset.Position(fd.Pos()).Filename, "_test.go") {
				return
			}
			walkStack(fd.Body, func(nd ast.Node, stack []ast.Node) bool {
				as, ok := nd.(*ast.AssignStmt)
				if !ok || len(as.Lhs) != 1 || len(as.Rhs) != 1 {
					return true
				}
				idx := removalIndex(info, as)
				if idx == nil {
					return true
				}
				plain++
				// the innermost enclosing loop whose induction variable is idx
				var loop ast.Node
				for i := len(stack) - 1; i >= 0 && loop == nil; i-- {
					switch l := stack[i].(type) {
					case *ast.ForStmt:
						if inc, ok := l.Post.(*ast.IncDecStmt); ok && inc.Tok == token.INC && sameObj(info, inc.X, idx) {
							loop = l
						}
					case *ast.RangeStmt:
						if l.Key != nil && sameObj(info, l.Key, idx) {
							loop = l
						}
					case *ast.FuncLit:
						i = -1
					}
				}
				if loop == nil {
					return true
				}
				n++
				// the statements that follow the removal in its block
				ends := false
				for i := len(stack) - 1; i >= 0; i-- {
					if blk, ok := stack[i].(*ast.BlockStmt); ok {
						after := false
						for _, s := range blk.List {
							if s == ast.Stmt(as) {
								after = true
								continue
							}
							if !after {
								continue
							}
							switch x := s.(type) {
							case *ast.BranchStmt:
								if x.Tok == token.BREAK {
									ends = true
								}
							case *ast.ReturnStmt:
								ends = true
							case *ast.IncDecStmt:
								if x.Tok == token.DEC && sameObj(info, x.X, idx) {
									ends = true
								}
							}
						}
						break
					}
				}
				c.Check(ends, core.FuncName(fn)+"|removal-ends-or-steps-back", p.Pos(as.Pos()),
					"after removing element "+exprStr(idx)+" in place the loop over the same index ends or steps back"+ifs(!ends, ": it goes on to "+exprStr(idx)+"+1, skipping the element that moved into the gap and removing every later match"))
				return true
			})
		})
	}
	// the finder is alive: in-place removals exist in the tree
	c.Check(plain > 0, "control|in-place-removal-finder", "", sprintf("the finder sees %d in-place removals x = append(x[:i], x[i+1:]...) in the interpreter packages (positive control); %d of them inside a loop over i", plain, n))
	c.Stat("in_place_removals", plain)
}

// removalIndex: as is  x = append(x[:i], x[i+1:]...)  → i
func removalIndex(info *types.Info, as *ast.AssignStmt) ast.Expr {
	ce, ok := ast.Unparen(as.Rhs[0]).(*ast.CallExpr)
	if !ok || !isBuiltinCall(info, ce, "append") || len(ce.Args) != 2 || !ce.Ellipsis.IsValid() {
		return nil
	}
	a, ok1 := ast.Unparen(ce.Args[0]).(*ast.SliceExpr)
	b, ok2 := ast.Unparen(ce.Args[1]).(*ast.SliceExpr)
	if !ok1 || !ok2 || a.Low != nil || a.High == nil || b.High != nil || b.Low == nil {
		return nil
	}
	if exprStr(a.X) != exprStr(b.X) || exprStr(a.X) != exprStr(as.Lhs[0]) {
		return nil
	}
	be, ok := ast.Unparen(b.Low).(*ast.BinaryExpr)
	if !ok || be.Op != token.ADD || exprStr(be.X) != exprStr(a.High) {
		return nil
	}
	if v, ok := constInt(info, be.Y); !ok || v != 1 {
		return nil
	}
	return a.High
}

func sameObj(info *types.Info, a, b ast.Expr) bool {
	ia, ok1 := ast.Unparen(a).(*ast.Ident)
	ib, ok2 := ast.Unparen(b).(*ast.Ident)
	if !ok1 || !ok2 {
		return false
	}
	oa, ob := objOfIdent(info, ia), objOfIdent(info, ib)
	return oa != nil && oa == ob
}

// ---------------------------------------------------------------------------
// prePassVisitsEveryStatement: the pass that Compile runs before the main
// pass (it declares top-level functions and rejects redefinitions) walks every
// statement of a program or block: a clause that loops over Statements() has no
// return outside that loop.  Skipping the walk for "small" inputs skips the
// redefinition check for exactly the inputs an incremental session feeds.
func prePassVisitsEveryStatement(c *core.Ctx) {
	p := c.P
	cp := p.Pkg("compiler")
	info := cp.TypesInfo
	compT := core.MustType(cp, "Compiler")
	compileM := core.MustMethod(compT, "Compile")
	main := core.Method(compT, "compile")
	cd := p.Decl(compileM)
	if cd == nil || main == nil {
		core.Undecidedf("Compiler.Compile / Compiler.compile not found")
	}
	var pre []*types.Func
	seen := map[*types.Func]bool{}
	ast.Inspect(cd.Body, func(n ast.Node) bool {
		ce, ok := n.(*ast.CallExpr)
		if !ok {
			return true
		}
		f := calleeOf(info, ce)
		if f == nil || f == main || seen[f] || f.Pkg() != cp.Types {
			return true
		}
		sg := f.Type().(*types.Signature)
		if sg.Recv() == nil || core.NamedOf(sg.Recv().Type()) != compT || sg.Params().Len() != 1 || sg.Results().Len() != 1 || !isErrorType(sg.Results().At(0).Type()) {
			return true
		}
		if !strings.HasSuffix(sg.Params().At(0).Type().String(), "ast.Node") {
			return true
		}
		seen[f] = true
		pre = append(pre, f)
		return true
	})
	if len(pre) == 0 {
		core.Undecidedf("Compile runs no pass over the node before the main pass")
	}
	n := 0
	for _, f := range pre {
		fd := p.Decl(f)
		if fd == nil {
			continue
		}
		ast.Inspect(fd.Body, func(nd ast.Node) bool {
			cc, ok := nd.(*ast.CaseClause)
			if !ok {
				return true
			}
			var loops []*ast.RangeStmt
			assigns := map[types.Object][]ast.Expr{}
			for _, s := range cc.Body {
				for o, rs := range localAssignments(info, s) {
					assigns[o] = append(assigns[o], rs...)
				}
			}
			for _, s := range cc.Body {
				ast.Inspect(s, func(k ast.Node) bool {
					if rs, ok := k.(*ast.RangeStmt); ok {
						srcs := []ast.Expr{rs.X}
						if id, ok := ast.Unparen(rs.X).(*ast.Ident); ok {
							srcs = append(srcs, assigns[objOfIdent(info, id)]...)
						}
						for _, src := range srcs {
							if ce, ok := ast.Unparen(src).(*ast.CallExpr); ok {
								if cal := calleeOf(info, ce); cal != nil && cal.Name() == "Statements" {
									loops = append(loops, rs)
									break
								}
							}
						}
					}
					return true
				})
			}
			if len(loops) == 0 {
				return true
			}
			n++
			bad := ""
			for _, s := range cc.Body {
				ast.Inspect(s, func(k ast.Node) bool {
					if rs, ok := k.(*ast.RangeStmt); ok {
						for _, l := range loops {
							if l == rs {
								return false
							}
						}
					}
					if _, ok := k.(*ast.FuncLit); ok {
						return false
					}
					if ret, ok := k.(*ast.ReturnStmt); ok && bad == "" {
						bad = p.Pos(ret.Pos())
					}
					return true
				})
			}
			label := ""
			for _, e := range cc.List {
				label += exprStr(e)
			}
			c.Check(bad == "", core.FuncName(f)+"|visits-every-statement|"+label, p.Pos(cc.Pos()),
				f.Name()+" walks every statement of a "+label+ifs(bad != "", ": the return at "+bad+" leaves the clause without walking them (names declared by the skipped statements are never checked against existing ones)"))
			return true
		})
	}
	c.Stat("prepass_clauses", n)
}

// ---------------------------------------------------------------------------
// operandsAreNotOpcodes: an instruction array interleaves opcodes and their
// operands.  A loop that visits every element and compares it with an opcode
// constant mistakes operands for opcodes (an operand 24 "is" LOAD_CONST): code
// that classifies instructions steps by the operand count (op.GetInfo) or
// uses the instruction iterator.
func operandsAreNotOpcodes(c *core.Ctx) {
	p := c.P
	opPkg := p.Pkg("op")
	codeT := core.MustType(opPkg, "Code")
	isCodeSlice := func(t types.Type) bool {
		s, ok := t.Underlying().(*types.Slice)
		return ok && core.NamedOf(s.Elem()) == codeT
	}
	n, walkers := 0, 0
	for _, rel := range []string{"compiler", "vm", "dis", ""} {
		if !p.HasPkg(rel) && rel != "" {
			continue
		}
		pk := p.Pkg(rel)
		info := pk.TypesInfo
		funcBodies(pk, func(fn *types.Func, fd *ast.FuncDecl) {
			if strings.HasSuffix(p.Fset.Position(fd.Pos()).Filename, "_test.go") {
				return
			}
			usesInfo := false
			ast.Inspect(fd.Body, func(nd ast.Node) bool {
				if ce, ok := nd.(*ast.CallExpr); ok {
					if cal := calleeOf(info, ce); cal != nil && cal.Pkg() == opPkg.Types && cal.Name() == "GetInfo" {
						usesInfo = true
					}
				}
				return true
			})
			if usesInfo {
				walkers++
			}
			ast.Inspect(fd.Body, func(nd ast.Node) bool {
				rs, ok := nd.(*ast.RangeStmt)
				if !ok || info.TypeOf(rs.X) == nil || !isCodeSlice(info.TypeOf(rs.X)) {
					return true
				}
				var valObj types.Object
				if id, ok := rs.Value.(*ast.Ident); ok {
					valObj = objOfIdent(info, id)
				}
				var keyObj types.Object
				if id, ok := rs.Key.(*ast.Ident); ok {
					keyObj = objOfIdent(info, id)
				}
				classifies := token.NoPos
				ast.Inspect(rs.Body, func(k ast.Node) bool {
					be, ok := k.(*ast.BinaryExpr)
					if !ok || (be.Op != token.EQL && be.Op != token.NEQ) {
						return true
					}
					for _, pair := range [][2]ast.Expr{{be.X, be.Y}, {be.Y, be.X}} {
						k2, isConst := objOf(info, pair[1]).(*types.Const)
						if !isConst || core.NamedOf(k2.Type()) != codeT {
							continue
						}
						el := ast.Unparen(pair[0])
						if id, ok := el.(*ast.Ident); ok && valObj != nil && objOfIdent(info, id) == valObj {
							classifies = be.Pos()
						}
						if ix, ok := el.(*ast.IndexExpr); ok && exprStr(ix.X) == exprStr(rs.X) {
							if id, ok := ast.Unparen(ix.Index).(*ast.Ident); ok && keyObj != nil && objOfIdent(info, id) == keyObj {
								classifies = be.Pos()
							}
						}
					}
					return true
				})
				if classifies == token.NoPos {
					return true
				}
				n++
				c.Check(false, core.FuncName(fn)+"|element-wise-opcode-test", p.Pos(classifies),
					fn.Name()+" visits every element of an instruction array and compares it with an opcode: operands that happen to equal the opcode are taken for instructions (step by op.GetInfo(...).OperandCount or use the instruction iterator)")
				return true
			})
		})
	}
	c.Check(walkers > 0, "control|operand-count-walkers", "", sprintf("%d functions step through instruction arrays by operand count (positive control); %d element-wise opcode tests", walkers, n))
	c.Stat("opcode_tests_elementwise", n)
}
