package rules

import (
	"go/token"
	"go/types"
	"sort"
	"strings"

	"golang.org/x/tools/go/ssa"

	"risorcheck/core"
)

// c06r5: cancellation observed by a blocking primitive is reported.
//
//	(a) a function with an error result that selects on the Done channel of its
//	    context parameter returns, in that case, an error computed from the context;
//	(b) a function with an error result does not delegate its blocking to a
//	    callee that observes cancellation but has no way to report it (no error
//	    result; the Done case returns ordinary values) — the caller would turn a
//	    cancelled wait into a successful result.
func c06r5(c *core.Ctx) {
	p := c.P
	isCtx := func(t types.Type) bool { return core.IsNamed(t, "context", "Context") }
	type selInfo struct {
		fn       *ssa.Function
		ctxParam *ssa.Parameter
		reports  bool
		pos      token.Pos
	}
	var sels []selInfo
	swallower := map[*ssa.Function]bool{}
	var fns []*ssa.Function
	for fn := range p.AllFunctions() {
		if fn.Blocks != nil && core.RepoFunc(fn) && !strings.HasSuffix(p.Fset.Position(fn.Pos()).Filename, "_test.go") {
			fns = append(fns, fn)
		}
	}
	sort.Slice(fns, func(i, j int) bool { return core.SSAName(fns[i]) < core.SSAName(fns[j]) })
	errResult := func(fn *ssa.Function) int {
		res := fn.Signature.Results()
		for i := res.Len() - 1; i >= 0; i-- {
			if isErrorType(res.At(i).Type()) {
				return i
			}
		}
		return -1
	}
	ctxParamOf := func(fn *ssa.Function) *ssa.Parameter {
		var ctxP *ssa.Parameter
		for _, prm := range fn.Params {
			if isCtx(prm.Type()) {
				ctxP = prm
			}
		}
		return ctxP
	}
	isErrCall := func(w ssa.Value) bool {
		call, ok := w.(*ssa.Call)
		return ok && call.Call.IsInvoke() && call.Call.Method.Name() == "Err"
	}
	for _, fn := range fns {
		ctxP := ctxParamOf(fn)
		if ctxP == nil {
			continue
		}
		for _, b := range fn.Blocks {
			for _, in := range b.Instrs {
				sel, ok := in.(*ssa.Select)
				if !ok {
					continue
				}
				doneIdx := -1
				for i, st := range sel.States {
					if call, ok := st.Chan.(*ssa.Call); ok && call.Call.IsInvoke() && call.Call.Method.Name() == "Done" && call.Call.Value == ssa.Value(ctxP) {
						doneIdx = i
					}
				}
				if doneIdx < 0 || sel.Referrers() == nil {
					continue
				}
				var doneBlk *ssa.BasicBlock
				for _, ref := range *sel.Referrers() {
					ex, ok := ref.(*ssa.Extract)
					if !ok || ex.Index != 0 || ex.Referrers() == nil {
						continue
					}
					for _, r2 := range *ex.Referrers() {
						bo, ok := r2.(*ssa.BinOp)
						if !ok || bo.Op != token.EQL || bo.Referrers() == nil {
							continue
						}
						k, ok := bo.Y.(*ssa.Const)
						if !ok || k.Int64() != int64(doneIdx) {
							continue
						}
						for _, r3 := range *bo.Referrers() {
							if iff, ok := r3.(*ssa.If); ok {
								doneBlk = iff.Block().Succs[0]
							}
						}
					}
				}
				ei := errResult(fn)
				reports := false
				if doneBlk != nil {
					seen := map[*ssa.BasicBlock]bool{}
					all, any := true, false
					var walk func(x *ssa.BasicBlock)
					walk = func(x *ssa.BasicBlock) {
						if seen[x] {
							return
						}
						seen[x] = true
						for _, i2 := range x.Instrs {
							r, ok := i2.(*ssa.Return)
							if !ok {
								continue
							}
							any = true
							good := false
							for i, rv := range r.Results {
								rv = spilledResult(x, rv)
								if ei < 0 || i == ei {
									if isErrCall(rv) || core.DependsOn(rv, isErrCall) {
										good = true
									}
								}
							}
							if !good {
								all = false
							}
						}
						for _, s := range x.Succs {
							walk(s)
						}
					}
					walk(doneBlk)
					reports = any && all
				}
				sels = append(sels, selInfo{fn, ctxP, reports, sel.Pos()})
				if ei < 0 && !reports && !canReportByObject(fn) {
					swallower[fn] = true
				}
			}
		}
	}
	for _, s := range sels {
		if errResult(s.fn) < 0 && !canReportByObject(s.fn) {
			continue
		}
		if why, ok := c06r5Exceptions[core.SSAName(s.fn)]; ok {
			c.Pass(core.SSAName(s.fn)+"|done-case-returns-ctx-error", p.Pos(s.pos), "reasoned exception: "+why)
			continue
		}
		c.Check(s.reports, core.SSAName(s.fn)+"|done-case-returns-ctx-error", p.Pos(s.pos),
			s.fn.Name()+" blocks on its context and returns the context's error when it is cancelled (a nil error would make a cancelled wait look like a completed one)")
	}
	for _, fn := range fns {
		if errResult(fn) < 0 {
			continue
		}
		ctxP := ctxParamOf(fn)
		if ctxP == nil {
			continue
		}
		for _, b := range fn.Blocks {
			for _, in := range b.Instrs {
				ci, ok := in.(ssa.CallInstruction)
				if !ok {
					continue
				}
				cal := ci.Common().StaticCallee()
				if cal == nil || !swallower[cal] {
					continue
				}
				passes := false
				for _, a := range ci.Common().Args {
					if a == ssa.Value(ctxP) {
						passes = true
					}
				}
				if !passes {
					continue
				}
				consults := false
				for _, b2 := range fn.Blocks {
					for _, i2 := range b2.Instrs {
						if call, ok := i2.(*ssa.Call); ok && call.Call.IsInvoke() && call.Call.Method.Name() == "Err" && call.Call.Value == ssa.Value(ctxP) {
							consults = true
						}
					}
				}
				c.Check(consults, core.SSAName(fn)+"|delegates-blocking-to:"+cal.Name(), p.Pos(in.Pos()),
					fn.Name()+" returns an error but waits through "+cal.Name()+", which observes cancellation without being able to report it: a cancelled wait comes back as an ordinary result")
			}
		}
	}
	for f := range swallower {
		c.Info("C06-R5: %s observes cancellation without reporting it (no error result)", core.SSAName(f))
	}
	c.Stat("selects_on_ctx", len(sels))
}

// canReportByObject: the function's single result is an object.Object: it can
// report cancellation as an error object (object.NewError(ctx.Err())).
func canReportByObject(fn *ssa.Function) bool {
	res := fn.Signature.Results()
	return res.Len() == 1 && core.IsNamed(res.At(0).Type(), pkgPath("object"), "Object")
}

// One named function each, with the reason.
var c06r5Exceptions = map[string]string{
	"modules/http.ListenAndServe":    "a server: cancellation means graceful shutdown; after the select it shuts the server down and returns the listener's error (http.ErrServerClosed), it does not go on as if the wait had completed",
	"modules/http.ListenAndServeTLS": "same as ListenAndServe",
}
