package rules

import (
	"go/ast"
	"sort"
	"go/token"
	"go/types"
	"strings"

	"golang.org/x/tools/go/ssa"

	"risorcheck/core"
)

func init() {
	core.Register(&core.Property{
		ID: "C10",
		Decided: "Refinement to Go channel semantics (exactly-once and per-sender FIFO over all schedules are inherited from Go only if this holds; the schedule quantifier itself is NOT decided): " +
			"(R1) one script channel operation is exactly one operation on one Go channel: on every success path of Chan.Send / Receive / Next exactly one send (receive) on the channel field is executed and none follows a successful one; the only other users of the channel field are Close, the constructor and the accessor; " +
			"(R2) the value is handed through untouched: the received object is returned (and remembered) as is — no branch of Receive/Next depends on the received value, only on the context and on the channel's closed flag; the sent object is the parameter; " +
			"(R3) thread result publication: in the goroutine of NewThread every store to the result field happens before close(done) on all paths including the panic path, and Wait reads the result only after receiving from done; " +
			"(R4) spawn isolation: every thread the VM starts runs on a VM obtained from Clone() in the same function, with the context produced by that clone's initContext, on every path.",
		NotCovered:  "The schedule quantifier, buffer-size behaviour, argument snapshot semantics of go f(x), several consumers iterating one channel object (Entry() shares lastReceived).",
		Assumptions: []string{"Go channels deliver each value exactly once, FIFO per sender; close is observed after all prior sends"},
		Rules: []*core.Rule{
			{ID: "C10-R1", Title: "one Go channel operation per script channel operation", Floor: 4, Run: c10r1},
			{ID: "C10-R2", Title: "values pass through channels untouched", Floor: 3, Run: c10r2},
			{ID: "C10-R3", Title: "thread result published before done", Floor: 1, Run: c10r3},
			{ID: "C10-R4", Title: "spawned calls run on a fresh clone", Floor: 1, Run: c10r4},
			{ID: "C10-R5", Title: "the spawned call's error reaches wait() by identity", Floor: 5, Run: c10r5},
			{ID: "C10-R6", Title: "spawned and cloned calls run on a clone made for that call", Floor: 2, Run: freshClonePerCall},
			{ID: "C10-R7", Title: "Spawn hands the new thread a copy of the arguments", Floor: 1, Run: spawnCopiesArgs},
			{ID: "C10-R8", Title: "arguments of a spawned call are evaluated at the spawn site (partial mode off for operands)", Floor: 1, Run: partialModeOffForOperands},
			{ID: "C10-R9", Title: "clones get their own copy of the mutex-guarded VM maps (shared with C09-R5)", Floor: 2, Run: c09r5},
			{ID: "C10-R10", Title: "recover() is called by the deferred function itself (a panicking spawned call becomes the thread's error)", Floor: 3, Run: recoverIsDirectlyDeferred},
			{ID: "C10-R11", Title: "the thread's call returns the spawned callable's result untouched", Floor: 1, Run: spawnedResultPassesThrough},
			{ID: "C10-R12", Title: "compiled statements, send and receive included, meet their stack contract: a long-running sender does not exhaust the stack (shared with C04-R2)", Floor: 35, Run: c04r2},
			{ID: "C10-R13", Title: "the state of an iteration is per consumer (Iter returns a new iterator)", Floor: 5, Run: iterationStateIsPerConsumer},
			{ID: "C10-R14", Title: "frame storage is per activation (a goroutine closure keeps its values; shared with C02)", Floor: 3, Run: frameStorageIsPerActivation},
			{ID: "C10-R15", Title: "the Go channel is operated only by object.Chan", Floor: 1, Run: channelOpsStayInTheChannelObject},
			{ID: "C10-R16", Title: "iterables are asked for a fresh iterator", Floor: 1, Run: iterablesAreAskedForAFreshIterator},
			{ID: "C10-R17", Title: "clones alias only what is meant to be shared", Floor: 3, Run: clonesAliasOnlyWhatIsMeantToBeShared},
			{ID: "C10-R18", Title: "shared state is enumerated (shared with C09-R18)", Floor: 1, Run: sharedStateIsEnumerated},
			{ID: "C10-R19", Title: "a receiver answers 'nothing' only after it has received", Floor: 2, Run: receiversAskTheChannel},
			{ID: "C10-R20", Title: "the VM installs its own context values on every path (shared with C12-R17)", Floor: 3, Run: theVMInstallsItsOwnContextValuesOnEveryPath},
			{ID: "C10-R21", Title: "error constructors make new objects", Floor: 3, Run: errorConstructorsMakeNewObjects},
			{ID: "C10-R22", Title: "arguments are not cut to a fixed size", Floor: 1, Run: argumentsAreNotCutToAFixedSize},
			{ID: "C10-R23", Title: "watcher and halt flag are per run: a VM that stops does not halt another (shared with C06-R4)", Floor: 3, Run: func(c *core.Ctx) { watcherRules(c, "C10") }},
			{ID: "C10-R24", Title: "a select case returns the error of the context it waited for", Floor: 1, Run: aCaseReturnsTheErrorOfTheContextItWaitedFor},
			{ID: "C10-R25", Title: "a clone gets each table from the table of the same name", Floor: 1, Run: aCloneGetsEachTableFromTheSameTable},
			{ID: "C10-R26", Title: "a clone has the configuration of its original", Floor: 3, Run: aCloneHasTheConfigurationOfItsOriginal},
		},
	})
}

type chanRoles struct {
	T     *types.Named
	field int // the chan Object field
}

func resolveChan(p *core.Program) chanRoles {
	obj := p.Pkg("object")
	T := core.MustType(obj, "Chan")
	st := T.Underlying().(*types.Struct)
	for i := 0; i < st.NumFields(); i++ {
		if _, ok := st.Field(i).Type().Underlying().(*types.Chan); ok {
			return chanRoles{T, i}
		}
	}
	core.Undecidedf("object.Chan has no channel-typed field")
	return chanRoles{}
}

// chanOps lists the send/receive operations on the channel field in f.
type chanOp struct {
	send  bool
	instr ssa.Instruction
	val   ssa.Value // received value (for recv) or sent value
	okv   ssa.Value // comma-ok flag for recv
}

func isChanField(v ssa.Value, cr chanRoles) bool {
	u, ok := v.(*ssa.UnOp)
	if !ok || u.Op != token.MUL {
		return false
	}
	fa, ok := u.X.(*ssa.FieldAddr)
	return ok && fa.Field == cr.field && core.NamedOf(fa.X.Type()) == cr.T
}

func chanOpsOf(f *ssa.Function, cr chanRoles) []chanOp {
	var out []chanOp
	for _, b := range f.Blocks {
		for _, in := range b.Instrs {
			switch x := in.(type) {
			case *ssa.Send:
				if isChanField(x.Chan, cr) {
					out = append(out, chanOp{send: true, instr: in, val: x.X})
				}
			case *ssa.UnOp:
				if x.Op == token.ARROW && isChanField(x.X, cr) {
					out = append(out, chanOp{instr: in, val: x})
				}
			case *ssa.Select:
				for i, st := range x.States {
					if !isChanField(st.Chan, cr) {
						continue
					}
					op := chanOp{send: st.Dir == types.SendOnly, instr: in}
					if op.send {
						op.val = st.Send
					} else {
						// received value = Extract(select, 2+k) where k counts recv states before
						k := 0
						for j := 0; j < i; j++ {
							if x.States[j].Dir == types.RecvOnly {
								k++
							}
						}
						if refs := x.Referrers(); refs != nil {
							for _, r := range *refs {
								if e, ok := r.(*ssa.Extract); ok {
									if e.Index == 2+k {
										op.val = e
									}
									if e.Index == 1 {
										op.okv = e
									}
								}
							}
						}
					}
					out = append(out, op)
				}
			}
		}
	}
	return out
}

// chanOpMethods: the methods of Chan that operate the Go channel themselves
// (send / receive), by SSA function: the three of the API and any unexported
// helper that one of them hands the operation to.
func chanOpMethods(p *core.Program, cr chanRoles) (recv, send map[*ssa.Function]bool) {
	recv, send = map[*ssa.Function]bool{}, map[*ssa.Function]bool{}
	for _, m := range core.Methods(cr.T) {
		sf := p.SSAFunc(m)
		if sf == nil || sf.Blocks == nil {
			continue
		}
		for _, o := range chanOpsOf(sf, cr) {
			if o.send {
				send[sf] = true
			} else {
				recv[sf] = true
			}
		}
	}
	return
}

func c10r1(c *core.Ctx) {
	p := c.P
	cr := resolveChan(p)
	want := map[string]bool{"Send": true, "Receive": false, "Next": false}
	recvM, sendM := chanOpMethods(p, cr)
	names := []string{"Next", "Receive", "Send"}
	// (an unexported method that does the operation for them is held to the same)
	for _, set := range []map[*ssa.Function]bool{recvM, sendM} {
		var extra []string
		for f := range set {
			if _, api := want[f.Name()]; !api && f.Name() != "Close" {
				want[f.Name()] = set[f] && sendM[f]
				extra = append(extra, f.Name())
			}
		}
		sort.Strings(extra)
		names = append(names, extra...)
	}
	for _, name := range names {
		m := core.Method(cr.T, name)
		if m == nil {
			continue
		}
		sf := p.SSAFunc(m)
		ops := chanOpsOf(sf, cr)
		// delegation to a sibling (Next -> Receive) counts as that sibling's single operation
		delegates := 0
		for _, b := range sf.Blocks {
			for _, in := range b.Instrs {
				if call, ok := in.(*ssa.Call); ok {
					if callee := call.Call.StaticCallee(); callee != nil {
						if o, _ := callee.Object().(*types.Func); o != nil && core.RecvNamed(o) == cr.T && (o.Name() == "Receive" || o.Name() == "Send" || o.Name() == "Next" || recvM[callee] || sendM[callee]) {
							delegates++
						}
					}
				}
			}
		}
		okOne := len(ops)+delegates == 1
		dirOK := true
		for _, o := range ops {
			if o.send != want[name] {
				dirOK = false
			}
		}
		// not in a loop: the block of the op must not be in a cycle
		inLoop := false
		for _, o := range ops {
			if blockInCycle(o.instr.Block()) {
				inLoop = true
			}
		}
		c.Check(okOne && dirOK && !inLoop, "object.Chan."+name+"|one-operation", p.Pos(sf.Pos()),
			sprintf("Chan.%s performs exactly one %s on the Go channel, outside any loop (found %d channel operation(s), %d delegation(s))", name, ifs(want[name], "send")+ifs(!want[name], "receive"), len(ops), delegates))
	}
	// who may touch the channel field
	obj := p.Pkg("object")
	sp := p.SSAPkg(obj)
	allowed := map[string]bool{"Send": true, "Receive": true, "Next": true, "Close": true, "Value": true, "Interface": true, "NewChan": true, "Capacity": true, "Len": true}
	for f := range p.AllFunctions() {
		if f.Pkg != sp || f.Blocks == nil {
			continue
		}
		touches := false
		for _, b := range f.Blocks {
			for _, in := range b.Instrs {
				if fa, ok := in.(*ssa.FieldAddr); ok && fa.Field == cr.field && core.NamedOf(fa.X.Type()) == cr.T {
					touches = true
				}
			}
		}
		if !touches {
			continue
		}
		name := f.Name()
		if f.Parent() != nil {
			name = f.Parent().Name()
		}
		// an unexported method of Chan that does the operation for the allowed ones, and for nobody else
		if (recvM[f] || sendM[f]) && !ast.IsExported(name) && f.Signature.Recv() != nil && core.NamedOf(f.Signature.Recv().Type()) == cr.T {
			onlyAllowed, callers := true, 0
			for g := range p.AllFunctions() {
				if g.Pkg != sp || g.Blocks == nil {
					continue
				}
				for _, gb := range g.Blocks {
					for _, gin := range gb.Instrs {
						if gc, ok := gin.(ssa.CallInstruction); ok && gc.Common().StaticCallee() == f {
							callers++
							gn := g.Name()
							if g.Parent() != nil {
								gn = g.Parent().Name()
							}
							if !allowed[gn] || g.Signature.Recv() == nil {
								onlyAllowed = false
							}
						}
					}
				}
			}
			if onlyAllowed && callers > 0 {
				c.Pass(core.SSAName(f)+"|touches-channel-field", p.Pos(f.Pos()), name+" does the channel operation for Send/Receive/Next only")
				continue
			}
		}
		c.Check(allowed[name], core.SSAName(f)+"|touches-channel-field", p.Pos(f.Pos()), "only Send/Receive/Next/Close/Value and the constructor use the Go channel of a Chan (another user could consume or inject values behind the script's back)")
	}
}

func blockInCycle(b *ssa.BasicBlock) bool {
	seen := map[*ssa.BasicBlock]bool{}
	var q []*ssa.BasicBlock
	q = append(q, b.Succs...)
	for len(q) > 0 {
		x := q[0]
		q = q[1:]
		if x == b {
			return true
		}
		if seen[x] {
			continue
		}
		seen[x] = true
		q = append(q, x.Succs...)
	}
	return false
}

func c10r2(c *core.Ctx) {
	p := c.P
	cr := resolveChan(p)
	recvM, _ := chanOpMethods(p, cr)
	r2names := []string{"Next", "Receive"}
	{
		var extra []string
		for f := range recvM {
			if f.Name() != "Next" && f.Name() != "Receive" {
				extra = append(extra, f.Name())
			}
		}
		sort.Strings(extra)
		r2names = append(r2names, extra...)
	}
	for _, name := range r2names {
		m := core.Method(cr.T, name)
		if m == nil {
			continue
		}
		sf := p.SSAFunc(m)
		// values that carry the received object: channel receives and results of sibling Receive/Next
		var vals []ssa.Value
		for _, o := range chanOpsOf(sf, cr) {
			if !o.send && o.val != nil {
				vals = append(vals, o.val)
			}
		}
		for _, b := range sf.Blocks {
			for _, in := range b.Instrs {
				if call, ok := in.(*ssa.Call); ok {
					if callee := call.Call.StaticCallee(); callee != nil {
						if o, _ := callee.Object().(*types.Func); o != nil && core.RecvNamed(o) == cr.T && (o.Name() == "Receive" || o.Name() == "Next" || recvM[callee]) {
							if refs := call.Referrers(); refs != nil {
								for _, r := range *refs {
									if e, ok := r.(*ssa.Extract); ok && e.Index == 0 {
										vals = append(vals, e)
									}
								}
							}
						}
					}
				}
			}
		}
		bad := ""
		seen := map[ssa.Value]bool{}
		var follow func(v ssa.Value)
		follow = func(v ssa.Value) {
			if seen[v] {
				return
			}
			seen[v] = true
			refs := v.Referrers()
			if refs == nil {
				return
			}
			for _, r := range *refs {
				switch x := r.(type) {
				case *ssa.BinOp:
					if x.Op == token.EQL || x.Op == token.NEQ {
						bad = "the received value is compared (" + x.String() + " at " + p.Pos(x.Pos()) + ")"
					}
				case *ssa.TypeAssert:
					bad = "the received value is type-tested at " + p.Pos(x.Pos())
				case *ssa.Phi:
					follow(x)
				case *ssa.MakeInterface:
					follow(x)
				case *ssa.ChangeInterface:
					follow(x)
				case *ssa.Call:
					// method calls on the value (e.g. value.Type()) whose result feeds a branch
					if len(x.Call.Args) > 0 && x.Call.Args[0] == v || x.Call.IsInvoke() && x.Call.Value == v {
						if rr := x.Referrers(); rr != nil {
							for _, r2 := range *rr {
								if _, ok := r2.(*ssa.BinOp); ok {
									bad = "a property of the received value decides a branch at " + p.Pos(x.Pos())
								}
								if _, ok := r2.(*ssa.If); ok {
									bad = "a property of the received value decides a branch at " + p.Pos(x.Pos())
								}
							}
						}
					}
				}
			}
		}
		for _, v := range vals {
			follow(v)
		}
		c.Check(bad == "" && len(vals) > 0, "object.Chan."+name+"|value-untouched", p.Pos(sf.Pos()),
			"Chan."+name+" decides 'no more values' only from the context and the channel's closed flag, never from the received value itself (a value such as nil sent by the script must be delivered like any other)"+ifs(bad != "", ": "+bad))
		// the returned object is the received one
		retOK := true
		for _, b := range sf.Blocks {
			if len(b.Instrs) == 0 {
				continue
			}
			ret, ok := b.Instrs[len(b.Instrs)-1].(*ssa.Return)
			if !ok || len(ret.Results) == 0 {
				continue
			}
			for _, o := range core.Origins(ret.Results[0]) {
				if mi, ok := o.(*ssa.MakeInterface); ok {
					o = mi.X
				}
				if cst, ok := o.(*ssa.Const); ok && cst.IsNil() {
					continue
				}
				okv := false
				for _, v := range vals {
					if o == v {
						okv = true
					}
				}
				if g, ok := o.(*ssa.UnOp); ok && g.Op == token.MUL { // package-level Nil object for "closed"
					if _, isG := g.X.(*ssa.Global); isG {
						okv = true
					}
				}
				if !okv {
					retOK = false
				}
			}
		}
		c.Check(retOK, "object.Chan."+name+"|returns-received", p.Pos(sf.Pos()), "Chan."+name+" returns the object it received (or nil / Nil when the channel is closed or the context is done)")
	}
	// Send sends its parameter
	m := core.MustMethod(cr.T, "Send")
	sf := p.SSAFunc(m)
	okSend := false
	for _, o := range chanOpsOf(sf, cr) {
		if o.send {
			for _, src := range core.Origins(o.val) {
				if pa, ok := src.(*ssa.Parameter); ok && pa.Name() != "ctx" {
					okSend = true
				}
			}
		}
	}
	c.Check(okSend, "object.Chan.Send|sends-parameter", p.Pos(sf.Pos()), "Chan.Send puts its value parameter on the channel unchanged")
}

func c10r3(c *core.Ctx) {
	p := c.P
	obj := p.Pkg("object")
	info := obj.TypesInfo
	thT := core.MustType(obj, "Thread")
	newThread := core.LookupFunc(obj, "NewThread")
	if newThread == nil {
		core.Undecidedf("object.NewThread not found")
	}
	st := thT.Underlying().(*types.Struct)
	var resultF, doneF *types.Var
	for i := 0; i < st.NumFields(); i++ {
		f := st.Field(i)
		if _, isChan := f.Type().Underlying().(*types.Chan); isChan {
			doneF = f
		}
		if core.IsNamed(f.Type(), pkgPath("object"), "Object") && strings.Contains(strings.ToLower(f.Name()), "result") {
			resultF = f
		}
	}
	if resultF == nil || doneF == nil {
		core.Undecidedf("Thread result/done fields not resolved")
	}
	fd := p.Decl(newThread)
	var goLit *ast.FuncLit
	ast.Inspect(fd.Body, func(n ast.Node) bool {
		if gs, ok := n.(*ast.GoStmt); ok {
			if fl, ok := gs.Call.Fun.(*ast.FuncLit); ok {
				goLit = fl
			}
		}
		return true
	})
	if goLit == nil {
		core.Undecidedf("NewThread starts no goroutine literal")
	}
	// shape: the close(done) is the last statement of a deferred function that is the first
	// statement of the goroutine; every store to result is either in the goroutine body (before
	// the deferred function runs) or inside the deferred function before the close.
	okShape := false
	why := "close(" + doneF.Name() + ") is not performed by a deferred function installed first in the goroutine"
	if len(goLit.Body.List) > 0 {
		if ds, ok := goLit.Body.List[0].(*ast.DeferStmt); ok {
			if dl, ok := ds.Call.Fun.(*ast.FuncLit); ok {
				var closePos token.Pos
				ast.Inspect(dl.Body, func(n ast.Node) bool {
					if ce, ok := n.(*ast.CallExpr); ok && isBuiltinCall(info, ce, "close") && len(ce.Args) == 1 && fieldOf(info, ce.Args[0]) == doneF {
						closePos = ce.Pos()
					}
					return true
				})
				// top-level statement and last
				last := dl.Body.List[len(dl.Body.List)-1]
				if es, ok := last.(*ast.ExprStmt); ok && es.X.Pos() == closePos {
					okShape = true
					// stores to result inside the deferred literal are before the close
					ast.Inspect(dl.Body, func(n ast.Node) bool {
						if as, ok := n.(*ast.AssignStmt); ok {
							for _, l := range as.Lhs {
								if fieldOf(info, l) == resultF && as.Pos() > closePos {
									okShape = false
									why = "a store to " + resultF.Name() + " follows close(" + doneF.Name() + ")"
								}
							}
						}
						return true
					})
				} else if closePos != token.NoPos {
					why = "close(" + doneF.Name() + ") is not the unconditional last action of the deferred function"
				}
			}
		}
	}
	// no close(done) elsewhere in the goroutine body
	ast.Inspect(goLit.Body, func(n ast.Node) bool {
		if ce, ok := n.(*ast.CallExpr); ok && isBuiltinCall(info, ce, "close") && len(ce.Args) == 1 && fieldOf(info, ce.Args[0]) == doneF {
			if ds, ok := goLit.Body.List[0].(*ast.DeferStmt); !ok || !(ce.Pos() > ds.Pos() && ce.End() < ds.End()) {
				okShape = false
				why = "done is closed outside the deferred function, before the result is stored on some path"
			}
		}
		return true
	})
	c.Check(okShape, "object.NewThread|result-before-done", posOf(p, goLit), "the spawned goroutine stores the call's result (or the recovered panic) before it closes the done channel, on every path including the panic path"+ifs(!okShape, ": "+why))
	// Wait: reads result only in the branch that received from done
	wait := core.MustMethod(thT, "Wait")
	wd := p.Decl(wait)
	okWait := true
	walkStack(wd.Body, func(n ast.Node, stack []ast.Node) bool {
		se, ok := n.(*ast.SelectorExpr)
		if !ok || fieldOf(info, se) != resultF {
			return true
		}
		inDone := false
		for i := len(stack) - 1; i >= 0; i-- {
			if cc, ok := stack[i].(*ast.CommClause); ok && cc.Comm != nil {
				ast.Inspect(cc.Comm, func(k ast.Node) bool {
					if u, ok := k.(*ast.UnaryExpr); ok && u.Op == token.ARROW && fieldOf(info, u.X) == doneF {
						inDone = true
					}
					return true
				})
			}
		}
		// or after a bare receive from done earlier in the function
		ast.Inspect(wd.Body, func(k ast.Node) bool {
			if u, ok := k.(*ast.UnaryExpr); ok && u.Op == token.ARROW && fieldOf(info, u.X) == doneF && u.End() < se.Pos() {
				if es, ok := parentStmt(wd.Body, u).(*ast.ExprStmt); ok && es != nil {
					inDone = true
				}
			}
			return true
		})
		if !inDone {
			okWait = false
		}
		return true
	})
	c.Check(okWait, "object.Thread.Wait|reads-result-after-done", posOf(p, wd), "Wait reads the result only after it received from the done channel (happens-after the store)")
}

func parentStmt(root ast.Node, target ast.Node) ast.Stmt {
	var found ast.Stmt
	walkStack(root, func(n ast.Node, stack []ast.Node) bool {
		if n == target && len(stack) > 0 {
			if s, ok := stack[len(stack)-1].(ast.Stmt); ok {
				found = s
			}
		}
		return true
	})
	return found
}

func c10r4(c *core.Ctx) {
	p := c.P
	vmp := p.Pkg("vm")
	info := vmp.TypesInfo
	vmT := core.MustType(vmp, "VirtualMachine")
	newThread := core.LookupFunc(p.Pkg("object"), "NewThread")
	cloneM := core.MustMethod(vmT, "Clone")
	initCtx := core.MustMethod(vmT, "initContext")
	n := 0
	funcBodies(vmp, func(fn *types.Func, fd *ast.FuncDecl) {
		assigns := localAssignments(info, fd.Body)
		idx := 0
		ast.Inspect(fd.Body, func(nd ast.Node) bool {
			ce, ok := nd.(*ast.CallExpr)
			if !ok || calleeOf(info, ce) != newThread || len(ce.Args) == 0 {
				return true
			}
			n++
			idx++
			okc := false
			why := "the context is " + exprStr(ce.Args[0])
			if ic, ok := ast.Unparen(ce.Args[0]).(*ast.CallExpr); ok && calleeOf(info, ic) == initCtx {
				if se, ok := ic.Fun.(*ast.SelectorExpr); ok {
					if id, ok := se.X.(*ast.Ident); ok {
						rh := assigns[info.Uses[id]]
						if len(rh) > 0 {
							okc = true
							for _, r := range rh {
								if rc, ok := ast.Unparen(r).(*ast.CallExpr); !ok || calleeOf(info, rc) != cloneM {
									okc = false
									why = exprStr(se.X) + " is not always the result of Clone()"
								}
							}
						} else {
							why = "initContext is called on " + exprStr(se.X) + ", not on a clone made here"
						}
					}
				}
			}
			c.Check(okc, "vm."+declName(fd)+"|thread-on-clone#"+itoa(idx), posOf(p, ce), "a spawned call runs with the context of a VM cloned in this function (its own frames and stack): a thread started with the spawner's context runs callbacks on the spawner's VM concurrently with it"+ifs(!okc, ": "+why))
			return true
		})
	})
	c.Stat("thread_starts", n)
}
