package rules

import (
	"go/ast"
	"go/token"
	"go/types"
	"sort"

	"golang.org/x/tools/go/ssa"

	"risorcheck/core"
)

// Generalisations written for the seventeenth wave.

// ---------------------------------------------------------------------------
// aSnapshotLengthCutsTheContainerItWasTakenFrom (C18, C17): the compiler rolls
// a rejected input back by lengths: a "state" method records len(x.A) in a
// field of a snapshot struct, and a "restore" method cuts a container back to
// that field.  The container that is cut is the one whose length was taken:
// the length of another container of the same object (the table of names for
// the list of slots) is a different number as soon as the two differ - a slot
// taken by a block variable has no name in the table - and the rollback then
// takes back declarations of earlier, accepted inputs.
func aSnapshotLengthCutsTheContainerItWasTakenFrom(c *core.Ctx) {
	p := c.P
	cp := p.Pkg("compiler")
	info := cp.TypesInfo
	// snapshot struct field -> the field of the receiver whose length it records
	type rec struct {
		of  *types.Var
		pos string
	}
	recorded := map[*types.Var]rec{}
	funcBodies(cp, func(fn *types.Func, fd *ast.FuncDecl) {
		if fd.Recv == nil {
			return
		}
		ast.Inspect(fd.Body, func(nd ast.Node) bool {
			cl, ok := nd.(*ast.CompositeLit)
			if !ok {
				return true
			}
			if _, isStruct := info.TypeOf(cl).Underlying().(*types.Struct); !isStruct {
				return true
			}
			for _, e := range cl.Elts {
				kv, ok := e.(*ast.KeyValueExpr)
				if !ok {
					continue
				}
				kid, ok := kv.Key.(*ast.Ident)
				if !ok {
					continue
				}
				sf, _ := info.Uses[kid].(*types.Var)
				ce, ok := ast.Unparen(kv.Value).(*ast.CallExpr)
				if sf == nil || !ok || !isBuiltinCall(info, ce, "len") || len(ce.Args) != 1 {
					continue
				}
				if f := fieldOf(info, ce.Args[0]); f != nil {
					recorded[sf] = rec{of: f, pos: posOf(p, kv)}
				}
			}
			return true
		})
	})
	n := 0
	funcBodies(cp, func(fn *types.Func, fd *ast.FuncDecl) {
		if fd.Recv == nil {
			return
		}
		k := 0
		ast.Inspect(fd.Body, func(nd ast.Node) bool {
			se, ok := nd.(*ast.SliceExpr)
			if !ok {
				return true
			}
			cut := fieldOf(info, se.X)
			if cut == nil {
				return true
			}
			for _, bound := range []ast.Expr{se.Low, se.High} {
				if bound == nil {
					continue
				}
				bf := fieldOf(info, bound)
				r, isRecorded := recorded[bf]
				if bf == nil || !isRecorded {
					continue
				}
				n++
				k++
				c.Check(r.of == cut, "compiler."+declName(fd)+"|"+cut.Name()+"|cut-at-its-own-recorded-length|"+itoa(k), posOf(p, se),
					declName(fd)+" cuts "+cut.Name()+" at the recorded "+bf.Name()+ife(r.of == cut, ", which is the length of "+cut.Name()+" when the snapshot was taken", ", which was taken (at "+r.pos+") as the length of "+r.of.Name()+", another container: the two lengths differ as soon as an entry is in one and not in the other, and the rollback of a rejected input then cuts away what earlier inputs added"))
			}
			return true
		})
	})
	if n < 3 {
		core.Undecidedf("only %d containers are cut back to a recorded length", n)
	}
	c.Stat("rollback_cuts", n)
}

// ---------------------------------------------------------------------------
// equalityIsNotHandedBackAndForth (C03, C15): an Equals (or Compare) method
// may leave the decision to the other operand - `return other.Equals(x)` - but
// the other operand's method must not hand it back.  Two methods that each
// delegate to the other for each other's type call each other until the native
// stack is exhausted, which no recover() catches.
func equalityIsNotHandedBackAndForth(c *core.Ctx) {
	p := c.P
	type edge struct {
		to  *ssa.Function
		pos string
	}
	edges := map[*ssa.Function][]edge{}
	n := 0
	for _, fn := range repoFns(p, "object") {
		if fn.Signature.Recv() == nil || len(fn.Params) != 2 || (fn.Name() != "Equals" && fn.Name() != "Compare") {
			continue
		}
		recv := ssa.Value(fn.Params[0])
		for _, b := range fn.Blocks {
			for _, in := range b.Instrs {
				call, ok := in.(*ssa.Call)
				if !ok {
					continue
				}
				cal := call.Call.StaticCallee()
				if cal == nil || cal.Name() != fn.Name() || cal.Signature.Recv() == nil || cal == fn || len(call.Call.Args) != 2 {
					continue
				}
				// the receiver of this method is the argument of the call
				arg := call.Call.Args[1]
				if mi, ok := arg.(*ssa.MakeInterface); ok {
					arg = mi.X
				}
				if arg != recv {
					continue
				}
				// ... and the receiver of the call is (a type assertion of) the other operand
				isOther := false
				for _, o := range core.Origins(call.Call.Args[0]) {
					if ta, ok := o.(*ssa.TypeAssert); ok && ta.X == ssa.Value(fn.Params[1]) {
						isOther = true
					}
					if ex, ok := o.(*ssa.Extract); ok {
						if ta, ok := ex.Tuple.(*ssa.TypeAssert); ok && ta.X == ssa.Value(fn.Params[1]) {
							isOther = true
						}
					}
				}
				if !isOther {
					continue
				}
				n++
				edges[fn] = append(edges[fn], edge{to: cal, pos: p.Pos(call.Pos())})
			}
		}
	}
	var fns []*ssa.Function
	for f := range edges {
		fns = append(fns, f)
	}
	sort.Slice(fns, func(i, j int) bool { return core.SSAName(fns[i]) < core.SSAName(fns[j]) })
	for _, f := range fns {
		for _, e := range edges[f] {
			back := ""
			for _, e2 := range edges[e.to] {
				if e2.to == f {
					back = e2.pos
				}
			}
			c.Check(back == "", core.SSAName(f)+"|hands-the-decision-to|"+core.SSAName(e.to), e.pos,
				core.SSAName(f)+" leaves the decision to "+core.SSAName(e.to)+ife(back == "", ", which decides it itself", ", which hands it back at "+back+": the two call each other until the native stack is exhausted, and that ends the process"))
		}
	}
	c.Pass("object|equality-delegations", "", sprintf("%d calls of the other operand's Equals/Compare with the receiver for an argument; none is handed back", n))
	c.Stat("delegations_to_the_other_operand", n)
}

// ---------------------------------------------------------------------------
// noStackDumpsInResults (C05): nothing that an evaluation returns or prints is
// built from the state of the Go runtime: runtime/debug.Stack, runtime.Stack
// and runtime.Caller(s) are called nowhere in the module.  Their text holds
// goroutine numbers, heap addresses and program counters, which differ from
// run to run of the same program.
func noStackDumpsInResults(c *core.Ctx) {
	p := c.P
	banned := map[string]map[string]bool{
		"runtime/debug": {"Stack": true, "PrintStack": true},
		"runtime":       {"Stack": true, "Caller": true, "Callers": true, "NumGoroutine": true},
	}
	n, bad := 0, 0
	for _, fn := range repoFns(p) {
		if fn.Pkg != nil && len(core.RelPkg(fn.Pkg.Pkg)) >= 4 && core.RelPkg(fn.Pkg.Pkg)[:4] == "cmd/" {
			continue
		}
		n++
		for _, b := range fn.Blocks {
			for _, in := range b.Instrs {
				for _, op := range in.Operands(nil) {
					f, ok := (*op).(*ssa.Function)
					if !ok || f.Pkg == nil || !banned[f.Pkg.Pkg.Path()][f.Name()] {
						continue
					}
					bad++
					c.Check(false, core.SSAName(fn)+"|"+f.Pkg.Pkg.Path()+"."+f.Name()+"|runtime-state-in-a-result|"+itoa(bad), p.Pos(in.Pos()),
						core.SSAName(fn)+" uses "+f.Pkg.Pkg.Path()+"."+f.Name()+": what it gives (goroutine numbers, addresses, program counters) differs between two runs of the same program, and whatever is built from it - an error text - differs with it")
				}
			}
		}
	}
	c.Pass("module|no-runtime-introspection", "", sprintf("%d functions examined; runtime/debug.Stack, runtime.Stack, runtime.Caller(s), runtime.NumGoroutine are used nowhere", n))
	c.Stat("functions_examined", n)
}

// ---------------------------------------------------------------------------
// anIteratorEndsWhenTheContextDoes (C06): a Next that waits in a select with a
// case for the end of the context answers (nil, false) on that case: the
// iteration is over.  A Next that answers "here is another value" there is
// called again at once by every builtin that drains an iterator in Go (any,
// all, list, set), for ever: no instruction of the VM runs in between that
// would notice the end of the evaluation.
func anIteratorEndsWhenTheContextDoes(c *core.Ctx) {
	p := c.P
	n := 0
	for _, fn := range repoFns(p, "object") {
		if fn.Name() != "Next" || fn.Signature.Recv() == nil || fn.Signature.Results().Len() != 2 {
			continue
		}
		for _, b := range fn.Blocks {
			for _, in := range b.Instrs {
				sel, ok := in.(*ssa.Select)
				if !ok {
					continue
				}
				for i, st := range sel.States {
					if !isDoneChan(st.Chan) {
						continue
					}
					// the block taken when the select's index is i
					blk := selectCaseBlock(sel, i)
					if blk == nil {
						continue
					}
					n++
					okEnd := true
					where := ""
					forEachReturnFrom(blk, func(r *ssa.Return) {
						if len(r.Results) != 2 {
							return
						}
						if k, isConst := r.Results[1].(*ssa.Const); !isConst || k.Value == nil || k.Value.String() != "false" {
							okEnd = false
							where = p.Pos(r.Pos())
						}
					})
					c.Check(okEnd, core.SSAName(fn)+"|context-case-ends-the-iteration|"+itoa(n), p.Pos(sel.Pos()),
						core.SSAName(fn)+" waits for a value or for the end of the context"+ife(okEnd, " and ends the iteration when the context ends", "; when the context ends it still reports a value (the return at "+where+"): a builtin that drains the iterator calls Next again at once, and the evaluation never returns"))
				}
			}
		}
	}
	// (an iterator that leaves the waiting to a helper has no such case of its own)
	c.Pass("object|iterators-that-wait", "", sprintf("%d cases for the end of the context in the Next methods of package object", n))
	c.Stat("iterator_context_cases", n)
}

func isDoneChan(v ssa.Value) bool {
	call, ok := v.(*ssa.Call)
	return ok && call.Call.IsInvoke() && call.Call.Method.Name() == "Done"
}

// selectCaseBlock: the block that runs when the select chose state i (the
// true branch of the comparison of the select's index with i).
func selectCaseBlock(sel *ssa.Select, i int) *ssa.BasicBlock {
	if sel.Referrers() == nil {
		return nil
	}
	for _, r := range *sel.Referrers() {
		ex, ok := r.(*ssa.Extract)
		if !ok || ex.Index != 0 || ex.Referrers() == nil {
			continue
		}
		for _, r2 := range *ex.Referrers() {
			be, ok := r2.(*ssa.BinOp)
			if !ok || be.Referrers() == nil {
				continue
			}
			k, ok := be.Y.(*ssa.Const)
			if !ok || k.Int64() != int64(i) {
				continue
			}
			for _, r3 := range *be.Referrers() {
				if iff, ok := r3.(*ssa.If); ok {
					return iff.Block().Succs[0]
				}
			}
		}
	}
	return nil
}

// forEachReturnFrom: the returns reachable from b without passing a block
// that another select case also reaches (the blocks b dominates).
func forEachReturnFrom(b *ssa.BasicBlock, f func(*ssa.Return)) {
	for _, d := range b.Parent().Blocks {
		if d != b && !b.Dominates(d) {
			continue
		}
		for _, in := range d.Instrs {
			if r, ok := in.(*ssa.Return); ok {
				f(r)
			}
		}
	}
}

// ---------------------------------------------------------------------------
// whatReflectCopyCopiedIsLookedAt (C08): reflect.Copy copies as many elements
// as fit and says how many.  A conversion that ignores the number stores a
// prefix of what the script gave and reports success: the value that crossed
// the boundary is not the value that was written.
func whatReflectCopyCopiedIsLookedAt(c *core.Ctx) {
	p := c.P
	n := 0
	for _, fn := range repoFns(p, "object") {
		for _, b := range fn.Blocks {
			for _, in := range b.Instrs {
				call, ok := in.(*ssa.Call)
				if !ok {
					continue
				}
				cal := call.Call.StaticCallee()
				if cal == nil || cal.Pkg == nil || cal.Pkg.Pkg.Path() != "reflect" || cal.Name() != "Copy" {
					continue
				}
				n++
				used := call.Referrers() != nil && len(*call.Referrers()) > 0
				// or the two lengths are compared before the copy
				compared := false
				for _, b2 := range fn.Blocks {
					for _, in2 := range b2.Instrs {
						be, ok := in2.(*ssa.BinOp)
						if !ok {
							continue
						}
						isLen := func(v ssa.Value) bool {
							cc, ok := v.(*ssa.Call)
							if !ok {
								return false
							}
							if bi, ok := cc.Call.Value.(*ssa.Builtin); ok && bi.Name() == "len" {
								return true
							}
							sc := cc.Call.StaticCallee()
							return sc != nil && sc.Name() == "Len"
						}
						if (isLen(be.X) || isLen(be.Y)) && instrReaches(in2, in) {
							compared = true
						}
					}
				}
				c.Check(used || compared, core.SSAName(fn)+"|reflect.Copy|count-looked-at|"+itoa(n), p.Pos(call.Pos()),
					core.SSAName(fn)+" fills a Go value with reflect.Copy"+ife(used || compared, " and looks at how much was copied (or compares the lengths first)", " and does not look at how many elements were copied, nor at the two lengths before: a value that is longer than the destination is cut to its prefix and accepted"))
			}
		}
	}
	c.Pass("object|reflect.Copy-sites", "", sprintf("%d reflect.Copy call sites in package object", n))
	c.Stat("reflect_copy_sites", n)
}

// ---------------------------------------------------------------------------
// anEntryHasAKeyAndAValueOfItsOwn (C01, C16): the entry an iterator hands out
// pairs where the iteration is (the position, or the key) with what is there.
// An entry whose key and value are one and the same field of the iterator
// gives `for i, v := range x` the value for an index.
func anEntryHasAKeyAndAValueOfItsOwn(c *core.Ctx) {
	p := c.P
	n := 0
	for _, fn := range repoFns(p, "object") {
		if fn.Name() != "Entry" || fn.Signature.Recv() == nil {
			continue
		}
		k := 0
		for _, b := range fn.Blocks {
			for _, in := range b.Instrs {
				call, ok := in.(*ssa.Call)
				if !ok {
					continue
				}
				cal := call.Call.StaticCallee()
				if cal == nil || cal.Name() != "NewEntry" || len(call.Call.Args) != 2 {
					continue
				}
				n++
				k++
				same := func(a, b ssa.Value) bool {
					if mi, ok := a.(*ssa.MakeInterface); ok {
						a = mi.X
					}
					if mi, ok := b.(*ssa.MakeInterface); ok {
						b = mi.X
					}
					if a == b {
						return true
					}
					ua, ok1 := a.(*ssa.UnOp)
					ub, ok2 := b.(*ssa.UnOp)
					if !ok1 || !ok2 {
						return false
					}
					fa, ok1 := ua.X.(*ssa.FieldAddr)
					fb, ok2 := ub.X.(*ssa.FieldAddr)
					return ok1 && ok2 && fa.X == fb.X && fa.Field == fb.Field
				}(call.Call.Args[0], call.Call.Args[1])
				c.Check(!same, core.SSAName(fn)+"|NewEntry|key-and-value-are-two-things|"+itoa(k), p.Pos(call.Pos()),
					core.SSAName(fn)+" makes its entry"+ife(!same, " from a key (or position) and a value", " with one and the same thing for key and value: a loop that binds the index gets the value"))
			}
		}
	}
	if n < 4 {
		core.Undecidedf("only %d entries are made by iterators", n)
	}
	c.Stat("iterator_entries", n)
}

// ---------------------------------------------------------------------------
// pathsReachTheOSAsTheScriptGaveThem (C13, C12): the string that a builtin of
// the os module hands to the OS is the string the script gave.  A builtin that
// edits it first (trims, lower-cases, replaces) resolves another path than the
// one the script named: " /b/x" relative to /a is a name below /a; trimmed, it
// is the absolute path /b/x of another mount.
func pathsReachTheOSAsTheScriptGaveThem(c *core.Ctx) {
	p := c.P
	n := 0
	for _, fn := range repoFns(p, "modules/os", "builtins") {
		k := 0
		for _, b := range fn.Blocks {
			for _, in := range b.Instrs {
				ci, ok := in.(ssa.CallInstruction)
				if !ok || !ci.Common().IsInvoke() {
					continue
				}
				cm := ci.Common()
				rt := core.NamedOf(cm.Value.Type())
				if rt == nil || rt.Obj().Name() != "OS" || rt.Obj().Pkg() == nil || rt.Obj().Pkg().Path() != pkgPath("os") {
					continue
				}
				for _, a := range cm.Args {
					if !core.IsStringType(a.Type()) {
						continue
					}
					n++
					k++
					edited := ""
					core.DependsOn(a, func(w ssa.Value) bool {
						call, ok := w.(*ssa.Call)
						if !ok {
							return false
						}
						cal := call.Call.StaticCallee()
						if cal != nil && cal.Pkg != nil && cal.Pkg.Pkg.Path() == "strings" && core.IsStringType(call.Type()) {
							edited = "strings." + cal.Name() + " at " + p.Pos(call.Pos())
						}
						return false
					})
					c.Check(edited == "", core.SSAName(fn)+"|"+cm.Method.Name()+"|string-as-the-script-gave-it|"+itoa(k), p.Pos(in.Pos()),
						core.SSAName(fn)+" hands "+cm.Method.Name()+" of the OS a string"+ife(edited == "", " that no function of package strings has edited", " that was edited by "+edited+": the OS resolves another name than the one the script gave (a name that begins with a blank is a relative name; trimmed, it may be an absolute one, in another mount)"))
				}
			}
		}
	}
	if n < 10 {
		core.Undecidedf("only %d strings handed to the OS by the os module and the builtins", n)
	}
	c.Stat("strings_handed_to_the_os", n)
}

// ---------------------------------------------------------------------------
// importBodies: the functions of package importer in which a module is
// imported: the Import methods, and the functions of the package that return
// (*object.Module, error) like them (the body that two importers share).  The
// rules of the importer family read all of them, and accept in one what it is
// handed by another.
func importBodies(p *core.Program) map[*ssa.Function]bool {
	modT := core.MustType(p.Pkg("object"), "Module")
	out := map[*ssa.Function]bool{}
	for _, fn := range repoFns(p, "importer") {
		if fn.Parent() != nil {
			continue
		}
		res := fn.Signature.Results()
		if res.Len() == 2 && core.NamedOf(res.At(0).Type()) == modT && isErrorType(res.At(1).Type()) {
			out[fn] = true
		}
	}
	return out
}

// ---------------------------------------------------------------------------
// sharedOperatorsKeepGosOrder (C01): the binary operators that Risor shares
// with Go bind, relative to each other, as they do in Go: where Go gives one
// operator a higher precedence than another, Risor's table does not give it a
// lower one (`1 + 8 >> 1` is 1 + (8 >> 1)).  The table may be coarser or finer
// than Go's (&& and || share a level; % has one of its own); it may not be
// upside down for any pair.
func sharedOperatorsKeepGosOrder(c *core.Ctx) {
	p := c.P
	pp := p.Pkg("parser")
	info := pp.TypesInfo
	goPrec := map[string]int{
		"OR": 1, "AND": 2,
		"EQ": 3, "NOT_EQ": 3, "LT": 3, "LT_EQUALS": 3, "GT": 3, "GT_EQUALS": 3,
		"PLUS": 4, "MINUS": 4,
		"ASTERISK": 5, "SLASH": 5, "MOD": 5, "AMPERSAND": 5, "GT_GT": 5, "LT_LT": 5,
	}
	risor := map[string]int64{}
	pos := map[string]string{}
	for _, f := range pp.Syntax {
		ast.Inspect(f, func(nd ast.Node) bool {
			cl, ok := nd.(*ast.CompositeLit)
			if !ok {
				return true
			}
			mt, ok := info.TypeOf(cl).Underlying().(*types.Map)
			if !ok || !core.IsNamed(mt.Key(), pkgPath("token"), "Type") {
				return true
			}
			if b, ok := mt.Elem().Underlying().(*types.Basic); !ok || b.Info()&types.IsInteger == 0 {
				return true
			}
			for _, e := range cl.Elts {
				kv, ok := e.(*ast.KeyValueExpr)
				if !ok {
					continue
				}
				k, _ := objOf(info, kv.Key).(*types.Const)
				tv, has := info.Types[kv.Value]
				if k == nil || !has || tv.Value == nil {
					continue
				}
				if v, ok := constantInt64(tv.Value); ok {
					if _, shared := goPrec[k.Name()]; shared {
						risor[k.Name()] = v
						pos[k.Name()] = posOf(p, kv)
					}
				}
			}
			return true
		})
	}
	if len(risor) < 12 {
		core.Undecidedf("only %d of the operators shared with Go found in a precedence table of package parser", len(risor))
	}
	var names []string
	for n := range risor {
		names = append(names, n)
	}
	sort.Strings(names)
	n := 0
	for _, a := range names {
		for _, b := range names {
			if goPrec[a] >= goPrec[b] {
				continue
			}
			n++
			ok := risor[a] <= risor[b]
			if ok {
				continue
			}
			c.Check(false, "parser.precedences|"+a+"<"+b+"|as-in-go", pos[b],
				sprintf("Go binds %s less tightly than %s; the table gives %s precedence %d and %s precedence %d: an expression that mixes the two without parentheses is grouped the other way round", a, b, a, risor[a], b, risor[b]))
		}
	}
	c.Pass("parser.precedences|shared-operators-in-go-order", "", sprintf("%d ordered pairs of the %d operators shared with Go examined", n, len(names)))
	c.Stat("operator_pairs", n)
}

// ---------------------------------------------------------------------------
// theRollbackCoversWhatCompilingGrows (C17, C18): a type of the compiler that
// can be put back to a recorded state (it has a restore method) puts back
// every slice that compiling appends to.  A slice that is left out keeps what
// a rejected input added - the code objects of its functions stay children of
// the main code, and the marshaller writes them out with ids that the rollback
// took back.
func theRollbackCoversWhatCompilingGrows(c *core.Ctx) {
	p := c.P
	cp := p.Pkg("compiler")
	info := cp.TypesInfo
	// types with a restore method, and the fields that method assigns
	restored := map[*types.Named]map[*types.Var]bool{}
	funcBodies(cp, func(fn *types.Func, fd *ast.FuncDecl) {
		nt := core.RecvNamed(fn)
		if nt == nil || fn.Name() != "restore" {
			return
		}
		set := map[*types.Var]bool{}
		ast.Inspect(fd.Body, func(nd ast.Node) bool {
			if as, ok := nd.(*ast.AssignStmt); ok {
				for _, l := range as.Lhs {
					if f := rootField(info, l, nt); f != nil {
						set[f] = true
					}
				}
			}
			return true
		})
		restored[nt] = set
	})
	if len(restored) < 2 {
		core.Undecidedf("only %d types of package compiler have a restore method", len(restored))
	}
	// slice fields of those types that something else appends to
	type grow struct {
		by  string
		pos string
	}
	grown := map[*types.Var]grow{}
	owner := map[*types.Var]*types.Named{}
	funcBodies(cp, func(fn *types.Func, fd *ast.FuncDecl) {
		if fn.Name() == "restore" {
			return
		}
		ast.Inspect(fd.Body, func(nd ast.Node) bool {
			as, ok := nd.(*ast.AssignStmt)
			if !ok || len(as.Lhs) != 1 || len(as.Rhs) != 1 {
				return true
			}
			ce, ok := ast.Unparen(as.Rhs[0]).(*ast.CallExpr)
			if !ok || !isBuiltinCall(info, ce, "append") {
				return true
			}
			f := fieldOf(info, as.Lhs[0])
			if f == nil {
				return true
			}
			for nt := range restored {
				st := nt.Underlying().(*types.Struct)
				for i := 0; i < st.NumFields(); i++ {
					if st.Field(i) == f {
						if _, seen := grown[f]; !seen {
							grown[f] = grow{by: declName(fd), pos: posOf(p, as)}
							owner[f] = nt
						}
					}
				}
			}
			return true
		})
	})
	var fs []*types.Var
	for f := range grown {
		fs = append(fs, f)
	}
	sort.Slice(fs, func(i, j int) bool { return owner[fs[i]].Obj().Name()+fs[i].Name() < owner[fs[j]].Obj().Name()+fs[j].Name() })
	for _, f := range fs {
		nt := owner[f]
		ok := restored[nt][f]
		c.Check(ok, "compiler."+nt.Obj().Name()+".restore|"+f.Name()+"|put-back", grown[f].pos,
			nt.Obj().Name()+"."+f.Name()+" grows while an input is compiled (in "+grown[f].by+")"+ife(ok, ", and restore puts it back", ", and restore does not touch it: what a rejected input appended stays, and is seen by whoever walks the field afterwards (the marshaller)"))
	}
	if len(fs) < 3 {
		core.Undecidedf("only %d fields that compiling appends to", len(fs))
	}
	c.Stat("grown_fields", len(fs))
}

// ---------------------------------------------------------------------------
// aTypesNameIsNotItsIdentity (C08): what the boundary remembers about a Go
// type is remembered under the reflect.Type itself.  The printed name
// (Type.String, Type.Name) is the same for two types of the same package name
// and type name from different import paths: a memo keyed by it hands the
// second type what was made for the first - methods that take and return the
// other type's values.
func aTypesNameIsNotItsIdentity(c *core.Ctx) {
	p := c.P
	n, bad := 0, 0
	isTypeName := func(w ssa.Value) bool {
		call, ok := w.(*ssa.Call)
		if !ok || !call.Call.IsInvoke() {
			return false
		}
		if !core.IsNamed(call.Call.Value.Type(), "reflect", "Type") {
			return false
		}
		return call.Call.Method.Name() == "String" || call.Call.Method.Name() == "Name"
	}
	for _, fn := range repoFns(p, "object") {
		for _, b := range fn.Blocks {
			for _, in := range b.Instrs {
				var key ssa.Value
				var m ssa.Value
				switch x := in.(type) {
				case *ssa.MapUpdate:
					key, m = x.Key, x.Map
				case *ssa.Lookup:
					if _, isMap := x.X.Type().Underlying().(*types.Map); isMap {
						key, m = x.Index, x.X
					}
				}
				if key == nil || !core.IsStringType(key.Type()) {
					continue
				}
				// a table that outlives the call: a package-level variable or a field
				longLived := false
				for _, o := range core.Origins(m) {
					if u, ok := o.(*ssa.UnOp); ok {
						switch u.X.(type) {
						case *ssa.Global, *ssa.FieldAddr:
							longLived = true
						}
					}
				}
				if !longLived {
					continue
				}
				n++
				if isTypeName(key) || core.DependsOn(key, isTypeName) {
					bad++
					c.Check(false, core.SSAName(fn)+"|table-keyed-by-a-type's-name|"+itoa(bad), p.Pos(in.Pos()),
						core.SSAName(fn)+" keeps something under a key made from reflect.Type.String()/Name(): two Go types with the same package name and type name (from different import paths) share the entry, and the second is handed what was built for the first")
				}
			}
		}
	}
	c.Pass("object|tables-keyed-by-strings", "", sprintf("%d accesses of long-lived string-keyed tables in package object; none is keyed by a type's printed name", n))
	c.Stat("string_keyed_table_accesses", n)
}

// ---------------------------------------------------------------------------
// methodNamesComeBeforeItems (C16): a container that answers an attribute both
// with its methods and with its items (m.keys, m.count) decides for the method
// first: the look into the items stands behind the failing branch of every
// comparison of the name with a method's name.  The other order makes an item
// whose key is spelled like a method take the method's place - m.pop("a") calls
// the item, or fails - for that one map only.
func methodNamesComeBeforeItems(c *core.Ctx) {
	p := c.P
	n := 0
	for _, fn := range repoFns(p, "object") {
		if fn.Name() != "GetAttr" || fn.Signature.Recv() == nil || len(fn.Params) != 2 || !core.IsStringType(fn.Params[1].Type()) {
			continue
		}
		recv, name := ssa.Value(fn.Params[0]), ssa.Value(fn.Params[1])
		// the look into a map field of the receiver under the attribute's name
		var lookups []*ssa.Lookup
		// the comparisons of the name with constants, with the block of the failing branch
		var failing []*ssa.BasicBlock
		for _, b := range fn.Blocks {
			for _, in := range b.Instrs {
				switch x := in.(type) {
				case *ssa.Lookup:
					if x.Index != name {
						continue
					}
					if u, ok := x.X.(*ssa.UnOp); ok {
						if fa, ok := u.X.(*ssa.FieldAddr); ok {
							// (the receiver may sit in a cell, when a closure captures it)
							for _, o := range core.Origins(fa.X) {
								if o == recv {
									lookups = append(lookups, x)
								}
							}
						}
					}
				case *ssa.BinOp:
					if x.Op != token.EQL || x.Referrers() == nil {
						continue
					}
					_, kx := x.X.(*ssa.Const)
					_, ky := x.Y.(*ssa.Const)
					if !((x.X == name && ky) || (x.Y == name && kx)) {
						continue
					}
					for _, r := range *x.Referrers() {
						if iff, ok := r.(*ssa.If); ok {
							failing = append(failing, iff.Block().Succs[1])
						}
					}
				}
			}
		}
		if len(lookups) == 0 || len(failing) < 3 {
			continue
		}
		for i, lk := range lookups {
			n++
			behind := 0
			for _, f := range failing {
				if f == lk.Block() || f.Dominates(lk.Block()) {
					behind++
				}
			}
			ok := behind == len(failing)
			c.Check(ok, core.SSAName(fn)+"|items-consulted-after-the-method-names|"+itoa(i+1), p.Pos(lk.Pos()),
				core.SSAName(fn)+" looks the attribute up among the items"+ife(ok, sprintf(" only after all %d comparisons with a method's name have failed", len(failing)), sprintf(" before %d of the %d comparisons with a method's name: an item with the key of a method is handed out in the method's place", len(failing)-behind, len(failing))))
		}
	}
	if n == 0 {
		core.Undecidedf("no container answers attributes from its items as well as with methods")
	}
	c.Stat("attribute_lookups_into_items", n)
}

// ---------------------------------------------------------------------------
// whatATableMayNotHoldIsNotDereferenced (C03, C02, C09): in package vm, a
// pointer read from a table with the one-value form of the index expression is
// nil when the key is absent.  It is not dereferenced - here, or by the
// function it is handed to - unless it has been compared with nil, or the
// look-up stands behind a test that the key is present.  The tables of loaded
// code are emptied by RunCode and snapshotted by Clone: a function value
// outlives both, and calling it then looks its root code up in a table that no
// longer (or not yet) holds it.
func whatATableMayNotHoldIsNotDereferenced(c *core.Ctx) {
	p := c.P
	n := 0
	derefsParam := func(cal *ssa.Function, idx int) bool {
		if cal.Blocks == nil || idx >= len(cal.Params) {
			return false
		}
		prm := ssa.Value(cal.Params[idx])
		if prm.Referrers() == nil {
			return false
		}
		deref, tested := false, false
		for _, r := range *prm.Referrers() {
			switch x := r.(type) {
			case *ssa.FieldAddr:
				if x.X == prm {
					deref = true
				}
			case *ssa.BinOp:
				if k, ok := x.Y.(*ssa.Const); ok && k.IsNil() {
					tested = true
				}
				if k, ok := x.X.(*ssa.Const); ok && k.IsNil() {
					tested = true
				}
			}
		}
		return deref && !tested
	}
	for _, fn := range repoFns(p, "vm") {
		k := 0
		for _, b := range fn.Blocks {
			for _, in := range b.Instrs {
				lk, ok := in.(*ssa.Lookup)
				if !ok || lk.CommaOk {
					continue
				}
				mt, ok := lk.X.Type().Underlying().(*types.Map)
				if !ok {
					continue
				}
				if _, isPtr := mt.Elem().Underlying().(*types.Pointer); !isPtr || lk.Referrers() == nil {
					continue
				}
				// the same key was found present on the way here (a comma-ok look-up of the same table and key whose ok branch dominates)
				present := false
				for _, b2 := range fn.Blocks {
					for _, in2 := range b2.Instrs {
						l2, ok := in2.(*ssa.Lookup)
						if !ok || !l2.CommaOk || l2.Index != lk.Index || l2.Referrers() == nil {
							continue
						}
						for _, r := range *l2.Referrers() {
							if ex, ok := r.(*ssa.Extract); ok && ex.Index == 1 && core.BoolGuardDominates(ex, true, b) {
								present = true
							}
						}
					}
				}
				tested := false
				where := ""
				for _, r := range *lk.Referrers() {
					switch x := r.(type) {
					case *ssa.BinOp:
						tested = true
					case *ssa.FieldAddr:
						if x.X == ssa.Value(lk) {
							where = "dereferenced at " + p.Pos(x.Pos())
						}
					case ssa.CallInstruction:
						cal := x.Common().StaticCallee()
						if cal == nil {
							continue
						}
						for i, a := range x.Common().Args {
							if a == ssa.Value(lk) && derefsParam(cal, i) {
								where = "handed to " + cal.Name() + ", which dereferences it, at " + p.Pos(x.Pos())
							}
						}
					}
				}
				if where == "" {
					continue
				}
				n++
				k++
				okk := tested || present
				c.Check(okk, core.SSAName(fn)+"|table-entry-dereferenced|"+itoa(k), p.Pos(lk.Pos()),
					core.SSAName(fn)+" reads a pointer from a table and it is "+where+ife(okk, ", after a test for nil or for the presence of the key", " with no test for nil and no test that the key is present: when the table does not hold the key (it was emptied by a later RunCode, or it is a clone's snapshot taken before the entry was made) this is a nil dereference"))
			}
		}
	}
	c.Pass("vm|table-entries", "", sprintf("%d pointers read from tables of package vm and dereferenced", n))
	c.Stat("table_entries_dereferenced", n)
}

// ---------------------------------------------------------------------------
// aValidatorJudgesTheStringItWasGiven (C14): the function that decides whether
// an import path has the permitted shape decides about the string it was
// given, which is the string the caller keeps (C14-R8).  A validator that
// edits its argument first (trims quotes, folds case) accepts strings whose
// edited form is fine: the path that is used afterwards is another one than
// the path that was judged (`import "\"m"` names the file `"m.risor`).
func aValidatorJudgesTheStringItWasGiven(c *core.Ctx) {
	p := c.P
	editing := func(name string) bool {
		switch {
		case len(name) >= 4 && name[:4] == "Trim", len(name) >= 7 && name[:7] == "Replace", len(name) >= 2 && name[:2] == "To", name == "Map", name == "Title":
			return true
		}
		return false
	}
	n := 0
	for _, fn := range repoFns(p, "parser") {
		if len(fn.Name()) < 8 || fn.Name()[:8] != "validate" || len(fn.Params) != 1 || !core.IsStringType(fn.Params[0].Type()) {
			continue
		}
		n++
		prm := ssa.Value(fn.Params[0])
		bad := ""
		for _, b := range fn.Blocks {
			for _, in := range b.Instrs {
				call, ok := in.(*ssa.Call)
				if !ok {
					continue
				}
				cal := call.Call.StaticCallee()
				if cal == nil || cal.Pkg == nil || cal.Pkg.Pkg.Path() != "strings" || !editing(cal.Name()) || !core.IsStringType(call.Type()) {
					continue
				}
				for _, a := range call.Call.Args {
					if a == prm || core.DependsOn(a, func(w ssa.Value) bool { return w == prm }) {
						bad = "strings." + cal.Name() + " at " + p.Pos(call.Pos())
					}
				}
			}
		}
		c.Check(bad == "", core.SSAName(fn)+"|judges-the-string-it-was-given", p.Pos(fn.Pos()),
			core.SSAName(fn)+ife(bad == "", " tests the string it was given, unedited", " edits the string it was given ("+bad+") before it tests it: what it accepts is the edited string, and what the caller keeps and uses is the one it was given"))
	}
	if n == 0 {
		core.Undecidedf("no validator of a string in package parser")
	}
	c.Stat("string_validators", n)
}

// ---------------------------------------------------------------------------
// anInfinityIsOrderedByItsSign (C15): a Compare that treats the infinities
// apart looks at which one it has.  math.IsInf(x, 0) is true for both; a
// branch under it that answers "less" (or "greater") outright puts every
// number below minus infinity as well, while the other operand's Compare says
// the opposite: a < b and b < a hold together and sorting depends on the
// arrangement.
func anInfinityIsOrderedByItsSign(c *core.Ctx) {
	p := c.P
	n, sites := 0, 0
	for _, fn := range repoFns(p, "object") {
		if fn.Name() != "Compare" || fn.Signature.Recv() == nil {
			continue
		}
		n++
		for _, b := range fn.Blocks {
			for _, in := range b.Instrs {
				call, ok := in.(*ssa.Call)
				if !ok {
					continue
				}
				cal := call.Call.StaticCallee()
				if cal == nil || cal.Pkg == nil || cal.Pkg.Pkg.Path() != "math" || cal.Name() != "IsInf" || len(call.Call.Args) != 2 {
					continue
				}
				k, isConst := call.Call.Args[1].(*ssa.Const)
				if !isConst || k.Int64() != 0 {
					continue // asks for one of the two
				}
				sites++
				// the blocks that run when the answer is (or may be, through ||) yes
				bad := ""
				var visit func(v ssa.Value, depth int)
				visit = func(v ssa.Value, depth int) {
					if v.Referrers() == nil || depth > 3 {
						return
					}
					for _, r := range *v.Referrers() {
						switch x := r.(type) {
						case *ssa.If:
							yes := x.Block().Succs[0]
							for _, yin := range yes.Instrs {
								if ret, ok := yin.(*ssa.Return); ok && len(ret.Results) > 0 {
									if kc, ok := ret.Results[0].(*ssa.Const); ok && kc.Value != nil && kc.Int64() != 0 {
										bad = p.Pos(ret.Pos())
									}
								}
							}
						case *ssa.Phi:
							visit(x, depth+1)
						case *ssa.BinOp:
							visit(x, depth+1)
						}
					}
				}
				visit(call, 0)
				c.Check(bad == "", core.SSAName(fn)+"|IsInf(x, 0)|does-not-decide-the-order|"+itoa(sites), p.Pos(call.Pos()),
					core.SSAName(fn)+" asks whether the other operand is an infinity of either sign"+ife(bad == "", " and does not answer the order on that alone", " and answers "+"the order outright (the return at "+bad+"): minus infinity is ordered like plus infinity, and the two operands' Compare methods contradict each other"))
			}
		}
	}
	c.Pass("object|compare-and-infinities", "", sprintf("%d Compare methods examined, %d ask math.IsInf(x, 0)", n, sites))
	c.Stat("compare_methods", n)
}
