package rules

import (
	"go/ast"
	"go/token"
	"go/types"
	"strings"

	"risorcheck/core"
)

func init() {
	core.Register(&core.Property{
		ID: "C20",
		Decided: "Shape conditions of layout independence and of positioned diagnostics (tree equality under all layout variants is NOT decided): " +
			"(R1) token start after the last skip: in the lexer's Next, on every path to the dispatch on the current character the last call that consumes input (skipping blanks or comments) is followed by recording the token start position, or the path restarts Next; " +
			"(R2) positioned lexer errors: every error return of the lexer's token functions returns a token built by the token constructor (positions set), never a zero token; " +
			"(R3) rendering never fails: repeat counts in the error formatter are clamped (same rule as C03-R2b); " +
			"(R4) one token per diagnostic: in every ErrorOpts literal the expressions feeding StartPosition, EndPosition and SourceCode name the same token; errors installed in the parser are built by the parser from its own tokens (an error object produced by a nested parser is re-anchored, never installed as is); " +
			"(R5) infix parse functions fix the operator's precedence before they advance the token stream (a precedence looked up after skipping newlines belongs to a different token).",
		NotCovered:  "Where newlines are accepted (that defines the grammar), CRLF handling, equality of the trees of re-laid-out programs.",
		Assumptions: []string{"the parser takes the position of lexer errors from the token returned with the error"},
		Rules: []*core.Rule{
			{ID: "C20-R1", Title: "token start recorded after the last skip", Floor: 1, Run: c20r1},
			{ID: "C20-R2", Title: "lexer errors return positioned tokens", Floor: 4, Run: c20r2},
			{ID: "C20-R3", Title: "error rendering cannot fail", Floor: 1, Run: c20r3},
			{ID: "C20-R4", Title: "one token per diagnostic; errors built from the parser's own tokens", Floor: 6, Run: c20r4},
			{ID: "C20-R5", Title: "operator precedence fixed before advancing", Floor: 1, Run: c20r5},
			{ID: "C20-R7", Title: "character positions (rune indices) are not used as byte offsets (shared with C16-R5)", Floor: 10, Run: unitsRule},
			{ID: "C20-R8", Title: "source-order comparisons are lexicographic (shared with C05-R5)", Floor: 1, Run: lexicographicBoth},
			{ID: "C20-R9", Title: "the lexer indexes and slices only under a length test (shared with C03-R10)", Floor: 1, Run: lexerIndexingGuarded},
			{ID: "C20-R6", Title: "error renderers index and slice only under a length test (shared with C03-R6)", Floor: 5, Run: formatterBounds},
			{ID: "C20-R10", Title: "the lexer's cursor fields move together", Floor: 1, Run: cursorFieldsMoveTogether},
			{ID: "C20-R11", Title: "every spelling of a line break is lexed under the same conditions", Floor: 1, Run: lineEndingsTreatedAlike},
			{ID: "C20-R12", Title: "runs of line breaks are stepped over by loops", Floor: 1, Run: newlineRunsSkippedByLoops},
			{ID: "C20-R13", Title: "diagnostics are not built by using a message as a format (shared with C01)", Floor: 1, Run: messagesAreNotFormats},
			{ID: "C20-R14", Title: "the lexer's cursor stops just past the input", Floor: 1, Run: cursorStopsJustPastTheInput},
			{ID: "C20-R15", Title: "fragments parsed on their own are rebased to their place in the source", Floor: 1, Run: fragmentsAreRebased},
			{ID: "C20-R16", Title: "comments are skipped until none is left", Floor: 1, Run: commentsAreSkippedUntilNoneIsLeft},
			{ID: "C20-R17", Title: "closers are tested after the newlines", Floor: 2, Run: closersAreTestedAfterTheNewlines},
			{ID: "C20-R18", Title: "binary operators step over newlines", Floor: 3, Run: binaryOperatorsStepOverNewlines},
			{ID: "C20-R19", Title: "closers of sequences are expected after the newlines", Floor: 3, Run: closersAreExpectedAfterTheNewlines},
			{ID: "C20-R20", Title: "block comments end at the first closer", Floor: 1, Run: blockCommentsEndAtTheFirstCloser},
			{ID: "C20-R21", Title: "diagnostics store their text as given", Floor: 3, Run: diagnosticsStoreTheirTextAsGiven},
			{ID: "C20-R22", Title: "compile errors carry a position", Floor: 10, Run: compileErrorsCarryAPosition},
			{ID: "C20-R23", Title: "commas are followed by a step over line breaks", Floor: 5, Run: commasAreFollowedByANewlineStep},
			{ID: "C20-R24", Title: "nodes are not built on the token before without a look at it", Floor: 1, Run: nodesAreNotBuiltOnTheTokenBefore},
			{ID: "C20-R25", Title: "separators are required between the items of a list", Floor: 1, Run: separatorsAreRequired},
			{ID: "C20-R26", Title: "the rollback restores what compilation moves (shared with C18-R18)", Floor: 1, Run: rollbackRestoresWhatCompilationMoves},
			{ID: "C20-R27", Title: "a group that spans lines closes after a line break too", Floor: 1, Run: aGroupThatSpansLinesClosesAfterALineBreakToo},
			{ID: "C20-R28", Title: "positions from template fragments do not outlive the fragment", Floor: 1, Run: positionsFromFragmentsDoNotOutliveTheFragment},
			{ID: "C20-R29", Title: "text copied across line ends drops the carriage return", Floor: 1, Run: textCopiedAcrossLineEndsDropsTheCarriageReturn},
			{ID: "C20-R30", Title: "a step over line breaks stands where the line break is", Floor: 1, Run: aStepOverLineBreaksStandsWhereTheLineBreakIs},
			{ID: "C20-R31", Title: "errors about a node are reported at the node", Floor: 20, Run: errorsAboutANodeAreReportedAtTheNode},
		},
	})
}

type lexRoles struct {
	next      *types.Func
	nextDecl  *ast.FuncDecl
	startF    *types.Var // tokenStartPosition field
	newToken  *types.Func
	consumers map[*types.Func]bool // methods that (transitively) advance the input
}

func resolveLexer(p *core.Program) *lexRoles {
	lp := p.Pkg("lexer")
	info := lp.TypesInfo
	lt := core.MustType(lp, "Lexer")
	r := &lexRoles{consumers: map[*types.Func]bool{}}
	// Next: method returning (token.Token, error) containing a switch over the current character with many clauses
	for _, m := range core.Methods(lt) {
		sig := m.Type().(*types.Signature)
		if sig.Params().Len() != 0 || sig.Results().Len() != 2 || !core.IsNamed(sig.Results().At(0).Type(), pkgPath("token"), "Token") {
			continue
		}
		fd := p.Decl(m)
		big := false
		ast.Inspect(fd.Body, func(n ast.Node) bool {
			if sw, ok := n.(*ast.SwitchStmt); ok && len(sw.Body.List) >= 15 {
				big = true
			}
			return true
		})
		if big {
			r.next, r.nextDecl = m, fd
		}
	}
	if r.next == nil {
		core.Undecidedf("lexer Next (method returning (token.Token, error) with the character dispatch) not found")
	}
	// token constructor: method returning token.Token with a composite literal setting StartPosition from a field
	for _, m := range core.Methods(lt) {
		sig := m.Type().(*types.Signature)
		if sig.Results().Len() != 1 || !core.IsNamed(sig.Results().At(0).Type(), pkgPath("token"), "Token") {
			continue
		}
		fd := p.Decl(m)
		ast.Inspect(fd.Body, func(n ast.Node) bool {
			if kv, ok := n.(*ast.KeyValueExpr); ok {
				if id, ok := kv.Key.(*ast.Ident); ok && id.Name == "StartPosition" {
					if f := fieldOf(info, kv.Value); f != nil {
						r.startF, r.newToken = f, m
					}
				}
			}
			return true
		})
	}
	if r.newToken == nil {
		core.Undecidedf("lexer token constructor (sets StartPosition from a lexer field) not found")
	}
	// consumers: methods that change the read position (assign/increment fields named position-like) transitively
	direct := map[*types.Func]bool{}
	for _, m := range core.Methods(lt) {
		fd := p.Decl(m)
		if fd == nil || fd.Body == nil || m == r.next {
			continue
		}
		ast.Inspect(fd.Body, func(n ast.Node) bool {
			switch x := n.(type) {
			case *ast.AssignStmt:
				for _, l := range x.Lhs {
					if f := fieldOf(info, l); f != nil && f != r.startF && (f.Name() == "ch" || strings.Contains(strings.ToLower(f.Name()), "position") && f.Name() != r.startF.Name()) {
						direct[m] = true
					}
				}
			case *ast.IncDecStmt:
				if f := fieldOf(info, x.X); f != nil && f != r.startF {
					direct[m] = true
				}
			}
			return true
		})
	}
	for m := range direct {
		r.consumers[m] = true
	}
	for changed := true; changed; {
		changed = false
		for _, m := range core.Methods(lt) {
			if r.consumers[m] || m == r.next {
				continue
			}
			fd := p.Decl(m)
			if fd == nil || fd.Body == nil {
				continue
			}
			ast.Inspect(fd.Body, func(n ast.Node) bool {
				if ce, ok := n.(*ast.CallExpr); ok && r.consumers[calleeOf(info, ce)] {
					r.consumers[m] = true
					changed = true
				}
				return true
			})
		}
	}
	return r
}

func c20r1(c *core.Ctx) {
	p := c.P
	r := resolveLexer(p)
	info := p.Pkg("lexer").TypesInfo
	// the prologue of Next: statements before the character switch
	var sw *ast.SwitchStmt
	for _, s := range r.nextDecl.Body.List {
		if x, ok := s.(*ast.SwitchStmt); ok && len(x.Body.List) >= 15 {
			sw = x
		}
	}
	if sw == nil {
		core.Undecidedf("character dispatch is not a top-level statement of Next")
	}
	// walk the prologue tracking "dirty" = input consumed since the start position was last recorded
	type state struct{ dirty, live bool }
	var bad []string
	var walk func(stmts []ast.Stmt, st state) state
	consumes := func(n ast.Node) bool {
		found := false
		ast.Inspect(n, func(k ast.Node) bool {
			if ce, ok := k.(*ast.CallExpr); ok && r.consumers[calleeOf(info, ce)] {
				found = true
			}
			return true
		})
		return found
	}
	walk = func(stmts []ast.Stmt, st state) state {
		for _, s := range stmts {
			if !st.live {
				return st
			}
			switch x := s.(type) {
			case *ast.AssignStmt:
				records := false
				for _, l := range x.Lhs {
					if fieldOf(info, l) == r.startF {
						records = true
					}
				}
				if records {
					st.dirty = false
				} else if consumes(x) {
					st.dirty = true
				}
			case *ast.ExprStmt:
				if consumes(x) {
					st.dirty = true
				}
			case *ast.ReturnStmt:
				// restart (return l.Next()) or a final return: path ends
				st.live = false
			case *ast.IfStmt:
				if x.Init != nil && consumes(x.Init) {
					st.dirty = true
				}
				t := walk(x.Body.List, st)
				f := st
				if x.Else != nil {
					f = walk([]ast.Stmt{x.Else}, st)
				}
				// join: dirty if either live branch is dirty
				st = state{dirty: (t.live && t.dirty) || (f.live && f.dirty), live: t.live || f.live}
			case *ast.BlockStmt:
				st = walk(x.List, st)
			default:
				if consumes(s) {
					st.dirty = true
				}
			}
		}
		return st
	}
	var prologue []ast.Stmt
	for _, s := range r.nextDecl.Body.List {
		if s == ast.Stmt(sw) {
			break
		}
		prologue = append(prologue, s)
	}
	end := walk(prologue, state{dirty: true, live: true})
	if end.live && end.dirty {
		bad = append(bad, "a path reaches the character dispatch after consuming input (skipped blanks/comment) without recording "+r.startF.Name()+" again or restarting")
	}
	c.Check(len(bad) == 0, "lexer.Lexer."+r.next.Name()+"|start-after-last-skip", posOf(p, r.nextDecl),
		"on every path to the character dispatch the token start position is recorded after the last skipped input (otherwise tokens after a comment carry the comment's position and diagnostics point into the comment)", bad...)
	c.Pass("lexer.Lexer."+r.next.Name()+"|roles", posOf(p, r.nextDecl), sprintf("lexer roles resolved: start field %s, token constructor %s, %d input-consuming methods", r.startF.Name(), r.newToken.Name(), len(r.consumers)))
}

func c20r2(c *core.Ctx) {
	p := c.P
	r := resolveLexer(p)
	lp := p.Pkg("lexer")
	info := lp.TypesInfo
	n := 0
	// token builders: the token constructor, and the functions of the lexer
	// that return one token and on every path return what a builder gave them
	// (a helper that reads a two-character operator and builds its token)
	builders := map[*types.Func]bool{r.newToken: true}
	for changed := true; changed; {
		changed = false
		funcBodies(lp, func(fn *types.Func, fd *ast.FuncDecl) {
			sig := fn.Type().(*types.Signature)
			if builders[fn] || sig.Results().Len() != 1 || !core.IsNamed(sig.Results().At(0).Type(), pkgPath("token"), "Token") {
				return
			}
			assigns := localAssignments(info, fd.Body)
			built := func(e ast.Expr) bool {
				ce, ok := ast.Unparen(e).(*ast.CallExpr)
				return ok && builders[calleeOf(info, ce)]
			}
			all, any := true, false
			ast.Inspect(fd.Body, func(nd ast.Node) bool {
				if _, isLit := nd.(*ast.FuncLit); isLit {
					return false
				}
				ret, ok := nd.(*ast.ReturnStmt)
				if !ok || len(ret.Results) != 1 {
					return true
				}
				any = true
				okr := built(ret.Results[0])
				if id, isId := ast.Unparen(ret.Results[0]).(*ast.Ident); isId {
					rh := assigns[info.Uses[id]]
					okr = len(rh) > 0
					for _, x := range rh {
						if !built(x) {
							okr = false
						}
					}
				}
				if !okr {
					all = false
				}
				return true
			})
			if all && any {
				builders[fn] = true
				changed = true
			}
		})
	}
	funcBodies(lp, func(fn *types.Func, fd *ast.FuncDecl) {
		sig := fn.Type().(*types.Signature)
		if sig.Results().Len() != 2 || !core.IsNamed(sig.Results().At(0).Type(), pkgPath("token"), "Token") || !isErrorType(sig.Results().At(1).Type()) {
			return
		}
		idx := 0
		assigns := localAssignments(info, fd.Body)
		ast.Inspect(fd.Body, func(nd ast.Node) bool {
			ret, ok := nd.(*ast.ReturnStmt)
			if !ok || len(ret.Results) != 2 || isNilIdent(info, ret.Results[1]) {
				return true
			}
			n++
			idx++
			// token expression: constructor call, or a variable assigned from the constructor / from a token function
			positioned := func(e ast.Expr) bool {
				e = ast.Unparen(e)
				if ce, ok := e.(*ast.CallExpr); ok {
					cal := calleeOf(info, ce)
					return cal == r.newToken || builders[cal] || (cal != nil && cal.Type().(*types.Signature).Results().Len() == 2 && core.IsNamed(cal.Type().(*types.Signature).Results().At(0).Type(), pkgPath("token"), "Token"))
				}
				return false
			}
			okp := positioned(ret.Results[0])
			if id, ok := ast.Unparen(ret.Results[0]).(*ast.Ident); ok {
				rh := assigns[info.Uses[id]]
				okp = len(rh) > 0
				for _, x := range rh {
					if !positioned(x) {
						okp = false
					}
				}
				// `tok, err = l.readString(...)`: tuple assignment recorded as the call
			}
			if _, isLit := ast.Unparen(ret.Results[0]).(*ast.CompositeLit); isLit {
				okp = false
			}
			c.Check(okp, "lexer."+declName(fd)+"|error-return#"+itoa(idx), posOf(p, ret), "an error return of "+declName(fd)+" carries a token built at the current position (the parser reports the position of that token; a zero token reads as line 1, column 1)")
			return true
		})
	})
	c.Stat("lexer_error_returns", n)
}

func c20r3(c *core.Ctx) {
	p := c.P
	pp := p.Pkg("parser")
	info := pp.TypesInfo
	n := 0
	funcBodies(pp, func(fn *types.Func, fd *ast.FuncDecl) {
		if !strings.Contains(fn.Name(), "Friendly") && fn.Name() != "Error" {
			return
		}
		assigns := localAssignments(info, fd.Body)
		idx := 0
		ast.Inspect(fd.Body, func(nd ast.Node) bool {
			ce, ok := nd.(*ast.CallExpr)
			if !ok || len(ce.Args) != 2 {
				return true
			}
			cal := calleeOf(info, ce)
			if !core.IsPkgFunc(cal, "strings", "Repeat") && !core.IsPkgFunc(cal, "bytes", "Repeat") {
				return true
			}
			n++
			idx++
			risky := hasSubtraction(info, ce.Args[1], assigns, 0)
			c.Check(!risky || isClamped(info, fd, ce.Args[1]), "parser."+declName(fd)+"|repeat#"+itoa(idx), posOf(p, ce), "repeat count "+exprStr(ce.Args[1])+" in the error renderer cannot be negative")
			return true
		})
	})
	if n == 0 {
		c.Pass("parser|no-repeat-in-renderer", "parser", "the error renderer uses no Repeat with a computed count")
	}
}

func c20r4(c *core.Ctx) {
	p := c.P
	pp := p.Pkg("parser")
	info := pp.TypesInfo
	parserT := core.MustType(pp, "Parser")
	n := 0
	// (a) ErrorOpts literals: StartPosition / EndPosition / SourceCode from the same token expression
	funcBodies(pp, func(fn *types.Func, fd *ast.FuncDecl) {
		idx := 0
		ast.Inspect(fd.Body, func(nd ast.Node) bool {
			cl, ok := nd.(*ast.CompositeLit)
			if !ok || !core.IsNamed(info.TypeOf(cl), pkgPath("parser"), "ErrorOpts") {
				return true
			}
			toks := map[string]string{}
			for _, e := range cl.Elts {
				kv, ok := e.(*ast.KeyValueExpr)
				if !ok {
					continue
				}
				key := exprStr(kv.Key)
				switch key {
				case "StartPosition", "EndPosition":
					if se, ok := ast.Unparen(kv.Value).(*ast.SelectorExpr); ok {
						toks[key] = exprStr(se.X)
					} else {
						toks[key] = exprStr(kv.Value)
					}
				case "SourceCode":
					if ce, ok := ast.Unparen(kv.Value).(*ast.CallExpr); ok && len(ce.Args) == 1 {
						toks[key] = exprStr(ce.Args[0])
					} else if se, ok := ast.Unparen(kv.Value).(*ast.SelectorExpr); ok && fieldOf(info, se) != nil {
						// taken over from another diagnostic, like its positions
						toks[key] = exprStr(se.X)
					} else if _, isLit := ast.Unparen(kv.Value).(*ast.BasicLit); !isLit {
						// a line that is looked up from something else than a token (the
						// lexer's current line): not the line of the token that is reported
						toks[key] = "(" + exprStr(kv.Value) + ")"
					}
				}
			}
			if len(toks) < 2 {
				return true
			}
			n++
			idx++
			same := true
			var first string
			for _, v := range toks {
				if first == "" {
					first = v
				} else if v != first {
					same = false
				}
			}
			c.Check(same, "parser."+declName(fd)+"|ErrorOpts#"+itoa(idx), posOf(p, cl), "StartPosition, EndPosition and SourceCode of a diagnostic are taken from the same token")
			return true
		})
	})
	// (b) setError arguments are built here
	setErr := core.Method(parserT, "setError")
	if setErr != nil {
		funcBodies(pp, func(fn *types.Func, fd *ast.FuncDecl) {
			assigns := localAssignments(info, fd.Body)
			idx := 0
			ast.Inspect(fd.Body, func(nd ast.Node) bool {
				ce, ok := nd.(*ast.CallExpr)
				if !ok || calleeOf(info, ce) != setErr || len(ce.Args) != 1 {
					return true
				}
				n++
				idx++
				built := func(e ast.Expr) bool {
					c2, ok := ast.Unparen(e).(*ast.CallExpr)
					if !ok {
						return false
					}
					cal := calleeOf(info, c2)
					return cal != nil && cal.Pkg() == pp.Types && strings.HasPrefix(cal.Name(), "New") && strings.Contains(cal.Name(), "Error")
				}
				okb := built(ce.Args[0])
				if id, ok := ast.Unparen(ce.Args[0]).(*ast.Ident); ok {
					rh := assigns[info.Uses[id]]
					okb = len(rh) > 0
					for _, x := range rh {
						if !built(x) {
							okb = false
						}
					}
				}
				c.Check(okb, "parser."+declName(fd)+"|setError#"+itoa(idx), posOf(p, ce), "the error installed in the parser is constructed here from the parser's own tokens (an error produced by a nested parser carries positions and source text of the fragment it parsed)")
				return true
			})
		})
	}
	c.Stat("diagnostic_sites", n)
}

func c20r5(c *core.Ctx) {
	p := c.P
	pp := p.Pkg("parser")
	info := pp.TypesInfo
	parserT := core.MustType(pp, "Parser")
	// advancing methods: nextToken and everything that calls it
	advancing := map[*types.Func]bool{}
	if nt := core.Method(parserT, "nextToken"); nt != nil {
		advancing[nt] = true
	} else {
		core.Undecidedf("parser.nextToken not found")
	}
	for changed := true; changed; {
		changed = false
		for _, m := range core.Methods(parserT) {
			if advancing[m] {
				continue
			}
			fd := p.Decl(m)
			if fd == nil || fd.Body == nil {
				continue
			}
			ast.Inspect(fd.Body, func(n ast.Node) bool {
				if ce, ok := n.(*ast.CallExpr); ok && advancing[calleeOf(info, ce)] {
					advancing[m] = true
					changed = true
				}
				return true
			})
		}
	}
	// precedence-taking parse entry points: methods with a single int parameter named like precedence
	precTaking := map[*types.Func]bool{}
	for _, m := range core.Methods(parserT) {
		sig := m.Type().(*types.Signature)
		if sig.Params().Len() == 1 && isIntType(sig.Params().At(0).Type()) && strings.Contains(strings.ToLower(sig.Params().At(0).Name()), "prec") {
			precTaking[m] = true
		}
	}
	// infix handlers: methods with signature func(ast.Node) ast.Node
	n := 0
	for _, m := range core.Methods(parserT) {
		sig := m.Type().(*types.Signature)
		if sig.Params().Len() != 1 || sig.Results().Len() != 1 || !core.IsNamed(sig.Params().At(0).Type(), pkgPath("ast"), "Node") {
			continue
		}
		fd := p.Decl(m)
		if fd == nil || fd.Body == nil {
			continue
		}
		assigns := localAssignments(info, fd.Body)
		firstAdvance := token.NoPos
		ast.Inspect(fd.Body, func(nd ast.Node) bool {
			if ce, ok := nd.(*ast.CallExpr); ok && advancing[calleeOf(info, ce)] && !precTaking[calleeOf(info, ce)] {
				if firstAdvance == token.NoPos || ce.Pos() < firstAdvance {
					firstAdvance = ce.Pos()
				}
			}
			return true
		})
		ast.Inspect(fd.Body, func(nd ast.Node) bool {
			ce, ok := nd.(*ast.CallExpr)
			if !ok || !precTaking[calleeOf(info, ce)] || len(ce.Args) != 1 {
				return true
			}
			arg := ast.Unparen(ce.Args[0])
			if _, isConst := constInt(info, arg); isConst {
				return true
			}
			n++
			okp := true
			why := ""
			check := func(e ast.Expr) {
				// a call computing a precedence from parser state must be evaluated before the first advance
				ast.Inspect(e, func(k ast.Node) bool {
					if c2, ok := k.(*ast.CallExpr); ok {
						if cal := calleeOf(info, c2); cal != nil && core.RecvNamed(cal) == parserT && firstAdvance != token.NoPos && c2.Pos() > firstAdvance {
							okp = false
							why = cal.Name() + "() is evaluated after the token stream was advanced"
						}
					}
					return true
				})
			}
			if id, ok := arg.(*ast.Ident); ok {
				for _, rhs := range assigns[info.Uses[id]] {
					check(rhs)
				}
			} else {
				check(arg)
			}
			c.Check(okp, "parser."+declName(fd)+"|precedence-before-advance", posOf(p, ce), declName(fd)+" parses its right operand with the precedence of the operator it was invoked for, looked up before it advances over the operator and any newlines"+ifs(!okp, ": "+why))
			return true
		})
	}
	c.Stat("precedence_uses", n)
}
