package rules

import (
	"go/token"
	"go/types"
	"sort"
	"strings"

	"golang.org/x/tools/go/ssa"

	"risorcheck/core"
)

// c08r6: the globals a script sees are the conversion of what the host supplied
// now.  Every store to VirtualMachine.globals takes the result of converting the
// whole inputGlobals map (or a fresh empty map at construction); a merge that
// keeps objects converted by an earlier call serves a stale value when the host
// supplies a new Go value under a name it used before.
func c08r6(c *core.Ctx) {
	p := c.P
	vmp := p.Pkg("vm")
	vmT := core.MustType(vmp, "VirtualMachine")
	globalsF, inputF := fieldByName(vmT, "globals"), fieldByName(vmT, "inputGlobals")
	if globalsF == nil || inputF == nil {
		core.Undecidedf("VirtualMachine.globals / inputGlobals not found")
	}
	n := 0
	for fn := range p.AllFunctions() {
		if fn.Blocks == nil || fn.Pkg == nil || fn.Pkg.Pkg != vmp.Types {
			continue
		}
		if strings.HasSuffix(p.Fset.Position(fn.Pos()).Filename, "_test.go") {
			continue
		}
		for _, b := range fn.Blocks {
			for _, in := range b.Instrs {
				st, ok := in.(*ssa.Store)
				if !ok {
					continue
				}
				fa, ok := st.Addr.(*ssa.FieldAddr)
				if !ok || fieldVar(fa) != globalsF {
					continue
				}
				n++
				why := ""
				for _, o := range core.Origins(st.Val) {
					switch x := o.(type) {
					case *ssa.MakeMap:
						// fresh map: fine only if nothing is copied into it from the old globals
						if refs := x.Referrers(); refs != nil {
							for _, r := range *refs {
								if mu, ok := r.(*ssa.MapUpdate); ok && mu.Map == ssa.Value(x) {
									if core.DependsOn(mu.Value, func(w ssa.Value) bool {
										if u, ok := w.(*ssa.UnOp); ok && u.Op == token.MUL {
											if fa2, ok := u.X.(*ssa.FieldAddr); ok && fieldVar(fa2) == globalsF {
												return true
											}
										}
										return false
									}) {
										why = "entries of the previous globals map are carried over (" + p.Pos(mu.Pos()) + ")"
									}
								}
							}
						}
					case *ssa.Extract:
						call, _ := x.Tuple.(*ssa.Call)
						okc := false
						if call != nil && len(call.Call.Args) == 1 {
							if u, ok := call.Call.Args[0].(*ssa.UnOp); ok && u.Op == token.MUL {
								if fa2, ok := u.X.(*ssa.FieldAddr); ok && fieldVar(fa2) == inputF {
									okc = true
								}
							}
						}
						if !okc {
							why = "the converted map is not the conversion of the whole inputGlobals map"
						}
					case *ssa.UnOp:
						// copying another VM's converted globals (Clone): same host values
						if fa2, ok := x.X.(*ssa.FieldAddr); !ok || fieldVar(fa2) != globalsF {
							why = "unexpected source " + x.String()
						}
					case *ssa.Const:
					default:
						why = "unexpected source " + o.String()
					}
				}
				c.Check(why == "", core.SSAName(fn)+"|globals-from-current-input", p.Pos(st.Pos()),
					"vm.globals is the conversion of everything the host supplies now"+ifs(why != "", ": "+why))
			}
		}
	}
	c.Stat("globals_stores", n)
}

// c08r7: a conversion never hands out a shared mutable object.  The value
// returned by a converter (and by any object-package function returning an
// Object) is not loaded from a package-level variable whose type can be
// mutated through its methods: two unrelated Go values would otherwise convert
// to one script object, and a script that appends to one changes the other.
func c08r7(c *core.Ctx) {
	p := c.P
	op := p.Pkg("object")
	sp := p.SSAPkg(op)
	mutable := map[*types.Named]bool{}
	isMutable := func(t types.Type) bool {
		nt := core.NamedOf(t)
		if nt == nil || nt.Obj().Pkg() != op.Types {
			return false
		}
		if v, ok := mutable[nt]; ok {
			return v
		}
		mutable[nt] = false
		v := mutableAfterConstruction(p, nt)
		mutable[nt] = v
		return v
	}
	var fns []*ssa.Function
	for fn := range p.AllFunctions() {
		if fn.Blocks != nil && fn.Pkg == sp && !strings.HasSuffix(p.Fset.Position(fn.Pos()).Filename, "_test.go") {
			fns = append(fns, fn)
		}
	}
	sort.Slice(fns, func(i, j int) bool { return core.SSAName(fns[i]) < core.SSAName(fns[j]) })
	n := 0
	for _, fn := range fns {
		res := fn.Signature.Results()
		if res.Len() == 0 {
			continue
		}
		bad := ""
		checked := false
		for _, b := range fn.Blocks {
			for _, in := range b.Instrs {
				r, ok := in.(*ssa.Return)
				if !ok {
					continue
				}
				for _, rv := range r.Results {
					rv = spilledResult(b, rv)
					var visit func(v ssa.Value, d int)
					visit = func(v ssa.Value, d int) {
						if d > 4 {
							return
						}
						for _, o := range core.Origins(v) {
							switch x := o.(type) {
							case *ssa.MakeInterface:
								visit(x.X, d+1)
							case *ssa.UnOp:
								if g, ok := x.X.(*ssa.Global); ok && x.Op == token.MUL {
									checked = true
									if isMutable(x.Type()) {
										bad = g.Name() + " (" + x.Type().String() + ")"
									}
								}
							}
						}
					}
					visit(rv, 0)
				}
			}
		}
		if !checked && !strings.HasSuffix(fn.Name(), "From") && fn.Name() != "FromGoType" {
			continue
		}
		n++
		c.Check(bad == "", core.SSAName(fn)+"|no-shared-mutable-result", p.Pos(fn.Pos()),
			fn.Name()+" returns fresh objects or immutable singletons"+ifs(bad != "", ": it can return the package-level "+bad+", which scripts can mutate"))
	}
	c.Stat("functions_checked", n)
}
