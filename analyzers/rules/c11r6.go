package rules

import (
	"go/ast"
	"go/types"

	"golang.org/x/tools/go/ssa"

	"risorcheck/core"
)

// c11r6: every deny-list / override entry is processed.  A loop of a Config
// method over one of the Config's own collections that edits the globals map
// has no early exit: no break, and no return other than an error return (which
// makes the configuration fail as a whole).  The collections are Go maps, so an
// early exit would leave an arbitrary subset of the denied names in place.
func c11r6(c *core.Ctx) {
	p := c.P
	root := p.Pkg("")
	info := root.TypesInfo
	cfgT := core.MustType(root, "Config")
	n := 0
	funcBodies(root, func(fn *types.Func, fd *ast.FuncDecl) {
		if core.RecvNamed(fn) != cfgT {
			return
		}
		idx := 0
		// slices of keys collected from one of the Config's maps (to visit them in sorted order)
		keySlices := map[types.Object]*types.Var{}
		ast.Inspect(fd.Body, func(nd ast.Node) bool {
			rs, ok := nd.(*ast.RangeStmt)
			if !ok {
				return true
			}
			f := fieldOf(info, rs.X)
			if f == nil || !core.RecvNamedOfField(cfgT, f) {
				return true
			}
			ast.Inspect(rs.Body, func(k ast.Node) bool {
				as, ok := k.(*ast.AssignStmt)
				if !ok || len(as.Lhs) != 1 || len(as.Rhs) != 1 {
					return true
				}
				if ce, ok := as.Rhs[0].(*ast.CallExpr); ok && isBuiltinCall(info, ce, "append") {
					if id, ok := as.Lhs[0].(*ast.Ident); ok {
						keySlices[objOfIdent(info, id)] = f
					}
				}
				return true
			})
			return true
		})
		// ... or handed out by a helper that collects the keys of the map it is given
		// (a function from a map to a slice of its key type: sortedKeys(cfg.denylist))
		keysOfField := func(e ast.Expr) *types.Var {
			ce, ok := ast.Unparen(e).(*ast.CallExpr)
			if !ok || len(ce.Args) != 1 {
				return nil
			}
			f := fieldOf(info, ce.Args[0])
			if f == nil || !core.RecvNamedOfField(cfgT, f) {
				return nil
			}
			mt, isMap := f.Type().Underlying().(*types.Map)
			st, isSlice := info.TypeOf(ce).Underlying().(*types.Slice)
			if !isMap || !isSlice || !types.Identical(mt.Key(), st.Elem()) {
				return nil
			}
			return f
		}
		ast.Inspect(fd.Body, func(nd ast.Node) bool {
			if as, ok := nd.(*ast.AssignStmt); ok && len(as.Lhs) == 1 && len(as.Rhs) == 1 {
				if id, ok := as.Lhs[0].(*ast.Ident); ok {
					if f := keysOfField(as.Rhs[0]); f != nil {
						keySlices[objOfIdent(info, id)] = f
					}
				}
			}
			return true
		})
		ast.Inspect(fd.Body, func(nd ast.Node) bool {
			rs, ok := nd.(*ast.RangeStmt)
			if !ok {
				return true
			}
			f := fieldOf(info, rs.X)
			if f == nil {
				if id, ok := ast.Unparen(rs.X).(*ast.Ident); ok {
					f = keySlices[objOfIdent(info, id)]
				}
				if f == nil {
					f = keysOfField(rs.X)
				}
			} else if _, collects := func() (struct{}, bool) {
				// the key-collecting loop itself only appends: nothing to judge
				for _, kf := range keySlices {
					if kf == f && len(rs.Body.List) == 1 {
						if as, ok := rs.Body.List[0].(*ast.AssignStmt); ok && len(as.Rhs) == 1 {
							if ce, ok := as.Rhs[0].(*ast.CallExpr); ok && isBuiltinCall(info, ce, "append") {
								return struct{}{}, true
							}
						}
					}
				}
				return struct{}{}, false
			}(); collects {
				return true
			}
			if f == nil || !core.RecvNamedOfField(cfgT, f) {
				return true
			}
			idx++
			n++
			bad := ""
			var walk func(n ast.Node, inner bool)
			walk = func(n ast.Node, inner bool) {
				ast.Inspect(n, func(k ast.Node) bool {
					switch x := k.(type) {
					case *ast.FuncLit:
						return false
					case *ast.ForStmt, *ast.RangeStmt, *ast.SwitchStmt, *ast.TypeSwitchStmt, *ast.SelectStmt:
						if k != n {
							walk2 := func(b ast.Node) {
								if b != nil {
									walk(b, true)
								}
							}
							switch y := x.(type) {
							case *ast.ForStmt:
								walk2(y.Body)
							case *ast.RangeStmt:
								walk2(y.Body)
							case *ast.SwitchStmt:
								walk2(y.Body)
							case *ast.TypeSwitchStmt:
								walk2(y.Body)
							case *ast.SelectStmt:
								walk2(y.Body)
							}
							return false
						}
					case *ast.BranchStmt:
						if x.Tok.String() == "break" && (!inner || x.Label != nil) {
							bad = "break at " + posOf(p, x)
						}
						if x.Tok.String() == "goto" {
							bad = "goto at " + posOf(p, x)
						}
					case *ast.ReturnStmt:
						isErr := false
						if len(x.Results) > 0 {
							last := x.Results[len(x.Results)-1]
							if isErrorType(info.TypeOf(last)) && !isNilIdent(info, last) {
								isErr = true
							}
						}
						if !isErr {
							bad = "return at " + posOf(p, x)
						}
					}
					return true
				})
			}
			walk(rs.Body, false)
			c.Check(bad == "", "risor.Config."+fn.Name()+"|range:"+f.Name()+"#"+itoa(idx)+"|no-early-exit", posOf(p, rs),
				"the loop over cfg."+f.Name()+" visits every entry (no break, no return other than an error)"+ifs(bad != "", ": "+bad+" leaves the entries not yet visited — an arbitrary subset, the collection is a Go map — unprocessed"))
			return true
		})
	})
	c.Stat("config_loops", n)
}

// c11r7: a top-level global is not a member of a module.  NewBuiltinsModule
// gives each member builtin a back-pointer to its module (visible to scripts as
// __module__); a top-level name bound to a member object leads to the module
// even when the module itself has been removed from the configuration.
func c11r7(c *core.Ctx) {
	p := c.P
	root := p.Pkg("")
	dg := core.LookupFunc(root, "DefaultGlobals")
	if dg == nil {
		core.Undecidedf("risor.DefaultGlobals not found")
	}
	sf := p.SSAFunc(dg)
	modT := core.MustType(p.Pkg("object"), "Module")
	n := 0
	bad := ""
	for _, b := range sf.Blocks {
		for _, in := range b.Instrs {
			mu, ok := in.(*ssa.MapUpdate)
			if !ok {
				continue
			}
			n++
			if core.DependsOn(mu.Value, func(w ssa.Value) bool {
				call, ok := w.(*ssa.Call)
				if !ok {
					return false
				}
				if cal := call.Call.StaticCallee(); cal != nil && cal.Signature.Recv() != nil && core.NamedOf(cal.Signature.Recv().Type()) == modT {
					return true
				}
				if call.Call.IsInvoke() && core.NamedOf(call.Call.Value.Type()) == modT {
					return true
				}
				return false
			}) {
				bad = p.Pos(mu.Pos())
			}
		}
	}
	c.Check(bad == "", "risor.DefaultGlobals|top-level-names-are-not-module-members", p.Pos(sf.Pos()),
		"no top-level global is an object taken out of a module (member builtins carry a __module__ back-reference to it)"+ifs(bad != "", ": "+bad))
	c.Stat("default_global_stores", n)
}
