package rules

// Derivation of the per-opcode stack effect table from the VM's dispatch
// switch by a counting abstract interpretation of the Go source of each
// clause (DESIGN §1.3(A), C04-R1).  Counted primitives are resolved by role:
//   pop   = method of VirtualMachine that decrements the sp field and returns an Object
//   push  = method of VirtualMachine with one parameter that increments sp
//   fetch = method of VirtualMachine returning an integer that increments ip
// Nothing is executed.

import (
	"fmt"
	"go/ast"
	"go/token"
	"go/types"
	"sort"
	"strings"

	"risorcheck/core"
)

type opndFact struct {
	Opnd int
	Eq   bool
	K    int64
}

// vmOutcome is one non-error path through a dispatch clause.
type vmOutcome struct {
	Fetch  int
	Pops   *core.Lin
	Pushes *core.Lin
	Jump   bool   // vm.ip assigned on this path (jump taken)
	Back   bool   // the ip assignment subtracts the operand (backward jump)
	End    string // "" fall through, "ret" returns nil (leaves eval)
	Facts  []opndFact
	Notes  []string
}

func (o vmOutcome) key() string {
	var fs []string
	for _, f := range o.Facts {
		op := "!="
		if f.Eq {
			op = "=="
		}
		fs = append(fs, fmt.Sprintf("opnd%d%s%d", f.Opnd, op, f.K))
	}
	return fmt.Sprintf("fetch=%d pops=%s pushes=%s jump=%v back=%v end=%s facts=%s notes=%s", o.Fetch, o.Pops, o.Pushes, o.Jump, o.Back, o.End, strings.Join(fs, "&"), strings.Join(o.Notes, ","))
}

// Net effect of an outcome.
func (o vmOutcome) Net() *core.Lin { return o.Pushes.Sub(o.Pops) }

type vmClause struct {
	Name     string
	Const    *types.Const
	Pos      token.Pos
	Outcomes []vmOutcome
	Problems []string // reasons the clause could not be summarised
}

type vmTable struct {
	// Helpers: methods of the VM that a dispatch clause hands its work to and
	// that fetch the instruction's operands themselves (the body of a clause
	// moved into a method of its own), with the opcodes whose clauses call them.
	// The rules that read "the clause of op X" read these methods with it.
	Helpers  map[*types.Func]map[string]bool
	Eval     *types.Func
	Switch   *ast.SwitchStmt
	Clauses  map[string]*vmClause // by opcode constant name
	Default  bool
	OpConsts map[string]*types.Const // all constants of type op.Code
	Prims    map[string]*types.Func  // pop push fetch
}

type vmSt struct {
	fetch      int
	pops, push *core.Lin
	env        map[types.Object]*core.Lin
	lens       map[types.Object]*core.Lin
	facts      []opndFact
	end        string // "", "err", "ret", "break", "continue"
	jump       bool
	back       bool
	notes      []string
	problems   []string
}

func (s *vmSt) clone() *vmSt {
	n := &vmSt{fetch: s.fetch, pops: s.pops.Clone(), push: s.push.Clone(), env: map[types.Object]*core.Lin{}, lens: map[types.Object]*core.Lin{}, end: s.end, jump: s.jump, back: s.back}
	for k, v := range s.env {
		n.env[k] = v
	}
	for k, v := range s.lens {
		n.lens[k] = v
	}
	n.facts = append([]opndFact(nil), s.facts...)
	n.notes = append([]string(nil), s.notes...)
	n.problems = append([]string(nil), s.problems...)
	return n
}

type vmAn struct {
	p        *core.Program
	info     *types.Info
	vmT      *types.Named
	pop      *types.Func
	pushF    *types.Func
	fetchF   *types.Func
	spField  *types.Var
	ipField  *types.Var
	summ     map[*types.Func]*methodSummary
	inFlight map[*types.Func]bool
	clause   string
	helpers  map[*types.Func]map[string]bool
}

// methodSummary: net stack effect of a VirtualMachine method on success.
type methodSummary struct {
	OK      bool
	Net     *core.Lin // pushes - pops on every nil-error return
	Restores bool     // sp restored by deferred resumeFrame: neutral
	Why     string
}

var vmTableCache = map[*core.Program]*vmTable{}

func opConsts(p *core.Program) map[string]*types.Const {
	opp := p.Pkg("op")
	codeT := core.MustType(opp, "Code")
	out := map[string]*types.Const{}
	for _, n := range opp.Types.Scope().Names() {
		if c, ok := opp.Types.Scope().Lookup(n).(*types.Const); ok && types.Identical(c.Type(), codeT) {
			out[n] = c
		}
	}
	return out
}

// vmPrims resolves pop/push/fetch by role.
func vmPrims(p *core.Program) (pop, push, fetch *types.Func, sp, ip *types.Var) {
	vmp := p.Pkg("vm")
	vmT := core.MustType(vmp, "VirtualMachine")
	info := vmp.TypesInfo
	sp, ip = fieldByName(vmT, "sp"), fieldByName(vmT, "ip")
	if sp == nil || ip == nil {
		core.Undecidedf("VirtualMachine.sp / .ip fields not found")
	}
	incdec := func(fd *ast.FuncDecl, f *types.Var, tok token.Token) bool {
		found := false
		ast.Inspect(fd.Body, func(n ast.Node) bool {
			switch s := n.(type) {
			case *ast.IncDecStmt:
				if s.Tok == tok && fieldOf(info, s.X) == f {
					found = true
				}
			case *ast.AssignStmt:
				if (tok == token.INC && s.Tok == token.ADD_ASSIGN) || (tok == token.DEC && s.Tok == token.SUB_ASSIGN) {
					if len(s.Lhs) == 1 && fieldOf(info, s.Lhs[0]) == f {
						if v, ok := constInt(info, s.Rhs[0]); ok && v == 1 {
							found = true
						}
					}
				}
			}
			return true
		})
		return found
	}
	for _, m := range core.Methods(vmT) {
		fd := p.Decl(m)
		if fd == nil || fd.Body == nil {
			continue
		}
		sig := m.Type().(*types.Signature)
		calls := false
		ast.Inspect(fd.Body, func(n ast.Node) bool {
			if ce, ok := n.(*ast.CallExpr); ok {
				if cal := calleeOf(info, ce); cal != nil && core.RecvNamed(cal) == vmT {
					calls = true
				}
			}
			return true
		})
		if calls {
			continue
		}
		switch {
		case sig.Params().Len() == 0 && sig.Results().Len() == 1 && incdec(fd, sp, token.DEC) && !incdec(fd, sp, token.INC):
			if pop != nil {
				core.Undecidedf("two candidates for the pop primitive: %s, %s", pop.Name(), m.Name())
			}
			pop = m
		case sig.Params().Len() == 1 && sig.Results().Len() == 0 && incdec(fd, sp, token.INC) && !incdec(fd, sp, token.DEC):
			if push != nil {
				core.Undecidedf("two candidates for the push primitive: %s, %s", push.Name(), m.Name())
			}
			push = m
		case sig.Params().Len() == 0 && sig.Results().Len() == 1 && incdec(fd, ip, token.INC) && !incdec(fd, sp, token.INC) && !incdec(fd, sp, token.DEC):
			if b, ok := sig.Results().At(0).Type().Underlying().(*types.Basic); ok && b.Info()&types.IsInteger != 0 {
				if fetch != nil {
					core.Undecidedf("two candidates for the fetch primitive")
				}
				fetch = m
			}
		}
	}
	if pop == nil || push == nil || fetch == nil {
		core.Undecidedf("VM primitives not resolved by role (pop=%v push=%v fetch=%v)", pop, push, fetch)
	}
	return
}

// VMTable derives (once per program) the effect table.
func VMTable(p *core.Program) *vmTable {
	if t, ok := vmTableCache[p]; ok {
		return t
	}
	vmp := p.Pkg("vm")
	evalFn := dispatchFunc(p)
	fd := p.Decl(evalFn)
	sw := dispatchSwitch(vmp, fd)
	a := &vmAn{p: p, info: vmp.TypesInfo, vmT: core.MustType(vmp, "VirtualMachine"), summ: map[*types.Func]*methodSummary{}, inFlight: map[*types.Func]bool{}}
	a.pop, a.pushF, a.fetchF, a.spField, a.ipField = vmPrims(p)
	t := &vmTable{Eval: evalFn, Switch: sw, Clauses: map[string]*vmClause{}, OpConsts: opConsts(p), Prims: map[string]*types.Func{"pop": a.pop, "push": a.pushF, "fetch": a.fetchF}}
	for _, cc := range sw.Body.List {
		cl := cc.(*ast.CaseClause)
		if cl.List == nil {
			t.Default = true
			continue
		}
		for _, e := range cl.List {
			cst, _ := objOf(a.info, e).(*types.Const)
			if cst == nil {
				core.Undecidedf("dispatch clause label %s at %s is not an op.Code constant", exprStr(e), p.Pos(e.Pos()))
			}
			st := &vmSt{pops: core.Const(0), push: core.Const(0), env: map[types.Object]*core.Lin{}, lens: map[types.Object]*core.Lin{}}
			a.clause = cst.Name()
			outs := a.block(cl.Body, []*vmSt{st})
			a.clause = ""
			c := &vmClause{Name: cst.Name(), Const: cst, Pos: cl.Pos()}
			seen := map[string]bool{}
			for _, o := range outs {
				c.Problems = append(c.Problems, o.problems...)
				if o.end == "err" {
					continue
				}
				end := o.end
				if end == "break" || end == "continue" {
					end = ""
				}
				vo := vmOutcome{Fetch: o.fetch, Pops: o.pops, Pushes: o.push, Jump: o.jump, Back: o.back, End: end, Facts: o.facts, Notes: o.notes}
				if !seen[vo.key()] {
					seen[vo.key()] = true
					c.Outcomes = append(c.Outcomes, vo)
				}
			}
			sort.Slice(c.Outcomes, func(i, j int) bool { return c.Outcomes[i].key() < c.Outcomes[j].key() })
			c.Problems = dedup(c.Problems)
			t.Clauses[cst.Name()] = c
		}
	}
	t.Helpers = a.helpers
	vmTableCache[p] = t
	return t
}

// ClauseFuncs: the functions that make up the handlers of the named opcodes -
// the dispatch function and the helpers that only clauses of these opcodes
// hand their work to.
func (t *vmTable) HelpersOf(names ...string) []*types.Func {
	var out []*types.Func
	for h, ops := range t.Helpers {
		all := len(ops) > 0
		for o := range ops {
			found := false
			for _, n := range names {
				if n == o {
					found = true
				}
			}
			if !found {
				all = false
			}
		}
		if all {
			out = append(out, h)
		}
	}
	sort.Slice(out, func(i, j int) bool { return out[i].Name() < out[j].Name() })
	return out
}

func dedup(ss []string) []string {
	seen := map[string]bool{}
	var out []string
	for _, s := range ss {
		if !seen[s] {
			seen[s] = true
			out = append(out, s)
		}
	}
	return out
}

func (a *vmAn) block(stmts []ast.Stmt, in []*vmSt) []*vmSt {
	cur := in
	for _, s := range stmts {
		var next []*vmSt
		for _, st := range cur {
			if st.end != "" {
				next = append(next, st)
				continue
			}
			next = append(next, a.stmt(s, st)...)
		}
		cur = next
		if len(cur) > 4000 {
			core.Undecidedf("VM clause path explosion at %s", a.p.Pos(s.Pos()))
		}
	}
	return cur
}

// expr counts primitive calls inside an expression.
func (a *vmAn) expr(e ast.Node, st *vmSt) {
	if e == nil {
		return
	}
	ast.Inspect(e, func(n ast.Node) bool {
		switch x := n.(type) {
		case *ast.FuncLit:
			return false
		case *ast.CallExpr:
			cal := calleeOf(a.info, x)
			if cal == nil {
				return true
			}
			switch cal {
			case a.pop:
				st.pops = st.pops.AddK(1)
			case a.pushF:
				st.push = st.push.AddK(1)
			case a.fetchF:
				st.fetch++
			default:
				if core.RecvNamed(cal) == a.vmT {
					sm := a.summary(cal)
					switch {
					case !sm.OK:
						st.problems = append(st.problems, "call to "+cal.Name()+" cannot be summarised: "+sm.Why)
					case sm.Restores:
						st.notes = append(st.notes, cal.Name()+":sp-restored")
					default:
						if sm.Net.IsConst() {
							if sm.Net.K >= 0 {
								st.push = st.push.AddK(sm.Net.K)
							} else {
								st.pops = st.pops.AddK(-sm.Net.K)
							}
							if sm.Net.K != 0 {
								st.notes = append(st.notes, fmt.Sprintf("%s:%+d on success", cal.Name(), sm.Net.K))
							}
						} else if len(sm.Net.T) == 1 && sm.Net.K == 0 && sm.Net.T["?rec:"+cal.Name()] == 1 {
							// coinductive self-call: effect is the summary being computed
							st.push = st.push.Add(sm.Net)
						} else {
							st.problems = append(st.problems, "call to "+cal.Name()+" has a non-constant effect "+sm.Net.String())
						}
					}
				}
			}
		}
		return true
	})
}

// summary computes the success-path net effect of a VirtualMachine method.
func (a *vmAn) summary(m *types.Func) *methodSummary {
	if s, ok := a.summ[m]; ok {
		return s
	}
	fd := a.p.Decl(m)
	if fd == nil || fd.Body == nil {
		return &methodSummary{OK: false, Why: "no body"}
	}
	if a.inFlight[m] {
		// coinductive assumption for self-recursion: same as declared so far; resolved by caller
		return &methodSummary{OK: true, Net: core.Sym("?rec:" + m.Name())}
	}
	a.inFlight[m] = true
	defer delete(a.inFlight, m)
	// frame-restoring methods: `defer vm.resumeFrame(saved fp, ip, sp)` where the
	// saved sp was read from vm.sp before → the method is sp-neutral for its caller
	if a.restoresSP(fd) {
		s := &methodSummary{OK: true, Restores: true, Net: core.Const(0)}
		a.summ[m] = s
		return s
	}
	// direct sp manipulation that is not ++/-- of pop/push: special methods
	direct := false
	ast.Inspect(fd.Body, func(n ast.Node) bool {
		if as, ok := n.(*ast.AssignStmt); ok {
			for _, l := range as.Lhs {
				if fieldOf(a.info, l) == a.spField {
					direct = true
				}
			}
		}
		return true
	})
	if direct {
		s := &methodSummary{OK: false, Why: "assigns sp directly (frame switch)"}
		a.summ[m] = s
		return s
	}
	st := &vmSt{pops: core.Const(0), push: core.Const(0), env: map[types.Object]*core.Lin{}, lens: map[types.Object]*core.Lin{}}
	outs := a.block(fd.Body.List, []*vmSt{st})
	var net *core.Lin
	ok := true
	why := ""
	var recNets []*core.Lin
	recSym := "?rec:" + m.Name()
	for _, o := range outs {
		if len(o.problems) > 0 {
			ok, why = false, strings.Join(o.problems, "; ")
		}
		if o.end == "err" {
			continue
		}
		if o.fetch != 0 {
			ok, why = false, "fetches operands"
		}
		n := o.push.Sub(o.pops)
		if _, rec := n.T[recSym]; rec {
			recNets = append(recNets, n)
			continue
		}
		if net == nil {
			net = n
		} else if !net.Sub(n).IsZero() {
			ok, why = false, fmt.Sprintf("success paths disagree: %s vs %s", net, n)
		}
	}
	if net == nil {
		if len(recNets) > 0 {
			ok, why = false, "only recursive success paths"
		}
		net = core.Const(0)
	}
	// coinductive arms: with X := net every recursive arm k + c*X must equal net
	for _, rn := range recNets {
		sub := core.Subst{recSym: net}
		if !sub.Apply(rn).Sub(net).IsZero() {
			ok, why = false, fmt.Sprintf("recursive arm %s is inconsistent with the effect %s of the other arms", rn, net)
		}
	}
	s := &methodSummary{OK: ok, Net: net, Why: why}
	a.summ[m] = s
	return s
}

// restoresSP: the method contains `defer vm.resumeFrame(x, y, z)` (any
// deferred call to a method that assigns sp from a parameter) whose sp
// argument was assigned from vm.sp earlier.
func (a *vmAn) restoresSP(fd *ast.FuncDecl) bool {
	found := false
	assigns := localAssignments(a.info, fd.Body)
	for _, s := range fd.Body.List {
		ds, ok := s.(*ast.DeferStmt)
		if !ok {
			continue
		}
		cal := calleeOf(a.info, ds.Call)
		if cal == nil || core.RecvNamed(cal) != a.vmT {
			continue
		}
		idx := a.spParamIndex(cal)
		if idx < 0 || idx >= len(ds.Call.Args) {
			continue
		}
		if id, ok := ds.Call.Args[idx].(*ast.Ident); ok {
			rhss := assigns[a.info.Uses[id]]
			if len(rhss) == 1 && fieldOf(a.info, rhss[0]) == a.spField {
				found = true
			}
		}
	}
	return found
}

// spParamIndex: index of the parameter that the method assigns to vm.sp on
// all paths (top-level statement `vm.sp = param`), or -1.
func (a *vmAn) spParamIndex(m *types.Func) int {
	fd := a.p.Decl(m)
	if fd == nil || fd.Body == nil {
		return -1
	}
	sig := m.Type().(*types.Signature)
	for _, s := range fd.Body.List {
		as, ok := s.(*ast.AssignStmt)
		if !ok || len(as.Lhs) != 1 || as.Tok != token.ASSIGN {
			continue
		}
		if fieldOf(a.info, as.Lhs[0]) != a.spField {
			continue
		}
		if id, ok := as.Rhs[0].(*ast.Ident); ok {
			for i := 0; i < sig.Params().Len(); i++ {
				if a.info.Uses[id] == sig.Params().At(i) {
					return i
				}
			}
		}
	}
	// a method that ends by delegating to such a method: the parameter it passes on
	if n := len(fd.Body.List); n > 0 {
		var call *ast.CallExpr
		switch last := fd.Body.List[n-1].(type) {
		case *ast.ReturnStmt:
			if len(last.Results) == 1 {
				call, _ = ast.Unparen(last.Results[0]).(*ast.CallExpr)
			}
		case *ast.ExprStmt:
			call, _ = last.X.(*ast.CallExpr)
		}
		if call != nil {
			if cal := calleeOf(a.info, call); cal != nil && cal != m && core.RecvNamed(cal) == a.vmT {
				if j := a.spParamIndex(cal); j >= 0 && j < len(call.Args) {
					if id, ok := call.Args[j].(*ast.Ident); ok {
						for i := 0; i < sig.Params().Len(); i++ {
							if a.info.Uses[id] == sig.Params().At(i) {
								return i
							}
						}
					}
				}
			}
		}
	}
	return -1
}

func (a *vmAn) intVal(e ast.Expr, st *vmSt) *core.Lin {
	e = ast.Unparen(e)
	if v, ok := constInt(a.info, e); ok {
		return core.Const(int(v))
	}
	switch x := e.(type) {
	case *ast.Ident:
		if v, ok := st.env[a.info.Uses[x]]; ok {
			return v
		}
	case *ast.CallExpr:
		if tv, ok := a.info.Types[x.Fun]; ok && tv.IsType() && len(x.Args) == 1 {
			return a.intVal(x.Args[0], st)
		}
		if calleeOf(a.info, x) == a.fetchF {
			return core.Sym(fmt.Sprintf("opnd%d", st.fetch))
		}
		if isBuiltinCall(a.info, x, "len") && len(x.Args) == 1 {
			if id, ok := ast.Unparen(x.Args[0]).(*ast.Ident); ok {
				if v, ok := st.lens[a.info.Uses[id]]; ok {
					return v
				}
			}
		}
	case *ast.BinaryExpr:
		l, r := a.intVal(x.X, st), a.intVal(x.Y, st)
		if l != nil && r != nil {
			switch x.Op {
			case token.ADD:
				return l.Add(r)
			case token.SUB:
				return l.Sub(r)
			}
		}
	}
	return nil
}

// condFact: cond of the form x == k / x != k with x bound to an operand symbol.
func (a *vmAn) condFact(cond ast.Expr, st *vmSt) (opndFact, bool) {
	be, ok := ast.Unparen(cond).(*ast.BinaryExpr)
	if !ok || (be.Op != token.EQL && be.Op != token.NEQ) {
		return opndFact{}, false
	}
	l, r := a.intVal(be.X, st), a.intVal(be.Y, st)
	if l == nil || r == nil {
		return opndFact{}, false
	}
	if !r.IsConst() {
		l, r = r, l
	}
	if !r.IsConst() || l.K != 0 || len(l.T) != 1 {
		return opndFact{}, false
	}
	for s, cf := range l.T {
		var idx int
		if cf == 1 && strings.HasPrefix(s, "opnd") {
			fmt.Sscanf(s, "opnd%d", &idx)
			return opndFact{Opnd: idx, Eq: be.Op == token.EQL, K: int64(r.K)}, true
		}
	}
	return opndFact{}, false
}

func consistent(facts []opndFact, f opndFact) bool {
	for _, g := range facts {
		if g.Opnd != f.Opnd {
			continue
		}
		if g.Eq && f.Eq && g.K != f.K {
			return false
		}
		if g.Eq != f.Eq && g.K == f.K {
			return false
		}
	}
	return true
}

func (a *vmAn) bind(lhs ast.Expr, rhs ast.Expr, st *vmSt, val *core.Lin) {
	id, ok := lhs.(*ast.Ident)
	if !ok {
		return
	}
	o := objOfIdent(a.info, id)
	if o == nil {
		return
	}
	if val != nil {
		st.env[o] = val
	} else {
		delete(st.env, o)
	}
	if ce, ok := ast.Unparen(rhs).(*ast.CallExpr); ok {
		if isBuiltinCall(a.info, ce, "append") && len(ce.Args) >= 1 && !ce.Ellipsis.IsValid() {
			if aid, ok := ce.Args[0].(*ast.Ident); ok && objOfIdent(a.info, aid) == o {
				l := st.lens[o]
				if l == nil {
					l = core.Const(0)
				}
				st.lens[o] = l.AddK(len(ce.Args) - 1)
			}
		}
		if isBuiltinCall(a.info, ce, "make") && len(ce.Args) >= 2 {
			if _, isSlice := a.info.TypeOf(ce.Args[0]).Underlying().(*types.Slice); isSlice {
				if v := a.intVal(ce.Args[1], st); v != nil {
					st.lens[o] = v
				}
			}
		}
	}
}

// inlinedCall: the statement hands the work of the clause to a method of the
// VM that fetches operands itself (the body of a dispatch clause moved into a
// method of its own): `if err := vm.m(..); err != nil { return err }`,
// `vm.m(..)` or `return vm.m(..)`.  Such a method has no summary (what it
// fetches belongs to the instruction being executed); its body is interpreted
// in place, on the state of the clause.
func (a *vmAn) inlinedCall(s ast.Stmt) (call *ast.CallExpr, shape string) {
	pick := func(e ast.Expr) *ast.CallExpr {
		ce, ok := ast.Unparen(e).(*ast.CallExpr)
		if !ok {
			return nil
		}
		cal := calleeOf(a.info, ce)
		if cal == nil || core.RecvNamed(cal) != a.vmT || cal == a.pop || cal == a.pushF || cal == a.fetchF || a.inFlight[cal] {
			return nil
		}
		if fd := a.p.Decl(cal); fd == nil || fd.Body == nil {
			return nil
		}
		if sm := a.summary(cal); sm.OK || !strings.Contains(sm.Why, "fetches operands") {
			return nil
		}
		return ce
	}
	switch s := s.(type) {
	case *ast.ExprStmt:
		return pick(s.X), "stmt"
	case *ast.ReturnStmt:
		if len(s.Results) == 1 {
			return pick(s.Results[0]), "return"
		}
	case *ast.IfStmt:
		as, ok := s.Init.(*ast.AssignStmt)
		if !ok || len(as.Lhs) != 1 || len(as.Rhs) != 1 || s.Else != nil {
			return nil, ""
		}
		be, ok := ast.Unparen(s.Cond).(*ast.BinaryExpr)
		if !ok || be.Op != token.NEQ || !isNilIdent(a.info, be.Y) {
			return nil, ""
		}
		lid, ok1 := as.Lhs[0].(*ast.Ident)
		cid, ok2 := ast.Unparen(be.X).(*ast.Ident)
		if !ok1 || !ok2 || objOfIdent(a.info, lid) == nil || objOfIdent(a.info, lid) != objOfIdent(a.info, cid) {
			return nil, ""
		}
		// the body hands the error on
		if len(s.Body.List) != 1 {
			return nil, ""
		}
		if rs, ok := s.Body.List[0].(*ast.ReturnStmt); !ok || len(rs.Results) == 0 || isNilIdent(a.info, rs.Results[len(rs.Results)-1]) {
			return nil, ""
		}
		return pick(as.Rhs[0]), "iferr"
	}
	return nil, ""
}

func (a *vmAn) inline(call *ast.CallExpr, shape string, st *vmSt) []*vmSt {
	cal := calleeOf(a.info, call)
	fd := a.p.Decl(cal)
	sig := cal.Type().(*types.Signature)
	var vals []*core.Lin
	for _, arg := range call.Args {
		vals = append(vals, a.intVal(arg, st))
		a.expr(arg, st)
	}
	if !sig.Variadic() && len(vals) == sig.Params().Len() {
		for i := range vals {
			if vals[i] != nil {
				st.env[sig.Params().At(i)] = vals[i]
			}
		}
	}
	if a.clause != "" {
		if a.helpers == nil {
			a.helpers = map[*types.Func]map[string]bool{}
		}
		if a.helpers[cal] == nil {
			a.helpers[cal] = map[string]bool{}
		}
		a.helpers[cal][a.clause] = true
	}
	a.inFlight[cal] = true
	outs := a.block(fd.Body.List, []*vmSt{st})
	delete(a.inFlight, cal)
	for _, o := range outs {
		switch o.end {
		case "err":
		case "ret", "":
			o.end = ""
			if shape == "return" {
				o.end = "ret"
			}
		default:
			o.problems = append(o.problems, "method "+cal.Name()+" ends with "+o.end+" outside a loop")
		}
		o.notes = append(o.notes, cal.Name()+":inlined")
	}
	return outs
}

func (a *vmAn) stmt(s ast.Stmt, st *vmSt) []*vmSt {
	if call, shape := a.inlinedCall(s); call != nil {
		return a.inline(call, shape, st)
	}
	switch s := s.(type) {
	case *ast.AssignStmt:
		// value of rhs is computed against the fetch index *before* counting
		var vals []*core.Lin
		if len(s.Lhs) == len(s.Rhs) {
			for _, r := range s.Rhs {
				vals = append(vals, a.intVal(r, st))
			}
		}
		for _, l := range s.Lhs {
			// primitives on the left-hand side: Globals[vm.fetch()] = vm.pop()
			if _, isIdent := l.(*ast.Ident); !isIdent {
				a.expr(l, st)
			}
			if fieldOf(a.info, l) == a.ipField {
				st.jump = true
				if s.Tok == token.SUB_ASSIGN {
					st.back = true
				}
				if len(s.Rhs) == 1 {
					if be, ok := ast.Unparen(s.Rhs[0]).(*ast.BinaryExpr); ok && be.Op == token.SUB {
						if v := a.intVal(be.Y, st); v != nil && !v.IsConst() {
							st.back = true
						}
					}
				}
			}
			if fieldOf(a.info, l) == a.spField {
				st.problems = append(st.problems, "handler assigns sp directly at "+a.p.Pos(s.Pos()))
			}
		}
		for _, r := range s.Rhs {
			a.expr(r, st)
		}
		if len(s.Lhs) == len(s.Rhs) {
			for i, l := range s.Lhs {
				a.bind(l, s.Rhs[i], st, vals[i])
			}
		} else {
			for _, l := range s.Lhs {
				if id, ok := l.(*ast.Ident); ok {
					if o := objOfIdent(a.info, id); o != nil {
						delete(st.env, o)
					}
				}
			}
		}
		return []*vmSt{st}
	case *ast.DeclStmt:
		if gd, ok := s.Decl.(*ast.GenDecl); ok {
			for _, sp := range gd.Specs {
				if vs, ok := sp.(*ast.ValueSpec); ok {
					for _, n := range vs.Names {
						if _, ok := a.info.TypeOf(n).Underlying().(*types.Slice); ok && len(vs.Values) == 0 {
							st.lens[a.info.Defs[n]] = core.Const(0)
						}
					}
					for i, v := range vs.Values {
						val := a.intVal(v, st)
						a.expr(v, st)
						if len(vs.Values) == len(vs.Names) {
							a.bind(vs.Names[i], v, st, val)
						}
					}
				}
			}
		}
		return []*vmSt{st}
	case *ast.ExprStmt:
		a.expr(s.X, st)
		return []*vmSt{st}
	case *ast.IncDecStmt:
		if fieldOf(a.info, s.X) == a.spField {
			st.problems = append(st.problems, "handler changes sp directly at "+a.p.Pos(s.Pos()))
		}
		if fieldOf(a.info, s.X) == a.ipField {
			st.jump = true
		}
		return []*vmSt{st}
	case *ast.ReturnStmt:
		for _, r := range s.Results {
			a.expr(r, st)
		}
		allNil := len(s.Results) > 0
		for _, r := range s.Results {
			if !isNilIdent(a.info, r) {
				allNil = false
			}
		}
		// for summaries of methods returning (T, error) etc: success = last result nil
		if len(s.Results) > 0 && isNilIdent(a.info, s.Results[len(s.Results)-1]) {
			allNil = true
		}
		if len(s.Results) == 0 {
			allNil = true
		}
		if allNil {
			st.end = "ret"
		} else {
			st.end = "err"
		}
		return []*vmSt{st}
	case *ast.IfStmt:
		if s.Init != nil {
			st = a.stmt(s.Init, st)[0]
		}
		a.expr(s.Cond, st)
		t, f := st.clone(), st.clone()
		var outs []*vmSt
		if fact, ok := a.condFact(s.Cond, st); ok {
			neg := fact
			neg.Eq = !fact.Eq
			if consistent(st.facts, fact) {
				t.facts = append(t.facts, fact)
			} else {
				t = nil
			}
			if consistent(st.facts, neg) {
				f.facts = append(f.facts, neg)
			} else {
				f = nil
			}
		}
		if t != nil {
			outs = append(outs, a.block(s.Body.List, []*vmSt{t})...)
		}
		if f != nil {
			if s.Else != nil {
				outs = append(outs, a.stmt(s.Else, f)...)
			} else {
				outs = append(outs, f)
			}
		}
		return outs
	case *ast.BlockStmt:
		return a.block(s.List, []*vmSt{st})
	case *ast.SwitchStmt, *ast.TypeSwitchStmt:
		var body *ast.BlockStmt
		switch s := s.(type) {
		case *ast.SwitchStmt:
			if s.Init != nil {
				st = a.stmt(s.Init, st)[0]
			}
			a.expr(s.Tag, st)
			body = s.Body
		case *ast.TypeSwitchStmt:
			if s.Init != nil {
				st = a.stmt(s.Init, st)[0]
			}
			a.expr(s.Assign, st)
			body = s.Body
		}
		hasDefault := false
		var outs []*vmSt
		// a switch over an operand with constant labels is the if-chain
		// "x == k1 ... else if x == k2 ...": each clause runs under the fact of
		// its label, the default (or the way past the switch) under the
		// negation of every label
		var tag ast.Expr
		if ss, ok := s.(*ast.SwitchStmt); ok {
			tag = ss.Tag
		}
		labelFact := func(lbl ast.Expr) (opndFact, bool) {
			if tag == nil {
				return opndFact{}, false
			}
			return a.condFact(&ast.BinaryExpr{X: tag, Op: token.EQL, Y: lbl}, st)
		}
		var negs []opndFact
		allLabelsAreFacts := tag != nil
		for _, cc := range body.List {
			for _, lbl := range cc.(*ast.CaseClause).List {
				if f, ok := labelFact(lbl); ok {
					f.Eq = false
					negs = append(negs, f)
				} else {
					allLabelsAreFacts = false
				}
			}
		}
		rest := func() *vmSt {
			r := st.clone()
			if allLabelsAreFacts {
				for _, f := range negs {
					if !consistent(r.facts, f) {
						return nil
					}
					r.facts = append(r.facts, f)
				}
			}
			return r
		}
		for _, cc := range body.List {
			cl := cc.(*ast.CaseClause)
			var starts []*vmSt
			if cl.List == nil {
				hasDefault = true
				if r := rest(); r != nil {
					starts = append(starts, r)
				}
			} else if allLabelsAreFacts {
				for _, lbl := range cl.List {
					f, _ := labelFact(lbl)
					if consistent(st.facts, f) {
						c := st.clone()
						c.facts = append(c.facts, f)
						starts = append(starts, c)
					}
				}
			} else {
				starts = append(starts, st.clone())
			}
			for _, start := range starts {
				for _, o := range a.block(cl.Body, []*vmSt{start}) {
					if o.end == "break" {
						o.end = ""
					}
					outs = append(outs, o)
				}
			}
		}
		if !hasDefault {
			if r := rest(); r != nil {
				outs = append(outs, r)
			}
		}
		return outs
	case *ast.ForStmt:
		return a.forLoop(s, st)
	case *ast.RangeStmt:
		a.expr(s.X, st)
		var n *core.Lin
		if id, ok := ast.Unparen(s.X).(*ast.Ident); ok {
			n = st.lens[a.info.Uses[id]]
		}
		if n == nil {
			// a loop whose body counts nothing is harmless
			if !a.countsAnything(s.Body) {
				return []*vmSt{st}
			}
			st.problems = append(st.problems, "range over a collection of unknown length with stack effects at "+a.p.Pos(s.Pos()))
			return []*vmSt{st}
		}
		return a.scale(s.Body.List, st, n, s.Pos())
	case *ast.BranchStmt:
		switch s.Tok {
		case token.BREAK:
			st.end = "break"
		case token.CONTINUE:
			st.end = "continue"
		default:
			st.problems = append(st.problems, "unsupported branch statement at "+a.p.Pos(s.Pos()))
		}
		return []*vmSt{st}
	case *ast.DeferStmt:
		// deferred calls of frame-restoring methods are handled by restoresSP
		return []*vmSt{st}
	case *ast.GoStmt, *ast.EmptyStmt:
		return []*vmSt{st}
	case *ast.LabeledStmt:
		return a.stmt(s.Stmt, st)
	}
	st.problems = append(st.problems, fmt.Sprintf("unsupported statement %T at %s", s, a.p.Pos(s.Pos())))
	return []*vmSt{st}
}

func (a *vmAn) countsAnything(n ast.Node) bool {
	found := false
	ast.Inspect(n, func(x ast.Node) bool {
		if ce, ok := x.(*ast.CallExpr); ok {
			if cal := calleeOf(a.info, ce); cal != nil && core.RecvNamed(cal) == a.vmT {
				if cal == a.pop || cal == a.pushF || cal == a.fetchF {
					found = true
				} else if sm := a.summary(cal); !sm.OK || (!sm.Restores && !sm.Net.IsZero()) {
					found = true
				}
			}
		}
		return true
	})
	return found
}

func (a *vmAn) scale(body []ast.Stmt, st *vmSt, n *core.Lin, pos token.Pos) []*vmSt {
	base := st.clone()
	base.pops, base.push, base.fetch = core.Const(0), core.Const(0), 0
	fetch0 := st.fetch
	outs := a.block(body, []*vmSt{base})
	var res []*vmSt
	var dp, dq *core.Lin
	var last *vmSt
	for _, o := range outs {
		st.problems = append(st.problems, o.problems...)
		if o.end == "err" {
			e := st.clone()
			e.end = "err"
			res = append(res, e)
			continue
		}
		if o.end == "ret" || o.end == "break" {
			st.problems = append(st.problems, "early exit from a counted loop at "+a.p.Pos(pos))
			continue
		}
		if o.fetch != 0 {
			st.problems = append(st.problems, "operand fetch inside a loop at "+a.p.Pos(pos))
		}
		if dp == nil {
			dp, dq = o.pops, o.push
		} else if !dp.Sub(o.pops).IsZero() || !dq.Sub(o.push).IsZero() {
			st.problems = append(st.problems, "loop iterations have different stack effects at "+a.p.Pos(pos))
		}
		last = o
	}
	_ = fetch0
	if dp != nil {
		mp, ok1 := core.MulLin(dp, n)
		mq, ok2 := core.MulLin(dq, n)
		if !ok1 || !ok2 {
			st.problems = append(st.problems, "cannot scale loop effect at "+a.p.Pos(pos))
		} else {
			st.pops = st.pops.Add(mp)
			st.push = st.push.Add(mq)
		}
		for k, v := range last.lens {
			if old := st.lens[k]; old != nil {
				d := v.Sub(old)
				if !d.IsZero() {
					if m, ok := core.MulLin(d, n); ok {
						st.lens[k] = old.Add(m)
					} else {
						delete(st.lens, k)
					}
				}
			}
		}
	}
	res = append(res, st)
	return res
}

func (a *vmAn) forLoop(s *ast.ForStmt, st *vmSt) []*vmSt {
	if s.Init == nil && s.Cond == nil && s.Post == nil {
		if !a.countsAnything(s.Body) {
			return []*vmSt{st}
		}
		st.notes = append(st.notes, "data-dependent loop")
		st.problems = append(st.problems, "data-dependent loop with stack effects at "+a.p.Pos(s.Pos()))
		return []*vmSt{st}
	}
	as, ok := s.Init.(*ast.AssignStmt)
	be, ok2 := s.Cond.(*ast.BinaryExpr)
	if ok && ok2 && len(as.Lhs) == 1 && len(as.Rhs) == 1 {
		start := a.intVal(as.Rhs[0], st)
		limit := a.intVal(be.Y, st)
		// the loop variable must be the one compared and stepped by one
		lv, _ := as.Lhs[0].(*ast.Ident)
		cv, _ := ast.Unparen(be.X).(*ast.Ident)
		step := 0
		if p, ok := s.Post.(*ast.IncDecStmt); ok {
			if pv, _ := p.X.(*ast.Ident); pv != nil && lv != nil && objOfIdent(a.info, pv) == objOfIdent(a.info, lv) {
				if p.Tok == token.INC {
					step = 1
				} else {
					step = -1
				}
			}
		}
		if start != nil && limit != nil && lv != nil && cv != nil && objOfIdent(a.info, lv) == a.info.Uses[cv] {
			var n *core.Lin
			switch {
			case be.Op == token.LSS && step == 1:
				n = limit.Sub(start)
			case be.Op == token.LEQ && step == 1:
				n = limit.Sub(start).AddK(1)
			case be.Op == token.GEQ && step == -1:
				n = start.Sub(limit).AddK(1)
			case be.Op == token.GTR && step == -1:
				n = start.Sub(limit)
			}
			if n != nil {
				return a.scale(s.Body.List, st, n, s.Pos())
			}
		}
	}
	if !a.countsAnything(s.Body) {
		return []*vmSt{st}
	}
	st.problems = append(st.problems, "unsupported loop form with stack effects at "+a.p.Pos(s.Pos()))
	return []*vmSt{st}
}

// jumpBackward: some outcome of the opcode's handler jumps backwards.
func (t *vmTable) jumpBackward(name string) bool {
	cl := t.Clauses[name]
	if cl == nil {
		return false
	}
	for _, o := range cl.Outcomes {
		if o.Back {
			return true
		}
	}
	return false
}

// declaredVMEffects: handlers whose behaviour is data-dependent and whose
// effect is declared (trusted, listed in the evidence) instead of derived.
//   Unpack:      pops the container, pushes exactly operand0 values (the
//                handler compares the container size with operand0 before its
//                iterator loop; the loop pushes one value per element)
//   ReturnValue: leaves the frame (resumeFrame resets sp to the caller's
//                height plus the result); nothing after it in the same block
//                is reachable from it
type declaredEffect struct {
	Net    *core.Lin
	End    string
	Reason string
	// Expect: substrings that the derivation's own problem list must contain,
	// so that the declaration is only used for the reason it was written for.
	Expect string
}

var declaredVMEffects = map[string]declaredEffect{
	"Unpack":      {Net: core.Sym("opnd0").AddK(-1), End: "", Reason: "data-dependent iterator loop guarded by a size check against operand 0", Expect: "data-dependent loop"},
	"ReturnValue": {Net: core.Const(0), End: "ret", Reason: "returns to the caller's frame via resumeFrame", Expect: "resumeFrame"},
}
