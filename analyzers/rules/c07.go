package rules

import (
	"go/ast"
	"go/token"
	"go/types"

	"golang.org/x/tools/go/ssa"

	"risorcheck/core"
)

func init() {
	core.Register(&core.Property{
		ID: "C07",
		Decided: "Nothing armed for run i can act on run j, and every run releases the run state on every exit (equivalence with a fresh VM over all histories is NOT decided): " +
			"(R1) the context watcher is scoped to its run (same rule as C06-R4: halt cleared on arming only, watcher exits on a run-scoped signal or checks run identity); " +
			"(R2) acquire/release pairing: every function that arms the watcher disarms it on every exit including the panic path — the disarm call is an unconditional top-level statement of a deferred function and no return precedes it there; " +
			"frames pushed above the current one are restored by a deferred resumeFrame (C04-R4); the inspect re-entrancy flags are cleared by defer; " +
			"(R3) the state a fresh run depends on is reset when new code is run: the reset function assigns sp, ip, fp, halt, the active frame/code and the loaded-code and module caches; " +
			"(R4) frames pushed above the current one are restored through a deferred resumeFrame, so a Go panic crossing a call leaves fp/ip/sp as they were (same rule as C04-R4); " +
			"(R5) publish-after-success: in a VM method that can fail, no error return is reachable after a store into a map field of the VM (module cache, loaded code): a failed or cancelled import must not leave a half-initialised entry that the next invocation finds.",
		NotCovered:  "Stale contents of tmp/stack slots above sp, globals (intended to persist), the equality of outcomes with a fresh VM.",
		Assumptions: []string{"defer runs on every exit including panics", "runMutex serialises arming/disarming"},
		Rules: []*core.Rule{
			{ID: "C07-R1", Title: "watcher is armed per run and scoped to it", Floor: 3, Run: func(c *core.Ctx) { watcherRules(c, "C07") }},
			{ID: "C07-R2", Title: "arm/disarm pairing on every exit", Floor: 2, Run: c07r2},
			{ID: "C07-R3", Title: "reset for new code covers the run state", Floor: 5, Run: c07r3},
			{ID: "C07-R4", Title: "frames pushed above the current one are restored by defer (shared with C04-R4)", Floor: 3, Run: c04r4},
			{ID: "C07-R6", Title: "run-scoped channels are closed once and cleared", Floor: 1, Run: func(c *core.Ctx) { closeOnce(c, "vm") }},
			{ID: "C07-R7", Title: "run-state reset on entry only, guarded only by request and first-run", Floor: 1, Run: resetDiscipline},
			{ID: "C07-R8", Title: "every run enters the dispatch loop with an empty operand stack", Floor: 1, Run: runStartsEmpty},
			{ID: "C07-R9", Title: "the run context is derived from this invocation's context", Floor: 1, Run: runCtxFromArgument},
			{ID: "C07-R10", Title: "the reset does not read the registers it resets", Floor: 1, Run: resetIndependentOfState},
			{ID: "C07-R11", Title: "results are cached only after their error was checked", Floor: 3, Run: func(c *core.Ctx) { publishBeforeErrorCheck(c) }},
			{ID: "C07-R12", Title: "errors are not cached across invocations", Floor: 1, Run: errorsAreNotCached},
			{ID: "C07-R13", Title: "risor.Call runs the given code before it looks the function up", Floor: 1, Run: callRunsTheCodeFirst},
			{ID: "C07-R14", Title: "VMs are not recycled through shared containers", Floor: 1, Run: vmNotPooled},
			{ID: "C07-R15", Title: "cell storage is per activation (shared with C02-R2)", Floor: 4, Run: c02r2},
			{ID: "C07-R5", Title: "VM-level caches are filled only after the fallible work succeeded", Floor: 1, Run: c07r5},
			{ID: "C07-R16", Title: "references shared with clones are not written through", Floor: 1, Run: cloneAliasesNotWrittenThrough},
			{ID: "C07-R17", Title: "the halt flag is cleared on every successful start (shared with C18)", Floor: 1, Run: haltClearedOnEveryStart},
			{ID: "C07-R18", Title: "Run resumes at the saved ip only for code that is still loaded", Floor: 1, Run: savedIPBelongsToLoadedCode},
			{ID: "C07-R19", Title: "the stack pointer is advanced only after the slot was written (it always indexes the array)", Floor: 1, Run: spStaysInRange},
			{ID: "C07-R20", Title: "a failed start leaves the VM stopped", Floor: 1, Run: failedStartLeavesVMStopped},
			{ID: "C07-R21", Title: "options that are rejected leave the VM's globals as they were", Floor: 1, Run: rejectedOptionsAreRolledBack},
			{ID: "C07-R22", Title: "vm.globals is the conversion of what the host supplies now (shared with C08-R6)", Floor: 2, Run: c08r6},
			{ID: "C07-R23", Title: "emptying the module table keeps the host's modules", Floor: 1, Run: resetKeepsTheHostModules},
			{ID: "C07-R24", Title: "VM locks are released by defer", Floor: 3, Run: vmLocksAreReleasedByDefer},
			{ID: "C07-R25", Title: "loaded code entries are fresh", Floor: 1, Run: loadedCodeEntriesAreFresh},
			{ID: "C07-R26", Title: "configuration is written by options only", Floor: 1, Run: configurationIsWrittenByOptionsOnly},
			{ID: "C07-R27", Title: "tables filled while running are forgotten with the code", Floor: 1, Run: tablesFilledWhileRunningAreForgottenWithTheCode},
			{ID: "C07-R28", Title: "shared state is enumerated (shared with C09-R18)", Floor: 1, Run: sharedStateIsEnumerated},
			{ID: "C07-R29", Title: "reload re-points every function of the reloaded code, whatever its nesting depth (shared with C18-R3)", Floor: 2, Run: c18r3},
			{ID: "C07-R30", Title: "a refused invocation writes nothing to the VM (shared with C06-R22)", Floor: 8, Run: refusedInvocationsWriteNothing},
			{ID: "C07-R31", Title: "options that are refused are rolled back", Floor: 3, Run: refusedOptionsAreRolledBack},
			{ID: "C07-R32", Title: "a host Call leaves the resume point alone", Floor: 1, Run: aHostCallLeavesTheResumePointAlone},
			{ID: "C07-R33", Title: "frame storage is per activation and re-pointed by its owners only (shared with C02-R17)", Floor: 3, Run: frameStorageIsPerActivation},
			{ID: "C07-R34", Title: "nesting counters of the VM are taken off in a deferred function (shared with C03-R34)", Floor: 1, Run: nestingCountersAreKeptOnEveryPath},
			{ID: "C07-R35", Title: "what holds loaded code is forgotten with it (shared with C14-R28)", Floor: 1, Run: whatHoldsLoadedCodeIsForgottenWithIt},
			{ID: "C07-R36", Title: "an option of the VM sets its field whatever the value is (shared with C14-R26)", Floor: 3, Run: vmOptionsSetWhatTheyAreGiven},
			{ID: "C07-R37", Title: "a Config is applied to the VM as a whole (shared with C11-R24)", Floor: 3, Run: theConfigurationIsAppliedAsAWhole},
			{ID: "C07-R38", Title: "an evaluation closes only the files it opened (shared with C09-R16)", Floor: 1, Run: evaluationsCloseOnlyWhatTheyOpened},
		},
	})
}

func c07r2(c *core.Ctx) {
	p := c.P
	r := resolveVMRoles(p)
	info := r.info
	n := 0
	for _, m := range core.Methods(r.vmT) {
		fd := p.Decl(m)
		if fd == nil || fd.Body == nil || m == r.arm {
			continue
		}
		// calls arm on its receiver?
		var armCall *ast.CallExpr
		ast.Inspect(fd.Body, func(nd ast.Node) bool {
			if ce, ok := nd.(*ast.CallExpr); ok && calleeOf(info, ce) == r.arm && armCall == nil {
				armCall = ce
			}
			return true
		})
		if armCall == nil {
			continue
		}
		n++
		key := "vm.VirtualMachine." + m.Name() + "|disarm-on-every-exit"
		// a deferred function literal (top-level statement after the arm call) containing an unconditional disarm
		ok := false
		why := "no deferred call to " + r.disarm.Name() + " after arming"
		for _, s := range fd.Body.List {
			ds, isDefer := s.(*ast.DeferStmt)
			if !isDefer || ds.Pos() < armCall.Pos() {
				continue
			}
			if calleeOf(info, ds.Call) == r.disarm {
				ok = true
				break
			}
			fl, isLit := ds.Call.Fun.(*ast.FuncLit)
			if !isLit {
				continue
			}
			for _, bs := range fl.Body.List {
				es, isExpr := bs.(*ast.ExprStmt)
				if !isExpr {
					continue
				}
				if ce, isCall := es.X.(*ast.CallExpr); isCall && calleeOf(info, ce) == r.disarm {
					// no return statement anywhere in the literal before this call
					early := false
					ast.Inspect(fl.Body, func(k ast.Node) bool {
						if ret, isRet := k.(*ast.ReturnStmt); isRet && ret.Pos() < ce.Pos() {
							early = true
						}
						return true
					})
					if early {
						why = "the deferred function can return before it calls " + r.disarm.Name() + " (e.g. on the recovered-panic path): the VM stays marked as running forever"
					} else {
						ok = true
					}
				}
			}
			// disarm nested in a conditional
			if !ok {
				nested := false
				ast.Inspect(fl.Body, func(k ast.Node) bool {
					if ce, isCall := k.(*ast.CallExpr); isCall && calleeOf(info, ce) == r.disarm {
						nested = true
					}
					return true
				})
				if nested && why == "no deferred call to "+r.disarm.Name()+" after arming" {
					why = r.disarm.Name() + " is called only conditionally inside the deferred function"
				}
			}
		}
		// the armed VM is handed to a callable whose call releases it in a deferred statement
		// (the thread started for a clone outlives this function)
		handedOver := false
		if !ok {
			ast.Inspect(fd.Body, func(k ast.Node) bool {
				cl, isCL := k.(*ast.CompositeLit)
				if !isCL || cl.Pos() < armCall.Pos() {
					return true
				}
				nt := core.NamedOf(info.TypeOf(cl))
				if nt == nil || nt.Obj().Pkg() != r.pk.Types {
					return true
				}
				// the armed receiver expression is one of the literal's values
				armedX := ""
				if se, isSel := armCall.Fun.(*ast.SelectorExpr); isSel {
					armedX = exprStr(se.X)
				}
				holds := false
				for _, el := range cl.Elts {
					v := el
					if kv, isKV := el.(*ast.KeyValueExpr); isKV {
						v = kv.Value
					}
					if exprStr(v) == armedX && armedX != "" {
						holds = true
					}
				}
				if !holds {
					return true
				}
				for _, tm := range core.Methods(nt) {
					tfd := p.Decl(tm)
					if tfd == nil || tfd.Body == nil || len(tfd.Body.List) == 0 {
						continue
					}
					if ds, isDefer := tfd.Body.List[0].(*ast.DeferStmt); isDefer && calleeOf(info, ds.Call) == r.disarm {
						handedOver = true
					}
				}
				return true
			})
			if handedOver {
				ok = true
			}
		}
		if handedOver {
			c.Pass(key, posOf(p, fd), m.Name()+" arms the VM and hands it to a callable whose call begins with a deferred "+r.disarm.Name())
			continue
		}
		// nothing between arm and the defer may return without disarming, except the arm error check itself
		if ok {
			var deferPos token.Pos
			for _, s := range fd.Body.List {
				if ds, isDefer := s.(*ast.DeferStmt); isDefer && ds.Pos() > armCall.Pos() && deferPos == token.NoPos {
					deferPos = ds.Pos()
				}
			}
			for _, s := range fd.Body.List {
				if s.Pos() <= armCall.End() || s.Pos() >= deferPos {
					continue
				}
				ast.Inspect(s, func(k ast.Node) bool {
					if _, isRet := k.(*ast.ReturnStmt); isRet {
						ok = false
						why = "a return between arming and the deferred disarm leaves the VM armed"
					}
					return true
				})
			}
		}
		c.Check(ok, key, posOf(p, fd), m.Name()+" arms the VM ("+r.arm.Name()+") and must disarm it ("+r.disarm.Name()+") on every exit, including recovered panics"+ifs(!ok, ": "+why))
	}
	c.Stat("arming_callers", n)
	// inspect flags: every method that sets a bool receiver field to true and tests it clears it by defer
	obj := p.Pkg("object")
	oinfo := obj.TypesInfo
	nflags := 0
	funcBodies(obj, func(fn *types.Func, fd *ast.FuncDecl) {
		if fd.Recv == nil {
			return
		}
		var setField *types.Var
		var setPos token.Pos
		for _, s := range fd.Body.List {
			if as, ok := s.(*ast.AssignStmt); ok && len(as.Lhs) == 1 && len(as.Rhs) == 1 {
				if f := fieldOf(oinfo, as.Lhs[0]); f != nil && isBoolish(f.Type()) {
					if v, isC := oinfo.Types[as.Rhs[0]]; isC && v.Value != nil && v.Value.String() == "true" {
						setField, setPos = f, as.Pos()
					}
				}
			}
		}
		if setField == nil {
			return
		}
		// is the same field tested at the top (re-entrancy guard)?
		tested := false
		ast.Inspect(fd.Body, func(k ast.Node) bool {
			if ifs, ok := k.(*ast.IfStmt); ok && ifs.Pos() < setPos {
				if fieldOf(oinfo, ifs.Cond) == setField {
					tested = true
				}
			}
			return true
		})
		if !tested {
			return
		}
		nflags++
		cleared := false
		for _, s := range fd.Body.List {
			if ds, ok := s.(*ast.DeferStmt); ok && ds.Pos() > setPos {
				if fl, ok := ds.Call.Fun.(*ast.FuncLit); ok {
					ast.Inspect(fl.Body, func(k ast.Node) bool {
						if as, ok := k.(*ast.AssignStmt); ok && len(as.Lhs) == 1 && fieldOf(oinfo, as.Lhs[0]) == setField {
							cleared = true
						}
						return true
					})
				}
			}
		}
		c.Check(cleared, "object."+declName(fd)+"|flag:"+setField.Name()+"-cleared-by-defer", posOf(p, fd), "re-entrancy flag "+setField.Name()+" set by "+declName(fd)+" is cleared by a deferred function (otherwise a panic or early return leaves the object permanently 'busy')")
	})
	c.Stat("reentrancy_flags", nflags)
}

func c07r3(c *core.Ctx) {
	p := c.P
	r := resolveVMRoles(p)
	info := r.info
	// the reset function: the VirtualMachine method without parameters that assigns sp, ip and fp constants
	sp, ip, fp := fieldByName(r.vmT, "sp"), fieldByName(r.vmT, "ip"), fieldByName(r.vmT, "fp")
	var reset *types.Func
	var resetDecl *ast.FuncDecl
	for _, m := range core.Methods(r.vmT) {
		fd := p.Decl(m)
		if fd == nil || fd.Body == nil || m.Type().(*types.Signature).Params().Len() != 0 {
			continue
		}
		w := fieldsWritten(info, fd.Body, r.vmT)
		if w[sp] && w[ip] && w[fp] && m != r.arm {
			reset, resetDecl = m, fd
		}
	}
	if reset == nil {
		core.Undecidedf("reset function (parameterless VirtualMachine method assigning sp, ip and fp) not found")
	}
	w := fieldsWritten(info, resetDecl.Body, r.vmT)
	// run state = fields that the dispatch function / frame activation write, minus configuration (fields Option closures write), minus synchronisation
	required := map[string]string{
		"sp": "operand stack pointer", "ip": "instruction pointer", "fp": "frame pointer",
		"activeFrame": "active frame", "activeCode": "active code",
		"loadedCode": "per-VM code wrappers (hold the globals of the previous code)", "modules": "import cache of the previous code",
	}
	for name, what := range required {
		f := fieldByName(r.vmT, name)
		if f == nil {
			c.Info("VirtualMachine has no field %s (%s): skipped", name, what)
			continue
		}
		c.Check(w[f], "vm.VirtualMachine."+reset.Name()+"|resets:"+name, posOf(p, resetDecl), "running new code on a reused VM resets "+name+" ("+what+")")
	}
	// the halt flag is the arming function's: it clears it on every start (C07-R17) and arms the watcher,
	// after which only the watcher may write it - the reset runs after arming and must leave it alone
	c.Check(!w[r.halt], "vm.VirtualMachine."+reset.Name()+"|leaves-halt-to-the-arming-function", posOf(p, resetDecl),
		"the reset for new code does not write the halt flag (it runs after the watcher was armed: a plain write there can wipe out a halt request of an already cancelled context)")
	// the reset is invoked by the run path when state must not carry over: some caller of arm calls reset
	called := false
	for _, m := range core.Methods(r.vmT) {
		fd := p.Decl(m)
		if fd == nil || fd.Body == nil {
			continue
		}
		arms, resets := false, false
		ast.Inspect(fd.Body, func(n ast.Node) bool {
			if ce, ok := n.(*ast.CallExpr); ok {
				if calleeOf(info, ce) == r.arm {
					arms = true
				}
				if calleeOf(info, ce) == reset {
					resets = true
				}
			}
			return true
		})
		if arms && resets {
			called = true
		}
	}
	c.Check(called, "vm.VirtualMachine."+reset.Name()+"|called-on-run-path", posOf(p, resetDecl), "the run path calls the reset function")
}

// c07r5: publish-after-success for the VM's map-typed fields.
func c07r5(c *core.Ctx) {
	p := c.P
	vmp := p.Pkg("vm")
	vmT := core.MustType(vmp, "VirtualMachine")
	st := vmT.Underlying().(*types.Struct)
	mapField := map[int]string{}
	for i := 0; i < st.NumFields(); i++ {
		if _, ok := st.Field(i).Type().Underlying().(*types.Map); ok {
			mapField[i] = anchorName(vmT, i)
		}
	}
	if len(mapField) == 0 {
		core.Undecidedf("VirtualMachine has no map-typed field")
	}
	// memo caches: the entry is complete when stored and depends on the key only
	exempt := map[string]string{
		"loadedCode": "memo of the immutable compiler output, keyed by the *compiler.Code pointer; an entry is complete when stored",
	}
	fieldOfMap := func(v ssa.Value) string {
		for _, o := range core.Origins(v) {
			if u, ok := o.(*ssa.UnOp); ok && u.Op == token.MUL {
				if fa, ok := u.X.(*ssa.FieldAddr); ok && core.NamedOf(fa.X.Type()) == vmT {
					if name, ok := mapField[fa.Field]; ok {
						return name
					}
				}
			}
		}
		return ""
	}
	// a value taken from the VM's own table of host-supplied globals: storing it
	// again (registering the host's modules) publishes nothing this run produced
	gi := fieldIdxByName(vmT, "globals")
	hostSupplied := func(v ssa.Value) bool {
		if gi < 0 {
			return false
		}
		isNext := func(w ssa.Value) bool {
			nx, ok := w.(*ssa.Next)
			if !ok {
				return false
			}
			rg, ok := nx.Iter.(*ssa.Range)
			if !ok {
				return false
			}
			_, ok = loadOfField(rg.X, vmT, gi)
			return ok
		}
		return isNext(v) || core.DependsOn(v, isNext)
	}
	errIndex := func(fn *ssa.Function) int {
		res := fn.Signature.Results()
		for i := res.Len() - 1; i >= 0; i-- {
			if isErrorType(res.At(i).Type()) {
				return i
			}
		}
		return -1
	}
	var all []*ssa.Function
	var collect func(fn *ssa.Function)
	collect = func(fn *ssa.Function) {
		all = append(all, fn)
		for _, a := range fn.AnonFuncs {
			collect(a)
		}
	}
	for _, m := range core.Methods(vmT) {
		if sf := p.SSAFunc(m); sf != nil && sf.Blocks != nil {
			collect(sf)
		}
	}
	// helpers that cannot fail and publish into a VM map (directly or through another such helper):
	// the unit of work is their caller
	publishes := map[*ssa.Function]string{}
	for changed := true; changed; {
		changed = false
		for _, fn := range all {
			if errIndex(fn) >= 0 || publishes[fn] != "" {
				continue
			}
			for _, b := range fn.Blocks {
				for _, in := range b.Instrs {
					switch x := in.(type) {
					case *ssa.MapUpdate:
						if f := fieldOfMap(x.Map); f != "" && exempt[f] == "" && !hostSupplied(x.Value) && !removedByDefer(fn, x) {
							publishes[fn] = f
							changed = true
						}
					case ssa.CallInstruction:
						if cal := x.Common().StaticCallee(); cal != nil && publishes[cal] != "" {
							publishes[fn] = publishes[cal]
							changed = true
						}
					}
				}
			}
		}
	}
	n := 0
	for _, fn := range all {
		errIdx := errIndex(fn)
		for _, b := range fn.Blocks {
			for i, in := range b.Instrs {
				field, via := "", ""
				switch x := in.(type) {
				case *ssa.MapUpdate:
					if !hostSupplied(x.Value) && !removedByDefer(fn, x) {
						field = fieldOfMap(x.Map)
					}
				case ssa.CallInstruction:
					if cal := x.Common().StaticCallee(); cal != nil && publishes[cal] != "" && errIdx >= 0 {
						field, via = publishes[cal], " (through "+cal.Name()+")"
					}
				}
				if field == "" {
					continue
				}
				key := core.SSAName(fn) + "|" + field + "|publish-after-success"
				if why, ok := exempt[field]; ok {
					c.Pass(key, p.Pos(in.Pos()), "exempt: "+why)
					continue
				}
				n++
				if errIdx < 0 {
					c.Pass(key, p.Pos(in.Pos()), core.SSAName(fn)+" cannot fail: the store into vm."+field+" is judged at its callers")
					continue
				}
				bad := ""
				seen := map[*ssa.BasicBlock]bool{}
				var walk func(bb *ssa.BasicBlock, from int)
				walk = func(bb *ssa.BasicBlock, from int) {
					for _, x := range bb.Instrs[from:] {
						if r, ok := x.(*ssa.Return); ok && len(r.Results) > errIdx {
							rv := spilledResult(bb, r.Results[errIdx])
							allNil := true
							for _, o := range core.Origins(rv) {
								if k, isC := o.(*ssa.Const); !isC || !k.IsNil() {
									allNil = false
								}
							}
							if !allNil {
								bad = p.Pos(r.Pos())
							}
						}
					}
					for _, s := range bb.Succs {
						if !seen[s] {
							seen[s] = true
							walk(s, 0)
						}
					}
				}
				walk(b, i+1)
				c.Check(bad == "", key, p.Pos(in.Pos()),
					core.SSAName(fn)+" stores into vm."+field+via+" only after everything that can fail has succeeded: an entry published before a failure (or a cancellation) stays in the cache and is served to the next invocation on the same VM"+ifs(bad != "", "; error return reachable after the store at "+bad))
			}
		}
	}
	c.Stat("vm_map_stores", n)
}

// spilledResult: with a defer in the function, results are spilled to a local
// ("*t0 = v; rundefers; t = *t0; return t"); the value returned on this path is
// the last store to that local in the returning block.
func spilledResult(bb *ssa.BasicBlock, v ssa.Value) ssa.Value {
	u, ok := v.(*ssa.UnOp)
	if !ok || u.Op != token.MUL {
		return v
	}
	al, ok := u.X.(*ssa.Alloc)
	if !ok {
		return v
	}
	var last ssa.Value
	for _, in := range bb.Instrs {
		if in == ssa.Instruction(u) {
			break
		}
		if st, ok := in.(*ssa.Store); ok && st.Addr == ssa.Value(al) {
			last = st.Val
		}
	}
	if last != nil {
		return last
	}
	return v
}

// vmResetFunc: the parameterless VirtualMachine method that assigns sp, ip and fp.
func vmResetFunc(p *core.Program) *types.Func {
	r := resolveVMRoles(p)
	sp, ip, fp := fieldByName(r.vmT, "sp"), fieldByName(r.vmT, "ip"), fieldByName(r.vmT, "fp")
	var reset *types.Func
	for _, m := range core.Methods(r.vmT) {
		fd := p.Decl(m)
		if fd == nil || fd.Body == nil || m.Type().(*types.Signature).Params().Len() != 0 {
			continue
		}
		w := fieldsWritten(r.info, fd.Body, r.vmT)
		if w[sp] && w[ip] && w[fp] && m != r.arm {
			reset = m
		}
	}
	if reset == nil {
		core.Undecidedf("reset function (parameterless VirtualMachine method assigning sp, ip and fp) not found")
	}
	return reset
}

// resetDiscipline (C04-R5, C18-R4, C07-R7): the run-state reset happens on the
// way into a run and nowhere else, and whether it happens depends only on what
// the caller asked for and on this being the first run — never on what the VM
// happens to have cached.
//   - skipping it when the code object is already loaded leaves the previous
//     result on the operand stack (one slot per evaluation until it overflows);
//   - running it on the way out (in the recover branch) wipes the loaded code and
//     module caches, so the next piece of an incremental session loses its globals.
func resetDiscipline(c *core.Ctx) {
	p := c.P
	r := resolveVMRoles(p)
	reset := vmResetFunc(p)
	resetSSA := p.SSAFunc(reset)
	dispatch := p.SSAFunc(dispatchFunc(p))
	startCount := fieldByName(r.vmT, "startCount")
	n := 0
	var all []*ssa.Function
	var collect func(fn *ssa.Function)
	collect = func(fn *ssa.Function) {
		all = append(all, fn)
		for _, a := range fn.AnonFuncs {
			collect(a)
		}
	}
	for _, m := range core.Methods(r.vmT) {
		if sf := p.SSAFunc(m); sf != nil && sf.Blocks != nil {
			collect(sf)
		}
	}
	var allowed func(v ssa.Value, seen map[ssa.Value]bool) string
	allowed = func(v ssa.Value, seen map[ssa.Value]bool) string {
		if seen[v] {
			return ""
		}
		seen[v] = true
		switch x := v.(type) {
		case *ssa.Const, *ssa.Parameter:
			return ""
		case *ssa.BinOp:
			if s := allowed(x.X, seen); s != "" {
				return s
			}
			return allowed(x.Y, seen)
		case *ssa.UnOp:
			if x.Op == token.MUL {
				if fa, ok := x.X.(*ssa.FieldAddr); ok && startCount != nil && fieldVar(fa) == startCount {
					return ""
				}
				return "reads " + x.X.String()
			}
			return allowed(x.X, seen)
		case *ssa.Phi:
			for _, e := range x.Edges {
				if s := allowed(e, seen); s != "" {
					return s
				}
			}
			// the conditions that select the phi's edges
			for _, pred := range x.Block().Preds {
				if len(pred.Instrs) > 0 {
					if iff, ok := pred.Instrs[len(pred.Instrs)-1].(*ssa.If); ok {
						if s := allowed(iff.Cond, seen); s != "" {
							return s
						}
					}
				}
			}
			return ""
		case *ssa.Convert:
			return allowed(x.X, seen)
		}
		return "depends on " + v.String()
	}
	for _, fn := range all {
		for _, b := range fn.Blocks {
			for _, in := range b.Instrs {
				ci, ok := in.(ssa.CallInstruction)
				if !ok || ci.Common().StaticCallee() != resetSSA {
					continue
				}
				n++
				key := core.SSAName(fn) + "|reset"
				// (a) on the way in: not in a deferred/anonymous function, and not reachable from the dispatch call
				bad := ""
				if fn.Parent() != nil {
					bad = "the reset is called from an anonymous (deferred) function: it runs on the way out of a run"
				}
				for _, b2 := range fn.Blocks {
					for _, in2 := range b2.Instrs {
						if c2, ok := in2.(ssa.CallInstruction); ok && c2.Common().StaticCallee() == dispatch {
							seen := map[*ssa.BasicBlock]bool{}
							var reach func(x *ssa.BasicBlock) bool
							reach = func(x *ssa.BasicBlock) bool {
								if x == b {
									return true
								}
								if seen[x] {
									return false
								}
								seen[x] = true
								for _, s := range x.Succs {
									if reach(s) {
										return true
									}
								}
								return false
							}
							for _, s := range b2.Succs {
								if reach(s) {
									bad = "the reset is reachable after the dispatch call"
								}
							}
						}
					}
				}
				c.Check(bad == "", key+"|on-entry-only", p.Pos(in.Pos()), "the run-state reset happens only on the way into a run"+ifs(bad != "", ": "+bad))
				// (b) controlling conditions
				why := ""
				for d := b.Idom(); d != nil; d = d.Idom() {
					if len(d.Instrs) == 0 {
						continue
					}
					iff, ok := d.Instrs[len(d.Instrs)-1].(*ssa.If)
					if !ok {
						continue
					}
					// d controls b when exactly one successor dominates b
					k := 0
					for _, s := range d.Succs {
						if s == b || s.Dominates(b) {
							k++
						}
					}
					if k != 1 {
						continue
					}
					// only guards under which the run goes on without the reset matter
					goesOn := false
					for _, s := range d.Succs {
						if s == b || s.Dominates(b) {
							continue
						}
						seen := map[*ssa.BasicBlock]bool{}
						var reach func(x *ssa.BasicBlock) bool
						reach = func(x *ssa.BasicBlock) bool {
							if seen[x] {
								return false
							}
							seen[x] = true
							for _, in2 := range x.Instrs {
								if c2, ok := in2.(ssa.CallInstruction); ok && c2.Common().StaticCallee() == dispatch {
									return true
								}
							}
							for _, s2 := range x.Succs {
								if reach(s2) {
									return true
								}
							}
							return false
						}
						if reach(s) {
							goesOn = true
						}
					}
					if !goesOn {
						continue
					}
					if s := allowed(iff.Cond, map[ssa.Value]bool{}); s != "" {
						why = s + " (" + p.Pos(iff.Pos()) + ")"
					}
				}
				c.Check(why == "", key+"|guard", p.Pos(in.Pos()), "whether the run-state reset happens depends only on the caller's request and on this being the first run"+ifs(why != "", "; the guard "+why))
			}
		}
	}
	if n == 0 {
		core.Undecidedf("no call of the reset function %s found", reset.Name())
	}
}

// runStartsEmpty (C04-R6, C07-R8, C18-R6): top-level code enters the dispatch
// loop with an empty operand stack on every run.  In each VM method that arms
// the VM and calls the dispatch function itself, an assignment of a constant to
// sp — directly or through a method that makes it unconditionally — dominates
// the dispatch call.  A reset that only some runs pass through (the RunCode
// path but not the REPL's Run) lets each finished piece leave its result behind
// until the stack overflows.
func runStartsEmpty(c *core.Ctx) {
	p := c.P
	r := resolveVMRoles(p)
	dispatch := p.SSAFunc(dispatchFunc(p))
	arm := p.SSAFunc(r.arm)
	spF := fieldByName(r.vmT, "sp")
	// methods that set sp to a constant on every path
	setsSP := map[*ssa.Function]bool{}
	constStore := func(in ssa.Instruction) bool {
		st, ok := in.(*ssa.Store)
		if !ok {
			return false
		}
		fa, ok := st.Addr.(*ssa.FieldAddr)
		if !ok || fieldVar(fa) != spF {
			return false
		}
		_, isC := st.Val.(*ssa.Const)
		return isC
	}
	var methods []*ssa.Function
	for _, m := range core.Methods(r.vmT) {
		if sf := p.SSAFunc(m); sf != nil && sf.Blocks != nil {
			methods = append(methods, sf)
		}
	}
	for changed := true; changed; {
		changed = false
		for _, sf := range methods {
			if setsSP[sf] {
				continue
			}
			for _, b := range sf.Blocks {
				for _, in := range b.Instrs {
					hit := constStore(in)
					if ci, ok := in.(ssa.CallInstruction); ok {
						if cal := ci.Common().StaticCallee(); cal != nil && setsSP[cal] {
							if _, isDefer := in.(*ssa.Defer); !isDefer {
								hit = true
							}
						}
					}
					if !hit {
						continue
					}
					// b dominates every returning block
					all := true
					for _, rb := range sf.Blocks {
						if len(rb.Instrs) > 0 {
							if _, isRet := rb.Instrs[len(rb.Instrs)-1].(*ssa.Return); isRet && rb != b && !b.Dominates(rb) {
								all = false
							}
						}
					}
					if all {
						setsSP[sf] = true
						changed = true
					}
				}
			}
		}
	}
	// the dispatch function, and the methods that run it without arming the VM
	// themselves (callFunction): a host-facing method that arms its own VM and
	// calls one of those starts a top-level evaluation just the same
	dispatchers := map[*ssa.Function]bool{dispatch: true}
	for _, sf := range methods {
		callsDispatch, arms := false, false
		for _, b := range sf.Blocks {
			for _, in := range b.Instrs {
				if ci, ok := in.(ssa.CallInstruction); ok {
					switch ci.Common().StaticCallee() {
					case dispatch:
						callsDispatch = true
					case arm:
						arms = true
					}
				}
			}
		}
		if callsDispatch && !arms {
			dispatchers[sf] = true
		}
	}
	n := 0
	for _, sf := range methods {
		var armAt, dispAt ssa.Instruction
		for _, b := range sf.Blocks {
			for _, in := range b.Instrs {
				if ci, ok := in.(ssa.CallInstruction); ok {
					cal := ci.Common().StaticCallee()
					switch {
					case cal == arm:
						// its own VM, not one it has just made
						if args := ci.Common().Args; len(args) > 0 && isOwnReceiver(sf, args[0]) {
							armAt = in
						}
					case cal != nil && dispatchers[cal]:
						if _, isDefer := in.(*ssa.Defer); !isDefer {
							if args := ci.Common().Args; len(args) > 0 && isOwnReceiver(sf, args[0]) {
								dispAt = in
							}
						}
					}
				}
			}
		}
		if armAt == nil || dispAt == nil {
			continue
		}
		n++
		ok := false
		db := dispAt.Block()
		for _, b := range sf.Blocks {
			for i, in := range b.Instrs {
				hit := constStore(in)
				if ci, isCall := in.(ssa.CallInstruction); isCall {
					if cal := ci.Common().StaticCallee(); cal != nil && setsSP[cal] {
						if _, isDefer := in.(*ssa.Defer); !isDefer {
							hit = true
						}
					}
				}
				if !hit {
					continue
				}
				if b == db {
					for j, x := range db.Instrs {
						if x == dispAt && i < j {
							ok = true
						}
					}
				} else if b.Dominates(db) {
					ok = true
				}
			}
		}
		c.Check(ok, core.SSAName(sf)+"|empty-stack-before-dispatch", p.Pos(dispAt.Pos()),
			sf.Name()+" runs top-level code: the operand stack is emptied (sp set to a constant) on every path that reaches the dispatch call — otherwise each finished run leaves its result (and each failed run its temporaries) on the stack of the next one")
	}
	if n == 0 {
		core.Undecidedf("no VM method both arms the VM and calls the dispatch function")
	}
}

// isOwnReceiver: v is the receiver parameter of sf, possibly read back from the
// local it was spilled to (a receiver captured by a deferred closure).
func isOwnReceiver(sf *ssa.Function, v ssa.Value) bool {
	if len(sf.Params) == 0 {
		return false
	}
	recv := ssa.Value(sf.Params[0])
	if v == recv {
		return true
	}
	for _, o := range core.Origins(v) {
		if o == recv {
			return true
		}
	}
	if u, ok := v.(*ssa.UnOp); ok && u.Op == token.MUL {
		if al, ok := u.X.(*ssa.Alloc); ok && al.Referrers() != nil {
			for _, r := range *al.Referrers() {
				if st, ok := r.(*ssa.Store); ok && st.Addr == ssa.Value(al) && st.Val == recv {
					return true
				}
			}
		}
	}
	return false
}

// removedByDefer: the entry stored by mu is deleted again by a deferred
// delete(m, key) on the same map and key that is registered right after it
// (an in-progress marker, not a publication).
func removedByDefer(fn *ssa.Function, mu *ssa.MapUpdate) bool {
	for _, b := range fn.Blocks {
		for _, in := range b.Instrs {
			d, ok := in.(*ssa.Defer)
			if !ok {
				continue
			}
			bi, ok := d.Call.Value.(*ssa.Builtin)
			if !ok || bi.Name() != "delete" || len(d.Call.Args) != 2 {
				continue
			}
			if d.Call.Args[1] != mu.Key {
				continue
			}
			if d.Call.Args[0] == mu.Map || core.SameStorage(d.Call.Args[0], mu.Map) || sameAccessPath(d.Call.Args[0], mu.Map, 0) {
				if instrReaches(mu, in) {
					return true
				}
			}
		}
	}
	return false
}
