package rules

import (
	"go/ast"
	"go/token"
	"go/types"
	"sort"
	"strings"

	"golang.org/x/tools/go/ssa"

	"risorcheck/core"
)

// ---------------------------------------------------------------------------
// detachedContextsAreEnumerated: code of the root module that runs on behalf of
// an evaluation uses the context it was given.  context.Background()/TODO()
// cuts the call below it off from cancellation and from everything the context
// carries (the host's OS, the call functions).  The places that do it are an
// explicit table with the reason; anything else is a violation.
var detachedContextAllowed = map[string]string{
	"(*object.ListIter).Interface":    "Interface() has no context parameter; it drains an in-memory iterator",
	"(*object.MapIter).Interface":     "as ListIter.Interface",
	"(*object.IntIter).Interface":     "as ListIter.Interface",
	"(*object.SliceIter).Interface":   "as ListIter.Interface",
	"(*object.SetIter).Interface":     "as ListIter.Interface",
	"(*object.FileIter).Interface":    "as ListIter.Interface (reads the file to its end)",
	"modules/http.ListenAndServe":     "the grace period of the shutdown must outlive the evaluation's context, which is over by then",
	"modules/http.ListenAndServeTLS":  "as ListenAndServe",
	"modules/http.ListenAndServe$1":   "as ListenAndServe",
	"modules/http.ListenAndServeTLS$1": "as ListenAndServe",
}

func detachedContextsAreEnumerated(c *core.Ctx) {
	p := c.P
	n := 0
	for _, fn := range repoFns(p) {
		if fn.Pkg == nil {
			continue
		}
		rel := core.RelPkg(fn.Pkg.Pkg)
		if strings.HasPrefix(rel, "cmd") || strings.HasPrefix(rel, "examples") || strings.HasPrefix(rel, "internal") {
			continue
		}
		if rel != "." && p.ByRel[strings.TrimPrefix(rel, "./")] == nil {
			continue
		}
		for _, b := range fn.Blocks {
			for _, in := range b.Instrs {
				call, ok := in.(*ssa.Call)
				if !ok {
					continue
				}
				cal := call.Call.StaticCallee()
				// WithoutCancel keeps the values of its parent but not its
				// cancellation: for what runs under it, the evaluation never ends
				if cal == nil || cal.Pkg == nil || cal.Pkg.Pkg.Path() != "context" || (cal.Name() != "Background" && cal.Name() != "TODO" && cal.Name() != "WithoutCancel") {
					continue
				}
				n++
				name := core.SSAName(fn)
				if cal.Name() == "WithoutCancel" {
					name += "|WithoutCancel"
				}
				why, ok := detachedContextAllowed[name]
				if ok {
					c.Pass(name+"|detached-context", p.Pos(call.Pos()), "listed: "+why)
					continue
				}
				c.Check(false, name+"|detached-context", p.Pos(call.Pos()),
					fn.Name()+" makes a context of its own (context."+cal.Name()+"): what it calls with it cannot be cancelled with the evaluation and does not see the OS and call functions the evaluation's context carries")
			}
		}
	}
	c.Stat("detached_context_sites", n)
}

// ---------------------------------------------------------------------------
// frameStorageIsPerActivation: the locals of an activation live in storage made
// for that activation.  (a) frame.locals is re-pointed only by the methods that
// start an activation and by the capture method (the one move to the heap):
// any later replacement separates the frame from the cells that closures hold.
// (b) the heap storage an activation gets is freshly made, never the previous
// activation's slice cut to size: a closure (a running goroutine) may still
// hold that.
func frameStorageIsPerActivation(c *core.Ctx) {
	p := c.P
	vmp := p.Pkg("vm")
	frameT := core.MustType(vmp, "frame")
	st := frameT.Underlying().(*types.Struct)
	localsI := fieldIdxByName(frameT, "locals")
	if localsI < 0 {
		core.Undecidedf("frame.locals not found")
	}
	// activation methods: frame methods that store the frame's code
	codeI := fieldIdxByName(frameT, "code")
	isActivation := func(fn *ssa.Function) bool {
		for _, b := range fn.Blocks {
			for _, in := range b.Instrs {
				if s, ok := in.(*ssa.Store); ok {
					if fa, ok := s.Addr.(*ssa.FieldAddr); ok && fa.Field == codeI && core.NamedOf(fa.X.Type()) == frameT {
						return true
					}
				}
			}
		}
		return false
	}
	n := 0
	for _, fn := range repoFns(p, "vm") {
		for _, b := range fn.Blocks {
			for _, in := range b.Instrs {
				s, ok := in.(*ssa.Store)
				if !ok {
					continue
				}
				fa, ok := s.Addr.(*ssa.FieldAddr)
				if !ok || core.NamedOf(fa.X.Type()) != frameT {
					continue
				}
				fname := st.Field(fa.Field).Name()
				sl, isSlice := st.Field(fa.Field).Type().Underlying().(*types.Slice)
				if !isSlice || !core.IsNamed(sl.Elem(), pkgPath("object"), "Object") {
					continue // only the storage of locals
				}
				owner := fn.Signature.Recv() != nil && core.NamedOf(fn.Signature.Recv().Type()) == frameT &&
					(isActivation(fn) || strings.Contains(strings.ToLower(fn.Name()), "capture"))
				n++
				if !owner {
					c.Check(false, core.SSAName(fn)+"|frame."+fname+"|re-pointed-by-owner-only", p.Pos(s.Pos()),
						fn.Name()+" replaces frame."+fname+": only the activation methods and the capture method may (a replacement in the middle of an activation separates the frame from the cells its closures hold)")
					continue
				}
				// (b) what an owner stores: fresh storage, the inline array, nil, or the captured slice itself
				bad := ""
				for _, o := range core.Origins(s.Val) {
					if sl, ok := o.(*ssa.Slice); ok {
						if _, ok := loadOfFieldAny(sl.X, frameT); ok {
							bad = "a re-slice of the frame's previous " + fname
						}
					}
				}
				c.Check(bad == "", core.SSAName(fn)+"|frame."+fname+"|fresh-per-activation", p.Pos(s.Pos()),
					fn.Name()+" gives the activation storage of its own"+ifs(bad != "", ": it stores "+bad+", which a closure of the previous activation may still hold"))
			}
		}
	}
	c.Stat("frame_slice_stores", n)
}

func loadOfFieldAny(v ssa.Value, nt *types.Named) (*ssa.FieldAddr, bool) {
	u, ok := v.(*ssa.UnOp)
	if !ok || u.Op != token.MUL {
		return nil, false
	}
	fa, ok := u.X.(*ssa.FieldAddr)
	if !ok || core.NamedOf(fa.X.Type()) != nt {
		return nil, false
	}
	if _, isSlice := fa.X.Type().Underlying().(*types.Pointer).Elem().Underlying().(*types.Struct).Field(fa.Field).Type().Underlying().(*types.Slice); !isSlice {
		return nil, false
	}
	return fa, true
}

// ---------------------------------------------------------------------------
// channelOpsStayInTheChannelObject: the Go channel behind a script channel is
// operated (send, receive, select) only by the methods of object.Chan, which
// pair every operation with the context and the closed-channel handling.  A
// receive on the accessor's result elsewhere (a "fast path" in the VM) is
// neither atomic with its own emptiness test nor cancellable.
func channelOpsStayInTheChannelObject(c *core.Ctx) {
	p := c.P
	chanT := core.MustType(p.Pkg("object"), "Chan")
	fromAccessor := func(v ssa.Value) bool {
		return core.DependsOn(v, func(w ssa.Value) bool {
			call, ok := w.(*ssa.Call)
			if !ok {
				return false
			}
			cal := call.Call.StaticCallee()
			return cal != nil && cal.Signature.Recv() != nil && core.NamedOf(cal.Signature.Recv().Type()) == chanT
		}) || func() bool {
			call, ok := v.(*ssa.Call)
			if !ok {
				return false
			}
			cal := call.Call.StaticCallee()
			return cal != nil && cal.Signature.Recv() != nil && core.NamedOf(cal.Signature.Recv().Type()) == chanT
		}()
	}
	n, inside := 0, 0
	for _, fn := range repoFns(p) {
		own := fn.Pkg != nil && core.RelPkg(fn.Pkg.Pkg) == "object"
		for _, b := range fn.Blocks {
			for _, in := range b.Instrs {
				var ch ssa.Value
				switch x := in.(type) {
				case *ssa.UnOp:
					if x.Op == token.ARROW {
						ch = x.X
					}
				case *ssa.Send:
					ch = x.Chan
				case *ssa.Select:
					for _, st := range x.States {
						if _, ok := st.Chan.Type().Underlying().(*types.Chan); ok {
							if et, ok := st.Chan.Type().Underlying().(*types.Chan).Elem().(*types.Named); ok && et.Obj().Name() == "Object" {
								ch = st.Chan
							}
						}
					}
				}
				if ch == nil {
					continue
				}
				ct, ok := ch.Type().Underlying().(*types.Chan)
				if !ok || !core.IsNamed(ct.Elem(), pkgPath("object"), "Object") {
					continue
				}
				if own {
					inside++
					continue
				}
				if !fromAccessor(ch) {
					continue
				}
				n++
				c.Check(false, core.SSAName(fn)+"|channel-operated-outside-object.Chan", p.Pos(in.Pos()),
					fn.Name()+" operates the Go channel of a script channel directly (obtained from an accessor of object.Chan): the operation is not paired with the context and the closed-channel handling of Chan.Send / Receive")
			}
		}
	}
	c.Check(inside > 0, "control|channel-ops-in-object", "", sprintf("%d channel operations on chan Object inside package object (positive control), %d outside", inside, n))
	c.Stat("channel_ops_outside_object", n)
}

// ---------------------------------------------------------------------------
// membersPointBackUnconditionally: NewBuiltinsModule points every builtin of the
// table it is given back at the new module (scripts see that as __module__).
// The assignment depends only on the member being a builtin, not on what its
// back-pointer holds already: a member taken from another module would
// otherwise keep leading to that module - for a restricted facade of "os",
// to the complete one.
func membersPointBackUnconditionally(c *core.Ctx) {
	p := c.P
	op := p.Pkg("object")
	biT := core.MustType(op, "Builtin")
	modI := fieldIdxByName(biT, "module")
	if modI < 0 {
		core.Undecidedf("Builtin.module not found")
	}
	n := 0
	for _, fn := range repoFns(p, "object") {
		if !strings.HasPrefix(fn.Name(), "New") || fn.Signature.Recv() != nil {
			continue
		}
		for _, b := range fn.Blocks {
			for _, in := range b.Instrs {
				s, ok := in.(*ssa.Store)
				if !ok {
					continue
				}
				fa, ok := s.Addr.(*ssa.FieldAddr)
				if !ok || fa.Field != modI || core.NamedOf(fa.X.Type()) != biT {
					continue
				}
				if _, fresh := fa.X.(*ssa.Alloc); fresh {
					continue // the constructor of the builtin itself
				}
				n++
				bad := ""
				for _, b2 := range fn.Blocks {
					if len(b2.Instrs) == 0 || !b2.Dominates(b) || b2 == b {
						continue
					}
					iff, ok := b2.Instrs[len(b2.Instrs)-1].(*ssa.If)
					if !ok {
						continue
					}
					if core.DependsOn(iff.Cond, func(w ssa.Value) bool {
						_, ok := loadOfField(w, biT, modI)
						return ok
					}) {
						bad = p.Pos(iff.Pos())
					}
				}
				c.Check(bad == "", core.SSAName(fn)+"|member-back-pointer-unconditional", p.Pos(s.Pos()),
					fn.Name()+" points every member builtin back at the new module"+ifs(bad != "", ": the assignment depends on the member's present back-pointer (test at "+bad+"), so a member taken from another module keeps leading scripts to that module through __module__"))
			}
		}
	}
	if n == 0 {
		core.Undecidedf("no module constructor sets Builtin.module")
	}
	c.Stat("member_back_pointer_sites", n)
}

// ---------------------------------------------------------------------------
// mediatedModulesKeepNoState: the modules that stand between a script and the
// OS (modules/os, modules/filepath, modules/fmt, builtins) keep no package-level
// state that is written at run time.  An answer remembered there (a host name,
// a working directory) is served to every later evaluation, whatever OS that
// evaluation was given.
func mediatedModulesKeepNoState(c *core.Ctx) {
	p := c.P
	fns := repoFunctions(p)
	n := 0
	for _, rel := range []string{"modules/os", "modules/filepath", "modules/fmt", "builtins"} {
		if !p.HasPkg(rel) {
			continue
		}
		sp := p.SSAPkg(p.Pkg(rel))
		if sp == nil {
			continue
		}
		var names []string
		for nm, m := range sp.Members {
			if _, ok := m.(*ssa.Global); ok && !strings.HasPrefix(nm, "init$") && nm != "_" {
				names = append(names, nm)
			}
		}
		sort.Strings(names)
		for _, nm := range names {
			g := sp.Members[nm].(*ssa.Global)
			n++
			where := ""
			for _, a := range globalAccesses(g, fns) {
				if a.write && !isInitFunc(a.fn) && !isHostSetter(a.fn, fns) && !onlyCalledFromInit(a.fn, fns) {
					where = core.SSAName(a.fn) + " at " + p.Pos(a.instr.Pos())
				}
			}
			if selfSynchronised(g.Type()) {
				continue
			}
			c.Check(where == "", rel+"."+nm+"|no-run-time-state", p.Pos(g.Pos()),
				"package variable "+rel+"."+nm+" is not written at run time"+ifs(where != "", ": "+where+" writes it, so what one evaluation obtained from its OS is kept for the evaluations that follow, whatever OS they were given"))
		}
	}
	c.Stat("mediated_package_variables", n)
}

// ---------------------------------------------------------------------------
// equalsNotShortCircuitedByType: outside Equals/Compare themselves, package
// object does not decide "not equal" by comparing the Type() of two values:
// int, float and byte compare equal across types, and so do byte_slice and
// string.  A search (index, count, remove, in) that skips Equals for values of
// different types stops finding 2 in [1, 2.0].
func equalsNotShortCircuitedByType(c *core.Ctx) {
	p := c.P
	n, sites := 0, 0
	for _, fn := range repoFns(p, "object", "builtins") {
		if fn.Name() == "Equals" || fn.Name() == "Compare" {
			continue
		}
		// only where the comparison can stand in for Equals: the function also calls Equals
		callsEquals := false
		for _, b := range fn.Blocks {
			for _, in := range b.Instrs {
				if ci, ok := in.(ssa.CallInstruction); ok {
					if ci.Common().IsInvoke() && ci.Common().Method.Name() == "Equals" {
						callsEquals = true
					}
					if cal := ci.Common().StaticCallee(); cal != nil && cal.Name() == "Equals" {
						callsEquals = true
					}
				}
			}
		}
		for _, b := range fn.Blocks {
			for _, in := range b.Instrs {
				bo, ok := in.(*ssa.BinOp)
				if !ok || (bo.Op != token.EQL && bo.Op != token.NEQ) {
					continue
				}
				isTypeCall := func(v ssa.Value) (ssa.Value, bool) {
					call, ok := v.(*ssa.Call)
					if !ok || !call.Call.IsInvoke() || call.Call.Method.Name() != "Type" || !core.IsNamed(call.Call.Value.Type(), pkgPath("object"), "Object") {
						return nil, false
					}
					return call.Call.Value, true
				}
				x, ok1 := isTypeCall(bo.X)
				y, ok2 := isTypeCall(bo.Y)
				if ok1 || ok2 {
					sites++
				}
				if !ok1 || !ok2 || x == y || !callsEquals {
					continue
				}
				n++
				c.Check(false, core.SSAName(fn)+"|type-comparison-of-two-values", p.Pos(bo.Pos()),
					fn.Name()+" compares the Type() of two values: values of different types can be equal (1 == 1.0, byte_slice(\"a\") == \"a\"), so this must not stand in for Equals")
			}
		}
	}
	c.Check(sites > 0, "control|type-comparisons", "", sprintf("%d comparisons of a value's Type() with a type constant outside Equals/Compare (positive control), %d between two values", sites, n))
	c.Stat("type_comparisons", sites)
}

// ---------------------------------------------------------------------------
// clonesShareCodeWrappers: a VM and its clones (threads) share the wrappers of
// loaded code by pointer.  When a later piece of an incremental session makes
// the main code's globals array grow, the reload re-points the wrappers in
// place; a clone that holds copies of them goes on reading and writing the old
// array.
func clonesShareCodeWrappers(c *core.Ctx) {
	p := c.P
	vmp := p.Pkg("vm")
	vmT := core.MustType(vmp, "VirtualMachine")
	cloneM := core.Method(vmT, "Clone")
	lcI := fieldIdxByName(vmT, "loadedCode")
	if cloneM == nil || lcI < 0 {
		core.Undecidedf("VirtualMachine.Clone / loadedCode not found")
	}
	n := 0
	// the table of code wrappers of the new VM, as Clone (or a helper it hands
	// the work to) fills it: entry by entry in a loop, or by a copier
	for _, in := range cloneModelOf(p).InitOf(lcI) {
		if in.Kind != "copy" {
			continue
		}
		if len(in.Updates) == 0 {
			// maps.Clone: the values are the original's values
			n++
			c.Pass("vm.VirtualMachine.Clone|code-wrappers-shared-by-pointer", p.Pos(in.Store.Pos()), "Clone hands the clone the parent's code wrappers themselves (an entry-wise copy of the table by maps.Clone)")
			continue
		}
		for _, mu := range in.Updates {
			n++
			fresh := false
			for _, o := range core.Origins(mu.Value) {
				if _, ok := o.(*ssa.Alloc); ok {
					fresh = true
				}
			}
			c.Check(!fresh, "vm.VirtualMachine.Clone|code-wrappers-shared-by-pointer", p.Pos(mu.Pos()),
				"Clone hands the clone the parent's code wrappers themselves"+ifs(fresh, ": it stores copies, which the reload of a later piece does not re-point - a thread that outlives its piece keeps the old globals array"))
		}
	}
	if n == 0 {
		core.Undecidedf("Clone does not fill a table of code wrappers")
	}
	c.Stat("clone_wrapper_stores", n)
}

// ---------------------------------------------------------------------------
// subscriptGoesThroughGetItem: what BinarySubscr pushes is the result of
// Container.GetItem (or the error it reports).  A shortcut that reads the
// container's storage directly loses GetItem's checks: a missing map key
// evaluates to nil instead of raising a key error.
func subscriptGoesThroughGetItem(c *core.Ctx) {
	p := c.P
	t := VMTable(p)
	info := p.Pkg("vm").TypesInfo
	var clause *ast.CaseClause
	for _, cc := range t.Switch.Body.List {
		cl := cc.(*ast.CaseClause)
		for _, e := range cl.List {
			if k, _ := objOf(info, e).(*types.Const); k != nil && k.Name() == "BinarySubscr" {
				clause = cl
			}
		}
	}
	if clause == nil {
		core.Undecidedf("no dispatch clause for op.BinarySubscr")
	}
	assigns := map[types.Object][]ast.Expr{}
	for _, s := range clause.Body {
		for o, rs := range localAssignments(info, s) {
			assigns[o] = append(assigns[o], rs...)
		}
	}
	fromGetItem := func(e ast.Expr) bool {
		ok := false
		var visit func(e ast.Expr, d int)
		visit = func(e ast.Expr, d int) {
			if d > 3 {
				return
			}
			switch x := ast.Unparen(e).(type) {
			case *ast.CallExpr:
				if cal := calleeOf(info, x); cal != nil && cal.Name() == "GetItem" {
					ok = true
				}
			case *ast.Ident:
				for _, r := range assigns[objOfIdent(info, x)] {
					visit(r, d+1)
				}
			}
		}
		visit(e, 0)
		return ok
	}
	n := 0
	for _, s := range clause.Body {
		ast.Inspect(s, func(k ast.Node) bool {
			ce, ok := k.(*ast.CallExpr)
			if !ok || calleeOf(info, ce) != t.Prims["push"] || len(ce.Args) != 1 {
				return true
			}
			n++
			c.Check(fromGetItem(ce.Args[0]), "vm.eval|BinarySubscr|pushes-GetItem-result#"+itoa(n), p.Pos(ce.Pos()),
				"the value BinarySubscr pushes comes from Container.GetItem"+ifs(!fromGetItem(ce.Args[0]), ": "+exprStr(ce.Args[0])+" is read past GetItem (no key error for a missing key, no index checks)"))
			return true
		})
	}
	if n == 0 {
		core.Undecidedf("the BinarySubscr handler pushes nothing")
	}
	c.Stat("subscript_pushes", n)
}

// onlyCalledFromInit: an exported registration function whose callers inside the
// repository are all package initialisers (the host may call it too, at set-up).
func onlyCalledFromInit(f *ssa.Function, fns []*ssa.Function) bool {
	o, _ := f.Object().(*types.Func)
	if o == nil || !o.Exported() || f.Parent() != nil {
		return false
	}
	for _, g := range fns {
		for _, b := range g.Blocks {
			for _, in := range b.Instrs {
				if ci, ok := in.(ssa.CallInstruction); ok && ci.Common().StaticCallee() == f && !isInitFunc(g) {
					return false
				}
			}
		}
	}
	return true
}

// ---------------------------------------------------------------------------
// sharedObjectFieldsAreNotPlainWritten: a channel object is shared by threads by
// design and has no mutex.  Its methods do not write its fields (other than the
// constructor): a `closed` flag tested and set by Close lets two closers both
// pass the test, and the second close panics inside the builtin.
var chanFieldWriteAllowed = map[string]string{
	"(*object.Chan).Next": "legacy single-consumer iterator state kept for API compatibility; range loops use the per-consumer iterator from Iter() (D56)",
}

func sharedObjectFieldsAreNotPlainWritten(c *core.Ctx) {
	p := c.P
	chanT := core.MustType(p.Pkg("object"), "Chan")
	st := chanT.Underlying().(*types.Struct)
	n := 0
	for _, fn := range repoFns(p) {
		for _, b := range fn.Blocks {
			for _, in := range b.Instrs {
				s, ok := in.(*ssa.Store)
				if !ok {
					continue
				}
				fa, ok := s.Addr.(*ssa.FieldAddr)
				if !ok || core.NamedOf(fa.X.Type()) != chanT {
					continue
				}
				if _, fresh := fa.X.(*ssa.Alloc); fresh {
					continue
				}
				n++
				name := core.SSAName(fn)
				if why, ok := chanFieldWriteAllowed[name]; ok {
					c.Pass(name+"|Chan."+st.Field(fa.Field).Name()+"|unsynchronised-write", p.Pos(s.Pos()), "listed: "+why)
					continue
				}
				c.Check(false, name+"|Chan."+st.Field(fa.Field).Name()+"|unsynchronised-write", p.Pos(s.Pos()),
					fn.Name()+" writes Chan."+st.Field(fa.Field).Name()+" without synchronisation: channel objects are shared between threads, and a test-then-set on such a field lets two threads both pass the test")
			}
		}
	}
	if n == 0 {
		c.Pass("object.Chan|no-field-writes", "", "no method writes a field of Chan after construction")
	}
	c.Stat("chan_field_writes", n)
}

// ---------------------------------------------------------------------------
// integerDivisionGuarded: on the surface that no recover protects (parser,
// compiler, the embedding API), an integer is divided only by a constant or by
// a value tested against zero on the way.  The VM turns a division by zero
// into an error because it recovers; the compiler does not, so a constant
// folded there (1 / 0 in code that may never even run) panics in the caller
// of Eval.
func integerDivisionGuarded(c *core.Ctx) {
	p := c.P
	surf, _ := unprotectedSurface(p)
	set := map[*ssa.Function]bool{}
	for f := range surf {
		if f.Blocks != nil && core.RepoFunc(f) {
			set[f] = true
		}
	}
	for _, f := range repoFns(p, "lexer", "parser", "token", "ast", "compiler") {
		set[f] = true
	}
	var fns []*ssa.Function
	for f := range set {
		if !strings.HasSuffix(p.Fset.Position(f.Pos()).Filename, "_test.go") {
			fns = append(fns, f)
		}
	}
	sort.Slice(fns, func(i, j int) bool { return core.SSAName(fns[i]) < core.SSAName(fns[j]) })
	n, bad := 0, 0
	for _, fn := range fns {
		for _, b := range fn.Blocks {
			for _, in := range b.Instrs {
				bo, ok := in.(*ssa.BinOp)
				if !ok || (bo.Op != token.QUO && bo.Op != token.REM) {
					continue
				}
				bt, ok := bo.X.Type().Underlying().(*types.Basic)
				if !ok || bt.Info()&types.IsInteger == 0 {
					continue
				}
				if k, ok := bo.Y.(*ssa.Const); ok && k.Value != nil {
					continue
				}
				n++
				guarded := false
				for _, b2 := range fn.Blocks {
					if len(b2.Instrs) == 0 || (b2 != b && !b2.Dominates(b)) {
						continue
					}
					iff, ok := b2.Instrs[len(b2.Instrs)-1].(*ssa.If)
					if !ok {
						continue
					}
					if cond, ok := iff.Cond.(*ssa.BinOp); ok {
						for _, pair := range [][2]ssa.Value{{cond.X, cond.Y}, {cond.Y, cond.X}} {
							if (pair[0] == bo.Y || core.SameStorage(pair[0], bo.Y)) {
								if k, ok := pair[1].(*ssa.Const); ok && k.Value != nil {
									guarded = true
								}
							}
						}
					}
				}
				// len(x) of a non-empty thing, sizes: a divisor that is a call to len/cap on something ranged over is not provably non-zero; keep strict
				if !guarded {
					bad++
					c.Check(false, core.SSAName(fn)+"|integer-division-guarded", p.Pos(bo.Pos()),
						fn.Name()+" divides an integer by a value that is not tested against zero on the way: a zero divisor is a Go panic, and nothing recovers it on this path (it reaches the caller of the embedding API)")
				}
			}
		}
	}
	if bad == 0 {
		c.Pass("surface|integer-divisions-guarded", "", sprintf("%d integer divisions by a non-constant on the unprotected surface (%d functions), all guarded", n, len(fns)))
	}
	c.Stat("integer_divisions_on_surface", n)
}

// ---------------------------------------------------------------------------
// collectedMapKeysAreSorted: slices.Collect(maps.Keys(m)) (and maps.Values) is a
// list in map iteration order without a range statement in sight.  It is used
// only where it is sorted at once (slices.Sorted does both).
func collectedMapKeysAreSorted(c *core.Ctx) {
	p := c.P
	n, sorted := 0, 0
	for _, pk := range p.Pkgs {
		if !core.InRepo(pk.Types) {
			continue
		}
		info := pk.TypesInfo
		for _, f := range pk.Syntax {
			if strings.HasSuffix(p.Fset.Position(f.Pos()).Filename, "_test.go") {
				continue
			}
			walkStack(f, func(nd ast.Node, stack []ast.Node) bool {
				ce, ok := nd.(*ast.CallExpr)
				if !ok {
					return true
				}
				cal := calleeOf(info, ce)
				if cal == nil || cal.Pkg() == nil {
					return true
				}
				if cal.Pkg().Path() == "slices" && strings.HasPrefix(cal.Name(), "Sorted") {
					sorted++
				}
				if cal.Pkg().Path() != "slices" || cal.Name() != "Collect" || len(ce.Args) != 1 {
					return true
				}
				inner, ok := ast.Unparen(ce.Args[0]).(*ast.CallExpr)
				if !ok {
					return true
				}
				ic := calleeOf(info, inner)
				if ic == nil || ic.Pkg() == nil || ic.Pkg().Path() != "maps" || (ic.Name() != "Keys" && ic.Name() != "Values") {
					return true
				}
				n++
				okSorted := false
				if len(stack) > 0 {
					if pc, ok := stack[len(stack)-1].(*ast.CallExpr); ok {
						if pcal := calleeOf(info, pc); pcal != nil && pcal.Pkg() != nil && (pcal.Pkg().Path() == "sort" || (pcal.Pkg().Path() == "slices" && strings.HasPrefix(pcal.Name(), "Sort"))) {
							okSorted = true
						}
					}
				}
				c.Check(okSorted, qualPos(p, nd)+"|collected-map-"+strings.ToLower(ic.Name())+"-sorted", p.Pos(ce.Pos()),
					"slices.Collect(maps."+ic.Name()+"(…)) is a list in map iteration order: it is sorted at once (slices.Sorted) before anything depends on its order")
				return true
			})
		}
	}
	c.Pass("repo|collected-map-keys", "", sprintf("%d uses of slices.Collect(maps.Keys/Values) in the repository, %d of slices.Sorted*", n, sorted))
	c.Stat("collected_map_keys", n)
}

func qualPos(p *core.Program, nd ast.Node) string {
	f := p.Pos(nd.Pos())
	if i := strings.LastIndex(f, ":"); i >= 0 {
		f = f[:i]
	}
	return f
}

// ---------------------------------------------------------------------------
// loopExitTargets: the jump of a `break` is patched to a position emitted after
// the loop's backward jump (it leaves the loop), the jump of a `continue` to the
// backward jump itself or a position before it (it stays in the loop).  Two
// swapped arguments of a shared patching helper turn break into continue.
func loopExitTargets(c *core.Ctx) {
	p := c.P
	cp := p.Pkg("compiler")
	loopT := core.LookupType(cp, "loop")
	if loopT == nil {
		core.Undecidedf("compiler.loop not found")
	}
	bI, cI := fieldIdxByName(loopT, "breakPos"), fieldIdxByName(loopT, "continuePos")
	if bI < 0 || cI < 0 {
		core.Undecidedf("loop.breakPos / continuePos not found")
	}
	opc := VMTable(p).OpConsts
	jb, _ := constantInt64(opc["JumpBackward"].Val())
	fns := repoFns(p, "compiler")
	backJumps := func(fn *ssa.Function) []ssa.Instruction {
		var out []ssa.Instruction
		for _, b := range fn.Blocks {
			for _, in := range b.Instrs {
				if call, ok := in.(*ssa.Call); ok {
					if cal := call.Call.StaticCallee(); cal != nil && cal.Name() == "emit" && len(call.Call.Args) >= 2 {
						if k, ok := call.Call.Args[1].(*ssa.Const); ok && k.Value != nil {
							if v, ok := constantInt64(k.Value); ok && v == jb {
								out = append(out, in)
							}
						}
					}
				}
			}
		}
		return out
	}
	// judge a target value T in function ctx for kind
	judge := func(ctxFn *ssa.Function, T ssa.Value, kind string) string {
		js := backJumps(ctxFn)
		if len(js) == 0 {
			return "" // no backward jump in this function: not a loop compiler
		}
		var defs []ssa.Instruction
		for _, o := range core.Origins(T) {
			if in, ok := o.(ssa.Instruction); ok {
				defs = append(defs, in)
			}
		}
		if len(defs) == 0 {
			return ""
		}
		for _, d := range defs {
			after := false
			isJ := false
			for _, j := range js {
				if d == j {
					isJ = true
				}
				if d != j && instrDominates(j, d) {
					after = true
				}
			}
			if kind == "break" && !after {
				return "the target of break is not a position emitted after the loop's backward jump"
			}
			if kind == "continue" && after && !isJ {
				return "the target of continue is a position emitted after the loop's backward jump (it leaves the loop)"
			}
		}
		return ""
	}
	n := 0
	for _, fn := range fns {
		perKind := map[string]int{}
		for _, b := range fn.Blocks {
			for _, in := range b.Instrs {
				bo, ok := in.(*ssa.BinOp)
				if !ok || bo.Op != token.SUB {
					continue
				}
				// pos: an element of breakPos / continuePos
				kind := ""
				core.DependsOn(bo.Y, func(w ssa.Value) bool {
					if fa, ok := w.(*ssa.FieldAddr); ok && core.NamedOf(fa.X.Type()) == loopT {
						if fa.Field == bI {
							kind = "break"
						} else if fa.Field == cI {
							kind = "continue"
						}
					}
					return false
				})
				if kind == "" {
					continue
				}
				n++
				why := ""
				if prm, ok := bo.X.(*ssa.Parameter); ok {
					// a helper: judge the argument at every call site
					idx := -1
					for i, q := range fn.Params {
						if q == prm {
							idx = i
						}
					}
					for _, g := range fns {
						for _, b2 := range g.Blocks {
							for _, i2 := range b2.Instrs {
								if ci, ok := i2.(ssa.CallInstruction); ok && ci.Common().StaticCallee() == fn && idx >= 0 && idx < len(ci.Common().Args) {
									if w := judge(g, ci.Common().Args[idx], kind); w != "" {
										why = w + " (call in " + g.Name() + " at " + p.Pos(i2.Pos()) + ")"
									}
								}
							}
						}
					}
				} else {
					why = judge(fn, bo.X, kind)
				}
				perKind[kind]++
				c.Check(why == "", core.SSAName(fn)+"|"+kind+"-target"+ifs(perKind[kind] > 1, "#"+itoa(perKind[kind])), p.Pos(bo.Pos()),
					"the jumps recorded for "+kind+" are patched to a position "+ifs(kind == "break", "after")+ifs(kind == "continue", "at or before")+" the loop's backward jump"+ifs(why != "", ": "+why))
			}
		}
	}
	c.Stat("loop_exit_patch_sites", n)
}

// ---------------------------------------------------------------------------
// jsonCodecAndModuleEncodeTheSameThing: json.marshal and the json codec agree
// only if they hand the same Go value to encoding/json.  One marshalling the
// script object (its MarshalJSON) and the other obj.Interface() disagree on
// every type whose two renderings differ (byte_slice, buffer, nil, time).
func jsonCodecAndModuleEncodeTheSameThing(c *core.Ctx) {
	p := c.P
	form := func(fn *ssa.Function) []string {
		var out []string
		seen := map[*ssa.Function]bool{}
		var walk func(f *ssa.Function, d int)
		walk = func(f *ssa.Function, d int) {
			if f == nil || f.Blocks == nil || seen[f] || d > 2 {
				return
			}
			seen[f] = true
			for _, b := range f.Blocks {
				for _, in := range b.Instrs {
					call, ok := in.(*ssa.Call)
					if !ok {
						continue
					}
					cal := call.Call.StaticCallee()
					if cal == nil {
						continue
					}
					if cal.Pkg != nil && cal.Pkg.Pkg.Path() == "encoding/json" && strings.HasPrefix(cal.Name(), "Marshal") && len(call.Call.Args) > 0 {
						viaInterface := core.DependsOn(call.Call.Args[0], func(w ssa.Value) bool {
							ic, ok := w.(*ssa.Call)
							return ok && ic.Call.IsInvoke() && ic.Call.Method.Name() == "Interface"
						})
						if viaInterface {
							out = append(out, "obj.Interface()")
						} else {
							out = append(out, "the object itself")
						}
					} else if core.RepoFunc(cal) && cal.Pkg == f.Pkg {
						walk(cal, d+1)
					}
				}
			}
		}
		walk(fn, 0)
		sort.Strings(out)
		return dedup(out)
	}
	var encF, marF *ssa.Function
	for _, fn := range repoFns(p, "builtins") {
		if fn.Name() == "encodeJSON" {
			encF = fn
		}
	}
	if p.HasPkg("modules/json") {
		for _, fn := range repoFns(p, "modules/json") {
			if fn.Name() == "Marshal" && fn.Parent() == nil {
				marF = fn
			}
		}
	}
	if encF == nil || marF == nil {
		core.Undecidedf("builtins.encodeJSON / modules/json.Marshal not found")
	}
	a, b := form(encF), form(marF)
	c.Check(len(a) > 0 && strings.Join(a, ",") == strings.Join(b, ","), "json|codec-and-module-marshal-the-same-value", p.Pos(encF.Pos()),
		"the json codec hands encoding/json "+strings.Join(a, ", ")+" and json.marshal hands it "+strings.Join(b, ", ")+ifs(strings.Join(a, ",") != strings.Join(b, ","), ": the two renderings of a value differ for byte_slice, buffer, nil and time values, so the codec and the module disagree"))
}

// ---------------------------------------------------------------------------
// stringBytesAreNotCharacters: s[i] of a Go string is a byte.  Converting it to
// a rune to stand for "the character" (after testing len(s) == 1, which counts
// bytes) rejects or mangles every character outside ASCII; the character is
// what utf8.DecodeRuneInString or a []rune conversion yields.
func stringBytesAreNotCharacters(c *core.Ctx) {
	p := c.P
	n, sites := 0, 0
	for _, fn := range repoFns(p) {
		if fn.Pkg == nil {
			continue
		}
		rel := core.RelPkg(fn.Pkg.Pkg)
		if rel != "object" && rel != "builtins" && !strings.HasPrefix(rel, "modules/") {
			continue
		}
		for _, b := range fn.Blocks {
			for _, in := range b.Instrs {
				cv, ok := in.(*ssa.Convert)
				if !ok {
					continue
				}
				db, ok := cv.Type().Underlying().(*types.Basic)
				if !ok || db.Kind() != types.Int32 {
					continue
				}
				sb, ok := cv.X.Type().Underlying().(*types.Basic)
				if !ok || sb.Kind() != types.Uint8 {
					continue
				}
				sites++
				var src ssa.Value
				switch x := cv.X.(type) {
				case *ssa.Lookup:
					src = x.X
				case *ssa.Index:
					src = x.X
				}
				if src == nil || !core.IsStringType(src.Type()) {
					continue
				}
				n++
				c.Check(false, core.SSAName(fn)+"|string-byte-used-as-character", p.Pos(cv.Pos()),
					fn.Name()+" converts a byte of a string to a rune: for any character outside ASCII that is its first UTF-8 byte, not the character")
			}
		}
	}
	c.Pass("interpreter|byte-to-rune-conversions", "", sprintf("%d byte-to-rune conversions in object, builtins and modules, %d of them of a string element", sites, n))
	c.Stat("byte_to_rune_conversions", sites)
}

// ---------------------------------------------------------------------------
// virtualCwdStaysAbsolute: every relative path a script supplies is resolved
// against VirtualOS.cwd before the mount lookup.  The methods of the virtual OS
// therefore keep cwd absolute and clean: Chdir with a relative directory joins
// it to the current one instead of storing it verbatim (after cd("tmp") every
// relative path would resolve to "tmp/…", which lies under no mount).
func virtualCwdStaysAbsolute(c *core.Ctx) {
	p := c.P
	ros := p.Pkg("os")
	vT := core.MustType(ros, "VirtualOS")
	ci := fieldIdxByName(vT, "cwd")
	if ci < 0 {
		core.Undecidedf("VirtualOS.cwd not found")
	}
	n := 0
	for _, fn := range repoFns(p, "os") {
		if fn.Signature.Recv() == nil || core.NamedOf(fn.Signature.Recv().Type()) != vT {
			continue
		}
		for _, b := range fn.Blocks {
			for _, in := range b.Instrs {
				s, ok := in.(*ssa.Store)
				if !ok {
					continue
				}
				fa, ok := s.Addr.(*ssa.FieldAddr)
				if !ok || fa.Field != ci || core.NamedOf(fa.X.Type()) != vT {
					continue
				}
				n++
				okv := true
				for _, o := range core.Origins(s.Val) {
					cal := core.CalleeOfValue(o)
					if cal == nil || cal.Pkg == nil || (cal.Pkg.Pkg.Path() != "path/filepath" && cal.Pkg.Pkg.Path() != "path") || (cal.Name() != "Clean" && cal.Name() != "Join") {
						okv = false
					}
				}
				c.Check(okv, core.SSAName(fn)+"|cwd-absolute-and-clean", p.Pos(s.Pos()),
					fn.Name()+" stores a joined / cleaned path as the working directory"+ifs(!okv, ": it stores its argument verbatim, so a relative directory makes every later relative path resolve outside all mounts"))
			}
		}
	}
	if n == 0 {
		core.Undecidedf("no VirtualOS method sets cwd")
	}
	c.Stat("cwd_stores", n)
}

// ---------------------------------------------------------------------------
// importRootFixedAtConstruction: the directory a LocalImporter loads modules
// from is made absolute when the importer is built.  A relative root is
// otherwise resolved again at every import against the working directory of
// that moment, which a script may have changed (os.chdir): the import then
// loads a file from outside the configured root.
func importRootFixedAtConstruction(c *core.Ctx) {
	p := c.P
	ip := p.Pkg("importer")
	liT := core.MustType(ip, "LocalImporter")
	si := fieldIdxByName(liT, "sourceDir")
	if si < 0 {
		core.Undecidedf("LocalImporter.sourceDir not found")
	}
	n := 0
	for _, fn := range repoFns(p, "importer") {
		for _, b := range fn.Blocks {
			for _, in := range b.Instrs {
				s, ok := in.(*ssa.Store)
				if !ok {
					continue
				}
				fa, ok := s.Addr.(*ssa.FieldAddr)
				if !ok || fa.Field != si || core.NamedOf(fa.X.Type()) != liT {
					continue
				}
				n++
				abs := core.DependsOn(s.Val, func(w ssa.Value) bool {
					cal := core.CalleeOfValue(w)
					if cal == nil {
						if ex, ok := w.(*ssa.Extract); ok {
							cal = core.CalleeOfValue(ex.Tuple)
						}
					}
					return cal != nil && cal.Pkg != nil && cal.Pkg.Pkg.Path() == "path/filepath" && cal.Name() == "Abs"
				})
				c.Check(abs, core.SSAName(fn)+"|import-root-absolute", p.Pos(s.Pos()),
					fn.Name()+" stores the import root as an absolute path"+ifs(!abs, ": a relative root is resolved again on every import, against a working directory the script may have changed"))
			}
		}
	}
	if n == 0 {
		core.Undecidedf("nothing sets LocalImporter.sourceDir")
	}
	c.Stat("import_root_stores", n)
}

// ---------------------------------------------------------------------------
// operandsCompiledInSourceOrder: the operands of an expression are evaluated
// left to right, so a compile function compiles them in source order: the
// left operand before the right one, the start of a slice before its stop,
// the container before the index.  (Where the VM instruction wants another
// order on the stack, the values are swapped after both were computed.)
var orderedAccessors = [][2]string{{"Left", "Right"}, {"FromIndex", "ToIndex"}, {"Left", "Index"}, {"Condition", "Consequence"}}

func operandsCompiledInSourceOrder(c *core.Ctx) {
	p := c.P
	cp := p.Pkg("compiler")
	compT := core.MustType(cp, "Compiler")
	dispatch := core.Method(compT, "compile")
	if dispatch == nil {
		core.Undecidedf("Compiler.compile not found")
	}
	disp := p.SSAFunc(dispatch)
	n := 0
	for _, fn := range repoFns(p, "compiler") {
		// compile(x.<Accessor>()) sites, by accessor name and receiver
		type site struct {
			in   ssa.Instruction
			recv ssa.Value
		}
		sites := map[string][]site{}
		for _, b := range fn.Blocks {
			for _, in := range b.Instrs {
				ci, ok := in.(ssa.CallInstruction)
				if !ok || ci.Common().StaticCallee() != disp || len(ci.Common().Args) < 2 {
					continue
				}
				for _, o := range core.Origins(ci.Common().Args[1]) {
					if mi, ok := o.(*ssa.MakeInterface); ok {
						o = mi.X
					}
					if ch, ok := o.(*ssa.ChangeInterface); ok {
						o = ch.X
					}
					call, ok := o.(*ssa.Call)
					if !ok {
						continue
					}
					name := ""
					var recv ssa.Value
					if call.Call.IsInvoke() {
						name, recv = call.Call.Method.Name(), call.Call.Value
					} else if cal := call.Call.StaticCallee(); cal != nil && cal.Signature.Recv() != nil && len(call.Call.Args) > 0 {
						name, recv = cal.Name(), call.Call.Args[0]
					}
					if name != "" {
						sites[name] = append(sites[name], site{in, recv})
					}
				}
			}
		}
		// an operand is compiled once on any path: compiling it again evaluates it again
		twice := map[string]bool{}
		var accNames []string
		for name := range sites {
			accNames = append(accNames, name)
		}
		sort.Strings(accNames)
		for _, name := range accNames {
			ss := sites[name]
			for i := range ss {
				for j := range ss {
					if i != j && (ss[i].recv == ss[j].recv || core.SameStorage(ss[i].recv, ss[j].recv)) && instrReaches(ss[i].in, ss[j].in) && !twice[name] {
						if compiledAgainOnlyWhenALeaf(p, fn, name, ss[j].recv, ss[j].in) {
							// the second evaluation happens only for a name or a literal
							c.Pass(core.SSAName(fn)+"|"+name+"-compiled-once", p.Pos(ss[j].in.Pos()), fn.Name()+" compiles "+name+"() a second time only on the path on which a predicate has shown it to be a leaf of the syntax tree (a name or a literal), whose evaluation has no effect")
							twice[name] = true
							// ... and what is evaluated between the two evaluations is a leaf as well: a
							// call there can rebind the name, and the second evaluation then finds another value
							for _, other := range accNames {
								if other == name {
									continue
								}
								for _, k := range sites[other] {
									if k.in == ss[i].in || k.in == ss[j].in || !instrReaches(ss[i].in, k.in) || !instrReaches(k.in, ss[j].in) {
										continue
									}
									okBetween := compiledAgainOnlyWhenALeaf(p, fn, other, k.recv, ss[j].in)
									n++
									c.Check(okBetween, core.SSAName(fn)+"|"+other+"-between-two-evaluations-of-"+name, p.Pos(k.in.Pos()),
										fn.Name()+" compiles "+other+"() between the two evaluations of "+name+"()"+ife(okBetween, ", and only when a predicate has shown it to be a name or a literal too", " whatever it is: an expression that runs there can change what the second evaluation of "+name+"() yields (l[i] += bump(), where bump() sets i, stores into another slot than it read)"))
								}
							}
							continue
						}
						twice[name] = true
						n++
						c.Check(false, core.SSAName(fn)+"|"+name+"-compiled-once", p.Pos(ss[j].in.Pos()),
							fn.Name()+" compiles "+name+"() twice on one path: the operand is evaluated twice (its side effects happen twice, and the two evaluations may differ)")
					}
				}
			}
		}
		for _, pair := range orderedAccessors {
			if twice[pair[0]] || twice[pair[1]] {
				continue
			}
			for _, a := range sites[pair[0]] {
				for _, b := range sites[pair[1]] {
					if a.recv != b.recv && !core.SameStorage(a.recv, b.recv) {
						continue
					}
					n++
					bad := a.in != b.in && instrReaches(b.in, a.in) && !instrReaches(a.in, b.in)
					c.Check(!bad, core.SSAName(fn)+"|"+pair[0]+"-before-"+pair[1], p.Pos(a.in.Pos()),
						fn.Name()+" compiles "+pair[0]+"() before "+pair[1]+"() (operands are evaluated in source order)")
				}
			}
		}
	}
	c.Stat("ordered_operand_pairs", n)
}

// instrReaches: there is a path on which a executes before b.
func instrReaches(a, b ssa.Instruction) bool {
	if a.Block() == b.Block() {
		for _, in := range a.Block().Instrs {
			if in == a {
				return true
			}
			if in == b {
				break
			}
		}
	}
	seen := map[*ssa.BasicBlock]bool{}
	var walk func(x *ssa.BasicBlock) bool
	walk = func(x *ssa.BasicBlock) bool {
		for _, s := range x.Succs {
			if s == b.Block() {
				return true
			}
			if !seen[s] {
				seen[s] = true
				if walk(s) {
					return true
				}
			}
		}
		return false
	}
	return walk(a.Block())
}

// ---------------------------------------------------------------------------
// httpServersFollowTheEvaluation: a server started by the http module belongs to
// the evaluation that started it.  (a) Its request contexts are rooted in the
// evaluation's context (http.Server.BaseContext): the script handler of a
// request is then cancelled with the evaluation and sees the OS its context
// carries; with the default (Background) a handler that loops runs on after
// Eval has returned.  (b) The function that starts the server waits for that
// context before it shuts the server down.
func httpServersFollowTheEvaluation(c *core.Ctx) {
	p := c.P
	if !p.HasPkg("modules/http") {
		core.Undecidedf("modules/http not loaded")
	}
	n := 0
	for _, fn := range repoFns(p, "modules/http") {
		if fn.Parent() != nil {
			continue
		}
		var servers []*ssa.Alloc
		for _, b := range fn.Blocks {
			for _, in := range b.Instrs {
				if a, ok := in.(*ssa.Alloc); ok {
					if pt, ok := a.Type().(*types.Pointer); ok {
						if nt, ok := pt.Elem().(*types.Named); ok && nt.Obj().Name() == "Server" && nt.Obj().Pkg() != nil && nt.Obj().Pkg().Path() == "net/http" {
							servers = append(servers, a)
						}
					}
				}
			}
		}
		if len(servers) == 0 {
			continue
		}
		var ctxP *ssa.Parameter
		for _, prm := range fn.Params {
			if isContext(prm.Type()) {
				ctxP = prm
			}
		}
		for _, srv := range servers {
			n++
			base := false
			if refs := srv.Referrers(); refs != nil {
				for _, r := range *refs {
					fa, ok := r.(*ssa.FieldAddr)
					if !ok || fa.Referrers() == nil {
						continue
					}
					st := fa.X.Type().Underlying().(*types.Pointer).Elem().Underlying().(*types.Struct)
					if st.Field(fa.Field).Name() != "BaseContext" {
						continue
					}
					for _, r2 := range *fa.Referrers() {
						if s, ok := r2.(*ssa.Store); ok {
							if mc, ok := s.Val.(*ssa.MakeClosure); ok && ctxP != nil {
								for _, bnd := range mc.Bindings {
									if core.DependsOn(bnd, func(w ssa.Value) bool { return w == ssa.Value(ctxP) }) || bnd == ssa.Value(ctxP) {
										base = true
									}
								}
								// the context parameter may live in a cell because it is re-assigned later
								for _, bnd := range mc.Bindings {
									if al, ok := bnd.(*ssa.Alloc); ok && al.Comment == ctxP.Name() {
										base = true
									}
								}
							}
						}
					}
				}
			}
			c.Check(base, core.SSAName(fn)+"|request-contexts-rooted-in-evaluation", p.Pos(srv.Pos()),
				fn.Name()+" sets BaseContext of the server to the evaluation's context"+ifs(!base, ": request contexts are then rooted in Background, so a handler is not cancelled with the evaluation (it keeps running after Eval returned) and does not see the OS the evaluation's context carries"))
			// (b) waits for the context before Shutdown
			waits := false
			for _, b := range fn.Blocks {
				for _, in := range b.Instrs {
					sel, ok := in.(*ssa.Select)
					if !ok {
						continue
					}
					for _, stt := range sel.States {
						if call, ok := stt.Chan.(*ssa.Call); ok && call.Call.IsInvoke() && call.Call.Method.Name() == "Done" {
							for _, b2 := range fn.Blocks {
								for _, i2 := range b2.Instrs {
									if ci, ok := i2.(ssa.CallInstruction); ok {
										if cal := ci.Common().StaticCallee(); cal != nil && cal.Name() == "Shutdown" && instrDominates(in, i2) {
											waits = true
										}
									}
								}
							}
						}
					}
				}
			}
			c.Check(waits, core.SSAName(fn)+"|serves-until-the-context-ends", p.Pos(srv.Pos()),
				fn.Name()+" waits for the evaluation's context (or a signal) before it shuts the server down"+ifs(!waits, ": the server is shut down as soon as it was started"))
		}
	}
	if n == 0 {
		core.Undecidedf("modules/http builds no http.Server")
	}
	c.Stat("http_servers", n)
}

// ---------------------------------------------------------------------------
// evaluationsCloseOnlyWhatTheyOpened: object.NewFile ties the life of a file to
// a context (it closes the file when the context ends).  That is right for a
// file the script opened; the standard streams belong to the host (they are
// the process's own, or whatever the host's OS object hands out) and are shared
// by every evaluation in the process: closing them when one evaluation is
// cancelled breaks print() for all the others.
func evaluationsCloseOnlyWhatTheyOpened(c *core.Ctx) {
	p := c.P
	n, opened := 0, 0
	for _, fn := range repoFns(p) {
		for _, b := range fn.Blocks {
			for _, in := range b.Instrs {
				call, ok := in.(*ssa.Call)
				if !ok {
					continue
				}
				cal := call.Call.StaticCallee()
				if cal == nil || cal.Pkg == nil || core.RelPkg(cal.Pkg.Pkg) != "object" || len(call.Call.Args) < 2 ||
					cal.Signature.Results().Len() != 1 || !core.IsNamed(cal.Signature.Results().At(0).Type(), pkgPath("object"), "File") {
					continue
				}
				watched := spawnsGoroutine(cal, 3)
				host := ""
				for _, o := range core.Origins(call.Call.Args[1]) {
					if ic, ok := o.(*ssa.Call); ok && ic.Call.IsInvoke() {
						switch ic.Call.Method.Name() {
						case "Stdin", "Stdout", "Stderr":
							host = ic.Call.Method.Name()
						}
					}
				}
				if host == "" {
					if watched {
						opened++
					}
					continue
				}
				n++
				owner := fn
				for owner.Parent() != nil {
					owner = owner.Parent()
				}
				c.Check(!watched, core.SSAName(owner)+"|host-stream-tied-to-context|"+host, p.Pos(call.Pos()),
					fn.Name()+" wraps the host's "+host+"() through "+cal.Name()+", which starts a watcher that closes the file when the evaluation's context ends: after one cancelled evaluation the stream is closed for the host and for every other evaluation")
			}
		}
	}
	c.Check(opened > 0, "control|files-opened-by-scripts", "", sprintf("%d file objects made for files a script opened (positive control), %d for host streams", opened, n))
	c.Stat("host_streams_wrapped", n)
}

// spawnsGoroutine reports whether f, or a function it calls statically within
// depth levels, contains a go statement.
func spawnsGoroutine(f *ssa.Function, depth int) bool {
	if f == nil || f.Blocks == nil {
		return false
	}
	for _, b := range f.Blocks {
		for _, in := range b.Instrs {
			switch in := in.(type) {
			case *ssa.Go:
				return true
			case *ssa.Call:
				if depth > 0 {
					if cal := in.Call.StaticCallee(); cal != nil && spawnsGoroutine(cal, depth-1) {
						return true
					}
				}
			}
		}
	}
	return false
}

// ---------------------------------------------------------------------------
// constructorErrorsAreRaised: a constructor of package object that returns
// object.Object reports failure by returning an *object.Error.  Where the
// dispatch loop pushes the result of such a constructor, it tests for that
// error first and raises it: pushed as it is, the error becomes the value of
// the expression (x := {[1, 2]} gives a variable of type "error").
func constructorErrorsAreRaised(c *core.Ctx) {
	p := c.P
	t := VMTable(p)
	eval := p.SSAFunc(t.Eval)
	push := p.SSAFunc(t.Prims["push"])
	if eval == nil || push == nil {
		core.Undecidedf("dispatch function / push not resolved")
	}
	errT := core.MustType(p.Pkg("object"), "Error")
	mayReturnError := func(f *ssa.Function) bool {
		if f == nil || f.Blocks == nil || f.Signature.Results().Len() != 1 || !core.IsNamed(f.Signature.Results().At(0).Type(), pkgPath("object"), "Object") {
			return false
		}
		if _, isIface := f.Signature.Results().At(0).Type().Underlying().(*types.Interface); !isIface {
			return false
		}
		for _, b := range f.Blocks {
			for _, in := range b.Instrs {
				if ret, ok := in.(*ssa.Return); ok && len(ret.Results) == 1 {
					for _, o := range core.Origins(spilledResult(b, ret.Results[0])) {
						if mi, ok := o.(*ssa.MakeInterface); ok && core.NamedOf(mi.X.Type()) == errT {
							return true
						}
						// the result of a method that itself returns Object and is tested with IsError here
						if call, ok := o.(*ssa.Call); ok {
							if refs := call.Referrers(); refs != nil {
								for _, r := range *refs {
									if ci, ok := r.(ssa.CallInstruction); ok {
										if cal := ci.Common().StaticCallee(); cal != nil && cal.Name() == "IsError" {
											return true
										}
									}
								}
							}
						}
					}
				}
			}
		}
		return false
	}
	n := 0
	for _, b := range eval.Blocks {
		for _, in := range b.Instrs {
			call, ok := in.(*ssa.Call)
			if !ok || call.Call.StaticCallee() != push || len(call.Call.Args) < 2 {
				continue
			}
			src, ok := call.Call.Args[1].(*ssa.Call)
			if !ok {
				continue
			}
			cal := src.Call.StaticCallee()
			if cal == nil || cal.Pkg == nil || core.RelPkg(cal.Pkg.Pkg) != "object" || !strings.HasPrefix(cal.Name(), "New") || !mayReturnError(cal) {
				continue
			}
			n++
			tested := false
			if refs := src.Referrers(); refs != nil {
				for _, r := range *refs {
					if ta, ok := r.(*ssa.TypeAssert); ok && core.NamedOf(ta.AssertedType) == errT && instrDominates(ta, in) {
						tested = true
					}
				}
			}
			c.Check(tested, "vm.eval|pushes-"+cal.Name()+"-after-error-test", p.Pos(call.Pos()),
				"the dispatch loop tests the result of object."+cal.Name()+" for an error before it pushes it"+ifs(!tested, ": the error object becomes the value of the expression instead of being raised"))
		}
	}
	c.Stat("constructor_pushes", n)
	if n == 0 {
		c.Pass("vm.eval|no-fallible-constructor-pushes", "", "the dispatch loop pushes no result of a fallible object constructor directly")
	}
}

// ---------------------------------------------------------------------------
// sliceBoundsShareTheLimit: a slice [start:stop] of a container of n elements is
// valid for 0 <= start <= stop <= n.  The function that resolves the bounds
// tests both against the same upper limit: testing start against n-1 rejects
// the empty slice at the end (x[n:], and every slice of an empty container).
func sliceBoundsShareTheLimit(c *core.Ctx) {
	p := c.P
	n := 0
	for _, fn := range repoFns(p, "object") {
		if !strings.Contains(fn.Name(), "Slice") || fn.Signature.Recv() != nil || len(fn.Params) < 2 {
			continue
		}
		var size *ssa.Parameter
		for _, prm := range fn.Params {
			if bt, ok := prm.Type().Underlying().(*types.Basic); ok && bt.Info()&types.IsInteger != 0 {
				size = prm
			}
		}
		if size == nil {
			continue
		}
		ks := map[int64]string{}
		for _, b := range fn.Blocks {
			for _, in := range b.Instrs {
				bo, ok := in.(*ssa.BinOp)
				if !ok || (bo.Op != token.GTR && bo.Op != token.GEQ) {
					continue
				}
				k, isSize := int64(0), false
				switch y := bo.Y.(type) {
				case *ssa.Parameter:
					isSize = y == size
				case *ssa.BinOp:
					if y.X == ssa.Value(size) {
						if kc, ok := y.Y.(*ssa.Const); ok && kc.Value != nil {
							isSize = true
							k = kc.Int64()
							if y.Op == token.SUB {
								k = -k
							}
						}
					}
				}
				if !isSize {
					continue
				}
				if bo.Op == token.GEQ {
					k-- // x >= n+k  is  x > n+k-1
				}
				ks[k] = p.Pos(bo.Pos())
			}
		}
		if len(ks) == 0 {
			continue
		}
		n++
		bad := ""
		if len(ks) > 1 {
			for k, pos := range ks {
				if k != 0 {
					bad = sprintf("a bound is tested against size%+d at %s", k, pos)
				}
			}
		}
		c.Check(bad == "", core.SSAName(fn)+"|slice-bounds-share-the-limit", p.Pos(fn.Pos()),
			fn.Name()+" tests the start and the stop of a slice against the same upper limit (the size)"+ifs(bad != "", ": "+bad+", which rejects the empty slice at the end of the container"))
	}
	if n == 0 {
		core.Undecidedf("no slice-resolving function compares a bound with the size")
	}
	c.Stat("slice_resolvers", n)
}

// ---------------------------------------------------------------------------
// conversionsCopyByteStorage: byte_slice(x) and buffer(x) make a new value.  The
// bytes they are built from are a copy when they come out of another script
// value (ByteSlice.Value(), the Bytes() of a buffer): sharing the backing array
// lets an assignment to one value change the other.
func conversionsCopyByteStorage(c *core.Ctx) {
	p := c.P
	n := 0
	for _, fn := range repoFns(p, "builtins") {
		for _, b := range fn.Blocks {
			for _, in := range b.Instrs {
				call, ok := in.(*ssa.Call)
				if !ok {
					continue
				}
				cal := call.Call.StaticCallee()
				if cal == nil || cal.Pkg == nil || core.RelPkg(cal.Pkg.Pkg) != "object" || (cal.Name() != "NewByteSlice" && cal.Name() != "NewBufferFromBytes") || len(call.Call.Args) != 1 {
					continue
				}
				n++
				alias := ""
				for _, o := range core.Origins(call.Call.Args[0]) {
					src, ok := o.(*ssa.Call)
					if !ok {
						continue
					}
					sc := src.Call.StaticCallee()
					if sc == nil {
						continue
					}
					switch {
					case sc.Name() == "Value" && sc.Signature.Recv() != nil && core.IsNamed(sc.Signature.Recv().Type(), pkgPath("object"), "ByteSlice"):
						alias = "the storage of a byte_slice (Value())"
					case sc.Name() == "Bytes" && sc.Pkg != nil && sc.Pkg.Pkg.Path() == "bytes" && len(src.Call.Args) > 0 &&
						core.DependsOn(src.Call.Args[0], func(w ssa.Value) bool {
							vc, ok := w.(*ssa.Call)
							if !ok {
								return false
							}
							f := vc.Call.StaticCallee()
							return f != nil && f.Name() == "Value" && f.Signature.Recv() != nil && core.IsNamed(f.Signature.Recv().Type(), pkgPath("object"), "Buffer")
						}):
						alias = "the storage of a buffer (Bytes())"
					}
				}
				c.Check(alias == "", core.SSAName(fn)+"|"+cal.Name()+"|copies-byte-storage"+ifs(n > 0, ""), p.Pos(call.Pos()),
					fn.Name()+" builds the new value from bytes of its own"+ifs(alias != "", ": it is given "+alias+", so the new value and its source share one backing array"))
			}
		}
	}
	c.Stat("byte_value_constructions", n)
}

// ---------------------------------------------------------------------------
// cursorStopsJustPastTheInput: the lexer's stepping function leaves the cursor
// where it is once it stands just past the input (position == len): every EOF
// token then has that one position.  Letting it advance once more gives the
// second EOF token (the one the parser is looking at when it reports an
// unexpected end of file) a column that does not exist in the source.
func cursorStopsJustPastTheInput(c *core.Ctx) {
	p := c.P
	lp := p.Pkg("lexer")
	lexT := core.MustType(lp, "Lexer")
	posI, chI := fieldIdxByName(lexT, "position"), fieldIdxByName(lexT, "characters")
	if posI < 0 || chI < 0 {
		core.Undecidedf("Lexer.position / characters not found")
	}
	var step *ssa.Function
	for _, fn := range repoFns(p, "lexer") {
		for _, b := range fn.Blocks {
			for _, in := range b.Instrs {
				if s, ok := in.(*ssa.Store); ok {
					if fa, ok := s.Addr.(*ssa.FieldAddr); ok && fa.Field == posI && core.NamedOf(fa.X.Type()) == lexT {
						if _, fresh := fa.X.(*ssa.Alloc); !fresh && (step == nil || core.SSAName(fn) < core.SSAName(step)) {
							step = fn
						}
					}
				}
			}
		}
	}
	if step == nil {
		core.Undecidedf("no lexer function advances the position")
	}
	// the guard in the entry block: position OP len(characters)
	okGuard := ""
	for _, in := range step.Blocks[0].Instrs {
		iff, ok := in.(*ssa.If)
		if !ok {
			continue
		}
		bo, ok := iff.Cond.(*ssa.BinOp)
		if !ok {
			continue
		}
		_, isPos := loadOfField(bo.X, lexT, posI)
		isLen := false
		if call, ok := bo.Y.(*ssa.Call); ok {
			if bi, ok := call.Call.Value.(*ssa.Builtin); ok && bi.Name() == "len" {
				if _, ok := loadOfField(call.Call.Args[0], lexT, chI); ok {
					isLen = true
				}
			}
		}
		if isPos && isLen {
			okGuard = bo.Op.String()
		}
	}
	c.Check(okGuard == ">=" || okGuard == "==", core.SSAName(step)+"|cursor-stops-at-len", p.Pos(step.Pos()),
		step.Name()+" returns without advancing once position == len(characters)"+ifs(okGuard != ">=" && okGuard != "==", sprintf(": its guard is \"position %s len(characters)\", so the cursor advances once more past the end and later EOF tokens get a column that is not in the source", okGuard)))
}

// ---------------------------------------------------------------------------
// fragmentsAreRebased: the expressions inside a template string are parsed by a
// second run of the parser over the text of the fragment.  The tokens of that
// run count lines and columns from the start of the fragment; unless the run
// is told where the fragment sits in the source (an option carrying a start
// position, or an offset applied to the nodes afterwards), every compile error
// inside an interpolation reports a position relative to the fragment - a line
// and column that need not exist in the source.
func fragmentsAreRebased(c *core.Ctx) {
	p := c.P
	pp := p.Pkg("parser")
	parse := core.LookupFunc(pp, "Parse")
	if parse == nil {
		core.Undecidedf("parser.Parse not found")
	}
	pf := p.SSAFunc(parse)
	n := 0
	for _, fn := range repoFns(p, "parser") {
		if fn == pf {
			continue
		}
		for _, b := range fn.Blocks {
			for _, in := range b.Instrs {
				call, ok := in.(*ssa.Call)
				if !ok || call.Call.StaticCallee() != pf {
					continue
				}
				n++
				// options given to the nested parse
				rebased := false
				if len(call.Call.Args) >= 3 {
					if k, ok := call.Call.Args[2].(*ssa.Const); !ok || !k.IsNil() {
						rebased = true // some option is passed: judged by name below
					}
				}
				// or: whoever reports errors for the fragment's syntax tree substitutes
				// the position of the enclosing token while it works on it
				how := ""
				if !rebased {
					if by := positionOverriddenWhileCompilingFragments(p); by != "" {
						rebased, how = true, by
					}
				}
				c.Check(rebased, core.SSAName(fn)+"|nested-parse-rebased", p.Pos(call.Pos()),
					fn.Name()+" parses a fragment of the source with a parser run that knows where the fragment starts"+ifs(how != "", " - it does not, but "+how)+ifs(!rebased, ": the nested run is given no position, so errors inside the fragment carry line 1, column n of the fragment instead of the place in the source"))
			}
		}
	}
	if n == 0 {
		c.Pass("parser|no-nested-parse", "", "the parser does not parse fragments with a nested run")
	}
	c.Stat("nested_parses", n)
}

// compiledAgainOnlyWhenALeaf: fn applies a leaf predicate to recv.name(), and
// the branch taken when the predicate is false cannot reach instruction at.
// A leaf predicate is a function of one syntax-tree node that only tests its
// dynamic type against node types without children.
func compiledAgainOnlyWhenALeaf(p *core.Program, fn *ssa.Function, name string, recv ssa.Value, at ssa.Instruction) bool {
	for _, b := range fn.Blocks {
		for _, in := range b.Instrs {
			call, ok := in.(*ssa.Call)
			if !ok {
				continue
			}
			pred := call.Call.StaticCallee()
			if pred == nil || !core.RepoFunc(pred) || len(call.Call.Args) != 1 || !isLeafPredicate(p, pred) {
				continue
			}
			// the argument is recv.name()
			same := false
			for _, o := range core.Origins(call.Call.Args[0]) {
				if mi, ok := o.(*ssa.MakeInterface); ok {
					o = mi.X
				}
				if ch, ok := o.(*ssa.ChangeInterface); ok {
					o = ch.X
				}
				ac, ok := o.(*ssa.Call)
				if !ok {
					continue
				}
				an := ""
				var ar ssa.Value
				if ac.Call.IsInvoke() {
					an, ar = ac.Call.Method.Name(), ac.Call.Value
				} else if cal := ac.Call.StaticCallee(); cal != nil && cal.Signature.Recv() != nil && len(ac.Call.Args) > 0 {
					an, ar = cal.Name(), ac.Call.Args[0]
				}
				if an == name && (ar == recv || core.SameStorage(ar, recv)) {
					same = true
				}
			}
			if !same || call.Referrers() == nil {
				continue
			}
			for _, r := range *call.Referrers() {
				var iff *ssa.If
				falseSucc := 1
				switch x := r.(type) {
				case *ssa.If:
					iff = x
				case *ssa.UnOp:
					if x.Op == token.NOT && x.Referrers() != nil {
						for _, r2 := range *x.Referrers() {
							if i2, ok := r2.(*ssa.If); ok {
								iff, falseSucc = i2, 0
							}
						}
					}
				}
				if iff == nil {
					continue
				}
				fb := iff.Block().Succs[falseSucc]
				if len(fb.Instrs) > 0 && fb != at.Block() && !instrReaches(fb.Instrs[0], at) {
					return true
				}
			}
		}
	}
	return false
}

func isLeafPredicate(p *core.Program, f *ssa.Function) bool {
	if f.Blocks == nil || len(f.Params) != 1 || f.Signature.Results().Len() != 1 {
		return false
	}
	if b, ok := f.Signature.Results().At(0).Type().Underlying().(*types.Basic); !ok || b.Kind() != types.Bool {
		return false
	}
	asserts := 0
	for _, b := range f.Blocks {
		for _, in := range b.Instrs {
			switch x := in.(type) {
			case *ssa.TypeAssert:
				pt, ok := x.AssertedType.(*types.Pointer)
				if !ok {
					return false
				}
				nt := core.NamedOf(pt)
				if nt == nil || nt.Obj().Pkg() == nil || core.RelPkg(nt.Obj().Pkg()) != "ast" {
					return false
				}
				st, ok := nt.Underlying().(*types.Struct)
				if !ok {
					return false
				}
				for i := 0; i < st.NumFields(); i++ {
					if holdsSyntax(st.Field(i).Type(), 0) {
						return false
					}
				}
				asserts++
			case *ssa.Extract, *ssa.If, *ssa.Jump, *ssa.Return, *ssa.Phi, *ssa.DebugRef:
			default:
				return false
			}
		}
	}
	return asserts > 0
}

// holdsSyntax: t is (or contains) an interface type of package ast.
func holdsSyntax(t types.Type, d int) bool {
	if d > 4 {
		return false
	}
	if nt := core.NamedOf(t); nt != nil && nt.Obj().Pkg() != nil && core.RelPkg(nt.Obj().Pkg()) == "ast" {
		if _, ok := nt.Underlying().(*types.Interface); ok {
			return true
		}
		if _, ok := t.(*types.Pointer); ok {
			return true // a pointer to another node
		}
	}
	switch u := t.Underlying().(type) {
	case *types.Slice:
		return holdsSyntax(u.Elem(), d+1)
	case *types.Map:
		return holdsSyntax(u.Key(), d+1) || holdsSyntax(u.Elem(), d+1)
	case *types.Pointer:
		return holdsSyntax(u.Elem(), d+1)
	}
	return false
}

// positionOverriddenWhileCompilingFragments: the compiler's error formatter
// reads a position field of the Compiler in preference to the position it is
// given, and the function that compiles the expressions of a template string
// sets that field (from the string's own token) before it compiles them and
// puts the previous value back afterwards.
func positionOverriddenWhileCompilingFragments(p *core.Program) string {
	cp := p.Pkg("compiler")
	compT := core.MustType(cp, "Compiler")
	st := compT.Underlying().(*types.Struct)
	for fi := 0; fi < st.NumFields(); fi++ {
		pt, ok := st.Field(fi).Type().(*types.Pointer)
		if !ok || !core.IsNamed(pt.Elem(), pkgPath("token"), "Position") {
			continue
		}
		var reader, setter string
		for _, fn := range repoFns(p, "compiler") {
			reads, formats := false, false
			sets, restores, compilesExprs := 0, false, false
			for _, b := range fn.Blocks {
				for _, in := range b.Instrs {
					switch x := in.(type) {
					case *ssa.UnOp:
						if fa, ok := x.X.(*ssa.FieldAddr); ok && fa.Field == fi && core.NamedOf(fa.X.Type()) == compT {
							reads = true
						}
					case *ssa.Store:
						if fa, ok := x.Addr.(*ssa.FieldAddr); ok && fa.Field == fi && core.NamedOf(fa.X.Type()) == compT {
							sets++
							if _, isLoad := x.Val.(*ssa.UnOp); isLoad {
								restores = true
							}
							if _, isPhi := x.Val.(*ssa.Phi); isPhi {
								restores = true
							}
						}
					case *ssa.Call:
						if cal := x.Call.StaticCallee(); cal != nil {
							if cal.Name() == "TemplateExpressions" {
								compilesExprs = true
							}
							if cal.Pkg != nil && cal.Pkg.Pkg.Path() == "fmt" {
								formats = true
							}
						}
					}
				}
			}
			if reads && formats && sets == 0 {
				reader = fn.Name()
			}
			if compilesExprs && sets >= 2 && restores {
				setter = fn.Name()
			}
		}
		if reader != "" && setter != "" {
			return setter + " sets Compiler." + st.Field(fi).Name() + " to the position of the enclosing string while it compiles the fragment's expressions, and " + reader + " reports that position"
		}
	}
	return ""
}
